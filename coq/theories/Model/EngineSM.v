(* Model of smgen.py's use of the template engine:
     CTransitionTableModel                                       tt_model (states/events/actions/guards in first-appearance
                                                                 order, actionsignatures, transitionsperstate, getfirststate)
     CStateMachineGenerator.innerexpand_secondfiltering          inner_second      (name / case / counter tags)
     ...innerexpand_secondfiltering_PROTO                        inner_proto       (name / case / counter tags)
     ...innerexpand_actionsignatures                             inner_actionsigs
     ...innerexpand_transitionsperstate / _transitionsperguard   inner_tps / inner_tpg
     ...filterInitialState / filterStateName / filterEventName
     ...expand_secondfiltering                                   second_filter: interprets the stage list of Gen/Pipeline.v
     ...Generate                                                 generate_file: interprets the phase list of Gen/Pipeline.v
   Not modelled (a template that reaches them makes the model answer None = outside the modelled domain):
     the transition-table printers behind the <<<TTT_*>>> single tags other than the two boost::sml ones, and the signature / member / documentation /
     attribute / payload / PyAttr / MSGID tags inside per-element blocks; EXTENDS / EXCLUDE and multi-line
     replacement values in the first filtering.  No proofs in this file. *)
From Coq Require Import String Ascii List Bool Arith ZArith.
From KV Require Import Lib.Str Lib.StrOps Lib.ODict Gen.Tags Gen.Pipeline Model.Engine.
Import ListNotations.
Open Scope string_scope.
Open Scope list_scope.

(* ---------------------------------------------------------------- CTransitionTableModel *)
Definition row := list string.    (* [state; event; next; action; guard] *)
Definition col (i : nat) (r : row) : string := nth i r EmptyString.
Definition r_state := col 0.  Definition r_event := col 1.  Definition r_next := col 2.
Definition r_action := col 3. Definition r_guard := col 4.

(* x != "" and x.lower() != "none" *)
Definition present (x : string) : bool := negb (String.eqb x "") && negb (String.eqb (lower x) "none").

Definition add_new (x : string) (l : list string) : list string :=
  if existsb (String.eqb x) l then l else l ++ [x].

Definition transition := list (string * string).        (* ordered dict: tag -> text *)
Definition tps_t := list (string * list (string * list transition)).

Record smodel := {
  sm_states : list string; sm_events : list string; sm_actions : list string; sm_guards : list string;
  sm_actionsigs : list (string * (string * string));
  sm_tps : tps_t;
  sm_first : string;
  sm_rows : list (list string);     (* smmodel.transition_table as given *)
  if_structs : list string; if_protos : list string; if_msgs : list string;    (* of the events interface *)
  if_msgids : list (string * string);     (* message name -> str(MessageTypeID) *)
  if_sigs : list (string * (string * string))   (* INTERFACE ORACLE: event name -> (get_event_signature(name, False), get_event_signature(name, True)), the Language* strings *)
}.

Definition transition_of (r : row) : transition :=
  (if present (r_action r) then
     [(stag "__TAG_ACTIONNAME__", r_action r);
      (stag "__TAG_ACTIONNAME_SMALL_CAMEL__", camel_case_small (r_action r));
      (stag "__TAG_ACTIONNAME_SNAKE__", snake_case (r_action r))] else [])
  ++ (if present (r_guard r) then
     [(stag "__TAG_GUARDNAME__", r_guard r);
      (stag "__TAG_GUARDNAME_SNAKE__", snake_case (r_guard r));
      (stag "__TAG_GUARDNAME_SMALL_CAMEL__", camel_case_small (r_guard r))] else [])
  ++ (if present (r_next r) then
     [(stag "__TAG_STATENAME_IF_NEXTSTATE__", r_state r);
      (stag "__TAG_STATENAME_IF_NEXTSTATE_SMALL_CAMEL__", camel_case_small (r_state r));
      (stag "__TAG_STATENAME_IF_NEXTSTATE_SNAKE__", snake_case (r_state r));
      (stag "__TAG_NEXTSTATENAME__", r_next r);
      (stag "__TAG_NEXTSTATENAME_SMALL_CAMEL__", camel_case_small (r_next r));
      (stag "__TAG_NEXTSTATENAME_SNAKE__", snake_case (r_next r))] else []).

(* set_transitions_per_state, one row; None = KeyError (event given for a row without start state) *)
Definition tps_step (acc : option tps_t) (r : row) : option tps_t :=
  match acc with
  | None => None
  | Some t =>
      let t1 := if present (r_state r) && negb (mem String.eqb (r_state r) t) then t ++ [(r_state r, [])] else t in
      if present (r_event r) then
        match lookup String.eqb (r_state r) t1 with
        | None => None
        | Some evs =>
            let old := match lookup String.eqb (r_event r) evs with Some l => l | None => [] end in
            Some (upsert String.eqb (r_state r) (upsert String.eqb (r_event r) (old ++ [transition_of r]) evs) t1)
        end
      else Some t1
  end.

(* a row as its five columns (col: a missing column reads as '') *)
Definition norm_row (r : row) : row := [r_state r; r_event r; r_next r; r_action r; r_guard r].

Definition tt_states (tt : list row) : list string :=
  fold_left (fun acc r => let a1 := if present (r_state r) then add_new (r_state r) acc else acc in
                          if present (r_next r) then add_new (r_next r) a1 else a1) tt [].
Definition tt_collect (f : row -> string) (tt : list row) : list string :=
  fold_left (fun acc r => if present (f r) then add_new (f r) acc else acc) tt [].
(* keyed by the PAIR (action, event) since the fix: commit (the key component of the model keeps the pair's rendering
   "action|event" only for display; membership is decided on the pair) *)
Definition sig_mem (a e : string) (acc : list (string * (string * string))) : bool :=
  existsb (fun kv => String.eqb (fst (snd kv)) a && String.eqb (snd (snd kv)) e) acc.
Definition tt_actionsigs (tt : list row) : list (string * (string * string)) :=
  fold_left (fun acc r =>
     if present (r_action r) then
       if sig_mem (r_action r) (r_event r) acc then acc else acc ++ [((r_action r ++ "|" ++ r_event r)%string, (r_action r, r_event r))]
     else acc) tt [].

(* the loop that closes set_transitions_per_state: a state that is only ever a target gets an empty entry *)
Definition tps_close (states : list string) (t : tps_t) : tps_t :=
  fold_left (fun acc s => if mem String.eqb s acc then acc else acc ++ [(s, [])]) states t.

(* CTransitionTableModel(tt) followed by Generate's "events_from_structs" phase *)
Definition tt_model (tt : list row) (structs protos msgs : list string) : option smodel :=
  match fold_left tps_step tt (Some []) with
  | None => None
  | Some tps =>
      Some {| sm_states := tt_states tt;
              sm_events := fold_left (fun acc s => add_new s acc) structs (tt_collect r_event tt);
              sm_actions := tt_collect r_action tt; sm_guards := tt_collect r_guard tt;
              sm_actionsigs := tt_actionsigs tt; sm_tps := tps_close (tt_states tt) tps;
              sm_first := match tt with [] => "NO TT PRESENT!" | r :: _ => r_state r end; sm_rows := map norm_row tt;
              if_structs := structs; if_protos := protos; if_msgs := msgs; if_msgids := []; if_sigs := [] |}
  end.

(* the same model with the message ids of the events interface *)
Definition with_msgids (ids : list (string * string)) (m : smodel) : smodel :=
  {| sm_states := sm_states m; sm_events := sm_events m; sm_actions := sm_actions m; sm_guards := sm_guards m;
     sm_actionsigs := sm_actionsigs m; sm_tps := sm_tps m; sm_first := sm_first m; sm_rows := sm_rows m;
     if_structs := if_structs m; if_protos := if_protos m; if_msgs := if_msgs m; if_msgids := ids; if_sigs := if_sigs m |}.

(* the same model with the signature strings of the events interface (the oracle) *)
Definition with_sigs (sigs : list (string * (string * string))) (m : smodel) : smodel :=
  {| sm_states := sm_states m; sm_events := sm_events m; sm_actions := sm_actions m; sm_guards := sm_guards m;
     sm_actionsigs := sm_actionsigs m; sm_tps := sm_tps m; sm_first := sm_first m; sm_rows := sm_rows m;
     if_structs := if_structs m; if_protos := if_protos m; if_msgs := if_msgs m; if_msgids := if_msgids m; if_sigs := sigs |}.

(* ---------------------------------------------------------------- inner expansion functions *)
Definition rep (tagname v : string) (l : string) : string := replace_all (stag tagname) v l.

(* the tags of innerexpand_secondfiltering(_PROTO) that are not modelled *)
Definition unmodelled_tags : list string :=
  map stag ["__TAG_SIGNATURE__"; "__TAG_MEMBERINST__"; "__TAG_LITE_MEMBERINST__"; "__TAG_MEMBERDECL__"; "__TAG_DOCUMENTATION__";
            "__TAG_AGGREGATE_INIT__"; "__TAG_ATTRIBUTE_TYPE__"; "__TAG_ATTRIBUTE_NAME__"; "__TAG_PYTHON_ATTR__";
            "__TAG_PAYLOAD_TYPE__"; "__TAG_PAYLOAD_NAME__"; "__TAG_MSGID__"].
Definition unmodelled (l : string) : bool :=
  existsb (fun t => hasSpecificTag l t || contains t l) unmodelled_tags.

Definition second_names (name : string) (alpha cnt : nat) (line : string) : string :=
  rep "__TAG_123__" (dec cnt)
 (rep "__TAG_ABC__" (alphabet_to_string alpha)
 (rep "__TAG_GUARDNAME_SNAKE__" (snake_case name)
 (rep "__TAG_GUARDNAME_SMALL_CAMEL__" (camel_case_small name)
 (rep "__TAG_GUARDNAME__" name
 (rep "__TAG_ACTIONNAME_SNAKE__" (snake_case name)
 (rep "__TAG_ACTIONNAME_SMALL_CAMEL__" (camel_case_small name)
 (rep "__TAG_ACTIONNAME__" name
 (rep "__TAG_EVENTNAME_SNAKE__" (snake_case name)
 (rep "__TAG_EVENTNAME_SMALL_CAMEL__" (camel_case_small name)
 (rep "__TAG_EVENTNAME__" name
 (rep "__TAG_STATENAME_SNAKE__" (snake_case name)
 (rep "__TAG_EVENTNAME_SMALL_CAMEL__" (camel_case_small name)
 (rep "__TAG_STATENAME__" name
 (rep "__TAG_STATENAME_SMALL_CAMEL__" (camel_case_small name) line)))))))))))))).

Definition proto_names (name : string) (alpha cnt : nat) (line : string) : string :=
  rep "__TAG_123__" (dec cnt)
 (rep "__TAG_ABC__" (alphabet_to_string alpha)
 (rep "__TAG_PROTOMSGNAME_SMALL_CAMEL__" (camel_case_small name)
 (rep "__TAG_PROTOMSGNAME__" name
 (rep "__TAG_MSGNAME__" name
 (rep "__TAG_MSGNAME_SMALL_CAMEL__" (camel_case_small name)
 (rep "__TAG_STRUCTNAME__" name
 (rep "__TAG_STRUCTNAME_SMALL_CAMEL__" (camel_case_small name) line))))))).

(* the loop `for line in snippet_to_expand` for one element; None = a tag that is not modelled *)
Fixpoint second_lines (names : string -> nat -> nat -> string -> string) (name : string) (alpha cnt : nat)
                      (snippet : list string) : option (list string) :=
  match snippet with
  | [] => Some []
  | line :: r =>
      match second_lines names name alpha cnt r with
      | None => None
      | Some rest =>
          if negb (hasTag line) then Some (if isspace line then rest else line :: rest)
          else let nl := names name alpha cnt line in
               if unmodelled nl then None
               else Some (if isspace nl then rest else nl :: rest)
      end
  end.

Fixpoint second_items (names : string -> nat -> nat -> string -> string) (alpha cnt : nat)
                      (items : list string) (snippet : list string) : option (list string) :=
  match items with
  | [] => Some []
  | name :: r =>
      match second_lines names name alpha cnt snippet, second_items names (get_next_alphabet alpha) (S cnt) r snippet with
      | Some a, Some b => Some (a ++ b)
      | _, _ => None
      end
  end.

(* PER_MSG blocks: <<<MSGID>>> becomes str(events_interface[name].MessageTypeID) (guarded by hasSpecificTag, which holds whenever the
   tag is there; a message without id raises -- the model then leaves the tag to the unmodelled-tag test) *)
Definition idof (ids : list (string * string)) (name : string) : string :=
  match lookup String.eqb name ids with Some i => i | None => EmptyString end.
Definition msgid_names (ids : list (string * string)) (name : string) (alpha cnt : nat) (line : string) : string :=
  rep "__TAG_MSGID__" (idof ids name) (proto_names name alpha cnt line).

(* ---- <<<SIGNATURE>>> / <<<SIGNATUREWITHDEFAULTS>>> in a per-event block (innerexpand_secondfiltering, after the name tags):
   the tag becomes get_event_signature(name, with_defaults) -- "" when the interface has no struct of that name --, then every
   parenthesised group  ( ... )  of the line (from a '(' to the next ')') is cleaned of the spurious ", " an empty signature leaves.
   The variant with user parameters in the tag (<<<SIGNATURE=...>>>) is not modelled. *)
Definition sigof (sigs : list (string * (string * string))) (name : string) (with_defaults : bool) : string :=
  match lookup String.eqb name sigs with Some p => if with_defaults then snd p else fst p | None => EmptyString end.

Fixpoint span_rparen (s : string) : option (string * string) :=
  match s with
  | EmptyString => None
  | String c r => if Ascii.eqb c ")"%char then Some (EmptyString, r)
                  else match span_rparen r with Some (a, b) => Some (String c a, b) | None => None end
  end.
Definition clean_group (g : string) : string :=
  replace_all "(," "(" (replace_all "( ," "(" (replace_all "( , " "(" (replace_all ",)" ")" (replace_all ", )" ")" (replace_all " , )" ")" g))))).
(* re.sub("\\([^)]*\\)", clean_group, s) *)
Fixpoint paren_go (fuel : nat) (s : string) : string :=
  match fuel with
  | O => s
  | S f =>
      match s with
      | EmptyString => EmptyString
      | String c r =>
          if Ascii.eqb c "("%char then
            match span_rparen r with
            | Some (inner, rest) => (clean_group ("(" ++ inner ++ ")") ++ paren_go f rest)%string
            | None => s
            end
          else String c (paren_go f r)
      end
  end.
Definition paren_clean (s : string) : string := paren_go (String.length s) s.

Definition sig_step (sigs : list (string * (string * string))) (name : string) (line : string) : option string :=
  if hasSpecificTag line (stag "__TAG_SIGNATURE__") then
    if hasDefault line then None
    else let d := contains (stag "__TAG_SIGNATURE_DEF__") line in
         Some (paren_clean (replace_all (if d then stag "__TAG_SIGNATURE_DEF__" else stag "__TAG_SIGNATURE__") (sigof sigs name d) line))
  else Some line.

(* the loop over the lines for one event, with the signature step before the unmodelled-tag test *)
Fixpoint ev_lines (sigs : list (string * (string * string))) (name : string) (alpha cnt : nat) (snippet : list string) : option (list string) :=
  match snippet with
  | [] => Some []
  | line :: r =>
      match ev_lines sigs name alpha cnt r with
      | None => None
      | Some rest =>
          if negb (hasTag line) then Some (if isspace line then rest else line :: rest)
          else match sig_step sigs name (second_names name alpha cnt line) with
               | None => None
               | Some nl => if unmodelled nl then None else Some (if isspace nl then rest else nl :: rest)
               end
      end
  end.
Fixpoint ev_items (sigs : list (string * (string * string))) (alpha cnt : nat) (items : list string) (snippet : list string) : option (list string) :=
  match items with
  | [] => Some []
  | name :: r =>
      match ev_lines sigs name alpha cnt snippet, ev_items sigs (get_next_alphabet alpha) (S cnt) r snippet with
      | Some a, Some b => Some (a ++ b)
      | _, _ => None
      end
  end.
Definition inner_events (sigs : list (string * (string * string))) (items : list string) (snippet : list string) (param : option string) : option (list string) :=
  match param with Some _ => None | None => ev_items sigs reset_alphabet 0 items snippet end.

Definition inner_second (items : list string) (snippet : list string) (param : option string) : option (list string) :=
  match param with Some _ => None | None => second_items second_names reset_alphabet 0 items snippet end.
Definition inner_proto (items : list string) (snippet : list string) (param : option string) : option (list string) :=
  match param with Some _ => None | None => second_items proto_names reset_alphabet 0 items snippet end.

Definition inner_msgs (ids : list (string * string)) (items : list string) (snippet : list string) (param : option string) : option (list string) :=
  match param with
  | Some _ => None
  | None => if forallb (fun n => mem String.eqb n ids) items then second_items (msgid_names ids) reset_alphabet 0 items snippet
            else second_items proto_names reset_alphabet 0 items snippet
  end.

Definition sig_event (e : string) : string :=
  if String.eqb e "" || String.eqb (lower e) "none" then "NONE" else if String.eqb (lower e) "any" then "ANY" else e.

Definition sig_line (a e : string) (alpha cnt : nat) (line : string) : string :=
  rep "__TAG_123__" (dec cnt)
 (rep "__TAG_ABC__" (alphabet_to_string alpha)
 (rep "__TAG_EVENTNAME_SNAKE__" (snake_case e)
 (rep "__TAG_EVENTNAME__" e
 (rep "__TAG_EVENTNAME_SMALL_CAMEL__" (camel_case_small e)
 (rep "__TAG_ACTIONNAME_SNAKE__" (snake_case a)
 (rep "__TAG_ACTIONNAME__" a
 (rep "__TAG_ACTIONNAME_SMALL_CAMEL__" (camel_case_small a) line))))))).

Fixpoint sig_items (alpha cnt : nat) (sigs : list (string * (string * string))) (snippet : list string) : list string :=
  match sigs with
  | [] => []
  | (_, (a, e)) :: r => map (sig_line a (sig_event e) alpha cnt) snippet ++ sig_items (get_next_alphabet alpha) (S cnt) r snippet
  end.

Definition inner_actionsigs (sigs : list (string * (string * string))) (snippet : list string) (param : option string)
  : option (list string) :=
  match param with Some _ => None | None => Some (sig_items reset_alphabet 0 sigs snippet) end.

Definition filterStateName (ls : list string) (s : string) : list string :=
  map (fun l => rep "__TAG_STATENAME_SNAKE__" (snake_case s) (rep "__TAG_STATENAME_SMALL_CAMEL__" (camel_case_small s) (rep "__TAG_STATENAME__" s l))) ls.
Definition filterEventName (ls : list string) (e : string) : list string :=
  map (fun l => rep "__TAG_EVENTNAME_SNAKE__" (snake_case e) (rep "__TAG_EVENTNAME_SMALL_CAMEL__" (camel_case_small e) (rep "__TAG_EVENTNAME__" e l))) ls.

(* tags whose presence (as a specific tag) makes a transition line conditional *)
Definition cond_tags : list string :=
  map stag ["__TAG_EVENTNAME_SMALL_CAMEL__"; "__TAG_EVENTNAME__"; "__TAG_EVENTNAME_SNAKE__";
            "__TAG_GUARDNAME_SMALL_CAMEL__"; "__TAG_GUARDNAME__"; "__TAG_GUARDNAME_SNAKE__";
            "__TAG_NEXTSTATENAME__"; "__TAG_NEXTSTATENAME_SMALL_CAMEL__"; "__TAG_NEXTSTATENAME_SNAKE__";
            "__TAG_ACTIONNAME__"; "__TAG_ACTIONNAME_SMALL_CAMEL__"; "__TAG_ACTIONNAME_SNAKE__";
            "__TAG_STATENAME_IF_NEXTSTATE__"; "__TAG_STATENAME_IF_NEXTSTATE_SMALL_CAMEL__"; "__TAG_STATENAME_IF_NEXTSTATE_SNAKE__"].
(* tags whose literal presence drops the line *)
Definition drop_tags : list string :=
  map stag ["__TAG_GUARDNAME_SMALL_CAMEL__"; "__TAG_GUARDNAME__"; "__TAG_GUARDNAME_SNAKE__";
            "__TAG_NEXTSTATENAME__"; "__TAG_NEXTSTATENAME_SMALL_CAMEL__"; "__TAG_NEXTSTATENAME_SNAKE__";
            "__TAG_STATENAME_IF_NEXTSTATE__"; "__TAG_STATENAME_IF_NEXTSTATE_SMALL_CAMEL__"; "__TAG_STATENAME_IF_NEXTSTATE_SNAKE__"].

(* `for k, v in transitionDict.items()` on one line *)
Definition trans_subst (t : transition) (l : string) : string :=
  fold_left (fun acc kv => replace_all (fst kv) (snd kv) (if hasSpecificTag acc (fst kv) then removeDefault acc else acc)) t l.

Fixpoint count_lead_ws (s : string) : nat :=
  match s with String c r => if is_ws c then S (count_lead_ws r) else 0 | EmptyString => 0 end.
Fixpoint spaces (n : nat) : string := match n with O => EmptyString | S k => String SP (spaces k) end.

(* what becomes of a line after the names of the transition have been filled in *)
Definition trans_tail (l : string) : list string :=
  if existsb (hasSpecificTag l) cond_tags then
    match snd (extractDefaultAndTag l EQ) with
    | EmptyString => []
    | alt => [(spaces (count_lead_ws l) ++ alt ++ nl_str)%string]
    end
  else if forallb (fun tg => negb (contains tg l)) drop_tags then [l] else [].

Definition trans_line (t : transition) (l0 : string) : list string := trans_tail (trans_subst t l0).

Definition guard_expansion (tl : list transition) (snippet : list string) (param : option string) : option (list string) :=
  match param with Some _ => None
  | None => Some (flat_map (fun t => flat_map (trans_line t) snippet) tl) end.

(* innerexpand_transitionsperguard *)
Definition inner_tpg (snippet : list string) (ev : string) (tl : list transition) : option (list string) :=
  pair_expand (stag "__TAG_PGT_BEGIN__") (stag "__TAG_PGT_END__") (guard_expansion tl) (filterEventName snippet ev).

Fixpoint opt_concat (l : list (option (list string))) : option (list string) :=
  match l with
  | [] => Some []
  | None :: _ => None
  | Some x :: r => match opt_concat r with Some y => Some (x ++ y) | None => None end
  end.

Definition event_expansion (evs : list (string * list transition)) (snippet : list string) (param : option string)
  : option (list string) :=
  match param with Some _ => None
  | None => opt_concat (map (fun et => inner_tpg snippet (fst et) (snd et)) evs) end.

(* innerexpand_transitionsperstate *)
Definition inner_tps (tps : tps_t) (snippet : list string) (param : option string) : option (list string) :=
  match param with Some _ => None
  | None => opt_concat (map (fun se => pair_expand (stag "__TAG_PET_BEGIN__") (stag "__TAG_PET_END__")
                                          (event_expansion (snd se)) (filterStateName snippet (fst se))) tps)
  end.

(* ---------------------------------------------------------------- expand_secondfiltering *)
Definition filterInitialState (m : smodel) (ls : list string) : list string :=
  map (fun l => fold_left (fun acc tv => replace_all (fst tv)
                 (if String.eqb (snd tv) "camel" then camel_case_small (sm_first m) else sm_first m) acc) init_state_tags l) ls.

Definition inner_of (m : smodel) (inner coll : string)
  : option (list string -> option string -> option (list string)) :=
  if String.eqb inner "innerexpand_secondfiltering" then
    if String.eqb coll "smmodel.states" then Some (inner_second (sm_states m))
    else if String.eqb coll "smmodel.events" then Some (inner_events (if_sigs m) (sm_events m))
    else if String.eqb coll "smmodel.actions" then Some (inner_second (sm_actions m))
    else if String.eqb coll "smmodel.guards" then Some (inner_second (sm_guards m))
    else None
  else if String.eqb inner "innerexpand_actionsignatures" then
    if String.eqb coll "smmodel.actionsignatures" then Some (inner_actionsigs (sm_actionsigs m)) else None
  else if String.eqb inner "innerexpand_transitionsperstate" then
    if String.eqb coll "smmodel.transitionsperstate" then Some (inner_tps (sm_tps m)) else None
  else if String.eqb inner "innerexpand_secondfiltering_PROTO" then
    if String.eqb coll "events_interface.StructNames()" then Some (inner_proto (if_structs m))
    else if String.eqb coll "events_interface.ProtocolStructNames()" then Some (inner_proto (if_protos m))
    else if String.eqb coll "events_interface.MessageNames()" then Some (inner_msgs (if_msgids m) (if_msgs m))
    else None
  else None.

(* ---------------------------------------------------------------- smgen.innerexpand_sml (the boost::sml table printer
   behind <<<TTT_BOOST_SML>>> / <<<TTT_BOOST_SML_ENTRY_EXIT>>>), string by string as it is appended to the output *)
Fixpoint blanks (n : nat) : string := match n with O => EmptyString | S k => String SP (blanks k) end.
(* cgen.even_space *)
Definition even_space (a : string) (n : nat) : string := (a ++ blanks (n - String.length a))%string.
Definition rstrip_ws (s : string) : string := rstrip_by is_ws s.
(* the maxlen* attributes of CTransitionTableModel *)
Definition maxlen (f : row -> string) (tt : list row) : nat :=
  fold_left (fun acc r => if present (f r) then (if Nat.ltb acc (String.length (f r)) then String.length (f r) else acc) else acc) tt 0.

Definition tt_replace_none (v : string) : string := if present v then v else "msmf::none".
Definition lite_guard_none (v : string) : string :=
  let t := replace_all "__" "" v in if present t then v else "gnone".
Definition lite_action_none (v : string) : string :=
  let t := replace_all "__" "" v in
  if negb (present t) || contains "::none<" (lower t) then "none" else v.
Definition lite_next_none (v src : string) : string :=
  let t := replace_all "msmf::" "" (replace_all "__" "" v) in if present t then v else src.

Definition sml_header (ws : string) (tt : list row) : string :=
  (ws ++ "// " ++ even_space "Start" (maxlen r_state tt + 8) ++ even_space "+Event" (maxlen r_event tt + 10)
      ++ even_space "[ Guard ]" (maxlen r_guard tt + 6) ++ even_space "/ Action" (maxlen r_action tt + 4) ++ even_space " = Next" 0 ++ nl_str)%string.

Definition sml_row_text (ws : string) (tt : list row) (first : bool) (r : row) : string :=
  ((if first then ws ++ " *" else ws ++ ", ")
   ++ even_space ("state<" ++ tt_replace_none (r_state r) ++ ">") (maxlen r_state tt + 9) ++ "+"
   ++ even_space ("event<" ++ tt_replace_none (r_event r) ++ ">") (maxlen r_event tt + 9) ++ " "
   ++ even_space ("[" ++ lite_guard_none (camel_case_small (r_guard r)) ++ "]") (maxlen r_guard tt + 4) ++ " / "
   ++ even_space (lite_action_none (camel_case_small (r_action r))) (maxlen r_action tt + 2)
   ++ (if present (r_next r) then " = " ++ even_space ("state<" ++ lite_next_none (r_next r) (r_state r) ++ ">") 0 else ""))%string.

Definition sml_hooks_text (ws s : string) : string * string :=
  ((ws ++ ", state<" ++ s ++ "> + boost::sml::on_entry<_> / " ++ camel_case_small s ++ "OnEntry" ++ nl_str)%string,
   (ws ++ ", state<" ++ s ++ "> + boost::sml::on_exit<_> / " ++ camel_case_small s ++ "OnExit")%string).

(* the loop over the table: [pending] = the text in tt_out when the row is reached (the header before the first row),
   [seen] = the keys of startStateHasEntryExit *)
Fixpoint sml_rows_out (ws : string) (tt : list row) (ee first : bool) (pending : string) (seen : list string) (rows : list row)
  : list string * list string :=
  match rows with
  | [] => ([], seen)
  | r :: rest =>
      let line := (rstrip_ws (pending ++ sml_row_text ws tt first r) ++ nl_str)%string in
      let hook := ee && negb (existsb (String.eqb (r_state r)) seen) in
      let seen' := if hook then seen ++ [r_state r] else seen in
      let '(out, seen'') := sml_rows_out ws tt ee false EmptyString seen' rest in
      (line :: (if hook then let '(a, b) := sml_hooks_text ws (r_state r) in [(rstrip_ws (a ++ b) ++ nl_str)%string] else []) ++ out, seen'')
  end.

(* the trailing loop: the hooks of the states that were never a start state *)
Definition sml_tail_step (ws : string) (acc : list string * list string) (s : string) : list string * list string :=
  if existsb (String.eqb s) (fst acc) then acc
  else let '(a, b) := sml_hooks_text ws s in (fst acc ++ [s], snd acc ++ [(a ++ b ++ nl_str)%string]).

Definition sml_print (states : list string) (tt : list row) (ee : bool) (ws : string) : list string :=
  let '(out, seen) := sml_rows_out ws tt ee true (sml_header ws tt) [] tt in
  out ++ (if ee then snd (fold_left (sml_tail_step ws) states (seen, [])) else []).

Definition stage := (string * string * string * string * string)%type.

(* the expansion function of a single-tag stage: the sml printers are modelled, the other table printers are not *)
Definition single_of (m : smodel) (inner coll : string) : option (string -> list string) :=
  if String.eqb inner "innerexpand_sml" then
    if String.eqb coll "smmodel,True" then Some (sml_print (sm_states m) (sm_rows m) true)
    else if String.eqb coll "smmodel,False" then Some (sml_print (sm_states m) (sm_rows m) false)
    else None
  else None.

Definition apply_stage (m : smodel) (acc : option (list string)) (st : stage) : option (list string) :=
  match acc with
  | None => None
  | Some ls =>
      let '(kind, b, e, inner, coll) := st in
      if String.eqb kind "Init" then Some (filterInitialState m ls)
      else if String.eqb kind "Single" then
        match single_of m inner coll with
        | Some f => Some (single_expand b f ls)
        | None => if existsb (fun l => hasSpecificTag l b) ls then None else Some ls       (* the other table printers: not modelled *)
        end
      else if String.eqb kind "Pair" then
        match inner_of m inner coll with
        | Some f => pair_expand b e f ls
        | None => None
        end
      else None
  end.

(* the events interface is never None on the state-machine path, but `if self.events_interface:` is False for an
   interface without entries -- it always holds the message header, so the branch is always taken *)
Definition second_filter (m : smodel) (ls : list string) : option (list string) :=
  fold_left (apply_stage m) (second_stages ++ second_stages_iface) (Some ls).

(* ---------------------------------------------------------------- Generate, one template file *)
(* first filtering of a file whose lines use none of EXTENDS / EXCLUDE *)
Definition load_file (dict : list (string * string)) (ls : list string) : option (list string) :=
  if existsb (fun l => hasSpecificTag l TAG_EXTENDS || hasSpecificTag l TAG_EXCLUDE) ls then None
  else Some (filter_multiple_newlines (flat_map (process_line dict) ls)).

Definition cmodel := list (string * list string).     (* CCodeModel.filenames_to_lines *)

Fixpoint map_files (f : list string -> option (list string)) (cm : cmodel) : option cmodel :=
  match cm with
  | [] => Some []
  | (n, ls) :: r => match f ls, map_files f r with
                    | Some ls', Some r' => Some ((n, ls') :: r')
                    | _, _ => None
                    end
  end.

Definition phase (m : smodel) (dict : list (string * string)) (d : usertags) (acc : option cmodel) (ph : string)
  : option cmodel :=
  match acc with
  | None => None
  | Some cm =>
      if String.eqb ph "load" then map_files (load_file dict) cm
      else if String.eqb ph "expand" then map_files (second_filter m) cm
      else if String.eqb ph "usertags" then Some (do_user_tags d cm)
      else if String.eqb ph "for" then map_files do_for_lines cm
      else if String.eqb ph "write" then map_files (fun ls => Some (map tab4 ls)) cm
      else if String.eqb ph "model" || String.eqb ph "events_from_structs" || String.eqb ph "preserve"
              || String.eqb ph "copy" || String.eqb ph "return" then Some cm
      else None
  end.

(* the text written for every template file (fresh output directory, templates without USER code tags,
   template file names that contain none of the TEMPLATE spellings) *)
Definition generate (m : smodel) (dict : list (string * string)) (d : usertags) (templates : cmodel)
  : option (list (string * string)) :=
  option_map (map (fun f => (fst f, concat_lines (snd f))))
             (fold_left (phase m dict d) generate_phases (Some templates)).

Definition generate_file (m : smodel) (dict : list (string * string)) (d : usertags) (template_lines : list string)
  : option string :=
  match generate m dict d [("f", template_lines)] with
  | Some [(_, c)] => Some c
  | _ => None
  end.
