(* IR of the synchronisation skeleton of the generated Python state machine (produced by translator/pysync.py
   into Gen/PySync.v, interpreted by Model/PyThreads.v). *)
From Coq Require Import String List Bool.
Import ListNotations.

Inductive cond := CFlag (f : string).          (* truth value of the private attribute self.__f *)

Inductive op :=
| SetFlag (f : string) (b : bool)              (* self.__f = True/False/1/0 *)
| SetFlagParam (f : string)                    (* self.__f = <<<StateMachineThread=1>>> : the mode of the machine *)
| NewQueue                                     (* self.__q = queue.Queue() *)
| Put                                          (* self.__q.put(event) *)
| Get                                          (* event = self.__q.get(block=True, timeout=c), raises queue.Empty *)
| TaskDone                                     (* self.__q.task_done() *)
| QueueJoin                                    (* self.__q.join() *)
| ThreadStart                                  (* self.start() *)
| ThreadJoin                                   (* self.join() *)
| Process                                      (* self.process(event) *)
| If (c : cond) (t e : list op)
| While (c : cond) (b : list op)
| TryEmpty (b h : list op).                    (* try: b  except queue.Empty: h *)
