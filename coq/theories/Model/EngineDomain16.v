(* The template grammar of C16 as boolean predicates (extracted; acceptance test of the harness generator).
     in_grammar16 t        the template alone
     wf_elements16 t e     the template together with the element lists it is expanded over
   No proofs in this file. *)
From Coq Require Import String Ascii List Bool Arith.
From KV Require Import Lib.Str Lib.StrOps Lib.ODict Lib.TableDef Gen.Tags Gen.Pipeline Model.Engine Model.EngineSM Model.EngineDomain
                       Spec.RefExpand Spec.RefExpand16.
Import ListNotations.
Open Scope string_scope.
Open Scope list_scope.

(* every tag of the line is one the block substitutes (so the expanded copies carry no tag any more) *)
Definition closed_seg (keys : list string) (g : seg) : bool :=
  match g with
  | Lit _ => true
  | Tag n None => existsb (String.eqb n) keys
  | Tag _ (Some _) => false
  end.
Definition keys_of (k : ekind) : list string := map fst (table_of_kind k EmptyString 0).
Definition sig_keys : list string := map fst (sig_table (EmptyString, EmptyString) 0).

Definition body_line_ok (keys : list string) (l : uline) : bool :=
  line_ok l && forallb (closed_seg keys) l
  && negb (isspace (render_line l))
  && load_inert (render_line l) && expand_inert (render_line l).

Definition text_ok (l : string) : bool := no_char (chr 60) l && no_char LF l.     (* no '<', one line *)

(* the expander stage of a block kind: its begin / end tags *)
Definition stage_tags (k : ekind) : string * string :=
  match k with
  | KState => (stag "__TAG_PS_BEGIN__", stag "__TAG_PS_END__") | KEvent => (stag "__TAG_PE_BEGIN__", stag "__TAG_PE_END__")
  | KAction => (stag "__TAG_PA_BEGIN__", stag "__TAG_PA_END__") | KGuard => (stag "__TAG_PG_BEGIN__", stag "__TAG_PG_END__")
  | KStruct => (stag "__TAG_STRUCT_BEGIN__", stag "__TAG_STRUCT_END__") | KProto => (stag "__TAG_PROTOMSG_BEGIN__", stag "__TAG_PROTOMSG_END__")
  | KMsg => (stag "__TAG_MSG_BEGIN__", stag "__TAG_MSG_END__")
  end.
Definition sig_tags : string * string := (stag "__TAG_PASIG_BEGIN__", stag "__TAG_PASIG_END__").
Definition all_stages : list stage := second_stages ++ second_stages_iface.
Definition own_stage (st : stage) (tags : string * string) : bool :=
  let '(kind, b, e, _, _) := st in String.eqb kind "Pair" && String.eqb (fst tags) b.

(* the begin / end line of a block: recognised by its own stage as begin resp. end (and not the other way round, no
   parameter), inert for every other stage, untouched by the first filtering *)
Definition block_lines_ok (tags : string * string) (bl el : string) : bool :=
  hasSpecificTag bl (fst tags) && negb (hasSpecificTag bl (snd tags)) && negb (hasDefault bl)
  && negb (hasSpecificTag el (fst tags)) && hasSpecificTag el (snd tags)
  && forallb (fun st => own_stage st tags || (stage_inert bl st && stage_inert el st)) all_stages
  && load_inert bl && load_inert el.

Definition item16_ok (it : item16) : bool :=
  match it with
  | Text l => text_ok l
  | Raw s => no_char (chr 60) s && (count_char LF s <=? 1)%nat
  | Block k ib ie body =>
      block_lines_ok (stage_tags k) (ib ++ begin_line (block_word k))%string (ie ++ end_line (block_word k))%string
      && forallb (body_line_ok (keys_of k)) body
  | SigBlock ib ie body =>
      block_lines_ok sig_tags (ib ++ begin_line "PER_ACTION_SIGNATURE")%string (ie ++ end_line "PER_ACTION_SIGNATURE")%string
      && forallb (body_line_ok sig_keys) body
  end.

Definition in_grammar16 (t : template16) : bool :=
  forallb item16_ok t
  && list_eqb (filter_multiple_newlines (render16 t)) (render16 t).

(* the copies of a body for the elements: substituted values carry no '<' '>', no copy is whitespace only or contains a tag
   word that is not modelled *)
Definition block_wf {A} (tb : A -> nat -> list (string * string)) (items : list A) (body : list uline) : bool :=
  forallb (fun ix =>
     forallb (fun kv => no_lg (snd kv)) (tb (snd ix) (fst ix))
     && forallb (fun l => let out := render_line (map (subst16 (tb (snd ix) (fst ix))) l) in
                          negb (isspace out) && negb (unmodelled out)) body)
    (enumerate_from 0 items).

Definition item16_wf (e : elements) (it : item16) : bool :=
  match it with
  | Text _ => true
  | Raw _ => true
  | Block k _ _ body => block_wf (table_of_kind k) (items_of e k) body
  | SigBlock _ _ body => block_wf sig_table (el_sigs e) body
  end.

Definition wf_elements16 (t : template16) (e : elements) : bool := forallb (item16_wf e) t.

(* the element lists the engine works with *)
Definition elements_of_model (m : smodel) : elements :=
  {| el_states := sm_states m; el_events := sm_events m; el_actions := sm_actions m; el_guards := sm_guards m;
     el_sigs := map snd (sm_actionsigs m);
     el_structs := if_structs m; el_protos := if_protos m; el_msgs := if_msgs m |}.

Definition engine16 (m : smodel) (dict : list (string * string)) (t : template16) : option string :=
  generate_file m dict [] (render16 t).

(* rows as the engine takes them (lists of five strings) -> rows of the declarative table model *)
Definition row_of (r : EngineSM.row) : TableDef.row :=
  mkRow (r_state r) (r_event r) (EngineSM.r_next r) (r_action r) (EngineSM.r_guard r).
Definition table_of (tt : list EngineSM.row) : table := map row_of tt.

(* the reference output / the admission test, from the raw table and interface lists (what the harness calls) *)
Definition ref16_rows (tt : list EngineSM.row) (structs protos msgs : list string) (t : template16) : string :=
  ref16 (elements_of (table_of tt) structs protos msgs) t.
Definition wf16_rows (tt : list EngineSM.row) (structs protos msgs : list string) (t : template16) : bool :=
  wf_elements16 t (elements_of (table_of tt) structs protos msgs).
