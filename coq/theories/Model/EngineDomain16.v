(* The template grammar of C16 as boolean predicates (extracted; acceptance test of the harness generator).
     in_grammar16 t        the template alone
     wf_elements16 t e     the template together with the element lists it is expanded over
   No proofs in this file. *)
From Coq Require Import String Ascii List Bool Arith.
From KV Require Import Lib.Str Lib.StrOps Lib.ODict Lib.TableDef Gen.Tags Gen.Pipeline Model.Engine Model.EngineSM Model.EngineDomain
                       Spec.RefExpand Spec.RefExpand16.
Import ListNotations.
Open Scope string_scope.
Open Scope list_scope.

(* every tag of the line is one the block substitutes (so the expanded copies carry no tag any more) *)
Definition closed_seg (keys : list string) (g : seg) : bool :=
  match g with
  | Lit _ => true
  | Tag n None => existsb (String.eqb n) keys
  | Tag _ (Some _) => false
  end.
Definition keys_of (k : ekind) : list string := map fst (table_of_kind k EmptyString 0).
Definition sig_keys : list string := map fst (sig_table (EmptyString, EmptyString) 0).

Definition body_line_ok (keys : list string) (l : uline) : bool :=
  line_ok l && forallb (closed_seg keys) l
  && negb (isspace (render_line l))
  && load_inert (render_line l) && expand_inert (render_line l).

Definition text_ok (l : string) : bool := no3 l && no_char LF l.     (* no "<<<", one line *)

(* the expander stage of a block kind: its begin / end tags *)
Definition stage_tags (k : ekind) : string * string :=
  match k with
  | KState => (stag "__TAG_PS_BEGIN__", stag "__TAG_PS_END__") | KEvent => (stag "__TAG_PE_BEGIN__", stag "__TAG_PE_END__")
  | KAction => (stag "__TAG_PA_BEGIN__", stag "__TAG_PA_END__") | KGuard => (stag "__TAG_PG_BEGIN__", stag "__TAG_PG_END__")
  | KStruct => (stag "__TAG_STRUCT_BEGIN__", stag "__TAG_STRUCT_END__") | KProto => (stag "__TAG_PROTOMSG_BEGIN__", stag "__TAG_PROTOMSG_END__")
  | KMsg => (stag "__TAG_MSG_BEGIN__", stag "__TAG_MSG_END__")
  end.
Definition sig_tags : string * string := (stag "__TAG_PASIG_BEGIN__", stag "__TAG_PASIG_END__").
Definition all_stages : list stage := second_stages ++ second_stages_iface.
Definition own_stage (st : stage) (tags : string * string) : bool :=
  let '(kind, b, e, _, _) := st in String.eqb kind "Pair" && String.eqb (fst tags) b.

(* the begin / end line of a block: recognised by its own stage as begin resp. end (and not the other way round, no
   parameter), inert for every other stage, untouched by the first filtering *)
Definition block_lines_ok (tags : string * string) (bl el : string) : bool :=
  hasSpecificTag bl (fst tags) && negb (hasSpecificTag bl (snd tags)) && negb (hasDefault bl)
  && negb (hasSpecificTag el (fst tags)) && hasSpecificTag el (snd tags)
  && forallb (fun st => own_stage st tags || (stage_inert bl st && stage_inert el st)) all_stages
  && load_inert bl && load_inert el.

(* ---------------------------------------------------------------- nested transition blocks *)
Definition pst_tags : string * string := (stag "__TAG_PST_BEGIN__", stag "__TAG_PST_END__").
Definition pet_tags : string * string := (stag "__TAG_PET_BEGIN__", stag "__TAG_PET_END__").
Definition pgt_tags : string * string := (stag "__TAG_PGT_BEGIN__", stag "__TAG_PGT_END__").
Definition state_keys : list string := map fst (state_table EmptyString).
Definition event_keys : list string := map fst (event_table EmptyString).
Definition cond_names : list string :=
  ["ACTIONNAME"; "actionName"; "ACTION_NAME"; "GUARDNAME"; "guardName"; "GUARD_NAME";
   "STATENAMEIFNEXTSTATE"; "stateNameIfNextState"; "STATE_NAME_IF_NEXT_STATE"; "NEXTSTATENAME"; "nextStateName"; "NEXT_STATE_NAME"].

Definition not_be2 (tags : string * string) (s : string) : bool :=
  negb (hasSpecificTag s (fst tags)) && negb (hasSpecificTag s (snd tags)).
Definition inert (s : string) : bool := load_inert s && expand_inert s.
Definition no_tags_of (keys : list string) (s : string) : bool := forallb (fun k => negb (contains (tagstr k) s)) keys.

(* begin / end line of an inner block: recognised by the inner expander as begin resp. end, no parameter *)
Definition inner_pair_ok (tags : string * string) (bl el : string) : bool :=
  hasSpecificTag bl (fst tags) && negb (hasSpecificTag bl (snd tags)) && negb (hasDefault bl)
  && negb (hasSpecificTag el (fst tags)) && hasSpecificTag el (snd tags).

Definition the_tag (l : uline) : option (string * option string) :=
  match filter is_tagseg l with [Tag n d] => Some (n, d) | _ => None end.
Definition drop_default (l : uline) : uline := map (fun g => match g with Tag n _ => Tag n None | _ => g end) l.
(* what the reference says of a line whose (single) tag names something the transition lacks *)
Definition spec_absent (l : uline) : list string :=
  match List.find is_tagseg l with
  | Some (Tag _ (Some (String c x))) => [(RefExpand16.spaces (RefExpand16.count_lead_ws (render_line l)) ++ String c x ++ nl_str)%string]
  | _ => []
  end.

(* a line of a per-transition block that mentions ONE of the names a transition may lack (with or without alternative
   text) and otherwise consists of literal text: all the engine does with it when the name is absent is computed here *)
Definition cond_line_ok (l : uline) : bool :=
  match the_tag l with
  | Some (n, d) =>
      let s := render_line l in
      existsb (String.eqb n) cond_names
      && no_tags_of (state_keys ++ event_keys) s
      && forallb (fun k => String.eqb k n || (negb (hasSpecificTag s (tagstr k)) && negb (contains (tagstr k) s))) cond_names
      && hasSpecificTag s (tagstr n)
      && String.eqb (removeDefault s) (render_line (drop_default l))
      && list_eqb (trans_tail s) (spec_absent l)
      && forallb no3 (spec_absent l)
      && not_be2 pgt_tags s
  | None => false
  end.

Definition gline_ok (l : uline) : bool :=
  line_ok l && inert (render_line l) && not_be2 pet_tags (render_line l) && no_tags_of state_keys (render_line l)
  && (forallb (closed_seg event_keys) l || cond_line_ok l).

Definition eitem_ok (x : eitem) : bool :=
  match x with
  | ELine l => line_ok l && forallb (closed_seg event_keys) l && inert (render_line l) && not_be2 pet_tags (render_line l)
               && no_tags_of state_keys (render_line l)
  | EGuard ib ie gb =>
      let bl := (ib ++ begin_line "PER_GUARDTRANSITION")%string in let el := (ie ++ end_line "PER_GUARDTRANSITION")%string in
      inner_pair_ok pgt_tags bl el && inert bl && inert el && not_be2 pet_tags bl && not_be2 pet_tags el
      && no_tags_of (state_keys ++ event_keys) bl && no_tags_of (state_keys ++ event_keys) el
      && forallb gline_ok gb
  end.

Definition titem_ok (x : titem) : bool :=
  match x with
  | TLine l => line_ok l && forallb (closed_seg state_keys) l && inert (render_line l)
  | TEvent ib ie body =>
      let bl := (ib ++ begin_line "PER_EVENTTRANSITION")%string in let el := (ie ++ end_line "PER_EVENTTRANSITION")%string in
      inner_pair_ok pet_tags bl el && inert bl && inert el && no_tags_of state_keys bl && no_tags_of state_keys el
      && forallb eitem_ok body
  end.

(* the single-tag stage of a table line *)
Definition own_single (st : stage) (ee : bool) : bool :=
  let '(kind, b, _, _, _) := st in String.eqb kind "Single" && String.eqb b (ttt_tag ee).

(* per-event blocks with the signature tags *)
Definition ev_keys : list string := keys_of KEvent ++ ["SIGNATURE"; "SIGNATUREWITHDEFAULTS"].
Definition ev_line_ok (l : uline) : bool :=
  body_line_ok ev_keys l
  && match sig_kind l with
     | None => forallb (closed_seg (keys_of KEvent)) l
     | Some d => negb (mentions (sig_key (negb d)) l)
     end.
(* per (template, events, oracle): the line after the name tags is what the engine's tests take it for, the signature carries no '<' '>',
   the result is neither blank nor tagged *)
Definition ev_block_wf (sigs : list (string * (string * string))) (items : list string) (body : list uline) : bool :=
  forallb (fun ix =>
     forallb (fun kv => no_lg (snd kv)) (elem_table (snd ix) (fst ix))
     && forallb (fun l =>
          let nl := render_line (map (subst16 (elem_table (snd ix) (fst ix))) l) in
          let out := ref_ev_line sigs (snd ix) (fst ix) l in
          match sig_kind l with
          | None => true
          | Some d => hasSpecificTag nl (stag "__TAG_SIGNATURE__") && negb (hasDefault nl)
                      && Bool.eqb (contains (stag "__TAG_SIGNATURE_DEF__") nl) d && no_lg (sigof sigs (snd ix) d)
          end
          && negb (isspace out) && negb (unmodelled out) && no3 out) body)
    (enumerate_from 0 items).

Definition msg_keys : list string := keys_of KMsg ++ ["MSGID"].

Definition init_keys : list string := ["STATE_0"; "state_0"].

Definition item16_ok (it : item16) : bool :=
  match it with
  | Text l => text_ok l
  | Raw s => no3 s && (count_char LF s <=? 1)%nat
  | Block k ib ie body =>
      block_lines_ok (stage_tags k) (ib ++ begin_line (block_word k))%string (ie ++ end_line (block_word k))%string
      && forallb (body_line_ok (keys_of k)) body
  | SigBlock ib ie body =>
      block_lines_ok sig_tags (ib ++ begin_line "PER_ACTION_SIGNATURE")%string (ie ++ end_line "PER_ACTION_SIGNATURE")%string
      && forallb (body_line_ok sig_keys) body
  | TransBlock ib ie body =>
      block_lines_ok pst_tags (ib ++ begin_line "PER_STATETRANSITION")%string (ie ++ end_line "PER_STATETRANSITION")%string
      && forallb titem_ok body
  | EvBlock ib ie body =>
      block_lines_ok (stage_tags KEvent) (ib ++ begin_line "PER_EVENT")%string (ie ++ end_line "PER_EVENT")%string
      && forallb ev_line_ok body
  | MsgBlock ib ie sfx body =>
      block_lines_ok (stage_tags KMsg) (ib ++ begin_line "PER_MSG")%string (ie ++ "<<<PER_MSG_END>>>" ++ sfx ++ nl_str)%string
      && forallb (body_line_ok msg_keys) body
  | InitLine l => line_ok l && forallb (closed_seg init_keys) l && load_inert (render_line l)
  | UserLine l => plain_line_ok l
  | TableLine pre ee =>
      let s := (pre ++ ttt_tag ee ++ nl_str)%string in
      load_inert s && hasSpecificTag s (ttt_tag ee) && String.eqb (getWhitespace s) pre
      && forallb (fun st => own_single st ee || stage_inert s st) all_stages
  end.

Definition in_grammar16 (t : template16) : bool :=
  forallb item16_ok t
  && list_eqb (filter_multiple_newlines (render16 t)) (render16 t).

(* the copies of a body for the elements: substituted values carry no '<' '>', no copy is whitespace only or contains a tag
   word that is not modelled *)
Definition block_wf {A} (tb : A -> nat -> list (string * string)) (items : list A) (body : list uline) : bool :=
  forallb (fun ix =>
     forallb (fun kv => no_lg (snd kv)) (tb (snd ix) (fst ix))
     && forallb (fun l => let out := render_line (map (subst16 (tb (snd ix) (fst ix))) l) in
                          negb (isspace out) && negb (unmodelled out)) body)
    (enumerate_from 0 items).

(* the names in the transition structure carry no '<' '>', a transition defines only tags of the four families *)
Definition trans_wf (tr : list (string * string)) : bool :=
  forallb (fun kv => existsb (fun n => String.eqb (fst kv) (tagstr n)) cond_names && no_lg (snd kv)) tr.
Definition tps_wf (tps : list (string * list (string * list (list (string * string))))) : bool :=
  forallb (fun se => forallb (fun kv => no_lg (snd kv)) (state_table (fst se))
                     && forallb (fun et => forallb (fun kv => no_lg (snd kv)) (event_table (fst et)) && forallb trans_wf (snd et)) (snd se)) tps.

Definition item16_wf (e : elements) (it : item16) : bool :=
  match it with
  | Text _ => true
  | Raw _ => true
  | Block k _ _ body => block_wf (table_of_kind k) (items_of e k) body
  | SigBlock _ _ body => block_wf sig_table (el_sigs e) body
  | TransBlock _ _ _ => tps_wf (el_tps e)
  | EvBlock _ _ body => ev_block_wf (el_evsigs e) (el_events e) body
  | MsgBlock _ _ _ body => forallb (fun n => mem String.eqb n (el_msgids e)) (el_msgs e) && block_wf (msg_table (el_msgids e)) (el_msgs e) body
  | InitLine _ => forallb (fun kv => no_lg (snd kv)) (init_table (el_first e))
  | UserLine l => for_plain (ref_line (el_user e) l)
  | TableLine pre ee => forallb no3 (sml_print (el_states e) (el_rows e) ee pre)
  end.

Definition wf_elements16 (t : template16) (e : elements) : bool := forallb (item16_wf e) t.

(* every user line, after the substitution of the assignment's values and the defaults, has no tag left *)
Definition user_lines_closed (a : list (string * string)) (t : template16) : bool :=
  forallb (fun it => match it with UserLine l => no3 (ref_line a l) | _ => true end) t.

(* no line with user tags outside blocks (then the result does not depend on the user-tag assignment) *)
Definition no_user_lines (t : template16) : bool := forallb (fun it => match it with UserLine _ => false | _ => true end) t.

(* the element lists the engine works with *)
Definition elements_of_model (m : smodel) : elements :=
  {| el_states := sm_states m; el_events := sm_events m; el_actions := sm_actions m; el_guards := sm_guards m;
     el_sigs := map snd (sm_actionsigs m);
     el_structs := if_structs m; el_protos := if_protos m; el_msgs := if_msgs m; el_tps := sm_tps m; el_first := sm_first m; el_rows := sm_rows m; el_user := []; el_msgids := if_msgids m; el_evsigs := if_sigs m |}.

Definition engine16 (m : smodel) (dict : list (string * string)) (t : template16) : option string :=
  generate_file m dict [] (render16 t).

(* rows as the engine takes them (lists of five strings) -> rows of the declarative table model *)
Definition row_of (r : EngineSM.row) : TableDef.row :=
  mkRow (r_state r) (r_event r) (EngineSM.r_next r) (r_action r) (EngineSM.r_guard r).
Definition table_of (tt : list EngineSM.row) : table := map row_of tt.

(* the reference output / the admission test, from the raw table and interface lists (what the harness calls) *)
Definition ref16_rows (tt : list EngineSM.row) (structs protos msgs : list string) (t : template16) : string :=
  ref16 (elements_of (table_of tt) structs protos msgs) t.
Definition wf16_rows (tt : list EngineSM.row) (structs protos msgs : list string) (t : template16) : bool :=
  wf_elements16 t (elements_of (table_of tt) structs protos msgs).

(* equality test of two transition structures (used to evaluate sm_tps m = tps_of table on instances) *)
Fixpoint list_eqb_by {A} (f : A -> A -> bool) (a b : list A) : bool :=
  match a, b with [], [] => true | x :: r, y :: s => f x y && list_eqb_by f r s | _, _ => false end.
Definition kv_eqb (a b : string * string) : bool := String.eqb (fst a) (fst b) && String.eqb (snd a) (snd b).
Definition list_eqb_tps (a b : list (string * list (string * list (list (string * string))))) : bool :=
  list_eqb_by (fun x y => String.eqb (fst x) (fst y)
                 && list_eqb_by (fun u v => String.eqb (fst u) (fst v) && list_eqb_by (list_eqb_by kv_eqb) (snd u) (snd v)) (snd x) (snd y)) a b.
