(* String-level model of code preservation and output:
     preservative.CleanUpLine / CollectFile / Emplace      (via Model/PreserveCore.v)
     cgen.CGenerator.preserve_usercode_in_files             preserve_files
     cgen.CGenerator.createoutput                           createoutput
     cgen.FilePreservationSyncUtil                          file_sync
   Constants (tag prefix, CleanUpLine's pattern chain, LostCode suffix/separator, TAB filter) come from
   Gen/Tags.v, which the translator regenerates from /repo on every run.  No proofs in this file. *)
From Coq Require Import String Ascii List Bool.
From KV Require Import Lib.Str Lib.ODict Model.PreserveCore Gen.Tags.
Import ListNotations.
Open Scope string_scope.

Definition is_tag (l : string) : bool := contains tag_prefix l.
Definition kof (l : string) : string := clean_with clean_patterns l.
Definition kpfx (k : string) : bool := contains tag_prefix k.
Definition sub_of (k l : string) : bool := contains k l.
Definition nl (l : string) : string := l ++ nl_str.

(* text-mode reading: universal newlines *)
Definition CR : ascii := chr 13.
Fixpoint universal_newlines (s : string) : string :=
  match s with
  | EmptyString => EmptyString
  | String c s' =>
      if Ascii.eqb c CR then
        match s' with
        | String d s'' => if Ascii.eqb d LF then String LF (universal_newlines s'')
                          else String LF (universal_newlines s')
        | EmptyString => String LF EmptyString
        end
      else String c (universal_newlines s')
  end.

Definition read_lines (content : string) : list string := split_lines (universal_newlines content).

Definition collect (ls : list string) : list (string * list string) :=
  collect_file String.eqb is_tag kof "" ls.

Definition emplace (replace : bool) (tg : list (string * list string)) (ls : list string) :=
  emplace_lines String.eqb kof sub_of kpfx replace tg ls.

(* os.path.basename: the text after the last '/' *)
Fixpoint basename_aux (s cur : string) : string :=
  match s with
  | EmptyString => cur
  | String c r => if Ascii.eqb c (chr 47) then basename_aux r EmptyString else basename_aux r (cur ++ String c EmptyString)
  end.
Definition basename (p : string) : string := basename_aux p EmptyString.

(* path : the path the old file was collected from (join(outdir, name)), as spelled by the caller; LostCode entries are
   labelled with its basename only *)
Definition preserve1 (path : string) (fresh old : list string) : list string * list string :=
  preserve_one String.eqb is_tag kof sub_of kpfx nl nl (nl (basename path)) (nl lost_sep) "" fresh old.

Definition regen1 (path : string) (fresh old : list string) : list string * list string :=
  regen_one String.eqb tab4 is_tag kof sub_of kpfx nl nl (nl (basename path)) (nl lost_sep) "" fresh old.

(* ---------------------------------------------------------------- whole code model *)
Inductive old_state := Missing | Unreadable | Readable (content : string).

(* Text-mode decodability (strict UTF-8, the locale encoding assumed throughout): what CPython's decoder accepts
   (RFC 3629: no overlong forms, no surrogates, nothing above U+10FFFF). *)
Definition inr (x lo hi : nat) : bool := Nat.leb lo x && Nat.leb x hi.
Definition cont (a : ascii) : bool := inr (nat_of_ascii a) 128 191.

Fixpoint utf8_valid (s : string) : bool :=
  match s with
  | EmptyString => true
  | String a r =>
      let x := nat_of_ascii a in
      if Nat.ltb x 128 then utf8_valid r
      else if inr x 194 223 then
        match r with String b r2 => cont b && utf8_valid r2 | _ => false end
      else if inr x 224 239 then
        match r with
        | String b (String c r3) =>
            (if Nat.eqb x 224 then inr (nat_of_ascii b) 160 191
             else if Nat.eqb x 237 then inr (nat_of_ascii b) 128 159
             else cont b) && cont c && utf8_valid r3
        | _ => false
        end
      else if inr x 240 244 then
        match r with
        | String b (String c (String d r4)) =>
            (if Nat.eqb x 240 then inr (nat_of_ascii b) 144 191
             else if Nat.eqb x 244 then inr (nat_of_ascii b) 128 143
             else cont b) && cont c && cont d && utf8_valid r4
        | _ => false
        end
      else false
  end.

(* what the generator finds at a path: nothing, or a file with these bytes *)
Definition classify (found : option string) : old_state :=
  match found with
  | None => Missing
  | Some bytes => if utf8_valid bytes then Readable bytes else Unreadable
  end.

Definition cmodel := list (string * list string).

Fixpoint remove_key (k : string) (m : cmodel) : cmodel :=
  match m with
  | [] => []
  | (k', v) :: r => if String.eqb k k' then r else (k', v) :: remove_key k r
  end.

Fixpoint last_is (c : ascii) (s : string) : bool :=
  match s with
  | EmptyString => false
  | String x EmptyString => Ascii.eqb x c
  | String _ r => last_is c r
  end.

(* os.path.join(outdir, name) *)
Definition join (outdir name : string) : string :=
  match outdir with
  | EmptyString => name
  | _ => if prefixb "/" name then name
         else if last_is (chr 47) outdir then outdir ++ name
         else outdir ++ "/" ++ name
  end.

Definition preserve_file_step (outdir : string) (old : string -> old_state) (m : cmodel) (fn : string) : cmodel :=
  match old fn with
  | Missing => m
  | Unreadable => remove_key fn m
  | Readable content =>
      let lines := match lookup String.eqb fn m with Some l => l | None => [] end in
      let '(out, lost) := preserve1 (join outdir fn) lines (read_lines content) in
      let m1 := upsert String.eqb fn out m in
      match lost with
      | [] => m1
      | _ => upsert String.eqb (fn ++ lost_suffix) lost m1
      end
  end.

Definition preserve_files (outdir : string) (old : string -> old_state) (fresh : cmodel) : cmodel :=
  fold_left (preserve_file_step outdir old) (keys fresh) fresh.

(* createoutput: what is written under each (relative) name, and the returned list *)
Definition createoutput (m : cmodel) : list (string * string) * list string :=
  (map (fun kv => (fst kv, concat_lines (map tab4 (snd kv)))) m, keys m).

Definition regen (outdir : string) (old : string -> old_state) (fresh : cmodel) :=
  createoutput (preserve_files outdir old fresh).

(* the same, from the raw directory content (path -> bytes) *)
Definition regen_dir (outdir : string) (dir : string -> option string) (fresh : cmodel) :=
  regen outdir (fun fn => classify (dir fn)) fresh.

(* FileSync: body of A's shared tags copied into B, B otherwise verbatim *)
Definition file_sync (a b : string) : string :=
  concat_lines (fst (emplace true (collect (read_lines a)) (read_lines b))).

(* ---------------------------------------------------------------- well-formedness of fresh files,
   as boolean checks evaluated on the generator's real output on every run *)
Fixpoint parse_items (ls : list string) : option (list (item string)) :=
  match ls with
  | [] => Some []
  | l :: r =>
      if is_tag (tab4 l) then
        match r with
        | c :: r' => option_map (cons (Pair l c)) (parse_items r')
        | [] => None
        end
      else option_map (cons (Plain l)) (parse_items r)
  end.

(* the lines a written fresh-file element reads back as *)
Definition vis (l : string) : list string := split_lines (tab4 l).

Definition wf_itemb (it : item string) : bool :=
  match it with
  | Plain l => forallb (fun x => negb (is_tag x)) (vis l) && negb (kpfx (kof l))
  | Pair o c => is_tag (tab4 o) && is_tag (tab4 c) && String.eqb (kof (tab4 o)) (kof o)
                 && String.eqb (kof c) (kof o) && kpfx (kof o)
  end.

Definition spair_keys (its : list (item string)) : list string := pair_keys kof its.

Fixpoint nodupb (l : list string) : bool :=
  match l with
  | [] => true
  | x :: r => negb (existsb (String.eqb x) r) && nodupb r
  end.

Definition wfb (I : list (item string)) : bool := forallb wf_itemb I && nodupb (spair_keys I).

(* shape of the elements of a fresh file: a non-tag element is any chunk of text that is empty or ends with LF
   (the last element may end anywhere); a tag line is exactly one line; no CR anywhere *)
Fixpoint items_okb (its : list (item string)) : bool :=
  match its with
  | [] => true
  | [Plain l] => no_char CR l
  | [Pair o c] => canonical o && no_char CR o && last_ok c && no_char CR c
  | Plain l :: r => no_char CR l && (String.eqb l "" || ends_lf l) && items_okb r
  | Pair o c :: r => canonical o && no_char CR o && canonical c && no_char CR c && items_okb r
  end.

Definition wf_fresh_file (ls : list string) : bool :=
  match parse_items ls with Some its => wfb its && items_okb its | None => false end.
