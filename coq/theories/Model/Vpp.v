(* Model of kojen/vppfs.py: extraction of a transition table from a Visual Paradigm project (an SQLite file).

   The three tables the code reads are an abstract row database [db]; sqlite3 itself (SELECT * in rowid order,
   PRIMARY KEY lookups) is not modelled.  Everything after the rows is modelled function by function, keeping the
   Python control structure: str(bytes) of the DEFINITION blobs, mass_replace, GetLastIDFromColonList,
   Transition.Parse, Guard.Parse, VPPDiagrams (state_diagrams / GetIDFromStateDiagramName),
   VPPDiagramElements.GetDiagramElements, VPPModelElements.GetModelElement, StateDiagram.LoadAndTest,
   StateDiagram.GetTransitionTable, ExtractTransitionTable.  An uncaught Python exception is [None].
   Source-derived constants (replace chain, keywords, type dispatch) come from Gen/VppSrc.v.  No proofs here. *)
From Coq Require Import String Ascii List Bool Arith.
From KV Require Import Lib.Str Lib.ODict Gen.VppSrc.
Import ListNotations.
Open Scope string_scope.

Definition CR : ascii := chr 13.
Definition SQ : ascii := chr 39.   (* ' *)
Definition DQ : ascii := chr 34.   (* double quote *)

(* ---------------------------------------------------------------- str(bytes) : CPython's bytes.__repr__ *)

Definition hexd (n : nat) : ascii :=
  nth n ["0"; "1"; "2"; "3"; "4"; "5"; "6"; "7"; "8"; "9"; "a"; "b"; "c"; "d"; "e"; "f"]%char "0"%char.

Definition repr_char (q c : ascii) : string :=
  if Ascii.eqb c BSL || Ascii.eqb c q then String BSL (String c "")
  else if Ascii.eqb c TAB then String BSL "t"
  else if Ascii.eqb c LF then String BSL "n"
  else if Ascii.eqb c CR then String BSL "r"
  else let n := nat_of_ascii c in
       if Nat.ltb n 32 || Nat.leb 127 n
       then String BSL (String "x" (String (hexd (Nat.div n 16)) (String (hexd (Nat.modulo n 16)) "")))
       else String c "".

Fixpoint repr_body (q : ascii) (s : string) : string :=
  match s with EmptyString => "" | String c r => repr_char q c ++ repr_body q r end.

(* the quote is the double quote only when the bytes hold an apostrophe and no double quote *)
Definition repr_quote (s : string) : ascii := if negb (no_char SQ s) && no_char DQ s then DQ else SQ.

Definition py_str_bytes (s : string) : string :=
  let q := repr_quote s in String "b" (String q (repr_body q s ++ String q "")).

(* ---------------------------------------------------------------- str.split(c), str.replace(p, ''), str.strip() *)

Fixpoint split_on (c : ascii) (s : string) : list string :=
  match s with
  | EmptyString => [""]
  | String x r =>
      match split_on c r with
      | [] => [""]
      | h :: t => if Ascii.eqb x c then "" :: h :: t else String x h :: t
      end
  end.

Definition sep_char (s : string) : ascii := match s with String c _ => c | EmptyString => ";"%char end.

(* s.replace(p, '') for a non-empty p: leftmost, non-overlapping; [skip] = characters of a match still to drop *)
Fixpoint rm_from (p : string) (skip : nat) (s : string) : string :=
  match s with
  | EmptyString => ""
  | String c r =>
      match skip with
      | S k => rm_from p k r
      | O => if prefixb p s then rm_from p (String.length p - 1) r else String c (rm_from p 0 r)
      end
  end.
Definition rm_pat (p s : string) : string := match p with EmptyString => s | _ => rm_from p 0 s end.

Definition mass_replace (s : string) : string := clean_with mass_pats s.

Definition last_colon (s : string) : string := last (split_on (sep_char id_sep) s) "".

(* ASCII white space of str.strip(): 9..13, 28..32 (non-ASCII white space is not modelled) *)
Definition is_space (c : ascii) : bool :=
  let n := nat_of_ascii c in (Nat.leb 9 n && Nat.leb n 13) || (Nat.leb 28 n && Nat.leb n 32).
Fixpoint lstrip (s : string) : string :=
  match s with String c r => if is_space c then lstrip r else s | EmptyString => "" end.
Fixpoint rstrip (s : string) : string :=
  match s with
  | EmptyString => ""
  | String c r => match rstrip r with
                  | EmptyString => if is_space c then "" else String c ""
                  | r' => String c r'
                  end
  end.
Definition py_strip (s : string) : string := lstrip (rstrip s).

(* ---------------------------------------------------------------- the row database *)

Record diag := { dg_id : string; dg_type : string; dg_name : string }.
Record delem := { de_id : string; de_shape : string; de_diagram : string; de_model : option string }.
Record melem := { me_id : string; me_type : string; me_parent : option string; me_name : option string; me_blob : string }.
Record db := { db_diagrams : list diag; db_delems : list delem; db_melems : list melem }.

(* VPPModelElement: NULL columns become '', BLOB_STRING = str(blob) *)
Record velem := { ve_id : string; ve_type : string; ve_parent : string; ve_name : string; ve_blobstr : string }.

Definition ostr (o : option string) : string := match o with Some s => s | None => "" end.

Fixpoint get_model_element (ms : list melem) (id : string) : option velem :=
  match ms with
  | [] => None
  | m :: r => if String.eqb (me_id m) id
              then Some {| ve_id := me_id m; ve_type := me_type m; ve_parent := ostr (me_parent m);
                           ve_name := ostr (me_name m); ve_blobstr := py_str_bytes (me_blob m) |}
              else get_model_element r id
  end.

(* VPPDiagrams.LoadAndTest: state_diagrams[ID] = NAME ; GetIDFromStateDiagramName: first key whose value is the name *)
Definition state_diagrams (ds : list diag) : list (string * string) :=
  fold_left (fun acc d => if String.eqb (dg_type d) diagram_type_state
                          then upsert String.eqb (dg_id d) (dg_name d) acc else acc) ds [].

Definition id_from_name (sd : list (string * string)) (name : string) : option string :=
  match find (fun kv => String.eqb (snd kv) name) sd with Some kv => Some (fst kv) | None => None end.

(* VPPDiagramElements.GetDiagramElements *)
Definition diagram_elements (es : list delem) (did : string) : list delem :=
  filter (fun e => String.eqb (de_diagram e) did) es.

(* ---------------------------------------------------------------- Transition.Parse / Guard.Parse *)

Record ptrans := { pt_id : string; pt_name : string;
                   pt_to : option string; pt_from : option string; pt_guard : option string; pt_act : option string }.

Definition set_attr (a v : string) (t : ptrans) : ptrans :=
  if String.eqb a "STATE_TO_ID" then {| pt_id := pt_id t; pt_name := pt_name t; pt_to := Some v; pt_from := pt_from t; pt_guard := pt_guard t; pt_act := pt_act t |}
  else if String.eqb a "STATE_FROM_ID" then {| pt_id := pt_id t; pt_name := pt_name t; pt_to := pt_to t; pt_from := Some v; pt_guard := pt_guard t; pt_act := pt_act t |}
  else if String.eqb a "GUARD" then {| pt_id := pt_id t; pt_name := pt_name t; pt_to := pt_to t; pt_from := pt_from t; pt_guard := Some v; pt_act := pt_act t |}
  else if String.eqb a "ACTIVITY" then {| pt_id := pt_id t; pt_name := pt_name t; pt_to := pt_to t; pt_from := pt_from t; pt_guard := pt_guard t; pt_act := Some v |}
  else t.

(* the body of the for loop: the chain of independent ifs, in source order *)
Definition parse_seg (t : ptrans) (seg : string) : ptrans :=
  fold_left (fun t ka => if contains (fst ka) seg
                         then set_attr (snd ka) (last_colon (mass_replace (rm_pat (fst ka) seg))) t else t)
            parse_keys t.

Definition parse_transition (v : velem) : ptrans :=
  fold_left parse_seg (split_on (sep_char seg_sep) (ve_blobstr v))
            {| pt_id := ve_id v; pt_name := ve_name v; pt_to := None; pt_from := None; pt_guard := None; pt_act := None |}.

(* Guard.Parse: NAME := cleaned first segment that mentions the key; exception when there is none *)
Definition parse_guard (v : velem) : option string :=
  match find (contains guard_key) (split_on (sep_char seg_sep) (ve_blobstr v)) with
  | Some seg => Some (mass_replace (rm_pat guard_key seg))
  | None => None
  end.

(* ---------------------------------------------------------------- StateDiagram *)

Record sdiag := { sd_init : option velem; sd_trans : list (string * ptrans); sd_states : list (string * velem) }.

Definition load_step (ms : list melem) (acc : option sdiag) (e : delem) : option sdiag :=
  match acc with
  | None => None
  | Some s =>
      match de_model e with
      | None => None                                       (* '...' + None : TypeError in GetSpecificBlob_DiagramElements *)
      | Some mid =>
          match get_model_element ms mid with
          | None => None                                   (* "Model Element not found" *)
          | Some v =>
              match lookup String.eqb (ve_type v) type_dispatch with
              | None => None                               (* "Unhandled model type" *)
              | Some a =>
                  if String.eqb a "init" then Some {| sd_init := Some v; sd_trans := sd_trans s; sd_states := sd_states s |}
                  else if String.eqb a "transition"
                  then Some {| sd_init := sd_init s; sd_trans := upsert String.eqb (ve_id v) (parse_transition v) (sd_trans s);
                               sd_states := sd_states s |}
                  else if String.eqb a "state"
                  then Some {| sd_init := sd_init s; sd_trans := sd_trans s; sd_states := upsert String.eqb (ve_id v) v (sd_states s) |}
                  else Some s
              end
          end
      end
  end.

(* second loop of LoadAndTest: guards[id] = Guard(element) ; actions[id] = element (only NAME is used later) *)
Definition ga_step (ms : list melem) (acc : option (list (string * string) * list (string * string))) (kt : string * ptrans)
  : option (list (string * string) * list (string * string)) :=
  match acc with
  | None => None
  | Some (gs, acts) =>
      let t := snd kt in
      let gs' := match pt_guard t with
                 | None => Some gs
                 | Some g => match get_model_element ms g with
                             | None => None
                             | Some v => match parse_guard v with
                                         | None => None
                                         | Some nm => Some (upsert String.eqb g nm gs)
                                         end
                             end
                 end in
      match gs' with
      | None => None
      | Some gs1 =>
          match pt_act t with
          | None => Some (gs1, acts)
          | Some a => match get_model_element ms a with
                      | None => None
                      | Some v => Some (gs1, upsert String.eqb a (ve_name v) acts)
                      end
          end
      end
  end.

Definition opt_eqb (a : option string) (b : string) : bool :=
  match a with Some x => String.eqb x b | None => false end.

Definition state_name (states : list (string * velem)) (k : option string) : option string :=
  match k with
  | None => None
  | Some id => match lookup String.eqb id states with Some v => Some (ve_name v) | None => None end
  end.

Definition row := list string.

(* first loop of GetTransitionTable: ordered_TT[name of the target of an initial arrow] = [] *)
Definition tt_init_step (ini : string) (states : list (string * velem)) (acc : option (list (string * list row)))
           (kt : string * ptrans) : option (list (string * list row)) :=
  match acc with
  | None => None
  | Some o =>
      if opt_eqb (pt_from (snd kt)) ini
      then match state_name states (pt_to (snd kt)) with
           | Some nm => Some (upsert String.eqb nm [] o)
           | None => None                                   (* KeyError *)
           end
      else Some o
  end.

Definition named (d : list (string * string)) (k : option string) : option string :=
  match k with
  | None => Some none_str
  | Some id => lookup String.eqb id d
  end.

(* second loop *)
Definition tt_row_step (ini : string) (states : list (string * velem)) (gs acts : list (string * string))
           (acc : option (list (string * list row))) (kt : string * ptrans) : option (list (string * list row)) :=
  match acc with
  | None => None
  | Some o =>
      let t := snd kt in
      if opt_eqb (pt_from t) ini then Some o
      else match state_name states (pt_from t) with
           | None => None
           | Some from =>
               let o1 := if mem String.eqb from o then o else upsert String.eqb from [] o in
               match state_name states (pt_to t) with
               | None => None
               | Some to =>
                   let next := if String.eqb to from then none_str else to in
                   match named acts (pt_act t), named gs (pt_guard t) with
                   | Some a, Some g =>
                       let old := match lookup String.eqb from o1 with Some l => l | None => [] end in
                       Some (upsert String.eqb from (old ++ [[from; pt_name t; next; a; g]])%list o1)
                   | _, _ => None
                   end
               end
           end
  end.

Definition transition_table (s : sdiag) (gs acts : list (string * string)) : option (list row) :=
  match sd_trans s with
  | [] => Some []
  | _ :: _ =>
      match sd_init s with
      | None => None                                        (* None.ID : AttributeError *)
      | Some ini =>
          match fold_left (tt_init_step (ve_id ini) (sd_states s)) (sd_trans s) (Some []) with
          | None => None
          | Some o0 =>
              match fold_left (tt_row_step (ve_id ini) (sd_states s) gs acts) (sd_trans s) (Some o0) with
              | None => None
              | Some o => Some (flat_map snd o)
              end
          end
      end
  end.

Definition load_diagram (ms : list melem) (elems : list delem) : option (list row) :=
  match fold_left (load_step ms) elems (Some {| sd_init := None; sd_trans := []; sd_states := [] |}) with
  | None => None
  | Some s =>
      match fold_left (ga_step ms) (sd_trans s) (Some ([], [])) with
      | None => None
      | Some (gs, acts) => transition_table s gs acts
      end
  end.

(* ExtractTransitionTable(name, path) on an existing file *)
Definition extract (d : db) (name : string) : option (list row) :=
  match id_from_name (state_diagrams (db_diagrams d)) (py_strip name) with
  | None => None                                            (* KeyError *)
  | Some did => load_diagram (db_melems d) (diagram_elements (db_delems d) did)
  end.
