(* What the generated units DECLARE, as (kind, name, parameter list) triples, obtained the way smgen expands the
   per-element blocks: for every declaration line of the block shape (Gen/DeclTmpl.v) one declaration per element of the
   list the block iterates over.  The event's parameter list is what the event interface declares for it
   (get_event_signature: the members of the first struct of that name, [] if there is none); an action signature's
   parameter list is its event type.  And what the generated units REFERENCE per table row.  No proofs here. *)
From Coq Require Import String List Bool Arith.
From KV Require Import Lib.TableDef Model.TTable Model.DeclShape Gen.DeclTmpl.
Import ListNotations.
Open Scope string_scope.

(* event interface: struct name -> its members ("type name"), in interface order *)
Definition iface := list (string * list string).

Fixpoint sig_of (i : iface) (e : string) : list string :=
  match i with [] => [] | (n, ps) :: r => if String.eqb n e then ps else sig_of r e end.

(* smgen.Generate: the interface's event structs that the table does not mention are appended to the events *)
Definition all_events (t : table) (i : iface) : list string := dedup (events t ++ map fst i).

Definition decl := (dk * string * list string)%type.

Definition elements (t : table) (i : iface) (b : blk) : list (string * list string) :=
  match b with
  | BState => map (fun s => (s, [])) (states t)
  | BEvent => map (fun e => (e, sig_of i e)) (all_events t i)
  | BAction => map (fun a => (a, [])) (actions t)
  | BSig => map (fun ae => (fst ae, [snd ae])) (actionsignatures t)
  | BGuard => map (fun g => (g, [])) (guards t)
  | BTps => map (fun s => (s, [])) (tps_states t)
  end.

Definition decls_of (shape : list (blk * dk)) (t : table) (i : iface) : list decl :=
  flat_map (fun bk => map (fun np => (snd bk, fst np, snd np)) (elements t i (fst bk))) shape.

Inductive fid := FCtl | FIfc | FImpl | FTest | FCsContext | FCsSm | FCsInternals.
Definition shape_of (f : fid) : list (blk * dk) :=
  match f with
  | FCtl => decl_ctl_h | FIfc => decl_sm_h | FImpl => decl_impl_cpp | FTest => decl_test_cpp
  | FCsContext => decl_cs_context | FCsSm => decl_cs_sm | FCsInternals => decl_cs_internals
  end.
Definition decls_file (f : fid) (t : table) (i : iface) : list decl := decls_of (shape_of f) t i.

(* ---- references: which declaration each thing a row mentions needs, and in which file *)
Definition cpp_state_kinds : list (fid * dk) :=
  [(FImpl, KFwdState); (FCtl, KCtlEntry); (FCtl, KCtlExit); (FImpl, KEntryFunctor); (FImpl, KExitFunctor);
   (FImpl, KInstEntry); (FImpl, KInstExit); (FIfc, KIfcIs); (FImpl, KImplIs); (FTest, KTestEntry); (FTest, KTestExit)].
Definition cpp_event_kinds : list (fid * dk) :=
  [(FCtl, KEventStruct); (FCtl, KEventPtrTypedef); (FIfc, KIfcTrigger); (FImpl, KImplTrigger); (FImpl, KDispatchDef)].
Definition cpp_guard_kinds : list (fid * dk) :=
  [(FCtl, KCtlGuard); (FCtl, KCtlGuardMember); (FImpl, KGuardFunctor); (FImpl, KInstGuard); (FTest, KTestGuard)].
Definition cpp_action_kinds : list (fid * dk) := [(FImpl, KActionFunctor); (FImpl, KInstAction)].
Definition cpp_sig_kinds : list (fid * dk) := [(FCtl, KCtlAction); (FTest, KTestAction)].

Definition cs_state_kinds : list (fid * dk) :=
  [(FCsContext, KCsEntry); (FCsContext, KCsExit); (FCsSm, KCsIs); (FCsInternals, KCsEnum)].
Definition cs_class_kinds : list (fid * dk) := [(FCsInternals, KCsStateClass)].   (* PER_STATETRANSITION *)
Definition cs_event_kinds : list (fid * dk) :=
  [(FCsContext, KCsEventClass); (FCsSm, KCsTrigger); (FCsInternals, KCsBaseHandler); (FCsInternals, KCsDispatchPart)].
Definition cs_guard_kinds : list (fid * dk) := [(FCsContext, KCsGuard)].
Definition cs_sig_kinds : list (fid * dk) := [(FCsContext, KCsAction)].

Definition mk_refs (kinds : list (fid * dk)) (n : string) (ps : list string) : list (fid * decl) :=
  map (fun fk => (fst fk, (snd fk, n, ps))) kinds.

Definition opt_refs (o : option string) (f : string -> list (fid * decl)) : list (fid * decl) :=
  match o with Some x => f x | None => [] end.

Definition row_refs (sk ek gk ak gk' : list (fid * dk)) (i : iface) (r : row) : list (fid * decl) :=
  (mk_refs sk (r_src r) [] ++ opt_refs (opt (r_next r)) (fun n => mk_refs sk n []) ++
   mk_refs ek (r_ev r) (sig_of i (r_ev r)) ++
   opt_refs (opt (r_guard r)) (fun g => mk_refs gk g []) ++
   opt_refs (opt (r_act r)) (fun a => mk_refs ak a [] ++ mk_refs gk' a [r_ev r]))%list.

Definition refs_cpp (t : table) (i : iface) : list (fid * decl) :=
  flat_map (row_refs cpp_state_kinds cpp_event_kinds cpp_guard_kinds cpp_action_kinds cpp_sig_kinds i) t.
Definition refs_cs (t : table) (i : iface) : list (fid * decl) :=
  (flat_map (row_refs cs_state_kinds cs_event_kinds cs_guard_kinds [] cs_sig_kinds i) t ++
   flat_map (fun s => mk_refs cs_class_kinds s []) (states t))%list.   (* Enter<S>() needs class S for every state *)

(* the block in which a file's shape declares kind k, when it does so on exactly one line *)
Definition block_of_kind (shape : list (blk * dk)) (k : dk) : option blk :=
  match filter (fun bk => dk_beq (snd bk) k) shape with [(b, _)] => Some b | _ => None end.
Definition blk_opt_eqb (a : option blk) (b : blk) : bool := match a with Some x => blk_beq x b | None => false end.
Definition kinds_in_block (b : blk) (kinds : list (fid * dk)) : bool :=
  forallb (fun fk => blk_opt_eqb (block_of_kind (shape_of (fst fk)) (snd fk)) b) kinds.
