(* C13 bridge: the WHOLE shipped protocol_templates/CPP/TEMPLATEReceiver.cpp and TEMPLATETransmitter.cpp (Gen/Templates.v) in the
   template syntax of Spec/RefExpand16.v, and the text their per-message blocks stand for:
     rx_case name id     the switch case of the receiver for one message (id = str(MessageTypeID))
     tx_fn name          the Transmit<Msg> function (the retry loop that Model/Proto.transmit reads)
     tx_test name        the call in TestSendAll
   An interface is given as (message name, type id, sizeof) triples in interface order.  No proofs in this file. *)
From Coq Require Import String Ascii List Bool Arith NArith.
From KV Require Import Lib.Str Lib.StrOps Lib.ODict Gen.Tags Gen.Templates Model.Engine Model.EngineSM Model.EngineDomain Model.EngineDomain16
                       Model.Parse16 Spec.RefExpand Spec.RefExpand16.
Import ListNotations.
Open Scope string_scope.

Definition rx_file : list string := file_of "TEMPLATEReceiver.cpp" tmpl_proto.
Definition tx_file : list string := file_of "TEMPLATETransmitter.cpp" tmpl_proto.
Definition rx_file16_opt : option template16 := option_map snd (shipped16 dict0 rx_file).
Definition tx_file16_opt : option template16 := option_map snd (shipped16 dict0 tx_file).
Definition rx_file16 : template16 := match rx_file16_opt with Some t => t | None => [] end.
Definition tx_file16 : template16 := match tx_file16_opt with Some t => t | None => [] end.

(* the bodies of the per-message blocks (text of the shipped templates; Proofs/ProtoBridge.v checks that they are the blocks of the files) *)
Definition rx_body : list uline :=
  [[Lit "        case "; Tag "MSGID" None; Lit ": On"; Tag "MSGNAME" None; Lit "Received(reinterpret_cast<const "; Tag "MSGNAME" None;
    Lit "*>(&data_buffer[0])); break;"]].
Definition tx_body : list uline :=
  [[Lit "    bool XTransmitter::Transmit"; Tag "MSGNAME" None; Lit "(const "; Tag "MSGNAME" None; Lit "& data, int8 retries) const"];
   [Lit "    {"]; [Lit "        bool ok = false;"];
   [Lit "        for (; retries >= 0 && !ok && (connection != nullptr); retries--) {"];
   [Lit "            ok = ok || connection->SendData(reinterpret_cast<const uint8*>(&data), sizeof("; Tag "MSGNAME" None; Lit "));"];
   [Lit "        }"]; [Lit "        return ok;"]; [Lit "    }"]].
Definition tx_test_body : list uline := [[Lit "        Transmit"; Tag "MSGNAME" None; Lit "(Create"; Tag "MSGNAME" None; Lit "());"]].

Definition rx_case (name id : string) : string :=
  "        case " ++ id ++ ": On" ++ name ++ "Received(reinterpret_cast<const " ++ name ++ "*>(&data_buffer[0])); break;" ++ nl_str.
Definition tx_fn (name : string) : list string :=
  ["    bool XTransmitter::Transmit" ++ name ++ "(const " ++ name ++ "& data, int8 retries) const" ++ nl_str;
   "    {" ++ nl_str; "        bool ok = false;" ++ nl_str;
   "        for (; retries >= 0 && !ok && (connection != nullptr); retries--) {" ++ nl_str;
   "            ok = ok || connection->SendData(reinterpret_cast<const uint8*>(&data), sizeof(" ++ name ++ "));" ++ nl_str;
   "        }" ++ nl_str; "        return ok;" ++ nl_str; "    }" ++ nl_str].
Definition tx_test (name : string) : string := "        Transmit" ++ name ++ "(Create" ++ name ++ "());" ++ nl_str.

(* ---------------------------------------------------------------- an interface *)
Definition ifc3 := list (string * N * N).
Definition names_of (i : ifc3) : list string := map (fun x => fst (fst x)) i.
Definition id_text (id : N) : string := dec (N.to_nat id).            (* str(MessageTypeID) *)
Definition ids_of (i : ifc3) : list (string * string) := map (fun x => (fst (fst x), id_text (snd (fst x)))) i.
Definition ifc_of (i : ifc3) : list (N * N) := map (fun x => (snd (fst x), snd x)) i.
Fixpoint nodupb (l : list string) : bool :=
  match l with [] => true | x :: r => negb (existsb (String.eqb x) r) && nodupb r end.

(* the engine's model of a protocol generation: no table, the interface's lists and ids *)
Definition proto_model (structs protos : list string) (i : ifc3) : smodel :=
  with_msgids (ids_of i)
    {| sm_states := []; sm_events := structs; sm_actions := []; sm_guards := []; sm_actionsigs := []; sm_tps := []; sm_first := "NO TT PRESENT!";
       sm_rows := []; if_structs := structs; if_protos := protos; if_msgs := names_of i; if_msgids := []; if_sigs := [] |}.

(* what the harness evaluates *)
Definition rx_ref (structs protos : list string) (i : ifc3) (a : list (string * string)) : string :=
  ref16 (with_user a (elements_of_model (proto_model structs protos i))) rx_file16.
Definition tx_ref (structs protos : list string) (i : ifc3) (a : list (string * string)) : string :=
  ref16 (with_user a (elements_of_model (proto_model structs protos i))) tx_file16.
Definition rx_wf (structs protos : list string) (i : ifc3) (a : list (string * string)) : bool :=
  match rx_file16_opt with Some t => nodupb (names_of i) && wf_elements16 t (with_user a (elements_of_model (proto_model structs protos i))) | None => false end.
Definition tx_wf (structs protos : list string) (i : ifc3) (a : list (string * string)) : bool :=
  match tx_file16_opt with Some t => nodupb (names_of i) && wf_elements16 t (with_user a (elements_of_model (proto_model structs protos i))) | None => false end.
