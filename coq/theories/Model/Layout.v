(* C12 -- the abstract C++ program that kojen's protocol generator emits (struct declarations with per-member
   `__attribute__((packed))`, factory functions with default arguments, `return {...};` bodies) and its meaning
   under GCC on x86-64 SysV:
     - struct layout (Itanium ABI / GCC): a member is placed at the next multiple of its alignment, which is 1 when the
       member carries the packed attribute and the alignment of its type otherwise; alignof(struct) = max of the
       member alignments (1 if there is none); sizeof = end of the last member rounded up to alignof, and 1 for a
       struct without members; a member of a type that is not declared EARLIER is an error;
     - aggregate initialisation from nested brace lists: initialisers are matched to members in declaration order,
       members without initialiser are zeroed, `{}` zeroes, too many initialisers are an error, a literal is
       converted by Model/CValue.conv (None = narrowing error / outside the model);
     - a call with k arguments binds the first k parameters and evaluates the default arguments of the others.
   Objects are represented by their bytes (object representation; padding bytes are written as 0). *)
From Coq Require Import String Ascii List Bool NArith ZArith.
From KV Require Import Model.CValue.
Import ListNotations.

(* ---------------------------------------------------------------- abstract syntax *)
Record cmember := { cm_ty : string; cm_name : string; cm_packed : bool }.
Record cstruct := { cs_name : string; cs_members : list cmember }.

Inductive init :=
| ILit (s : string)             (* a literal pasted from the interface definition *)
| IVar (x : string)             (* a factory parameter *)
| ISizeDiff (a b : string)      (* sizeof(a) - sizeof(b) *)
| IList (l : list init).        (* { i1, ..., in } *)

Record cparam := { cp_ty : string; cp_ref : bool; cp_name : string; cp_default : option init }.
Record cfactory := { cf_ret : string; cf_name : string; cf_params : list cparam; cf_body : init }.
Record cprog := { cg_decls : list cstruct; cg_factories : list cfactory }.

(* ---------------------------------------------------------------- layout *)
Record finfo := { fi_name : string; fi_ty : string; fi_off : N; fi_size : N }.
Record sinfo := { si_size : N; si_align : N; si_fields : list finfo }.
Definition env := list (string * sinfo).

Fixpoint lookup {A} (k : string) (l : list (string * A)) : option A :=
  match l with
  | [] => None
  | (k', v) :: r => if String.eqb k k' then Some v else lookup k r
  end.

Definition roundup (x a : N) : N := ((x + a - 1) / a * a)%N.

(* size and alignment of a type name: a primitive of basetypes.h or a struct declared so far *)
Definition ty_size_align (e : env) (ty : string) : option (N * N) :=
  match prim_of_name ty with
  | Some p => Some (prim_size p, prim_align p)
  | None => match lookup ty e with Some si => Some (si_size si, si_align si) | None => None end
  end.

(* members in declaration order; off = end of the previous member, al = max alignment so far *)
Fixpoint layout_members (e : env) (ms : list cmember) (off al : N) : option (list finfo * N * N) :=
  match ms with
  | [] => Some ([], off, al)
  | m :: r =>
      match ty_size_align e (cm_ty m) with
      | None => None
      | Some (sz, a) =>
          let a' := if cm_packed m then 1%N else a in
          let o := roundup off a' in
          match layout_members e r (o + sz)%N (N.max al a') with
          | None => None
          | Some (fs, off', al') =>
              Some ({| fi_name := cm_name m; fi_ty := cm_ty m; fi_off := o; fi_size := sz |} :: fs, off', al')
          end
      end
  end.

Definition layout_struct (e : env) (d : cstruct) : option sinfo :=
  match layout_members e (cs_members d) 0 1 with
  | None => None
  | Some (fs, off, al) =>
      let sz := roundup off al in
      Some {| si_size := if (sz =? 0)%N then 1%N else sz; si_align := al; si_fields := fs |}
  end.

(* declarations are processed in order; redefinition of a name is an error *)
Fixpoint build_env (e : env) (ds : list cstruct) : option env :=
  match ds with
  | [] => Some e
  | d :: r =>
      match lookup (cs_name d) e, prim_of_name (cs_name d) with
      | None, None =>
          match layout_struct e d with
          | Some si => build_env (e ++ [(cs_name d, si)]) r
          | None => None
          end
      | _, _ => None
      end
  end.

(* ---------------------------------------------------------------- aggregate initialisation *)
Definition venv := list (string * (string * list ascii)).    (* parameter -> (type name, object bytes) *)

Section InitFields.
  Variable rec : string -> init -> option (list ascii).
  (* members fs of a struct of size total, initialisers xs, pos = end of what has been produced *)
  Fixpoint init_fields (total : N) (xs : list init) (fs : list finfo) (pos : N) {struct xs} : option (list ascii) :=
    match xs with
    | [] => Some (zeros (total - pos))
    | x :: xs' =>
        match fs with
        | [] => None                                  (* too many initialisers *)
        | f :: fs' =>
            match rec (fi_ty f) x with
            | None => None
            | Some b =>
                match init_fields total xs' fs' (fi_off f + fi_size f)%N with
                | None => None
                | Some r => Some (zeros (fi_off f - pos) ++ b ++ r)
                end
            end
        end
    end.
End InitFields.

Definition sizeof (e : env) (ty : string) : option N := option_map fst (ty_size_align e ty).

Fixpoint agg_init (e : env) (v : venv) (ty : string) (i : init) {struct i} : option (list ascii) :=
  match i with
  | ILit s => match prim_of_name ty with Some p => conv p (parse_lit s) | None => None end
  | IVar x =>
      match lookup x v with
      | Some (ty', b) => if String.eqb ty' ty then Some b else None
      | None => None
      end
  | ISizeDiff a b =>
      match prim_of_name ty, sizeof e a, sizeof e b with
      | Some p, Some sa, Some sb => if (sb <=? sa)%N then conv p (LInt (Z.of_N (sa - sb))) else None
      | _, _, _ => None
      end
  | IList xs =>
      match prim_of_name ty with
      | Some p =>
          match xs with
          | [] => Some (zeros (prim_size p))
          | [ILit s] => conv p (parse_lit s)
          | _ => None
          end
      | None =>
          match lookup ty e with
          | Some si => init_fields (agg_init e v) (si_size si) xs (si_fields si) 0
          | None => None
          end
      end
  end.

(* ---------------------------------------------------------------- calls *)
(* bind the parameters: positional arguments first (each must be an object of the parameter's type, i.e. have its
   size), default arguments for the rest *)
Fixpoint bind_params (e : env) (ps : list cparam) (args : list (list ascii)) : option venv :=
  match ps with
  | [] => match args with [] => Some [] | _ => None end
  | p :: ps' =>
      match args with
      | a :: args' =>
          match sizeof e (cp_ty p) with
          | Some sz =>
              if (N.of_nat (length a) =? sz)%N
              then match bind_params e ps' args' with
                   | Some v => Some ((cp_name p, (cp_ty p, a)) :: v)
                   | None => None
                   end
              else None
          | None => None
          end
      | [] =>
          match cp_default p with
          | None => None
          | Some d =>
              match agg_init e [] (cp_ty p) d, bind_params e ps' [] with
              | Some b, Some v => Some ((cp_name p, (cp_ty p, b)) :: v)
              | _, _ => None
              end
          end
      end
  end.

Definition find_factory (g : cprog) (name : string) : option cfactory :=
  find (fun f => String.eqb (cf_name f) name) (cg_factories g).

(* bytes of the object returned by  name(args...)  *)
Definition call (g : cprog) (name : string) (args : list (list ascii)) : option (list ascii) :=
  match build_env [] (cg_decls g), find_factory g name with
  | Some e, Some f =>
      match bind_params e (cf_params f) args with
      | Some v => agg_init e v (cf_ret f) (cf_body f)
      | None => None
      end
  | _, _ => None
  end.

Definition layout_of (g : cprog) (name : string) : option sinfo :=
  match build_env [] (cg_decls g) with
  | Some e => lookup name e
  | None => None
  end.
