(* What the models KNOW of the generator's interaction with its environment.  The translator (translator/inventory.py)
   lists what the code DOES (Gen/Inventory.v); Proofs/InventoryProofs.v shows scanned <= known on every run. *)
From Coq Require Import String List Bool.
From KV Require Import Lib.Str.
Import ListNotations.
Open Scope string_scope.

Definition triple := (string * (string * string))%type.
Definition t3 (m f w : string) : triple := (m, (f, w)).

Definition triple_eqb (a b : triple) : bool :=
  String.eqb (fst a) (fst b) && String.eqb (fst (snd a)) (fst (snd b)) && String.eqb (snd (snd a)) (snd (snd b)).

Definition closed (scanned known : list triple) : bool :=
  forallb (fun x => existsb (triple_eqb x) known) scanned.

(* ---------------------------------------------------------------- file-system mutations (C05)
   how the output model (Model/Output.v) accounts for each: *)
Definition known_fs_mutations : list triple := [
  (* creates the output directory when it does not exist: no file is touched *)
  t3 "cgen" "CGenerator.__init__" "os.makedirs";
  (* createoutput = job_ops: Mkdirs / OpenTrunc tmp / WriteBuf tmp / CloseFlush tmp / Rename tmp target; Remove tmp on error *)
  t3 "cgen" "CGenerator.createoutput" "os.makedirs";
  t3 "cgen" "CGenerator.createoutput" "open:w";
  t3 "cgen" "CGenerator.createoutput" "os.replace";
  t3 "cgen" "CGenerator.createoutput" "os.remove";
  (* FileCopyUtil = copy_jobs: shutil.copy to the temporary sibling, then Rename *)
  t3 "cgen" "FileCopyUtil" "os.makedirs";
  t3 "cgen" "FileCopyUtil" "shutil.copy";
  t3 "cgen" "FileCopyUtil" "os.replace";
  (* FileSync: the destination is written to its temporary sibling and renamed (one job) *)
  t3 "cgen" "FilePreservationSyncUtil" "open:w";
  t3 "cgen" "FilePreservationSyncUtil" "os.replace"
].

(* ---------------------------------------------------------------- environment reads (C06)
   why each cannot influence the generated tree: *)
Definition known_env_reads : list triple := [
  (* package location: only used to find the shipped templates / framework files, which are inputs *)
  t3 "Generate" "Protocol" "__file__"; t3 "Generate" "Protocol" "os.path.abspath";
  t3 "Generate" "StateMachine" "__file__"; t3 "Generate" "StateMachine" "os.path.abspath";
  t3 "Generate" "StateMachine_CSHARP" "__file__"; t3 "Generate" "StateMachine_CSHARP" "os.path.abspath";
  t3 "Generate" "StateMachine_PYTHON" "__file__"; t3 "Generate" "StateMachine_PYTHON" "os.path.abspath";
  t3 "Install" "getUserTemplateRoot" "__file__"; t3 "Install" "getUserTemplateRoot" "os.path.abspath";
  t3 "protogen" "CopyFrameworkFiles_CPP" "__file__"; t3 "protogen" "CopyFrameworkFiles_CPP" "os.path.abspath";
  t3 "umlgen" "CUMLGenerator.__init__" "__file__"; t3 "umlgen" "CUMLGenerator.__init__" "os.path.abspath";
  (* only with a user template directory (outside "with the shipped templates") *)
  t3 "Install" "ContainsTemplates" "os.walk";
  (* emptiness tests *)
  t3 "cgen" "CGenerator.__init__" "os.listdir";
  t3 "preservative" "Preservative.__init__" "os.listdir";
  (* directory-mode collection: not used by the entry points (they preserve file by file) *)
  t3 "preservative" "Preservative.Collect" "os.walk";
  (* clock / platform: substituted only into <<<DATETIME>>> / <<<PLATFORM>>>, which no shipped template uses
     (InventoryProofs.datetime_platform_unused, a finite obligation over Gen/Templates.v) *)
  t3 "cgen" "CGenerator.loadtemplates_firstfiltering" "datetime.datetime";
  t3 "cgen" "CGenerator.loadtemplates_firstfiltering" "datetime.datetime.fromtimestamp";
  t3 "cgen" "CGenerator.loadtemplates_firstfiltering" "time.time";
  t3 "cgen" "CGenerator.loadtemplates_firstfiltering" "sys.platform";
  t3 "cgen" "CGenerator.loadtemplates_firstfiltering" "sys.version";
  (* listing order of the template folder: only the ORDER of the code model depends on it
     (OutputProofs/PreserveTop: regen_permutation_invariant) *)
  t3 "cgen" "CGenerator.loadtemplates_firstfiltering" "os.walk";
  (* printed only *)
  t3 "cgen" "FilePreservationSyncUtil" "__file__"; t3 "cgen" "FilePreservationSyncUtil" "os.path.realpath";
  t3 "smgen" "CStateMachineGenerator.Generate" "os.path.realpath";
  t3 "umlgen" "Generate" "__file__"; t3 "umlgen" "Generate" "os.path.realpath";
  (* package location (framework files) and resolution of the output directory against the cwd: same resolved location *)
  t3 "smgen" "CStateMachineGenerator.Generate" "__file__"; t3 "smgen" "CStateMachineGenerator.Generate" "os.path.abspath";
  t3 "umlgen" "CUMLGenerator.update_filename_path_from_namespace" "os.path.sep";
  (* sets of type / namespace names: every such set is converted with sorted(...) before it is iterated
     (translator/setorder.py checks the shape of the source; differential runs under different PYTHONHASHSEED) *)
  t3 "umlgen" "CUMLGenerator.loadtemplates_firstfiltering" "set()";
  t3 "vppclassdiagram" "Class.GetForwardDeclarableNonPrimitiveTypesLinkedToThis" "set()";
  t3 "vppclassdiagram" "Class.GetNotForwardDeclarableNonPrimitiveTypesLinkedToThis" "set()";
  t3 "vppclassdiagram" "ClassDiagram.GetNamespaceDependencies" "set()";
  (* the signatures an element declares itself: a set used for membership tests only, never iterated
     (translator/setorder.py refuses any other use; Gen/SetOrder.membership_only_set_functions) *)
  t3 "LanguageCPP" "LanguageCPP.GetOperationPerVisibility" "set()";
  t3 "LanguageCsharp" "LanguageCsharp.GetOperationPerVisibility" "set()";
  (* a module-level constant set used for membership tests only *)
  t3 "vppclassdiagram" "<module>" "set-literal"
].

(* ---------------------------------------------------------------- process state (C06: a generation depends on nothing an earlier
   generation of the same interpreter left behind).  Every module-level / class-level binding to a mutable container, every
   `global`, every decorator (memoisation), every mutable default argument and every attribute stored on a class object in the
   generator's modules is one of: *)
Definition known_process_state : list triple := [
  (* written by Language.__init__ (the most recent back end object), read nowhere *)
  t3 "Language" "<function>" "class-attribute:Language.Lang";
  (* the set of primitive type names: a constant, only used for membership tests (the `global` declaration is in the reader) *)
  t3 "vppclassdiagram" "<module>" "mutable:PRIMITIVES";
  t3 "vppclassdiagram" "<function>" "global:PRIMITIVES";
  (* cursor of the recursive blob parser: assigned from the argument at every entry of ParseBLOB_Recursive before it is read *)
  t3 "vppfs" "<function>" "global:index_PBR"
].
