(* Statement kinds of the lines of statemachine_templates_py/TEMPLATEStateMachine.py that decide the behaviour of
   the generated machine (constructor tail and the "State Processing" section).  Gen/PyTmpl.v (written by
   translator/pytmpl.py from the template as it is now) is a list of (indentation, kind). *)
From Coq Require Import String List Bool Arith.

Inductive pk :=
| KBegin (lvl : nat) | KEnd (lvl : nat)   (* 1 PER_STATETRANSITION, 2 PER_EVENTTRANSITION, 3 PER_GUARDTRANSITION *)
| KDefInit          (* def __init__(self, controller): *)
| KInitEntry        (* self.context.On<<<STATE_0>>>Entry(EventStartup()) *)
| KInitState        (* self.currentState = ...StateId.c<<<STATE_0>>> *)
| KDefProcess       (* def process(self, event) -> None: *)
| KDefProcessState  (* def process<<<STATENAME>>>(self, event) -> None: *)
| KIfState          (* if self.currentState == ...StateId.c<<<STATENAME>>>: *)
| KCallState        (* self.process<<<STATENAME>>>(event) *)
| KReturn
| KIfEvent          (* if isinstance(event, <<<EVENTNAME>>>): *)
| KIfGuard (alt_true : bool)  (* if self.context.<<<GUARDNAME>>>(event):   alt_true: the tag carries the alternative text "if True:" *)
| KExit             (* self.context.On<<<STATENAMEIFNEXTSTATE>>>Exit(event) *)
| KAction           (* self.context.<<<ACTIONNAME>>>(event) *)
| KEntry            (* self.context.On<<<NEXTSTATENAME>>>Entry(event) *)
| KSetState         (* self.currentState = ...StateId.c<<<NEXTSTATENAME>>> *)
| KNoTrans          (* self.context.NoTransition(event) *)
| KSkip.            (* blank line, comment, print(...) *)
