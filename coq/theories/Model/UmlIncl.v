(* Model of the INCLUDE / FORWARD-DECLARATION computation of the UML class generator:
   vppclassdiagram.Class.GetNotForwardDeclarableNonPrimitiveTypesLinkedToThis / GetForwardDeclarableNonPrimitiveTypesLinkedToThis /
   DoAttributesAssociationsReturnTypesOrFunctionParametersRequireVector, ClassDiagram.GetNamespaceDependencies, and LanguageCPP's
   GetNotForwardDeclarableHeaderIncludes / GetForwardDeclarableHeaderIncludes / GetForwardDeclarations with their helpers
   (_getNamespaceToClassesFromFullyQualifiedNames, _filterOutTypesNotInModel, _getIncludeStringFromNamespaceToClassMap).
   These work on the RAW type texts of the diagram (fully qualified names such as XFullStack::XProtocol::CPacket, modifiers,
   multiplicities), not on the rendered ones of Model/Uml.v: idiagram carries them.  No proofs here. *)
From Coq Require Import String Ascii List Bool Arith.
From KV Require Import Lib.Str Lib.ODict Model.Vpp Model.Uml Model.UmlBlob Gen.UmlInclSrc.
Import ListNotations.
Open Scope string_scope.

(* a typed thing: an attribute or a parameter (type, modifier, multiplicity) *)
Record ityped := { it_type : string; it_mod : string; it_mult : string }.
Record iop := { io_ret : string; io_retmod : string; io_params : list ityped }.
Record icls := { ic_id : string; ic_name : string; ic_ns : string; ic_pure : bool; ic_attrs : list ityped; ic_ops : list iop }.
Record iinh := { ii_to : string; ii_from_id : string; ii_from : string; ii_real : bool }.      (* CLASS_TO_ID, CLASS_FROM_ID, CLASS_FROM *)
Record iassoc := { ix_type : string; ix_from_id : string; ix_from : string; ix_to_id : string; ix_to : string;
                   ix_from_mult : string; ix_to_mult : string }.
Record idiagram := { i_classes : list icls; i_inhs : list iinh; i_assocs : list iassoc }.

Fixpoint find_icls (cs : list icls) (id : string) : option icls :=
  match cs with [] => None | c :: r => if String.eqb (ic_id c) id then Some c else find_icls r id end.

(* IsTypePrimitive / IsTypePointerOrRef *)
Definition is_primitive (t : string) : bool := existsb (String.eqb (clean_modifiers t)) primitives.
Definition ptr_or_ref (m : string) : bool := contains "*" m || contains "&" m.

(* a Python set of strings, as the list of its elements in order of first insertion; sorted(set) *)
Fixpoint dedupe (l : list string) (seen : list string) : list string :=
  match l with
  | [] => []
  | x :: r => if existsb (String.eqb x) seen then dedupe r seen else x :: dedupe r (x :: seen)
  end.
Fixpoint insert_sorted (x : string) (l : list string) : list string :=
  match l with [] => [x] | y :: r => if String.leb x y then x :: l else y :: insert_sorted x r end.
Fixpoint sort_strings (l : list string) : list string := match l with [] => [] | x :: r => insert_sorted x (sort_strings r) end.
Definition sorted_set (l : list string) : list string := sort_strings (dedupe l []).

(* the value / pointer uses among attributes, parameters and return types *)
Definition typed_of (c : icls) : list ityped :=
  (ic_attrs c ++ flat_map (fun o => io_params o ++ [{| it_type := io_ret o; it_mod := io_retmod o; it_mult := "" |}]) (ic_ops c))%list.
(* the code visits attributes, then per operation its parameters and its return type: the order is irrelevant for a set *)
Definition value_types (c : icls) : list string :=
  map it_type (filter (fun t => negb (is_primitive (it_type t)) && negb (ptr_or_ref (it_mod t))) (typed_of c)).
Definition pointer_types (c : icls) : list string :=
  map it_type (filter (fun t => negb (is_primitive (it_type t)) && ptr_or_ref (it_mod t)) (typed_of c)).

(* GetNotForwardDeclarableNonPrimitiveTypesLinkedToThis: base classes / realised interfaces, value members, value parameters and
   returns, composition targets *)
Definition nfd_raw (d : idiagram) (c : icls) : list string :=
  (map ii_from (filter (fun i => contains (ic_id c) (ii_to i) && negb (is_primitive (ii_from i))) (i_inhs d))
   ++ value_types c
   ++ map ix_to (filter (fun x => String.eqb (ix_from_id x) (ic_id c) && contains "composition" (lower (ix_type x))
                                  && negb (is_primitive (ix_to x))) (i_assocs d)))%list.
Definition nfd (d : idiagram) (c : icls) : list string := sorted_set (nfd_raw d c).

(* GetForwardDeclarableNonPrimitiveTypesLinkedToThis: pointer / reference members, parameters, returns, association and
   aggregation ends -- minus what is also used by value among members, parameters and returns *)
Definition assoc_pointers (d : idiagram) (c : icls) : list string :=
  flat_map (fun x =>
              ((if contains "association" (lower (ix_type x)) then
                  (if String.eqb (ix_from_id x) (ic_id c) then (if is_primitive (ix_to x) then [] else [ix_to x])
                   else if String.eqb (ix_to_id x) (ic_id c) then (if is_primitive (ix_from x) then [] else [ix_from x])
                   else [])
                else [])
               ++ (if contains "aggregation" (lower (ix_type x)) && String.eqb (ix_from_id x) (ic_id c) && negb (is_primitive (ix_to x))
                   then [ix_to x] else []))%list) (i_assocs d).
Definition fd_raw (d : idiagram) (c : icls) : list string :=
  filter (fun t => negb (existsb (String.eqb t) (value_types c))) (pointer_types c ++ assoc_pointers d c)%list.
Definition fd (d : idiagram) (c : icls) : list string := sorted_set (fd_raw d c).

(* ---------------------------------------------------------------- <vector> *)

(* the multiplicities of the association ends GetAssociationsAsListOfAttributesPerVisibility("all") turns into members of c *)
Definition assoc_member_mults (d : idiagram) (c : icls) : list string :=
  flat_map (fun x =>
              let t := lower (ix_type x) in
              ((if contains "composition" t && String.eqb (ix_from_id x) (ic_id c) && negb (is_primitive (ix_to x)) then [ix_from_mult x] else [])
               ++ (if contains "association" t then
                     ((if String.eqb (ix_from_id x) (ic_id c) && negb (is_primitive (ix_to x)) then [ix_from_mult x] else [])
                      ++ (if String.eqb (ix_to_id x) (ic_id c) && negb (is_primitive (ix_from x)) then [ix_to_mult x] else []))%list
                   else [])
               ++ (if contains "aggregation" t && String.eqb (ix_from_id x) (ic_id c) && negb (is_primitive (ix_to x)) then [ix_from_mult x] else []))%list)
           (i_assocs d).

Definition is_vector (mult : string) : bool := contains "vector" (container_type mult).
Definition own_vector (d : idiagram) (c : icls) : bool :=
  existsb (fun a => is_vector (it_mult a)) (ic_attrs c)
  || existsb is_vector (assoc_member_mults d c)
  || existsb (fun o => existsb (fun p => is_vector (it_mult p)) (io_params o) || contains "[]" (py_strip (io_retmod o))) (ic_ops c).

(* DoAttributesAssociationsReturnTypesOrFunctionParametersRequireVector: own members, or those of a REALISED pure virtual
   interface (recursively); classes[CLASS_FROM_ID] must exist (KeyError = None); `has or <recursive call>` is not evaluated
   when has is already true *)
Fixpoint requires_vector (fuel : nat) (d : idiagram) (c : icls) : option bool :=
  match fuel with
  | O => None
  | S f =>
      fold_left (fun (acc : option bool) (i : iinh) =>
                   match acc with
                   | None => None
                   | Some hv =>
                       if contains (ic_id c) (ii_to i) && ii_real i then
                         match find_icls (i_classes d) (ii_from_id i) with
                         | None => None
                         | Some p => if ic_pure p then (if hv then Some true else requires_vector f d p) else Some hv
                         end
                       else Some hv
                   end) (i_inhs d) (Some (own_vector d c))
  end.

(* ---------------------------------------------------------------- includes *)

(* dict[ns].append(name) *)
Fixpoint group_add (k v : string) (m : list (string * list string)) : list (string * list string) :=
  match m with
  | [] => [(k, [v])]
  | (k', vs) :: r => if String.eqb k k' then (k', vs ++ [v])%list :: r else (k', vs) :: group_add k v r
  end.

(* _getNamespaceToClassesFromFullyQualifiedNames(classObj, names, is_file_include) *)
Definition ns_to_classes (is_include : bool) (cns : string) (names : list string) : list (string * list string) :=
  fold_left (fun m f =>
               (* only the LEADING namespace of the including class is removed (nothing for a class without namespace), and the class
                  name is cut off at the END: include paths repaired, K-C19-11 *)
               let f' := if is_include && negb (String.eqb cns "") && prefixb (cns ++ "::") f
                         then substring (String.length cns + 2) (String.length f - (String.length cns + 2)) f else f in
               let last := last (split2 ":" ":" f') "" in
               let ns := substring 0 (String.length f' - String.length last) f' in
               let ns' := if is_include then replace_all "::" "/" ns else rstrip_char ":" ns in
               group_add ns' last m) names [].

(* _filterOutTypesNotInModel: a name stays once for every class of the diagram that has this NAME *)
Definition filter_in_model (d : idiagram) (m : list (string * list string)) : list (string * list string) :=
  flat_map (fun kv =>
              let keep := flat_map (fun n => map (fun _ => n) (filter (fun pc => String.eqb (ic_name pc) n) (i_classes d))) (snd kv) in
              match keep with [] => [] | _ => [(fst kv, keep)] end) m.

(* _getIncludeStringFromNamespaceToClassMap, one line per entry *)
Definition include_lines (nsf : bool) (m : list (string * list string)) : list string :=
  flat_map (fun kv => map (fun n => "#include " ++ String DQ ((if nsf then fst kv else "") ++ n ++ ".h" ++ String DQ "")) (snd kv)) m.

(* <<<NOT_FORWARD_DECLARABLE_HEADER_INCLUDES>>> of a class / interface / struct header *)
Definition header_includes (fuel : nat) (nsf : bool) (d : idiagram) (c : icls) : option (list string) :=
  match requires_vector fuel d c with
  | None => None
  | Some v => Some (include_lines nsf (filter_in_model d (ns_to_classes true (ic_ns c) (nfd d c))) ++ (if v then ["#include <vector>"] else []))%list
  end.

(* <<<FORWARD_DECLARABLE_HEADER_INCLUDES>>> of a class's source file *)
Definition source_includes (nsf : bool) (d : idiagram) (c : icls) : list string :=
  include_lines nsf (filter_in_model d (ns_to_classes true (ic_ns c) (fd d c))).

(* <<<FORWARD_DECLARATIONS>>>: per namespace, in order of first occurrence *)
Definition ns_close (ns : string) : string := lstrip (String.concat "" (map (fun _ => " } ") (split2 ":" ":" ns))).
Definition forward_decls (d : idiagram) (c : icls) : list string :=
  match flat_map (fun kv : string * list string =>
                    (ns_begin (fst kv) :: map (fun k : string => ("    class " ++ k ++ ";")%string) (snd kv) ++ [ns_close (fst kv)])%list)
                 (ns_to_classes false (ic_ns c) (fd d c)) with
  | [] => []
  | ls => ("// Begin Forward declarations" :: ls ++ ["// End Forward declarations"])%list
  end.

(* ---------------------------------------------------------------- ClassDiagram.GetNamespaceDependencies *)

Fixpoint rpart_ns (parts : list string) : string :=          (* s.rpartition("::")[0] from s.split("::") *)
  match parts with [] | [_] => "" | x :: (_ :: _) as r => match r with [_] => x | _ => x ++ "::" ++ rpart_ns r end end.

Definition ns_add_deps (d : idiagram) (m : list (string * list string)) (c : icls) : list (string * list string) :=
  let ns := ic_ns c in
  let m0 := match lookup String.eqb ns m with Some _ => m | None => (m ++ [(ns, [])])%list end in
  let deps := map (fun s => rpart_ns (split2 ":" ":" s)) (filter (fun s => negb (contains ns s)) (nfd d c ++ fd d c)%list) in
  map (fun kv => if String.eqb (fst kv) ns then (fst kv, (snd kv ++ deps)%list) else kv) m0.
Definition namespace_deps (d : idiagram) : list (string * list string) :=
  map (fun kv => (fst kv, sorted_set (snd kv))) (fold_left (ns_add_deps d) (i_classes d) []).

(* ---------------------------------------------------------------- specification side (what an include must be) *)

(* the fully qualified name under which the diagram's texts refer to a class *)
Definition qname (k : icls) : string := if String.eqb (ic_ns k) "" then ic_name k else ic_ns k ++ "::" ++ ic_name k.

(* the namespace of k as seen from the folder of c: nothing when it is c's namespace, the remainder when it is nested in c's,
   the whole namespace (from the root of the output) otherwise *)
Definition rel_namespace (c k : icls) : string :=
  if String.eqb (ic_ns k) (ic_ns c) then ""
  else if negb (String.eqb (ic_ns c) "") && prefixb (ic_ns c ++ "::") (ic_ns k)
       then substring (String.length (ic_ns c) + 2) (String.length (ic_ns k) - (String.length (ic_ns c) + 2)) (ic_ns k)
       else ic_ns k.
Definition spec_include (nsf : bool) (c k : icls) : string :=
  "#include " ++ String DQ ((if nsf && negb (String.eqb (rel_namespace c k) "") then replace_all "::" "/" (rel_namespace c k) ++ "/" else "")
                            ++ ic_name k ++ ".h" ++ String DQ "").

(* names the path computation can work with: class names non-empty without ':', namespaces without ':' at their ends and
   without empty components *)
Definition incl_name_ok (k : icls) : bool :=
  no_char ":" (ic_name k) && negb (String.eqb (ic_name k) "")
  && forallb (fun p => no_char ":" p && negb (String.eqb p "")) (if String.eqb (ic_ns k) "" then [] else split2 ":" ":" (ic_ns k)).
Definition incl_names_ok (d : idiagram) : bool := forallb incl_name_ok (i_classes d).

(* ---------------------------------------------------------------- the raw diagram of the objects read from a project file *)

Definition ityped_of_attr (a : rattr) : ityped := {| it_type := ra_type a; it_mod := ra_mod a; it_mult := ra_mult a |}.
Definition ityped_of_param (p : rparam) : ityped := {| it_type := rp_type p; it_mod := rp_modifier p; it_mult := rp_mult p |}.
Definition iop_of (o : rop) : iop := {| io_ret := ro_ret o; io_retmod := ro_retmod o; io_params := map ityped_of_param (ro_params o) |}.
Definition icls_of (c : rclass) : icls :=
  {| ic_id := rc_id c; ic_name := rc_name c; ic_ns := rc_ns c; ic_pure := rc_pure c; ic_attrs := map ityped_of_attr (rc_attrs c);
     ic_ops := map iop_of (rc_ops c) |}.
Definition to_idiagram (r : rdiagram) : idiagram :=
  {| i_classes := map (fun kc => icls_of (snd kc)) (rd_classes r);
     i_inhs := map (fun ki => {| ii_to := ri_to_id (snd ki); ii_from_id := ri_from_id (snd ki); ii_from := ri_from (snd ki); ii_real := ri_real (snd ki) |}) (rd_inhs r);
     i_assocs := map (fun ka => {| ix_type := as_type (snd ka); ix_from_id := as_from_id (snd ka); ix_from := as_from (snd ka); ix_to_id := as_to_id (snd ka);
                                   ix_to := as_to (snd ka); ix_from_mult := as_from_mult (snd ka); ix_to_mult := as_to_mult (snd ka) |}) (rd_assocs r) |}.
Definition adaptor_incl (d : db) (name : string) : option idiagram := r <- load_cdiagram d name ;; Some (to_idiagram r).
