(* The ASSUMED Visual Paradigm writer for class diagrams: how classes, packages, generalisations / realisations and
   associations are laid out in MODEL_ELEMENT blobs.  Not code of kojen; calibrated on the shipped project
   (Proofs/UmlBlobCalib.v: print of the structured blobs read off kojen/test/blob.xml reproduces the stored bytes).

   A blob is a structured tree:  <id>:<"name"|NULL>:<Type> { item ... item tail }  with items
     IField ws k v            ws k=v;                         a scalar property (v as written: "text", T, 71, NULL)
     IRefs ws k o sep c ids   ws k=o<id>sep<id>...c;          references: inline  k=<a:b>;  or a list  k=(<a>, <b>);
     IChildren ws k o sep c ns  ws k=o{node}sep{node}...c;    owned elements (operations, attributes, parameters, views ...)
     IRaw s                   s                               any brace-free text (e.g. pieces of an HTML documentation)
     IInert s                 {s}                             a braced piece of free text (CSS in an HTML documentation)
   in ANY order.  No proofs here. *)
From Coq Require Import String Ascii List Bool Arith.
From KV Require Import Lib.Str Lib.ODict Model.Vpp Model.VppWriter.
Import ListNotations.
Open Scope string_scope.

Inductive witem :=
| IField (ws k v : string)
| IRefs (ws k o sep c : string) (ids : list string)
| IChildren (ws k o sep c : string) (nodes : list wnode)
| IRaw (s : string)
| IInert (s : string)
with wnode := WNode (id : string) (name : option string) (ty : string) (items : list witem) (tail : string).

Definition refs_text (sep : string) (ids : list string) : string :=
  (fix go (l : list string) : string :=
     match l with [] => "" | [i] => "<" ++ i ++ ">" | i :: r => "<" ++ i ++ ">" ++ sep ++ go r end) ids.

Fixpoint print_node (n : wnode) : string :=
  match n with
  | WNode id nm ty its tl =>
      id ++ ":" ++ qname nm ++ ":" ++ ty ++ " {" ++
      (fix items (l : list witem) : string := match l with [] => "" | it :: r => print_item it ++ items r end) its
      ++ tl ++ "}"
  end
with print_item (it : witem) : string :=
  match it with
  | IField ws k v => ws ++ k ++ "=" ++ v ++ ";"
  | IRefs ws k o sep c ids => ws ++ k ++ "=" ++ o ++ refs_text sep ids ++ c ++ ";"
  | IChildren ws k o sep c ns =>
      ws ++ k ++ "=" ++ o ++
      (fix nodes (l : list wnode) : string :=
         match l with [] => "" | [n] => "{" ++ print_node n ++ "}" | n :: r => "{" ++ print_node n ++ "}" ++ sep ++ nodes r end) ns
      ++ c ++ ";"
  | IRaw s => s
  | IInert s => "{" ++ s ++ "}"
  end.

(* a MODEL_ELEMENT row whose DEFINITION is a structured blob *)
Record welem := { we_parent : option string; we_node : wnode }.

Definition node_id (n : wnode) : string := match n with WNode id _ _ _ _ => id end.
Definition node_name (n : wnode) : option string := match n with WNode _ nm _ _ _ => nm end.
Definition node_type (n : wnode) : string := match n with WNode _ _ ty _ _ => ty end.
Definition node_items (n : wnode) : list witem := match n with WNode _ _ _ its _ => its end.

Definition melem_of_welem (e : welem) : melem :=
  {| me_id := node_id (we_node e); me_type := node_type (we_node e); me_parent := we_parent e; me_name := node_name (we_node e);
     me_blob := print_node (we_node e) |}.

(* a class diagram of a project: the shapes drawn on it (shape id, element) in DIAGRAM_ELEMENT order, and the other
   elements its blobs refer to (stereotypes, data types, enclosing model) *)
Record wdiagram := { wd_id : string; wd_name : string; wd_drawn : list (string * welem); wd_referenced : list welem }.

Definition cdiagram_row (W : wdiagram) : diag := {| dg_id := wd_id W; dg_type := "ClassDiagram"; dg_name := wd_name W |}.
Definition cdelem_rows (W : wdiagram) : list delem :=
  map (fun se => {| de_id := fst se; de_shape := node_type (we_node (snd se)); de_diagram := wd_id W;
                    de_model := Some (node_id (we_node (snd se))) |}) (wd_drawn W).
Definition cmelem_rows (W : wdiagram) : list melem :=
  (map (fun se => melem_of_welem (snd se)) (wd_drawn W) ++ map melem_of_welem (wd_referenced W))%list.

Definition encode_cdiagram (W : wdiagram) : db :=
  {| db_diagrams := [cdiagram_row W]; db_delems := cdelem_rows W; db_melems := cmelem_rows W |}.

(* a project that contains W: as Model/VppWriter.hosts, for class diagrams *)
Definition chosts (d : db) (W : wdiagram) : bool :=
  nodupb (map dg_id (db_diagrams d))
  && match find (fun g => String.eqb (dg_type g) "ClassDiagram" && String.eqb (dg_name g) (wd_name W)) (db_diagrams d) with
     | Some g => String.eqb (dg_id g) (wd_id W)
     | None => false
     end
  && list_eqb delem_eqb (filter (fun e => String.eqb (de_diagram e) (wd_id W)) (db_delems d)) (cdelem_rows W)
  && forallb (fun m => match row_with_id (db_melems d) (me_id m) with Some m' => melem_eqb m' m | None => false end)
             (cmelem_rows W).
