(* The template grammar of C17 as boolean predicates (extracted; the harness generator uses them as acceptance test, so the
   tested and the proved domain are the same object).

   in_grammar17 t       conditions on the template alone
   wf_assign17 t a      conditions on the template together with an assignment of user tags

   Two kinds of conditions:
   (S) syntactic: tag names, defaults and values contain neither '<' nor '>', names contain no '='; literal text contains no
       "<<<" and does not begin with '<' (lit_ok);
   (C) classification: every rendered template line is classified by the engine's own substring tests
       (hasSpecificTag = "has some tag" and "contains the keyword anywhere") as what it is meant to be.  These are the
       engine's substring quirks: a line that fails (C) is treated by the engine as something else (e.g. a plain line
       containing the letters IF next to a tag starts a conditional block).
   No proofs in this file. *)
From Coq Require Import String Ascii List Bool Arith.
From KV Require Import Lib.Str Lib.StrOps Lib.ODict Gen.Tags Gen.Pipeline Model.Engine Model.EngineSM Spec.RefExpand.
Import ListNotations.
Open Scope string_scope.
Open Scope list_scope.

Fixpoint no_lg (s : string) : bool :=
  match s with EmptyString => true | String c r => negb (is_lg c) && no_lg r end.

(* Literal text may contain '<' and '>'.  What the engine's tag scanner (tag_pattern = <<<[^<>]*>>>, str.replace of <<<k>>>)
   needs is that no tag-shaped text arises in a literal or across a literal / literal or literal / tag boundary, before and
   after substitution.  The criterion used (sufficient, self-contained per literal, closed under concatenation and under the
   substitution of '<' '>'-free values for tags): a literal contains no "<<<" and does not begin with '<'.  It may end in
   '<' or "<<" directly before a tag ("Exit<<<<STATENAME>>>>()": the scanner's match starts at the second '<', exactly as
   re.findall / str.replace do), may begin with '>' directly after one, and '>' is unrestricted. *)
Fixpoint no3 (s : string) : bool :=
  match s with EmptyString => true | String _ r => negb (prefixb OPEN3 s) && no3 r end.
Definition starts_lt (p : string) : bool := match p with String c _ => Ascii.eqb c LT | EmptyString => false end.
Definition lit_ok (s : string) : bool := negb (starts_lt s) && no3 s.

Definition seg_ok (g : seg) : bool :=
  match g with
  | Lit s => lit_ok s
  | Tag n None => no_lg n && negb (has_char EQ n)
  | Tag n (Some d) => no_lg n && negb (has_char EQ n) && no_lg d
  end.
Definition line_ok (l : uline) : bool := forallb seg_ok l.

(* ---- the tags replaced by the first filtering (keys of dict_to_replace_lines) *)
Definition first_filter_tags : list string :=
  map ctag ["__TAG_DATETIME__"; "__TAG_PLATFORM__"]
  ++ map stag ["__TAG_SM_NAME_UPPER__"; "__TAG_SM_NAME_SMALL_CAMEL__"; "__TAG_SM_NAME_SNAKE__"; "__TAG_SM_NAME__";
               "__TAG_CLASS_NAME__"; "__TAG_CLASS_NAME_SNAKE__"; "__TAG_PyIFGen_NAME__"; "__TAG_NAMESPACE__"; "__TAG_AUTHOR__";
               "__TAG_GROUP__"; "__TAG_BRIEF__"; "__TAG_DECLSPEC_DLL_EXPORT__"; "__TAG_ENUMERATIONS__"].

Definition dict_ok (dict : list (string * string)) : bool :=
  forallb (fun tv => existsb (String.eqb (fst tv)) first_filter_tags) dict.

(* a line the first filtering leaves alone *)
Definition load_inert (l : string) : bool :=
  negb (hasSpecificTag l TAG_EXTENDS) && negb (hasSpecificTag l TAG_EXCLUDE)
  && forallb (fun t => negb (contains t l)) first_filter_tags
  && (count_char LF l <=? 1)%nat.

(* a line no stage of expand_secondfiltering touches *)
Definition stage_inert (l : string) (st : stage) : bool :=
  let '(kind, b, e, _, _) := st in
  if String.eqb kind "Init" then forallb (fun tv => negb (contains (fst tv) l)) init_state_tags
  else if String.eqb kind "Single" then negb (hasSpecificTag l b)
  else negb (hasSpecificTag l b) && negb (hasSpecificTag l e).
Definition expand_inert (l : string) : bool := forallb (stage_inert l) (second_stages ++ second_stages_iface).

(* a line that do_user_tags treats as ordinary text, inside and outside an IF block *)
Definition ut_plain (l : string) : bool :=
  forallb (fun t => negb (hasSpecificTag l t)) [TAG_IF; TAG_ELSEIF; TAG_ELSE; TAG_ENDIF; TAG_FOR_BEGIN].

(* a line that do_for passes through *)
Definition for_plain (l : string) : bool :=
  negb (hasSpecificTag l TAG_FOR_BEGIN) && negb (hasSpecificTag l TAG_FOR_END).

Definition if_line_ok (l t : string) : bool :=
  hasSpecificTag l TAG_IF && negb (hasSpecificTag l TAG_FOR_BEGIN) && String.eqb (snd (extractDefaultAndTag l SP)) t.
Definition elseif_line_ok (l t : string) : bool :=
  hasSpecificTag l TAG_ELSEIF && negb (hasSpecificTag l TAG_ENDIF) && String.eqb (snd (extractDefaultAndTag l SP)) t.
Definition for_hdr_line_ok (l : string) : bool :=
  hasSpecificTag l TAG_FOR_BEGIN && negb (hasSpecificTag l TAG_IF).

Definition common_inert (l : string) : bool := load_inert l && expand_inert l.

Definition plain_line_ok (l : uline) : bool :=
  line_ok l && common_inert (render_line l) && ut_plain (render_line l).

Definition branch_ok (kw : string -> string) (chk : string -> string -> bool) (b : string * list uline) : bool :=
  common_inert (kw (fst b)) && chk (kw (fst b)) (fst b) && forallb plain_line_ok (snd b).

Definition hdr_ok (h : fhdr) : bool :=
  match h with
  | HLit s => no_lg s
  | HTag n d => seg_ok (Tag n d)
  end.

Definition item_ok (it : item) : bool :=
  match it with
  | Plain l => plain_line_ok l
  | Cond b elifs els =>
      branch_ok render_if if_line_ok b && forallb (branch_ok render_elseif elseif_line_ok) elifs
      && match els with Some ls => forallb plain_line_ok ls | None => true end
  | For h body =>
      hdr_ok h && common_inert (render_hdr h) && for_hdr_line_ok (render_hdr h) && forallb plain_line_ok body
      && forallb (fun l => negb (mentions "FIRST" l && mentions "LAST" l)) body
  end.

Fixpoint list_eqb (a b : list string) : bool :=
  match a, b with
  | [], [] => true
  | x :: r, y :: s => String.eqb x y && list_eqb r s
  | _, _ => false
  end.

(* the constant control lines are what the engine takes them for (closed terms: decided once by computation) *)
Definition constants_ok : bool :=
  common_inert render_else && common_inert render_endif && common_inert render_for_end
  && hasSpecificTag render_else TAG_ELSE && negb (hasSpecificTag render_else TAG_ELSEIF) && negb (hasSpecificTag render_else TAG_ENDIF)
  && hasSpecificTag render_endif TAG_ENDIF && negb (hasSpecificTag render_endif TAG_ELSEIF) && negb (hasSpecificTag render_endif TAG_ELSE)
  && ut_plain render_for_end
  && hasSpecificTag render_for_end TAG_FOR_END && negb (hasSpecificTag render_for_end TAG_FOR_BEGIN).

Definition in_grammar17 (t : template) : bool :=
  constants_ok && forallb item_ok t
  && list_eqb (filter_multiple_newlines (render t)) (render t).     (* blank-run collapse is C16's clause *)

(* ---------------------------------------------------------------- template + assignment *)
Definition assign_ok (a : assign) : bool :=
  forallb (fun kv => no_lg (snd kv)) a && negb (assigned a "FOR_END").

(* after substitution the line is still ordinary text for do_for *)
Definition line_wf (a : assign) (l : uline) : bool := for_plain (ref_line a l).

(* FOR body line after substitution: the engine's FIRST / LAST tests agree with the syntax *)
Definition body_line_wf (a : assign) (l : uline) : bool :=
  let s := ref_line a l in
  for_plain s
  && Bool.eqb (hasSpecificTag s TAG_FIRST) (mentions "FIRST" (subst a l))
  && Bool.eqb (hasSpecificTag s TAG_LAST) (mentions "LAST" (subst a l)).

Definition item_wf (a : assign) (dflts : usertags) (it : item) : bool :=
  match it with
  | Plain l => line_wf a l
  | Cond b elifs els =>
      forallb (fun br => forallb (line_wf a) (snd br)) (b :: elifs)
      && match els with Some ls => forallb (line_wf a) ls | None => true end
  | For h body =>
      let v := hdr_value a h in
      let s := render_for_value v in
      no_lg v && negb (String.eqb v "")
      && String.eqb (for_header_subst a dflts (render_hdr h)) s
      && hasSpecificTag s TAG_FOR_BEGIN && negb (hasSpecificTag s TAG_FOR_END) && hasDefault s
      && String.eqb (snd (extractDefaultAndTag s EQ)) v
      && match for_items v with Some (_ :: _) => true | _ => false end     (* a list with a comma, or a count >= 1 *)
      && forallb (body_line_wf a) body
  end.

Definition wf_assign17 (t : template) (a : assign) : bool :=
  assign_ok a && forallb (item_wf a (for_defaults [render t])) t.

(* the engine's answer for a template of the grammar: the text of the generated file *)
Definition engine17 (m : smodel) (dict : list (string * string)) (a : assign) (t : template) : option string :=
  generate_file m dict a (render t).
