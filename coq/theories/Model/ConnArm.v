(* Model of XKoJen::IConnection, the __arm__ configuration of kojen/allplatforms/CPP/IConnection.cpp/.h (second configuration of
   Model/Conn.v: same functions, same branch order): the fragment buffer is the fixed array m_fragment_buffer[FRAGMENT_BUF_SIZE],
   m_fragment_buffer_cnt is a uint16 that counts every byte "put" (also those not copied), m_has_data_exceeding_fragment_buffer_size
   suppresses the copy once data does not fit (count + pending > FRAGMENT_BUF_SIZE, or message size > m_largest_message_size),
   and -- after the two fix: commits -- a message that was parsed over is dropped instead of delivered, and the largest message
   size is capped at the buffer size.  The array is a list of exactly FRAGMENT_BUF_SIZE bytes (zeroed at the start: the class
   leaves it uninitialised, the probe zeroes it); bytes outside the array, a failed assert and exhausted fuel are outcomes.
   No proofs here (Proofs/ConnArm*.v). *)
From Coq Require Import String Ascii List Bool Arith NArith ZArith.
From KV Require Import Lib.Str Lib.ByteSeq Gen.CxxConn Model.Conn.
Import ListNotations.
Open Scope N_scope.
Open Scope list_scope.

Record astate := mkA { arr : list byte;     (* uint8 m_fragment_buffer[FRAGMENT_BUF_SIZE] *)
                       cnt : N;             (* uint16 m_fragment_buffer_cnt *)
                       exc : bool;          (* bool m_has_data_exceeding_fragment_buffer_size *)
                       areq : N }.          (* uint32 m_fragment_buffer_bytes_required *)

Inductive aoutcome :=
| ADone (s : astate) (ds : list (list byte))
| AFail (e : failure) (ds : list (list byte)).

Definition adeliver (m : list byte) (o : aoutcome) : aoutcome :=
  match o with ADone s ds => ADone s (m :: ds) | AFail e ds => AFail e (m :: ds) end.

Definition cap : N := fragment_buf_size.
Definition w16 (x : N) : N := wrap arm_cnt_bits x.

Definition ainit : astate := mkA (repeat zero_byte (N.to_nat cap)) 0 false 0.
(* ResetFragmentation: the three members; the array keeps its content *)
Definition areset (st : astate) : astate := mkA (arr st) 0 false 0.
Definition set_exc (st : astate) (b : bool) : astate := mkA (arr st) (cnt st) b (areq st).
Definition set_req (st : astate) (r : N) : astate := mkA (arr st) (cnt st) (exc st) r.

(* m_largest_message_size after SetMsgReceiver(receiver): receiver.LargestMessageSize() as a uint16, capped at the buffer size *)
Definition eff_largest (lms : N) : N :=
  let l := wrap arm_largest_bits lms in
  if arm_largest_capped then (if cap <? l then cap else l) else l.

(* std::copy(bytes, ..., &m_fragment_buffer[off]): None when it leaves the array *)
Definition write (a : list byte) (off : N) (bytes : list byte) : option (list byte) :=
  if off + len bytes <=? len a then Some (take off a ++ bytes ++ drop (off + len bytes) a) else None.

(* PutIntoFragmentBuffer(data + off, n): count, and copy unless the exceed flag is set (then the data is not read at all) *)
Definition aput (st : astate) (off n : N) (data : list byte) : option astate :=
  let last := cnt st in
  let cnt' := w16 (last + n) in
  if exc st then Some (mkA (arr st) cnt' true (areq st))
  else
    match slice off n data with
    | None => None
    | Some bytes =>
        match write (arr st) last bytes with
        | None => None
        | Some a => Some (mkA a cnt' false (areq st))
        end
    end.

Section ConnArm.
  Variables p0 p1 : byte.
  Variable largest : N.      (* m_largest_message_size *)

  (* OnMessageReceived(&m_fragment_buffer[0], n): the receiver reads n bytes of the array *)
  Definition deliver_from_buffer (st : astate) (n : N) (k : aoutcome) : aoutcome :=
    if n <=? len (arr st) then adeliver (take n (arr st)) k else AFail OutOfBounds [].

  (* if (count > rxBytesParsed) OnDataReceived(data + rxBytesParsed, count - rxBytesParsed) *)
  Definition acont (rec : astate -> list byte -> aoutcome) (st : astate) (parsed : N) (data : list byte) : aoutcome :=
    if parsed <? len data then rec st (drop parsed data) else ADone st [].

  Definition handle_fragmented_arm (rec : astate -> list byte -> aoutcome) (st0 : astate) (data : list byte) : aoutcome :=
    let count := len data in
    let c := cnt st0 in
    let total := w32 (count + c) in
    if (c =? 1) && negb (Ascii.eqb (hd0 data) p1) then
      if Ascii.eqb (hd0 data) p0 then rec (areset st0) data else ADone (areset st0) []
    else
      let st := set_exc st0 (exc st0 || (cap <? total)) in
      if areq st =? 0 then
        if total <? size_of_header then
          match aput st 0 count data with None => AFail OutOfBounds [] | Some st1 => ADone st1 [] end
        else
          let size_to_process := sub32 size_of_header c in
          match aput st 0 size_to_process data with
          | None => AFail OutOfBounds []
          | Some st1 =>
              if oversize (payload_size (arr st1)) then rec (areset st1) data
              else
                let msg_size := w32 (size_of_header + payload_size (arr st1)) in
                let st1' := set_exc st1 (exc st1 || (largest <? msg_size)) in
                if total <? msg_size then
                  match aput st1' size_to_process (sub32 count size_to_process) data with
                  | None => AFail OutOfBounds []
                  | Some st2 => ADone (set_req st2 (sub32 msg_size (cnt st2))) []
                  end
                else
                  match aput st1' size_to_process (sub32 msg_size size_of_header) data with
                  | None => AFail OutOfBounds []
                  | Some st2 =>
                      let parsed := w32 (size_to_process + sub32 msg_size size_of_header) in
                      if exc st2 then acont rec (areset st2) parsed data       (* parsed over: dropped *)
                      else if assert_ok p0 p1 (arr st2) then
                        deliver_from_buffer st2 msg_size (acont rec (areset st2) parsed data)
                      else AFail AssertFailed []
                  end
          end
      else
        if count <? areq st then
          match aput st 0 count data with
          | None => AFail OutOfBounds []
          | Some st1 => ADone (set_req st1 (sub32 (areq st) count)) []
          end
        else
          let parsed := areq st in
          match aput st 0 parsed data with
          | None => AFail OutOfBounds []
          | Some st1 =>
              if exc st1 then acont rec (areset st1) parsed data               (* parsed over: dropped *)
              else if assert_ok p0 p1 (arr st1) then
                deliver_from_buffer st1 (cnt st1) (acont rec (areset st1) parsed data)
              else AFail AssertFailed []
          end.

  Definition handle_unfragmented_arm (rec : astate -> list byte -> aoutcome) (st : astate) (data : list byte) : aoutcome :=
    let count := len data in
    if count <? size_of_header then
      match aput st 0 count data with None => AFail OutOfBounds [] | Some st1 => ADone st1 [] end
    else if oversize (payload_size data) then rec st (drop 1 data)
    else
      let msg_size := w32 (size_of_header + payload_size data) in
      if count <? msg_size then
        let st' := set_exc st (exc st || (largest <? msg_size)) in
        match aput st' 0 count data with
        | None => AFail OutOfBounds []
        | Some st1 => ADone (set_req st1 (sub32 msg_size count)) []
        end
      else
        adeliver (take msg_size data) (if msg_size <? count then rec st (drop msg_size data) else ADone st []).

  Definition handle_arm (rec : astate -> list byte -> aoutcome) (st : astate) (actual : list byte) : aoutcome :=
    if (0 <? cnt st) || (len actual <? size_of_header)
    then handle_fragmented_arm rec st actual
    else handle_unfragmented_arm rec st actual.

  Fixpoint on_data_arm (fuel : nat) (st : astate) (data : list byte) : aoutcome :=
    match fuel with
    | O => AFail OutOfFuel []
    | S f =>
        let count := len data in
        if count =? 0 then ADone st []
        else
          if cnt st =? 0 then
            if count =? 1 then
              if Ascii.eqb (hd0 data) p0 then handle_arm (on_data_arm f) st data else ADone st []
            else
              match find_preamble p0 p1 data with
              | None => ADone st []
              | Some i => handle_arm (on_data_arm f) st (drop i data)
              end
          else handle_arm (on_data_arm f) st data
    end.

  Fixpoint feed_arm (st : astate) (chunks : list (list byte)) : aoutcome :=
    match chunks with
    | [] => ADone st []
    | c :: r =>
        match on_data_arm (fuel_for c) st c with
        | ADone s ds =>
            match feed_arm s r with
            | ADone s' ds' => ADone s' (ds ++ ds')
            | AFail e ds' => AFail e (ds ++ ds')
            end
        | AFail e ds => AFail e ds
        end
    end.
End ConnArm.

(* ---- domain of C14_reassembly_arm ---- *)
(* every message fits the largest message size; every chunk, together with the at most largest-1 bytes that can be pending,
   fits the fragment buffer *)
Definition msg_fits (largest : N) (it : list byte * list byte) : bool := len (snd it) <=? largest.
Definition chunk_fits (largest : N) (c : list byte) : bool := len c + largest <=? cap + 1.
