(* C15 -- (1) the lockset discipline over the source-derived table of Gen/CxxSync.v; (2) an LTS of threaded_dispatcher
   over threadsafe_queue at the granularity of the critical sections of Gen/CxxSync.v (every queue operation runs
   under m_mutex, hence atomically; a condition-variable wait whose predicate is false is not a step, so spurious
   wake-ups are stutters).  Definitions only. *)
From Coq Require Import String List Bool Arith NArith.
From KV Require Import Model.CxxSyncIR.
Import ListNotations.
Open Scope string_scope.
Open Scope list_scope.

(* ---------------------------------------------------------------- lockset *)
Fixpoint kind_in (v : string) (l : list (string * mkind)) : option mkind :=
  match l with [] => None | (k, x) :: r => if String.eqb v k then Some x else kind_in v r end.

Definition is_write (a : access) : bool := match a_rw a with AWrite => true | ARead => false end.

Definition conflict (a b : access) : bool :=
  String.eqb (a_cls a) (a_cls b) && String.eqb (a_var a) (a_var b) && (is_write a || is_write b).

Definition common_lock (a b : access) : bool :=
  existsb (fun m => existsb (String.eqb m) (a_locks b)) (a_locks a).

(* happens-before by thread creation / join / the object's life-cycle contract (no public use during construction
   or destruction).  NOT ordered: a worker against the constructor body, the destructor before its joins, another
   worker, or a public method; two public methods. *)
Definition ordered (p q : phase) : bool :=
  match p, q with
  | PInit, _ | _, PInit => true
  | PDtorJoined, _ | _, PDtorJoined => true
  | PWorker, _ | _, PWorker => false
  | PAny, PAny => false
  | _, _ => true
  end.

Definition atomic_member (members : string -> list (string * mkind)) (a : access) : bool :=
  match kind_in (a_var a) (members (a_cls a)) with Some KAtomic => true | _ => false end.

Definition safe_pair (members : string -> list (string * mkind)) (a b : access) : bool :=
  negb (conflict a b) || common_lock a b || atomic_member members a || ordered (a_phase a) (a_phase b).

Definition lockset_ok (members : string -> list (string * mkind)) (t : list access) : bool :=
  forallb (fun a => forallb (safe_pair members a) t) t.

Fixpoint index_of (v : string) (l : list (string * mkind)) : option nat :=
  match l with [] => None | (k, _) :: r => if String.eqb v k then Some 0 else option_map S (index_of v r) end.

(* ---------------------------------------------------------------- wake-up discipline
   The LTS below treats a condition-variable wait as enabled exactly when its predicate holds, i.e. it ASSUMES that no
   wake-up is lost.  That is a property of the source: in every public method, an operation that can make the wait
   predicate true -- a push on the container, a write of a flag the predicate reads -- is followed, in the same method,
   by a notification of the condition variable: notify_one suffices after a push (one item, one waiter), notify_all is
   required after a flag write (every waiter must be released). *)
Definition wait_reads (l : list cop) : list string :=
  flat_map (fun o => match o with WaitUntil _ r => r | _ => [] end) l.
Definition wait_conds (l : list cop) : list string :=
  flat_map (fun o => match o with WaitUntil c _ => [c] | _ => [] end) l.

Definition notified (all : bool) (c : string) (l : list cop) : bool :=
  existsb (fun o => match o with NotifyAll c' => String.eqb c c' | NotifyOne c' => negb all && String.eqb c c' | _ => false end) l.

Fixpoint wake_ok (members : list (string * mkind)) (reads conds : list string) (l : list cop) : bool :=
  match l with
  | [] => true
  | PushBack :: r => forallb (fun c => notified false c r) conds && wake_ok members reads conds r
  | Write v :: r =>
      (match kind_in v members with
       | Some KContainer => true                      (* container writes: the push itself is the PushBack op *)
       | _ => negb (existsb (String.eqb v) reads) || forallb (fun c => notified true c r) conds
       end) && wake_ok members reads conds r
  | _ :: r => wake_ok members reads conds r
  end.

Definition is_public (cls name : string) : bool := negb (String.eqb name cls) && negb (String.eqb name ("~" ++ cls)).

Definition wake_discipline (cls : string) (members : list (string * mkind)) (methods : list (string * list cop)) : bool :=
  let reads := flat_map (fun m => wait_reads (snd m)) methods in
  let conds := flat_map (fun m => wait_conds (snd m)) methods in
  negb (match conds with [] => true | _ => false end) &&
  forallb (fun m => negb (is_public cls (fst m)) || wake_ok members reads conds (snd m)) methods.

(* one notification PER push: after every push on the container and before the next one (or the end of the method) the
   condition variable the consumers wait on is notified -- with the lock still held or after it has been released, both
   are fine because a waiter registers atomically with releasing the lock.  (The IR is straight-line and the translator
   refuses a notification under an if/for/while: Gen.CxxSync.notifications_unconditional.) *)
Fixpoint notify_before_next_push (c : string) (l : list cop) : bool :=
  match l with
  | [] => false
  | PushBack :: _ => false
  | NotifyOne c' :: r => String.eqb c c' || notify_before_next_push c r
  | NotifyAll c' :: r => String.eqb c c' || notify_before_next_push c r
  | _ :: r => notify_before_next_push c r
  end.

Fixpoint push_notify_ok (conds : list string) (l : list cop) : bool :=
  match l with
  | [] => true
  | PushBack :: r => forallb (fun c => notify_before_next_push c r) conds && push_notify_ok conds r
  | _ :: r => push_notify_ok conds r
  end.

Definition pushes_in (l : list cop) : nat := length (filter (fun o => match o with PushBack => true | _ => false end) l).

Definition notify_per_push (methods : list (string * list cop)) : bool :=
  let conds := flat_map (fun m => wait_conds (snd m)) methods in
  negb (match conds with [] => true | _ => false end) &&
  negb (Nat.eqb (fold_right (fun m n => pushes_in (snd m) + n) 0 methods) 0) &&
  forallb (fun m => push_notify_ok conds (snd m)) methods.

(* ---------------------------------------------------------------- LTS *)
Inductive wpc := WLoop | WWait | WGot (i : N) | WHandling (i : N) | WDone.
Inductive dpc := DAlive | DFlagSet | DJoin (k : nat) | DJoined.   (* DJoin k: woken, the first k workers joined *)
Inductive hev := HB (w : nat) (i : N) | HE (w : nat) (i : N).
Inductive tid := TDestroy | TWorker (w : nat) | TProd (p : nat).

Record st := mkSt {
  q : list N;                      (* m_data *)
  stopped : bool;                  (* m_stopped *)
  shutting : bool;                 (* m_shutting_down *)
  workers : list wpc;
  prods : list (list N);           (* what every producer still has to dispatch *)
  d : dpc;                         (* the destroying thread *)
  pushes : list (nat * N);         (* history: who pushed what *)
  popped : list N;                 (* history: items taken from the queue, in order *)
  fates : list (N * bool);         (* history: taken items with the decision handled / dropped *)
  hlog : list hev                  (* observation: handler entry / exit *)
}.

Fixpoint upd {A} (n : nat) (x : A) (l : list A) : list A :=
  match l, n with [], _ => [] | _ :: r, O => x :: r | y :: r, S m => y :: upd m x r end.

Definition all_done (l : list wpc) : bool := forallb (fun w => match w with WDone => true | _ => false end) l.

Definition step (t : tid) (s : st) : option st :=
  match t with
  | TProd p =>
      match d s, nth_error (prods s) p with
      | DAlive, Some (i :: r) =>
          Some (mkSt (q s ++ [i]) (stopped s) (shutting s) (workers s) (upd p r (prods s)) (d s)
                     (pushes s ++ [(p, i)]) (popped s) (fates s) (hlog s))
      | _, _ => None
      end
  | TDestroy =>
      match d s with
      | DAlive => Some (mkSt (q s) (stopped s) true (workers s) (prods s) DFlagSet (pushes s) (popped s) (fates s) (hlog s))
      | DFlagSet => Some (mkSt (q s) true (shutting s) (workers s) (prods s)
                               (match workers s with [] => DJoined | _ => DJoin 0 end) (pushes s) (popped s) (fates s) (hlog s))
      | DJoin k => match nth_error (workers s) k with           (* thread k .join() returns once that worker has left its loop *)
                   | Some WDone => Some (mkSt (q s) (stopped s) (shutting s) (workers s) (prods s)
                                              (if Nat.eqb (S k) (length (workers s)) then DJoined else DJoin (S k))
                                              (pushes s) (popped s) (fates s) (hlog s))
                   | _ => None
                   end
      | DJoined => None
      end
  | TWorker w =>
      match nth_error (workers s) w with
      | None => None
      | Some pc =>
          let setw x := upd w x (workers s) in
          match pc with
          | WLoop => Some (mkSt (q s) (stopped s) (shutting s) (setw (if shutting s then WDone else WWait)) (prods s) (d s)
                                (pushes s) (popped s) (fates s) (hlog s))
          | WWait =>
              match q s with
              | i :: r => Some (mkSt r (stopped s) (shutting s) (setw (WGot i)) (prods s) (d s)
                                     (pushes s) (popped s ++ [i]) (fates s) (hlog s))
              | [] => if stopped s        (* woken by wake_up with nothing to take: nullptr, `&&` short-circuits, back to the loop head *)
                      then Some (mkSt [] (stopped s) (shutting s) (setw WLoop) (prods s) (d s)
                                      (pushes s) (popped s) (fates s) (hlog s))
                      else None
              end
          | WGot i =>
              if shutting s
              then Some (mkSt (q s) (stopped s) (shutting s) (setw WLoop) (prods s) (d s) (pushes s) (popped s)
                              (fates s ++ [(i, false)]) (hlog s))
              else Some (mkSt (q s) (stopped s) (shutting s) (setw (WHandling i)) (prods s) (d s) (pushes s) (popped s)
                              (fates s ++ [(i, true)]) (hlog s ++ [HB w i]))
          | WHandling i => Some (mkSt (q s) (stopped s) (shutting s) (setw WLoop) (prods s) (d s) (pushes s) (popped s)
                                      (fates s) (hlog s ++ [HE w i]))
          | WDone => None
          end
      end
  end.

Definition init (m : nat) (scripts : list (list N)) : st :=
  mkSt [] false false (repeat WLoop m) scripts DAlive [] [] [] [].

Inductive reach (m : nat) (scripts : list (list N)) : st -> Prop :=
| reach_init : reach m scripts (init m scripts)
| reach_step : forall s t s', reach m scripts s -> step t s = Some s' -> reach m scripts s'.

Fixpoint run (sc : list tid) (s : st) : st :=
  match sc with [] => s | t :: r => match step t s with Some s' => run r s' | None => run r s end end.

(* ---- readings *)
Definition hbegun (l : list hev) : list N := flat_map (fun x => match x with HB _ i => [i] | HE _ _ => [] end) l.
Definition hpairs (w : nat) (l : list N) : list hev := flat_map (fun i => [HB w i; HE w i]) l.
Definition handled_of (f : list (N * bool)) : list N := map fst (filter snd f).
Definition pushes_by (p : nat) (l : list (nat * N)) : list N := map snd (filter (fun x => Nat.eqb (fst x) p) l).

(* ---- ranking functions *)
Definition wrank_down (w : wpc) : nat :=
  match w with WWait => 4 | WGot _ => 3 | WHandling _ => 2 | WLoop => 1 | WDone => 0 end.
Definition drank (m : nat) (x : dpc) : nat := match x with DAlive => m + 3 | DFlagSet => m + 2 | DJoin k => 1 + (m - k) | DJoined => 0 end.
Definition sumw (f : wpc -> nat) (l : list wpc) : nat := fold_right (fun w n => f w + n) 0 l.
(* shutdown: decreases with every step of the destroyer and of every worker once the destructor has started *)
Definition rank_down (s : st) : nat := drank (length (workers s)) (d s) + sumw wrank_down (workers s).

Definition wrank_alive (w : wpc) : nat :=
  match w with WLoop => 1 | WWait => 0 | WGot _ => 3 | WHandling _ => 2 | WDone => 0 end.
(* alive: decreases with every step of every producer and worker *)
Definition rank_alive (s : st) : nat :=
  5 * fold_right (fun sc n => length sc + n) 0 (prods s) + 4 * length (q s) + sumw wrank_alive (workers s).

(* ---- access to the per-method IR of Gen/CxxSync.v *)
Fixpoint lookup_ir_nth (n : nat) (name : string) (l : list (string * list cop)) : list cop :=
  match l with
  | [] => []
  | (k, ir) :: r => if String.eqb name k then match n with O => ir | S n' => lookup_ir_nth n' name r end
                    else lookup_ir_nth n name r
  end.
Definition lookup_ir := lookup_ir_nth 0.

(* ---- schedule execution for the replay against the real headers *)
Definition all_tids (s : st) : list tid :=
  TDestroy :: map TWorker (seq 0 (length (workers s))) ++ map TProd (seq 0 (length (prods s))).
Definition enabled_tids (s : st) : list tid :=
  filter (fun t => match step t s with Some _ => true | None => false end) (all_tids s).

Fixpoint run_trace (sc : list tid) (s : st) : st * list (bool * list tid) :=
  match sc with
  | [] => (s, [])
  | t :: r => match step t s with
              | Some s' => let (s'', l) := run_trace r s' in (s'', (true, enabled_tids s') :: l)
              | None => let (s'', l) := run_trace r s in (s'', (false, enabled_tids s) :: l)
              end
  end.
