(* Statement kinds of the PER_GUARDTRANSITION block of statemachine_templates_cs_winlinmac/TEMPLATEInternals.cs. *)
Inductive ck :=
| CkIfGuard     (* if (context.<<<GUARDNAME>>>()) *)
| CkOpen        (* { *)
| CkClose       (* } *)
| CkExit        (* sm.Exit<<<<STATENAMEIFNEXTSTATE>>>>(); *)
| CkAction      (* context.<<<ACTIONNAME>>>(data); *)
| CkEnter       (* sm.Enter<<<<NEXTSTATENAME>>>>(); *)
| CkSetState    (* sm.estate = E...State.<<<NEXTSTATENAME>>>; *)
| CkReturn.     (* return; *)

(* Statements of the helper methods of the generated state-machine class (Enter<StateT>(), Exit<StateT>(), Reset(), the
   constructor), non-threaded configuration; translator/cstmpl.py parses the template text into this IR. *)
Inductive hstmt :=
| HNewState                      (* state = new StateT() as <Name>State; *)
| HOnEntry                       (* state.OnEntry(controller); *)
| HOnExit                        (* state.OnExit(controller); *)
| HReturn                        (* return; *)
| HIfStateIsT (body : list hstmt)  (* if (state is StateT) { ... } *)
| HSetController                 (* controller = context; *)
| HCallReset                     (* Reset(); *)
| HEnterFirst                    (* Enter<<<<STATE_0>>>>(); *)
| HSetEstateFirst.               (* estate = E<Name>State.<<<STATE_0>>>; *)

(* Statements of the THREADED configuration (SM_THREAD_1): the tail of Trigger<Event> after the event object is built,
   and the body of the dispatch thread's  while(true) { ... }  loop; translator/cstmpl.py parses them out of the templates. *)
Inductive tstmt :=
| QEnqueue               (* dispatchQ.Enqueue(evt); *)
| QSet                   (* <signal>.Set(); *)
| QWaitOne               (* <signal>.WaitOne();   (AutoResetEvent) *)
| QTryDequeueDispatch    (* if (dispatchQ.TryDequeue(out IDispatchable next)) { next.Dispatch(this, controller); } *)
| QSleep.                (* Thread.Sleep(n); *)
