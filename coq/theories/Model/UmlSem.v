(* The SEMANTIC class diagram and its writer: classes with stereotypes, operations, parameters, attributes, enumeration
   literals; packages; generalisations / realisations -- and how the (assumed) Visual Paradigm writer lays them out as
   structured blobs (Model/UmlWriter.v).  [rdiagram_of] is the specification of what the adaptor must read back: it looks
   only at the semantic records, never at a blob.  Every element carries a layout: the order in which its properties are
   written, with any number of other (noise) properties in between.  No proofs here. *)
From Coq Require Import String Ascii List Bool Arith.
From KV Require Import Lib.Str Lib.ODict Model.Vpp Model.VppWriter Model.Uml Model.UmlBlob Model.UmlWriter Model.UmlDomain.
Import ListNotations.
Open Scope string_scope.

Inductive tag := TVis | TRet | TTypeMod | TAbstract | TQuery | TScope | TDoc | TChild | TType | TTypeString | TDir | TDefault
               | TMult | TInit | TSetter | TGetter | TReadOnly | TStereo | TFrom | TTo | TAgg.
(* SInert: ANY other property of the element as written -- a scalar, a reference list, owned elements the reader has no
   interest in (model views, qualifiers, ...), free text (an HTML documentation) *)
Inductive slot := SNoise (k v : string) | STag (t : tag) | SInert (it : witem).

Definition tag_eqb (a b : tag) : bool :=
  match a, b with
  | TVis, TVis | TRet, TRet | TTypeMod, TTypeMod | TAbstract, TAbstract | TQuery, TQuery | TScope, TScope | TDoc, TDoc
  | TChild, TChild | TType, TType | TTypeString, TTypeString | TDir, TDir | TDefault, TDefault | TMult, TMult | TInit, TInit
  | TSetter, TSetter | TGetter, TGetter | TReadOnly, TReadOnly | TStereo, TStereo | TFrom, TFrom | TTo, TTo | TAgg, TAgg => true
  | _, _ => false
  end.

(* a line break (CR LF or LF: every element of the shipped project uses one of the two throughout) and n tabs *)
Definition tabsn (nl : string) (n : nat) : string := nl ++ (fix go (n : nat) : string := match n with O => "" | S m => String TAB (go m) end) n.
Definition tabs (n : nat) : string := tabsn crlf n.
Definition nl_ok (nl : string) : bool := String.eqb nl crlf || String.eqb nl (String LF "").
Definition q (s : string) : string := dq ++ s ++ dq.
Definition path_text (ids : list string) : string := Uml.join ":" ids.

(* the items of an element body: its layout, each tag replaced by the property it stands for (nothing when absent) *)
Definition items_of (ws : string) (f : tag -> option witem) (layout : list slot) : list witem :=
  flat_map (fun s => match s with
                     | SNoise k v => [IField ws k v]
                     | STag t => match f t with Some it => [it] | None => [] end
                     | SInert it => [it]
                     end) layout.

(* documentation: a plain text, or any quoted text (line breaks, apostrophes, parentheses ...) -- the reader then keeps what
   mass_replace leaves of it *)
Inductive sdoc := DText (v : string) | DRaw (t : string).
Definition doc_value (d : sdoc) : string :=
  match d with DText v => v | DRaw t => py_strip (mass_replace (repr_body SQ (dq ++ t ++ dq))) end.

Definition text_field (ws k v : string) : option witem := if String.eqb v "" then None else Some (IField ws k (q v)).
Definition flag_field (ws k : string) (b : bool) : option witem := if b then Some (IField ws k "T") else None.
Definition doc_field (ws : string) (d : sdoc) : option witem :=
  match d with
  | DText v => text_field ws "documentation_plain" v
  | DRaw t => Some (IRaw (ws ++ "documentation_plain=" ++ q t ++ ";"))
  end.
Definition ref_field (ws k : string) (ids : list string) : option witem :=
  match ids with [] => None | _ => Some (IRefs ws k "" "" "" [path_text ids]) end.
Definition list_open (nl : string) (n : nat) : string := "(" ++ tabsn nl n.
Definition list_sep (nl : string) (n : nat) : string := ", " ++ tabsn nl n.
Definition list_close (nl : string) (n : nat) : string := tabsn nl n ++ ")".

(* ---------------------------------------------------------------- parameters, operations, attributes *)

Record sparam := { sp_id : string; sp_name : string; sp_basic : option string; sp_type : list string; sp_dir : option bool;
                   sp_mod : string; sp_default : string; sp_mult : string; sp_nl : string; sp_layout : list slot }.

Definition param_item (p : sparam) (t : tag) : option witem :=
  match t with
  | TTypeString => match sp_basic p with Some s => Some (IField (tabsn (sp_nl p) 5) "type_string" (q s)) | None => None end
  | TType => match sp_basic p with Some _ => None | None => ref_field (tabsn (sp_nl p) 5) "type" (sp_type p) end
  | TDir => match sp_dir p with Some true => Some (IField (tabsn (sp_nl p) 5) "direction" "65") | Some false => Some (IField (tabsn (sp_nl p) 5) "direction" "66") | None => None end
  | TTypeMod => text_field (tabsn (sp_nl p) 5) "typeModifier" (sp_mod p)
  | TDefault => text_field (tabsn (sp_nl p) 5) "defaultValue_string" (sp_default p)
  | TMult => text_field (tabsn (sp_nl p) 5) "multiplicity" (sp_mult p)
  | _ => None
  end.
Definition tree_of_param (p : sparam) : wnode :=
  WNode (sp_id p) (Some (sp_name p)) "Parameter" (items_of (tabsn (sp_nl p) 5) (param_item p) (sp_layout p)) (tabsn (sp_nl p) 4).

Record sop := { so_id : string; so_name : string; so_vis : option string; so_ret : list string; so_retmod : string;
                so_abstract : bool; so_query : bool; so_static : bool; so_doc : sdoc; so_params : list sparam;
                so_nl : string; so_layout : list slot }.

Definition op_item (o : sop) (t : tag) : option witem :=
  match t with
  | TVis => match so_vis o with Some c => Some (IField (tabsn (so_nl o) 3) "visibility" c) | None => None end
  | TRet => ref_field (tabsn (so_nl o) 3) "returnType" (so_ret o)
  | TTypeMod => text_field (tabsn (so_nl o) 3) "typeModifier" (so_retmod o)
  | TAbstract => flag_field (tabsn (so_nl o) 3) "abstract" (so_abstract o)
  | TQuery => flag_field (tabsn (so_nl o) 3) "query" (so_query o)
  | TScope => if so_static o then Some (IField (tabsn (so_nl o) 3) "scope" "65") else None
  | TDoc => doc_field (tabsn (so_nl o) 3) (so_doc o)
  | TChild => match so_params o with
              | [] => None
              | ps => Some (IChildren (tabsn (so_nl o) 3) "Child" (list_open (so_nl o) 4) (list_sep (so_nl o) 4) (list_close (so_nl o) 3) (map tree_of_param ps))
              end
  | _ => None
  end.
Definition tree_of_op (o : sop) : wnode :=
  WNode (so_id o) (Some (so_name o)) "Operation" (items_of (tabsn (so_nl o) 3) (op_item o) (so_layout o)) (tabsn (so_nl o) 2).

Record sattr := { sa_id : string; sa_name : string; sa_vis : option string; sa_type : list string; sa_mod : string; sa_mult : string;
                  sa_doc : sdoc; sa_init : string; sa_setter : bool; sa_getter : bool; sa_static : bool; sa_const : bool;
                  sa_nl : string; sa_layout : list slot }.

Definition attr_item (a : sattr) (t : tag) : option witem :=
  match t with
  | TVis => match sa_vis a with Some c => Some (IField (tabsn (sa_nl a) 3) "visibility" c) | None => None end
  | TType => ref_field (tabsn (sa_nl a) 3) "type" (sa_type a)
  | TTypeMod => text_field (tabsn (sa_nl a) 3) "typeModifier" (sa_mod a)
  | TMult => text_field (tabsn (sa_nl a) 3) "multiplicity" (sa_mult a)
  | TDoc => doc_field (tabsn (sa_nl a) 3) (sa_doc a)
  | TInit => text_field (tabsn (sa_nl a) 3) "initialValue_string" (sa_init a)
  | TSetter => flag_field (tabsn (sa_nl a) 3) "hasSetter" (sa_setter a)
  | TGetter => flag_field (tabsn (sa_nl a) 3) "hasGetter" (sa_getter a)
  | TScope => if sa_static a then Some (IField (tabsn (sa_nl a) 3) "scope" "65") else None
  | TReadOnly => flag_field (tabsn (sa_nl a) 3) "readOnly" (sa_const a)
  | _ => None
  end.
Definition tree_of_attr (a : sattr) : wnode :=
  WNode (sa_id a) (Some (sa_name a)) "Attribute" (items_of (tabsn (sa_nl a) 3) (attr_item a) (sa_layout a)) (tabsn (sa_nl a) 2).

(* ---------------------------------------------------------------- classes, packages, inheritance *)

Inductive smember := MOp (o : sop) | MAttr (a : sattr) | MLit (id name nl : string) (noise : list slot).

Definition tree_of_member (m : smember) : wnode :=
  match m with
  | MOp o => tree_of_op o
  | MAttr a => tree_of_attr a
  | MLit id name nl noise => WNode id (Some name) "EnumerationLiteral" (items_of (tabsn nl 3) (fun _ => None) noise) (tabsn nl 2)
  end.

Record sclass := { sc_id : string; sc_name : string; sc_parent : option string; sc_stereos : list string; sc_abstract : bool;
                   sc_doc : sdoc; sc_members : list smember; sc_nl : string; sc_layout : list slot }.

Definition class_item (c : sclass) (t : tag) : option witem :=
  match t with
  | TStereo => match sc_stereos c with
               | [] => None
               | ids => Some (IRefs (tabsn (sc_nl c) 1) "stereotypes" (list_open (sc_nl c) 2) (list_sep (sc_nl c) 2) (list_close (sc_nl c) 1) ids)
               end
  | TAbstract => flag_field (tabsn (sc_nl c) 1) "abstract" (sc_abstract c)
  | TDoc => doc_field (tabsn (sc_nl c) 1) (sc_doc c)
  | TChild => match sc_members c with
              | [] => None
              | ms => Some (IChildren (tabsn (sc_nl c) 1) "Child" (list_open (sc_nl c) 2) (list_sep (sc_nl c) 2) (list_close (sc_nl c) 1) (map tree_of_member ms))
              end
  | _ => None
  end.
Definition tree_of_class (c : sclass) : wnode :=
  WNode (sc_id c) (Some (sc_name c)) "Class" (items_of (tabsn (sc_nl c) 1) (class_item c) (sc_layout c)) (sc_nl c).

Record spackage := { sk_id : string; sk_name : string; sk_parent : option string; sk_paths : list (list string); sk_nl : string; sk_layout : list slot }.

Definition package_item (p : spackage) (t : tag) : option witem :=
  match t with
  | TChild => match sk_paths p with
              | [] => None
              | ps => Some (IRefs (tabsn (sk_nl p) 1) "Child" (list_open (sk_nl p) 2) (list_sep (sk_nl p) 2) (list_close (sk_nl p) 1) (map path_text ps))
              end
  | _ => None
  end.
Definition tree_of_package (p : spackage) : wnode :=
  WNode (sk_id p) (Some (sk_name p)) "Package" (items_of (tabsn (sk_nl p) 1) (package_item p) (sk_layout p)) (sk_nl p).

Record sinh := { si_id : string; si_parent : option string; si_real : bool; si_from : list string; si_to : list string; si_nl : string; si_layout : list slot }.

Definition inh_item (i : sinh) (t : tag) : option witem :=
  match t with
  | TFrom => ref_field (tabsn (si_nl i) 1) "fromModel" (si_from i)
  | TTo => ref_field (tabsn (si_nl i) 1) "toModel" (si_to i)
  | _ => None
  end.
Definition tree_of_inh (i : sinh) : wnode :=
  WNode (si_id i) None (if si_real i then "Realization" else "Generalization") (items_of (tabsn (si_nl i) 1) (inh_item i) (si_layout i)) (si_nl i).

(* ---------------------------------------------------------------- associations: two ends, each with the class it is attached to *)

Record send := { se_id : string; se_name : option string; se_class : list string; se_mult : string; se_agg : option string;
                 se_vis : option string; se_getter : bool; se_setter : bool; se_const : bool; se_nl : string; se_layout : list slot }.

Definition end_item (from : bool) (e : send) (t : tag) : option witem :=
  match t with
  | TDir => Some (IField (tabsn (se_nl e) 2) "Direction" (if from then "0" else "1"))
  | TType => ref_field (tabsn (se_nl e) 2) "EndModelElement" (se_class e)
  | TMult => text_field (tabsn (se_nl e) 2) "multiplicity" (se_mult e)
  | TAgg => match se_agg e with Some c => Some (IField (tabsn (se_nl e) 2) "aggregationKind" c) | None => None end
  | TVis => match se_vis e with Some c => Some (IField (tabsn (se_nl e) 2) "visibility" c) | None => None end
  | TGetter => flag_field (tabsn (se_nl e) 2) "providePropertyGetterMethod" (se_getter e)
  | TSetter => flag_field (tabsn (se_nl e) 2) "providePropertySetterMethod" (se_setter e)
  | TReadOnly => flag_field (tabsn (se_nl e) 2) "readOnly" (se_const e)
  | _ => None
  end.
Definition tree_of_end (from : bool) (e : send) : wnode :=
  WNode (se_id e) (se_name e) "AssociationEnd" (items_of (tabsn (se_nl e) 2) (end_item from e) (se_layout e)) (tabsn (se_nl e) 1).

Record sassoc := { sx_id : string; sx_name : option string; sx_parent : option string; sx_doc : sdoc;
                   sx_from : send; sx_to : send; sx_nl : string; sx_layout : list slot }.

Definition assoc_item (x : sassoc) (t : tag) : option witem :=
  match t with
  | TDoc => doc_field (tabsn (sx_nl x) 1) (sx_doc x)
  | TFrom => Some (IChildren (tabsn (sx_nl x) 1) "from" "" "" "" [tree_of_end true (sx_from x)])
  | TTo => Some (IChildren (tabsn (sx_nl x) 1) "to" "" "" "" [tree_of_end false (sx_to x)])
  | _ => None
  end.
Definition tree_of_assoc (x : sassoc) : wnode :=
  WNode (sx_id x) (sx_name x) "Association" (items_of (tabsn (sx_nl x) 1) (assoc_item x) (sx_layout x)) (sx_nl x).

(* ---------------------------------------------------------------- the diagram *)

Inductive selem := EClass (c : sclass) | EPackage (p : spackage) | EInh (i : sinh) | EAssoc (x : sassoc)
                 | EOther (id : string) (name : option string) (ty : string) (parent : option string) (nl : string) (noise : list slot).

(* an element that is only referred to (stereotype, data type, enclosing package ...): its name is what matters *)
Record sref := { sr_id : string; sr_name : string; sr_type : string; sr_parent : option string; sr_nl : string; sr_noise : list slot }.

Record sdiagram := { sd_id : string; sd_name : string; sd_shapes : list (string * selem); sd_refd : list sref }.

Definition welem_of (e : selem) : welem :=
  match e with
  | EClass c => {| we_parent := sc_parent c; we_node := tree_of_class c |}
  | EPackage p => {| we_parent := sk_parent p; we_node := tree_of_package p |}
  | EInh i => {| we_parent := si_parent i; we_node := tree_of_inh i |}
  | EAssoc x => {| we_parent := sx_parent x; we_node := tree_of_assoc x |}
  | EOther id nm ty par nl noise => {| we_parent := par; we_node := WNode id nm ty (items_of (tabsn nl 1) (fun _ => None) noise) nl |}
  end.
Definition welem_of_ref (r : sref) : welem :=
  {| we_parent := sr_parent r; we_node := WNode (sr_id r) (Some (sr_name r)) (sr_type r) (items_of (tabsn (sr_nl r) 1) (fun _ => None) (sr_noise r)) (sr_nl r) |}.

Definition tree_of (S : sdiagram) : wdiagram :=
  {| wd_id := sd_id S; wd_name := sd_name S;
     wd_drawn := map (fun se => (fst se, welem_of (snd se))) (sd_shapes S);
     wd_referenced := map welem_of_ref (sd_refd S) |}.

(* the project file that holds only this diagram *)
Definition encode_project (S : sdiagram) : db := encode_cdiagram (tree_of S).

(* ---------------------------------------------------------------- SPECIFICATION: what the diagram stands for *)

Definition elem_id (e : selem) : string :=
  match e with EClass c => sc_id c | EPackage p => sk_id p | EInh i => si_id i | EAssoc x => sx_id x | EOther id _ _ _ _ _ => id end.
Definition elem_name (e : selem) : string :=
  match e with EClass c => sc_name c | EPackage p => sk_name p | EInh _ => "" | EAssoc x => ostr (sx_name x) | EOther _ nm _ _ _ _ => ostr nm end.

(* NAME of the element with an id: shapes first, then the referenced elements (the rows in that order) *)
Definition name_of (S : sdiagram) (id : string) : option string :=
  match find (fun se => String.eqb (elem_id (snd se)) id) (sd_shapes S) with
  | Some se => Some (elem_name (snd se))
  | None => match find (fun r => String.eqb (sr_id r) id) (sd_refd S) with Some r => Some (sr_name r) | None => None end
  end.

(* a reference path id:...:id names  Name::...::Name *)
Definition type_name (S : sdiagram) (ids : list string) : string := Uml.join "::" (map (fun i => ostr (name_of S i)) ids).

Definition vis_of_code (c : string) : string :=
  if String.eqb c "71" then "public" else if String.eqb c "67" then "protected" else if String.eqb c "66" then "private"
  else if String.eqb c "68" then "package" else "public".

Definition rparam_of (S : sdiagram) (p : sparam) : rparam :=
  {| rp_const := match sp_dir p with Some true => "const" | _ => "" end;
     rp_type := clean_modifiers (match sp_basic p with Some s => s | None => type_name S (sp_type p) end);
     rp_name := sp_name p; rp_modifier := sp_mod p; rp_default := sp_default p; rp_mult := sp_mult p;
     rp_dir := match sp_dir p with Some true => "in" | Some false => "out" | None => "inout" end |}.

Definition rop_of (S : sdiagram) (o : sop) : rop :=
  let v := match so_vis o with Some c => vis_of_code c | None => "public" end in
  let pkg := String.eqb v "package" in
  {| ro_name := so_name o; ro_vis := if pkg then "public" else v;
     ro_ret := match so_ret o with [] => "void" | ids => clean_modifiers (type_name S ids) end; ro_retmod := so_retmod o;
     ro_params := map (rparam_of S) (so_params o); ro_comment := doc_value (so_doc o);
     ro_virtual := so_abstract o; ro_static := pkg || so_static o; ro_const := so_query o |}.

Definition rattr_of (S : sdiagram) (a : sattr) : rattr :=
  {| ra_name := sa_name a; ra_vis := match sa_vis a with Some c => vis_of_code c | None => "private" end; ra_mod := sa_mod a;
     ra_comment := doc_value (sa_doc a); ra_type := match sa_type a with [] => "void" | ids => clean_modifiers (type_name S ids) end; ra_mult := sa_mult a;
     ra_setter := sa_setter a; ra_getter := sa_getter a; ra_static := sa_static a; ra_const := sa_const a;
     ra_init := if String.eqb (sa_init a) "" then None else Some (sa_init a) |}.

(* what a stereotype name makes of a class: the first of interface / autogen / enumeration / struct it mentions *)
Inductive skind := KIface | KAutogen | KEnumeration | KStructure (packed : bool) | KNothing.
Definition stereo_kind (name : string) : skind :=
  let n := lower name in
  if contains "interface" n then KIface else if contains "autogen" n then KAutogen else if contains "enumeration" n then KEnumeration
  else if contains "struct" n then KStructure (contains "packed" n) else KNothing.
Definition kinds_of (S : sdiagram) (c : sclass) : list skind := map (fun i => stereo_kind (ostr (name_of S i))) (sc_stereos c).
Definition is_kind (k : skind) (x : skind) : bool :=
  match k, x with KIface, KIface | KAutogen, KAutogen | KEnumeration, KEnumeration => true | KStructure _, KStructure _ => true | _, _ => false end.

(* the namespace of a class: the names of the packages on the (first) path that ends at it *)
Definition all_paths (S : sdiagram) : list (list string) :=
  flat_map (fun se => match snd se with EPackage p => sk_paths p | _ => [] end) (sd_shapes S).
Definition ns_of (S : sdiagram) (cid : string) : string :=
  match find (fun p => String.eqb (last p "") cid) (all_paths S) with
  | Some p => Uml.join "::" (map (fun i => ostr (name_of S i)) (removelast p))
  | None => ""
  end.

Definition rclass_of (S : sdiagram) (c : sclass) : rclass :=
  let ks := kinds_of S c in
  let enum := existsb (is_kind KEnumeration) ks in
  {| rc_id := sc_id c; rc_name := sc_name c; rc_ns := ns_of S (sc_id c);
     rc_pure := sc_abstract c || existsb (is_kind KIface) ks; rc_autogen := existsb (is_kind KAutogen) ks; rc_enum := enum;
     rc_struct := existsb (is_kind (KStructure false)) ks;
     rc_packed := existsb (fun k => match k with KStructure true => true | _ => false end) ks;
     rc_comment := doc_value (sc_doc c);
     rc_literals := if enum then flat_map (fun m => match m with MLit _ n _ _ => [n] | _ => [] end) (sc_members c) else [];
     rc_ops := flat_map (fun m => match m with MOp o => [rop_of S o] | _ => [] end) (sc_members c);
     rc_attrs := flat_map (fun m => match m with MAttr a => [rattr_of S a] | _ => [] end) (sc_members c) |}.

Definition rpackage_of (p : spackage) : rpackage := {| rk_id := sk_id p; rk_name := sk_name p; rk_classes := map path_text (sk_paths p) |}.

Definition class_of_id (S : sdiagram) (id : string) : option sclass :=
  match find (fun se => match snd se with EClass c => String.eqb (sc_id c) id | _ => false end) (sd_shapes S) with
  | Some (_, EClass c) => Some c
  | _ => None
  end.
Definition end_name (S : sdiagram) (path : list string) : string :=
  match class_of_id S (last path "") with
  | Some c => ns_of S (sc_id c) ++ "::" ++ sc_name c
  | None => type_name S path
  end.
Definition rinh_of (S : sdiagram) (i : sinh) : rinh :=
  {| ri_id := si_id i; ri_real := si_real i; ri_from := end_name S (si_from i); ri_from_id := last (si_from i) "";
     ri_to := end_name S (si_to i); ri_to_id := last (si_to i) "" |}.

(* an association as the generator consumes it.  The two ends are read in the order they are written (sx_layout): an end
   without multiplicity gets a default that depends on the association type known at that moment (aggregationKind of an
   end read earlier), exactly as Association.ParseAssociation does *)
Definition assoc0 (id name : string) : rassoc :=
  {| as_id := id; as_name := name; as_type := "Association"; as_comment := "";
     as_from := ""; as_from_id := ""; as_from_vis := "private"; as_from_static := false; as_from_const := false;
     as_from_mult := "0..1"; as_from_getter := false; as_from_setter := false;
     as_to := ""; as_to_id := ""; as_to_vis := "private"; as_to_static := false; as_to_const := false;
     as_to_mult := "0..1"; as_to_getter := false; as_to_setter := false |}.

Definition end_spec (S : sdiagram) (from : bool) (e : send) (a : rassoc) : rassoc :=
  let nm := type_name S (se_class e) in
  let a1 := if from then set_from a nm (last (se_class e) "") else set_to a nm (last (se_class e) "") in
  let a2 := match se_agg e with
            | Some c => if String.eqb c "66" then set_type a1 "Aggregation" else if String.eqb c "67" then set_type a1 "Composition" else a1
            | None => a1
            end in
  let a3 := if negb (String.eqb (se_mult e) "") then set_end a2 from None None None (Some (se_mult e)) None None
            else if from then (if String.eqb (as_type a2) "Composition" then set_end a2 true None None None (Some "1") None None else a2)
            else (if negb (String.eqb (as_type a2) "Association") then set_end a2 false None None None (Some "0") None None else a2) in
  let a4 := match se_vis e with
            | Some c => if String.eqb c "68" then set_end a3 from None (Some true) None None None None
                        else set_end a3 from (Some (vis_of_code c)) None None None None None
            | None => a3
            end in
  let a5 := if se_getter e then set_end a4 from None None None None (Some true) None else a4 in
  let a6 := if se_setter e then set_end a5 from None None None None None (Some true) else a5 in
  if se_const e then set_end a6 from None None (Some true) None None None else a6.

(* is the to-end written before the from-end? *)
Fixpoint to_first (l : list slot) : bool :=
  match l with
  | [] => false
  | STag TTo :: _ => true
  | STag TFrom :: _ => false
  | _ :: r => to_first r
  end.

Definition rassoc_of (S : sdiagram) (x : sassoc) : rassoc :=
  let a0 := set_comment (assoc0 (sx_id x) (ostr (sx_name x))) (doc_value (sx_doc x)) in
  if to_first (sx_layout x) then end_spec S true (sx_from x) (end_spec S false (sx_to x) a0)
  else end_spec S false (sx_to x) (end_spec S true (sx_from x) a0).

Definition rdiagram_of (S : sdiagram) : rdiagram :=
  {| rd_classes := flat_map (fun se => match snd se with EClass c => [(sc_id c, rclass_of S c)] | _ => [] end) (sd_shapes S);
     rd_packages := flat_map (fun se => match snd se with EPackage p => [(sk_id p, rpackage_of p)] | _ => [] end) (sd_shapes S);
     rd_assocs := flat_map (fun se => match snd se with EAssoc x => [(sx_id x, rassoc_of S x)] | _ => [] end) (sd_shapes S);
     rd_inhs := flat_map (fun se => match snd se with EInh i => [(si_id i, rinh_of S i)] | _ => [] end) (sd_shapes S) |}.

(* the class diagram the generator model (Model/Uml.v) works on *)
Definition cdiagram_of (S : sdiagram) : cdiagram := to_cdiagram (rdiagram_of S).

(* ---------------------------------------------------------------- DOMAIN (boolean, extracted) *)

Definition reserved_keys : list string :=
  ["visibility"; "returnType_0"; "typeModifier"; "abstract"; "query"; "scope"; "documentation_plain"; "type_0"; "type_string";
   "direction"; "defaultValue_string"; "multiplicity"; "initialValue_string"; "hasSetter"; "hasGetter"; "readOnly";
   "fromModel_0"; "toModel_0"; "id"; "name"; "type";
   "Direction"; "EndModelElement_0"; "aggregationKind"; "providePropertyGetterMethod"; "providePropertySetterMethod"].
Definition reserved_parts : list string := ["child"; "stereotype"; "abstract"; "documentation_plain"].

(* a text as the theorems of the text layer need it: plain, no braces, no ',', no blank at the ends, no apostrophe *)
Definition txt (s : string) : bool :=
  plain s && no_char "," s && String.eqb (py_strip s) s && no_char "{" s && no_char "}" s.
(* a VALUE (default, initial value, multiplicity, modifier, documentation): it may hold ',' -- the reader keeps the commas and
   only drops a value of which nothing but commas and blanks is left *)
Definition vtxt (s : string) : bool :=
  plain s && String.eqb (py_strip s) s && no_char "{" s && no_char "}" s
  && (String.eqb s "" || negb (String.eqb (py_strip (remove_char "," s)) "")).
(* the NAME of a member (operation, attribute, parameter, literal) or of an association: what the header of its blob can hold
   between the quotes (UmlDomain.nameok: = < > ( ) , : are ordinary characters -- operator<, operator() -- since the repair of
   K-C19-7), without braces *)
Definition nbr (s : string) : bool := no_char "{" s && no_char "}" s.
Definition ntxt (s : string) : bool := nameok s && nbr s.
Definition mname (s : string) : bool := ntxt s && negb (String.eqb s "").
Definition ident (s : string) : bool := txt s && no_char ":" s && negb (String.eqb s "").
Definition noise_key (k : string) : bool :=
  plain k && no_char SP k && no_char "," k && no_char "{" k && no_char "}" k && negb (String.eqb k "")
  && negb (existsb (String.eqb k) reserved_keys) && forallb (fun p => negb (contains p (lower k))) reserved_parts.
(* a noise value as written: text or "text" *)
Definition noise_val (v : string) : bool :=
  (txt v && negb (prefixb dq v) && negb (String.eqb v ""))
  || (prefixb dq v && String.eqb v (q (substring 1 (String.length v - 2) v)) && txt (substring 1 (String.length v - 2) v)
      && negb (String.eqb (substring 1 (String.length v - 2) v) "")).

(* the dictionary keys an item writes: a scalar property its key, a reference list key_0, key_1, ... *)
Definition item_keys (it : witem) : list string :=
  match it with
  | IField _ k v => if String.eqb (py_strip (remove_char "," (unq v))) "" then [] else [k]     (* a blank value is dropped *)
  | IRefs _ k _ _ _ ids => (fix go (l : list string) (n : nat) : list string := match l with [] => [] | _ :: r => (k ++ "_" ++ dec n) :: go r (S n) end) ids 0
  (* free text: the keys Get_ValuesFromOutside makes of that one piece *)
  | IRaw s => map fst (vstep [] (repr_body SQ (chop s)))
  | _ => []
  end.
Definition entry_keys (its : list witem) : list string := flat_map item_keys its.

Fixpoint nodup_tags (l : list slot) (seen : list tag) : bool :=
  match l with
  | [] => true
  | SNoise _ _ :: r | SInert _ :: r => nodup_tags r seen
  | STag t :: r => negb (existsb (tag_eqb t) seen) && nodup_tags r (t :: seen)
  end.
Fixpoint nodups (l : list string) : bool :=
  match l with [] => true | x :: r => negb (existsb (String.eqb x) r) && nodups r end.

Definition has_tag (t : tag) (l : list slot) : bool := existsb (fun s => match s with STag x => tag_eqb x t | _ => false end) l.
Definition layout_ok (f : tag -> option witem) (l : list slot) : bool :=
  nodup_tags l []
  (* no property key is written twice; none looks like the key of an owned element *)
  && nodups (entry_keys (items_of "" f l)) && forallb (fun k => negb (prefixb "child_" k)) (entry_keys (items_of "" f l))
  && forallb (fun s => match s with SNoise k v => noise_key k && noise_val v | _ => true end) l
  && forallb (fun t => match f t with Some _ => has_tag t l | None => true end)
       [TVis; TRet; TTypeMod; TAbstract; TQuery; TScope; TDoc; TChild; TType; TTypeString; TDir; TDefault; TMult; TInit; TSetter; TGetter;
        TReadOnly; TStereo; TFrom; TTo; TAgg].

(* INERT properties, per kind of element: inside the text domain; their dictionary keys are none of the keys the reader looks up
   in such an element and contain none of the words it scans the keys for; owned elements it would take for members are excluded
   by their type *)
Inductive ekind := KParam | KOp | KAttr | KClass | KPackage | KInh | KAssoc | KEnd | KNone.
Definition kind_keys (k : ekind) : list string :=
  match k with
  | KParam => ["type_string"; "type_0"; "direction"; "typeModifier"; "defaultValue_string"; "multiplicity"]
  | KOp => ["visibility"; "returnType_0"; "typeModifier"; "documentation_plain"; "scope"; "abstract"; "query"]
  | KAttr => ["visibility"; "typeModifier"; "type_0"; "documentation_plain"; "scope"; "initialValue_string"; "multiplicity"; "hasSetter"; "hasGetter"; "readOnly"]
  | KInh => ["fromModel_0"; "toModel_0"]
  | KAssoc => ["documentation_plain"]
  | KEnd => ["Direction"; "EndModelElement_0"; "aggregationKind"; "multiplicity"; "visibility"; "providePropertyGetterMethod"; "providePropertySetterMethod"; "readOnly"]
  | _ => []
  end.
Definition kind_parts (k : ekind) : list string :=
  match k with
  | KOp | KPackage | KAssoc => ["child"]
  | KClass => ["child"; "stereotype"; "abstract"; "documentation_plain"]
  | _ => []
  end.
Definition kind_child_ok (k : ekind) (ty : string) : bool :=
  match k with
  | KClass => negb (String.eqb (lower ty) "operation") && negb (String.eqb (lower ty) "attribute") && negb (String.eqb (py_strip (lower ty)) "enumerationliteral")
  | KOp => negb (String.eqb (lower ty) "parameter")
  | KAssoc => negb (contains "associationend" (lower ty))
  | _ => true
  end.
Definition item_text_ok (it : witem) : bool :=
  let n := WNode "i" None "T" [it] "" in wf_node n && nbq_node n.
Definition inert_ok (k : ekind) (it : witem) : bool :=
  item_text_ok it
  && forallb (fun key => negb (existsb (String.eqb key) (kind_keys k)) && forallb (fun p => negb (contains p (lower key))) (kind_parts k)) (item_keys it)
  && match it with IChildren _ _ _ _ _ ns => forallb (fun n => kind_child_ok k (node_type n)) ns | _ => true end.
Definition inerts_ok (k : ekind) (l : list slot) : bool :=
  forallb (fun s => match s with SInert it => inert_ok k it | _ => true end) l.
Definition doc_ok (ws : string) (d : sdoc) : bool :=
  match d with
  | DText v => vtxt v
  | DRaw t => raw_ok (ws ++ "documentation_plain=" ++ q t) && no_char "=" t && no_char "<" t
              && negb (String.eqb (py_strip (remove_char "," (mass_replace (repr_body SQ (q t))))) "")
  end.

(* a type name (CleanModifiersFromType turns boolean into bool and drops * & [ ] : the specification applies it) *)
Definition type_ok (t : string) : bool := txt t && negb (String.eqb t "").
Definition known (S : sdiagram) (id : string) : bool := match name_of S id with Some _ => true | None => false end.
Definition path_ok (S : sdiagram) (ids : list string) : bool :=
  forallb (fun i => ident i && known S i && ident (ostr (name_of S i))) ids.
Definition tpath_ok (S : sdiagram) (ids : list string) : bool := path_ok S ids && type_ok (type_name S ids).

Definition param_ok (S : sdiagram) (p : sparam) : bool :=
  nl_ok (sp_nl p) && ident (sp_id p) && nameok (sp_name p) && nbr (sp_name p)
  && match sp_basic p with Some s => type_ok s | None => negb (match sp_type p with [] => true | _ => false end) && tpath_ok S (sp_type p) end
  && vtxt (sp_mod p) && vtxt (sp_default p) && vtxt (sp_mult p) && layout_ok (param_item p) (sp_layout p) && inerts_ok KParam (sp_layout p).
Definition code_ok (o : option string) : bool := match o with Some c => txt c && negb (String.eqb c "") && negb (prefixb dq c) | None => true end.
Definition op_ok (S : sdiagram) (o : sop) : bool :=
  nl_ok (so_nl o) && ident (so_id o) && mname (so_name o) && code_ok (so_vis o)
  && match so_ret o with [] => true | ids => tpath_ok S ids end
  && vtxt (so_retmod o) && doc_ok (tabsn (so_nl o) 3) (so_doc o) && forallb (param_ok S) (so_params o) && layout_ok (op_item o) (so_layout o) && inerts_ok KOp (so_layout o).
Definition attr_ok (S : sdiagram) (a : sattr) : bool :=
  nl_ok (sa_nl a) && ident (sa_id a) && nameok (sa_name a) && nbr (sa_name a) && code_ok (sa_vis a)
  && match sa_type a with [] => true | ids => tpath_ok S ids end
  && vtxt (sa_mod a) && vtxt (sa_mult a) && doc_ok (tabsn (sa_nl a) 3) (sa_doc a) && vtxt (sa_init a) && layout_ok (attr_item a) (sa_layout a) && inerts_ok KAttr (sa_layout a).
Definition member_ok (S : sdiagram) (m : smember) : bool :=
  match m with
  | MOp o => op_ok S o
  | MAttr a => attr_ok S a
  | MLit id name nl noise => nl_ok nl && ident id && mname name && layout_ok (fun _ => None) noise && inerts_ok KNone noise
  end.
Definition class_ok (S : sdiagram) (c : sclass) : bool :=
  nl_ok (sc_nl c) && ident (sc_id c) && txt (sc_name c) && no_char ":" (sc_name c)
  && forallb (fun i => ident i && known S i) (sc_stereos c) && doc_ok (tabsn (sc_nl c) 1) (sc_doc c)
  && forallb (member_ok S) (sc_members c) && layout_ok (class_item c) (sc_layout c) && inerts_ok KClass (sc_layout c).
Definition package_ok (S : sdiagram) (p : spackage) : bool :=
  nl_ok (sk_nl p) && ident (sk_id p) && ident (sk_name p)
  && forallb (fun path => negb (match path with [] => true | _ => false end) && forallb ident path
                          && forallb (fun i => existsb (fun se => match snd se with EPackage k => String.eqb (sk_id k) i | _ => false end) (sd_shapes S)) (removelast path)) (sk_paths p)
  && layout_ok (package_item p) (sk_layout p) && inerts_ok KPackage (sk_layout p).
Definition inh_ok (S : sdiagram) (i : sinh) : bool :=
  nl_ok (si_nl i) && ident (si_id i) && negb (match si_from i with [] => true | _ => false end) && negb (match si_to i with [] => true | _ => false end)
  && path_ok S (si_from i) && path_ok S (si_to i) && layout_ok (inh_item i) (si_layout i) && inerts_ok KInh (si_layout i).

Definition name_ok (avoid : string) (nm : option string) : bool :=
  match nm with Some n => txt n && no_char ":" n && negb (contains avoid n) | None => true end.
Definition end_ok (S : sdiagram) (from : bool) (e : send) : bool :=
  nl_ok (se_nl e) && ident (se_id e) && negb (contains "readOnly" (se_id e)) && name_ok "readOnly" (se_name e)
  && negb (match se_class e with [] => true | _ => false end) && path_ok S (se_class e)
  && vtxt (se_mult e) && code_ok (se_agg e) && code_ok (se_vis e) && layout_ok (end_item from e) (se_layout e) && inerts_ok KEnd (se_layout e).
Definition assoc_ok (S : sdiagram) (x : sassoc) : bool :=
  (* the NAME of an association may hold colons (the reader does not use the header of its blob) *)
  nl_ok (sx_nl x) && ident (sx_id x) && negb (contains "documentation_plain" (sx_id x))
  && match sx_name x with Some n => ntxt n && negb (contains "documentation_plain" n) | None => true end
  && doc_ok (tabsn (sx_nl x) 1) (sx_doc x) && end_ok S true (sx_from x) && end_ok S false (sx_to x) && layout_ok (assoc_item x) (sx_layout x) && inerts_ok KAssoc (sx_layout x).

Definition sdiagram_ok (S : sdiagram) : bool :=
  forallb (fun se => match snd se with
                     | EClass c => class_ok S c
                     | EPackage p => package_ok S p
                     | EInh i => inh_ok S i
                     | EAssoc x => assoc_ok S x
                     | EOther id nm ty _ nl noise =>
                         nl_ok nl && ident id && match nm with Some n => txt n && no_char ":" n | None => true end && ident ty
                         && negb (existsb (String.eqb ty) ["Class"; "Package"; "Association"; "Realization"; "Generalization"])
                         && layout_ok (fun _ => None) noise && inerts_ok KNone noise
                     end
                     (* str(bytes) of the row delimits with apostrophes: no apostrophe in it, or a double quote *)
                     && quote_ok (print_node (we_node (welem_of (snd se))))) (sd_shapes S)
  && forallb (fun r => nl_ok (sr_nl r) && ident (sr_id r) && txt (sr_name r) && no_char ":" (sr_name r) && ident (sr_type r) && layout_ok (fun _ => None) (sr_noise r) && inerts_ok KNone (sr_noise r)) (sd_refd S)
  (* every element is drawn once; a class lies on at most one package path *)
  && nodups (map (fun se => elem_id (snd se)) (sd_shapes S))
  && nodups (map (fun p => last p "") (all_paths S)).
