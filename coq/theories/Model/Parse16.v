(* Reading template lines back into the template syntax of Spec/RefExpand16.v (the inverse of render16), so that the
   theorems about templates of the grammar can be applied to the SHIPPED template files of Gen/Templates.v.
   Nothing is proved about the parser: for each file the result is checked by computation (render16 (parse) = lines). *)
From Coq Require Import String Ascii List Bool Arith.
From KV Require Import Lib.Str Lib.StrOps Lib.ODict Gen.Tags Model.Engine Model.EngineSM Model.EngineDomain Model.EngineDomain16
                       Model.EngineDomain07 Spec.RefExpand Spec.RefExpand16.
Import ListNotations.
Open Scope string_scope.
Open Scope list_scope.

Definition flush (lit : string) : uline := match lit with EmptyString => [] | _ => [Lit lit] end.
Definition tag_seg (m : string) : seg := let '(n, d) := split1 EQ m in Tag n d.

Fixpoint segs_go (skip : nat) (lit : string) (s : string) : uline :=
  match s with
  | EmptyString => flush lit
  | String c r =>
      match skip with
      | S k => segs_go k lit r
      | O => match match_tag s with
             | Some (m, _) => flush lit ++ tag_seg m :: segs_go (String.length m + 5) EmptyString r
             | None => segs_go 0 (lit ++ String c EmptyString)%string r
             end
      end
  end.
Definition parse_segs (s : string) : uline := segs_go 0 EmptyString s.

(* s without its final newline *)
Fixpoint chop_nl (s : string) : option string :=
  match s with
  | EmptyString => None
  | String c EmptyString => if Ascii.eqb c LF then Some EmptyString else None
  | String c r => option_map (String c) (chop_nl r)
  end.

Definition strip_suffix (suf s : string) : option string :=
  let n := String.length s - String.length suf in
  if String.eqb (drop n s) suf then Some (take n s) else None.

Definition delims : list (option ekind * string) :=
  (None, "PER_ACTION_SIGNATURE") :: map (fun k => (Some k, block_word k)) [KState; KEvent; KAction; KGuard; KStruct; KProto; KMsg].

Fixpoint find_begin (ds : list (option ekind * string)) (l : string) : option (option ekind * string * string) :=
  match ds with
  | [] => None
  | (id, w) :: r => match strip_suffix (begin_line w) l with
                    | Some ib => Some (id, w, ib)
                    | None => find_begin r l
                    end
  end.

(* the end line of a block: what precedes and what follows the end tag (without the newline) *)
Definition split_end (w l : string) : option (string * string) :=
  let tg := ("<<<" ++ w ++ "_END>>>")%string in
  match find tg l with
  | Some i => match chop_nl (drop (i + String.length tg) l) with
              | Some sfx => Some (take i l, sfx)
              | None => None
              end
  | None => None
  end.

Definition mk_block (id : option ekind) (ib ie : string) (body : list uline) : item16 :=
  match id with Some k => Block k ib ie body | None => SigBlock ib ie body end.

(* reader state: outside blocks / inside a per-element or signature block / inside the nested transition block at the
   per-state, per-event, per-transition level *)
Inductive pstate :=
| P0
| PB (id : option ekind) (w ib : string) (acc : list uline)
| PT (ib : string) (tacc : list titem)
| PE (ib : string) (tacc : list titem) (ibe : string) (eacc : list eitem)
| PG (ib : string) (tacc : list titem) (ibe : string) (eacc : list eitem) (ibg : string) (gacc : list uline).

Fixpoint parse16_go (cur : pstate) (ls : list string) : option template16 :=
  match ls with
  | [] => match cur with P0 => Some [] | _ => None end
  | l :: r =>
      match cur with
      | P0 =>
          match strip_suffix (begin_line "PER_STATETRANSITION") l with
          | Some ib => parse16_go (PT ib []) r
          | None =>
              match find_begin delims l with
              | Some (id, w, ib) => parse16_go (PB id w ib []) r
              | None => option_map (cons (match chop_nl l with
                                          | Some txt =>
                                              if no3 txt then Text txt
                                              else match strip_suffix (ttt_tag true) txt, strip_suffix (ttt_tag false) txt with
                                                   | Some pre, _ => TableLine pre true       (* the boost::sml table printers *)
                                                   | None, Some pre => TableLine pre false
                                                   | None, None =>
                                                       let l := parse_segs txt in
                                                       if forallb (closed_seg init_keys) l then InitLine l   (* the initial state *)
                                                       else UserLine l                                      (* user tags *)
                                                   end
                                          | None => Raw l
                                          end)) (parse16_go P0 r)
              end
          end
      | PB id w ib acc =>
          match (if String.eqb w "PER_MSG" then split_end w l else option_map (fun ie => (ie, EmptyString)) (strip_suffix (end_line w) l)) with
          | Some (ie, sfx) =>
              let body := rev acc in
              let it := if String.eqb w "PER_MSG" && (negb (String.eqb sfx "") || existsb (mentions "MSGID") body)
                        then MsgBlock ib ie sfx body      (* text after the end tag, or <<<MSGID>>> in the body *)
                        else if String.eqb w "PER_EVENT" && existsb (fun l => mentions "SIGNATURE" l || mentions "SIGNATUREWITHDEFAULTS" l) body
                        then EvBlock ib ie body          (* the event's signature (interface oracle) *)
                        else mk_block id ib ie body in
              if String.eqb sfx "" || String.eqb w "PER_MSG" then option_map (cons it) (parse16_go P0 r) else None
          | None => match chop_nl l with
                    | Some b => parse16_go (PB id w ib (parse_segs b :: acc)) r
                    | None => None
                    end
          end
      | PT ib tacc =>
          match strip_suffix (end_line "PER_STATETRANSITION") l with
          | Some ie => option_map (cons (TransBlock ib ie (rev tacc))) (parse16_go P0 r)
          | None =>
              match strip_suffix (begin_line "PER_EVENTTRANSITION") l with
              | Some ibe => parse16_go (PE ib tacc ibe []) r
              | None => match chop_nl l with
                        | Some b => parse16_go (PT ib (TLine (parse_segs b) :: tacc)) r
                        | None => None
                        end
              end
          end
      | PE ib tacc ibe eacc =>
          match strip_suffix (end_line "PER_EVENTTRANSITION") l with
          | Some iee => parse16_go (PT ib (TEvent ibe iee (rev eacc) :: tacc)) r
          | None =>
              match strip_suffix (begin_line "PER_GUARDTRANSITION") l with
              | Some ibg => parse16_go (PG ib tacc ibe eacc ibg []) r
              | None => match chop_nl l with
                        | Some b => parse16_go (PE ib tacc ibe (ELine (parse_segs b) :: eacc)) r
                        | None => None
                        end
              end
          end
      | PG ib tacc ibe eacc ibg gacc =>
          match strip_suffix (end_line "PER_GUARDTRANSITION") l with
          | Some ieg => parse16_go (PE ib tacc ibe (EGuard ibg ieg (rev gacc) :: eacc)) r
          | None => match chop_nl l with
                    | Some b => parse16_go (PG ib tacc ibe eacc ibg (parse_segs b :: gacc)) r
                    | None => None
                    end
          end
      end
  end.
Definition parse16 (ls : list string) : option template16 := parse16_go P0 ls.

(* a shipped template file under a concrete first-filter dictionary: the lines after the first filtering, read back *)
Definition shipped16 (dict : list (string * string)) (lines : list string) : option (list string * template16) :=
  match load_file dict lines with
  | Some l0 => match parse16 l0 with
               | Some t => if list_eqb (render16 t) l0 && in_grammar16 t then Some (l0, t) else None
               | None => None
               end
  | None => None
  end.

(* the first-filter dictionary of a generation with state machine / class name X, namespace NS, author a, group g, brief b
   (the two dates are not used by these files) *)
Definition dict0 : list (string * string) :=
  [(stag "__TAG_SM_NAME_UPPER__", "X"); (stag "__TAG_SM_NAME_SMALL_CAMEL__", "x"); (stag "__TAG_SM_NAME_SNAKE__", "x"); (stag "__TAG_SM_NAME__", "X");
   (stag "__TAG_CLASS_NAME__", "X"); (stag "__TAG_CLASS_NAME_SNAKE__", "x"); (stag "__TAG_PyIFGen_NAME__", "Transition Table"); (stag "__TAG_NAMESPACE__", "NS");
   (stag "__TAG_AUTHOR__", "a"); (stag "__TAG_GROUP__", "g"); (stag "__TAG_BRIEF__", "b"); (stag "__TAG_DECLSPEC_DLL_EXPORT__", "")].

Definition file_of (name : string) (set : list (string * list string)) : list string :=
  match lookup String.eqb name set with Some ls => ls | None => [] end.

(* what the harness evaluates on a generated table: is it in the domain of the for-all-models theorems of the shipped file? *)
Definition names_ok_shipped (lines : list string) (tt : list EngineSM.row) (structs protos msgs : list string) : bool :=
  match shipped16 dict0 lines with
  | Some (_, t) => in_grammar07 t && names_ok t (elements_of (table_of tt) structs protos msgs)
  | None => false
  end.

(* the same for Test.TEMPLATEStateMachine.cs (C07_wf_out_Test_TEMPLATEStateMachine_cs), with the user-tag assignment a *)
Definition names_ok_shipped_cs (lines : list string) (tt : list EngineSM.row) (structs protos msgs : list string) (a : list (string * string)) : bool :=
  match shipped16 dict0 lines with
  | Some (_, t) => let e := with_user a (elements_of (table_of tt) structs protos msgs) in
                   in_grammar07 t && names_ok t e && hooks_free e && user_lines_plain e t
  | None => false
  end.

(* any shipped file inside the grammar: the reference text for a table, an interface, the signature oracle and a user-tag assignment; its admission *)
Definition shipped_ref (lines : list string) (tt : list EngineSM.row) (structs protos msgs : list string)
                       (sigs : list (string * (string * string))) (a : list (string * string)) : option string :=
  match shipped16 dict0 lines with
  | Some (_, t) => Some (ref16 (with_user a (with_evsigs sigs (elements_of (table_of tt) structs protos msgs))) t)
  | None => None
  end.
Definition shipped_wf (lines : list string) (tt : list EngineSM.row) (structs protos msgs : list string)
                      (sigs : list (string * (string * string))) (a : list (string * string)) : bool :=
  match shipped16 dict0 lines with
  | Some (_, t) => wf_elements16 t (with_user a (with_evsigs sigs (elements_of (table_of tt) structs protos msgs)))
  | None => false
  end.

(* the domain of the for-all-models USER-tag theorems of the whole files TEMPLATEStateMachine.py / TEMPLATEStateMachine.h (C07_wf_out_TEMPLATEStateMachine_py / _h):
   names_ok_x (alphanumeric names; initial state, transition lists, table cells and the oracle's signature strings free of '{', backslash, CR -- syntactic)
   and user_lines_plain, under the signature oracle sigs and the user-tag assignment a; texts_ok07 / dyn_ok07: computed on the file *)
Definition names_ok_shipped_x (lines : list string) (tt : list EngineSM.row) (structs protos msgs : list string)
                              (sigs : list (string * (string * string))) (a : list (string * string)) : bool :=
  match shipped16 dict0 lines with
  | Some (_, t) => let e := with_user a (with_evsigs sigs (elements_of (table_of tt) structs protos msgs)) in
                   texts_ok07 (strip t) && dyn_ok07 (strip t) && names_ok_x (strip t) e && user_lines_plain e (strip t)
  | None => false
  end.
