(* The text of the abstract Python lines of Model/PySM.v, and the "State Processing" region of the SHIPPED template
   statemachine_templates_py/TEMPLATEStateMachine.py (Gen/Templates.v) in the template syntax of Spec/RefExpand16.v.

     atom_text / render_pyline   the Python statement an abstract line (indentation, atom) stands for
     is_skip_text                a blank line, a comment, or a print(...) statement (the lines PySM abstracts to ASkip)
     reads                       a text line is the rendering of an abstract line (a skip line is recognised, not rendered:
                                 ASkip carries no text)
     py_proc_lines               the template's lines from  def process(self, event)  to the end of the file, after the first
                                 filtering with dict0 (state machine name "X")
     py_proc16                   the same read into the template syntax (checked: renders back to py_proc_lines, in_grammar16)
   No proofs in this file. *)
From Coq Require Import String Ascii List Bool Arith.
From KV Require Import Lib.Str Lib.StrOps Lib.ODict Lib.TableDef Gen.Tags Gen.Templates Gen.PyTmpl Model.TTable Model.PyShape Model.PySM
                       Model.Engine Model.EngineSM Model.EngineDomain Model.EngineDomain16 Model.Parse16 Spec.RefExpand Spec.RefExpand16.
Import ListNotations.
Open Scope string_scope.

Definition atom_text (smn : string) (a : patom) : string :=
  match a with
  | ADef n => if String.eqb n "__init__" then "def __init__(self, controller):" else "def " ++ n ++ "(self, event) -> None:"
  | AIfState s => "if self.currentState == " ++ smn ++ "StateId.c" ++ s ++ ":"
  | ACallState s => "self.process" ++ s ++ "(event)"
  | AReturn => "return"
  | AIfEvent e => "if isinstance(event, " ++ e ++ "):"
  | AIfGuard g => "if self.context." ++ g ++ "(event):"
  | AIfTrue => "if True:"
  | AExit s => "self.context.On" ++ s ++ "Exit(event)"
  | AAction a => "self.context." ++ a ++ "(event)"
  | AEntry s => "self.context.On" ++ s ++ "Entry(event)"
  | AEntryStartup s => "self.context.On" ++ s ++ "Entry(EventStartup())"
  | ASetState s => "self.currentState = " ++ smn ++ "StateId.c" ++ s
  | ANoTrans => "self.context.NoTransition(event)"
  | ASkip => ""
  | ABad => "<<<>>>"
  end.

Definition render_pyline (smn : string) (l : line) : string := spaces (fst l) ++ atom_text smn (snd l) ++ nl_str.

Fixpoint count_sp (s : string) : nat :=
  match s with String c r => if Ascii.eqb c SP then S (count_sp r) else 0 | EmptyString => 0 end.

(* blank / comment: anywhere; a print statement: at the indentation of the abstract line *)
Definition is_skip_text (ind : nat) (s : string) : bool :=
  let b := lstrip_c SP s in
  String.eqb b nl_str || prefixb "#" b || (prefixb "print(" b && Nat.eqb (count_sp s) ind).

Definition reads (smn : string) (s : string) (l : line) : bool :=
  match snd l with
  | ASkip => is_skip_text (fst l) s
  | _ => String.eqb s (render_pyline smn l)
  end.

Fixpoint reads_all (smn : string) (ss : list string) (ls : list line) : bool :=
  match ss, ls with
  | [], [] => true
  | s :: ss', l :: ls' => reads smn s l && reads_all smn ss' ls'
  | _, _ => false
  end.

(* ---------------------------------------------------------------- the shipped region *)
Fixpoint drop_to (p : string -> bool) (ls : list string) : list string :=
  match ls with [] => [] | l :: r => if p l then ls else drop_to p r end.

Definition py_file : list string := file_of "TEMPLATEStateMachine.py" tmpl_py.
Definition py_proc_start : string := "    def process(self, event) -> None:" ++ nl_str.
Definition py_proc_lines : list string :=
  match load_file dict0 py_file with
  | Some l => drop_to (String.eqb py_proc_start) l
  | None => []
  end.
Definition py_proc16_opt : option template16 :=
  match parse16 py_proc_lines with
  | Some t => if list_eqb (render16 t) py_proc_lines && in_grammar16 t && negb (match py_proc_lines with [] => true | _ => false end) then Some t else None
  | None => None
  end.
Definition py_proc16 : template16 := match py_proc16_opt with Some t => t | None => [] end.

(* the process part of the abstract template: Gen/PyTmpl.py_process is every line from def process to the end of the file *)
Definition gen_proc (t : table) : list line := gen_from py_process t.

(* what the harness evaluates: the reference text of the region for a table, and the reading of its lines as gen_py's process part *)
Definition py_proc_ref (tt : list EngineSM.row) (structs protos msgs : list string) : string := ref16_rows tt structs protos msgs py_proc16.
Definition py_proc_reads (tt : list EngineSM.row) (structs protos msgs : list string) : bool :=
  reads_all "X" (flat_map (ref_item16 (elements_of (table_of tt) structs protos msgs)) py_proc16) (gen_proc (table_of tt)).
Definition py_proc_ok : bool := match py_proc16_opt with Some _ => true | None => false end.

(* ---------------------------------------------------------------- the constructor's behaviour-deciding lines
   (selected as translator/pytmpl.py selects them: the def line and the lines that mention the initial state) *)
Definition py_init_def : string := "    def __init__(self, controller):" ++ nl_str.
Definition py_init_lines : list string :=
  match load_file dict0 py_file with
  | Some l => filter (fun s => String.eqb s py_init_def || contains "<<<STATE_0>>>" s) l
  | None => []
  end.
Definition py_init16_opt : option template16 :=
  match parse16 py_init_lines with
  | Some t => if list_eqb (render16 t) py_init_lines && in_grammar16 t && Nat.eqb (List.length py_init_lines) 3 then Some t else None
  | None => None
  end.
Definition py_init16 : template16 := match py_init16_opt with Some t => t | None => [] end.
Definition gen_init (t : table) : list line :=
  [(4, ADef "__init__"); (8, AEntryStartup (getfirststate t)); (8, ASetState (getfirststate t))].
Definition py_init_ref (tt : list EngineSM.row) (structs protos msgs : list string) : string := ref16_rows tt structs protos msgs py_init16.

(* ---------------------------------------------------------------- the WHOLE shipped file
   The signature strings of the events (get_event_signature without / with defaults, printed by LanguagePython) are an ORACLE: a parameter. *)
Definition py_file16_opt : option template16 := option_map snd (shipped16 dict0 py_file).
Definition py_file16 : template16 := match py_file16_opt with Some t => t | None => [] end.
Definition py_elements (tt : list EngineSM.row) (structs protos msgs : list string) (sigs : list (string * (string * string))) (a : list (string * string)) : elements :=
  with_user a (with_evsigs sigs (elements_of (table_of tt) structs protos msgs)).
Definition py_file_ref (tt : list EngineSM.row) (structs protos msgs : list string) (sigs : list (string * (string * string))) (a : list (string * string)) : string :=
  ref16 (py_elements tt structs protos msgs sigs a) py_file16.
Definition py_file_wf (tt : list EngineSM.row) (structs protos msgs : list string) (sigs : list (string * (string * string))) (a : list (string * string)) : bool :=
  match py_file16_opt with Some t => wf_elements16 t (py_elements tt structs protos msgs sigs a) | None => false end.
