(* Byte sequences as lists: lengths and indices in N (the C++ uses 32/64-bit unsigned counters), fixed-width
   wrap-around arithmetic written out, little-endian field decoding with the header layout of Gen/CxxConn.v. *)
From Coq Require Import String Ascii List Bool Arith NArith ZArith.
From KV Require Import Lib.Str Gen.CxxConn.
Import ListNotations.
Open Scope N_scope.
Open Scope list_scope.

Definition byte := ascii.

Definition len (l : list byte) : N := N.of_nat (length l).
Definition take (n : N) (l : list byte) : list byte := firstn (N.to_nat n) l.
Definition drop (n : N) (l : list byte) : list byte := skipn (N.to_nat n) l.

(* data[off .. off+n) ; None when the range leaves the array (undefined behaviour in the C++) *)
Definition slice (off n : N) (l : list byte) : option (list byte) :=
  if off + n <=? len l then Some (take n (drop off l)) else None.

(* unsigned fixed-width arithmetic *)
Definition wrap (bits x : N) : N := x mod 2 ^ bits.
Definition wrap_sub (bits a b : N) : N := Z.to_N ((Z.of_N a - Z.of_N b) mod 2 ^ Z.of_N bits)%Z.
Definition w32 : N -> N := wrap count_bits.
Definition sub32 : N -> N -> N := wrap_sub count_bits.

(* little-endian unsigned integer *)
Fixpoint le_decode (l : list byte) : N :=
  match l with [] => 0 | b :: r => N_of_ascii b + 256 * le_decode r end.

Fixpoint le_encode (w : nat) (x : N) : list byte :=
  match w with O => [] | S w' => ascii_of_N (x mod 256) :: le_encode w' (x / 256) end.

(* struct sMsgHeader, every member packed: offsets are running sums of the widths *)
Fixpoint field_off (name : string) (fs : list (string * N)) : N :=
  match fs with
  | [] => 0
  | (n, w) :: r => if String.eqb n name then 0 else w + field_off name r
  end.
Fixpoint field_w (name : string) (fs : list (string * N)) : N :=
  match fs with
  | [] => 0
  | (n, w) :: r => if String.eqb n name then w else field_w name r
  end.
Definition size_of_header : N := fold_right (fun f a => snd f + a) 0 hdr_fields.
Definition field (name : string) (l : list byte) : N :=
  le_decode (take (field_w name hdr_fields) (drop (field_off name hdr_fields) l)).

Definition F_PREAMBLE : string := "Preamble".
Definition F_TYPEID : string := "TypeID".
Definition F_PAYLOADSIZE : string := "PayloadSize".
Definition payload_size (l : list byte) : N := field F_PAYLOADSIZE l.
Definition type_id (l : list byte) : N := field F_TYPEID l.

Definition zero_byte : byte := Ascii.zero.
Definition hd0 (l : list byte) : byte := hd zero_byte l.

(* IConnection::SetMsgReceiver: byte 0 = preamble & 0x00FF, byte 1 = preamble >> 8 (preamble is a uint16) *)
Definition preamble_bytes (pre : N) : byte * byte :=
  if preamble_low_first then (ascii_of_N (pre mod 256), ascii_of_N ((pre / 256) mod 256))
  else (ascii_of_N ((pre / 256) mod 256), ascii_of_N (pre mod 256)).
