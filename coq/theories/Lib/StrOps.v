(* More of Python's str, as used by the template engine (cgen.py / smgen.py).  ASCII only where case or
   whitespace classes are involved.  Indices that can be -1 in Python are Z.  No proofs in this file. *)
From Coq Require Import String Ascii List Bool Arith ZArith.
From KV Require Import Lib.Str.
Import ListNotations.
Open Scope string_scope.

Fixpoint drop (n : nat) (s : string) : string :=
  match n, s with
  | O, _ => s
  | S k, String _ r => drop k r
  | S _, EmptyString => EmptyString
  end.

Fixpoint take (n : nat) (s : string) : string :=
  match n, s with
  | O, _ => EmptyString
  | S k, String c r => String c (take k r)
  | S _, EmptyString => EmptyString
  end.

(* s.find(p) : index of the first occurrence *)
Fixpoint find (p s : string) : option nat :=
  if prefixb p s then Some 0
  else match s with
       | EmptyString => None
       | String _ r => option_map S (find p r)
       end.

(* s.rfind(p) : index of the last occurrence *)
Fixpoint rfind (p s : string) : option nat :=
  match s with
  | EmptyString => if prefixb p s then Some 0 else None
  | String _ r => match rfind p r with
                  | Some i => Some (S i)
                  | None => if prefixb p s then Some 0 else None
                  end
  end.

Definition zfind (p s : string) : Z := match find p s with Some i => Z.of_nat i | None => (-1)%Z end.
Definition zrfind (p s : string) : Z := match rfind p s with Some i => Z.of_nat i | None => (-1)%Z end.

(* Python index normalisation for slices: negative counts from the end, then clamp to [0, len] *)
Definition pyidx (i : Z) (s : string) : nat :=
  let n := Z.of_nat (String.length s) in
  let j := if (i <? 0)%Z then (i + n)%Z else i in
  if (j <? 0)%Z then 0 else if (n <? j)%Z then String.length s else Z.to_nat j.

(* s[i:j] *)
Definition pyslice (i j : Z) (s : string) : string :=
  let a := pyidx i s in let b := pyidx j s in take (b - a) (drop a s).

(* s.find(p, start) *)
Definition zfind_from (p : string) (start : Z) (s : string) : Z :=
  let a := pyidx start s in
  match find p (drop a s) with Some i => Z.of_nat (a + i) | None => (-1)%Z end.

(* s.replace(p, v) for a non-empty p: leftmost, non-overlapping.  [skip] = characters of a match still to pass. *)
Fixpoint replace_go (p v : string) (skip : nat) (s : string) : string :=
  match s with
  | EmptyString => EmptyString
  | String c r =>
      match skip with
      | S k => replace_go p v k r
      | O => if prefixb p s then v ++ replace_go p v (String.length p - 1) r
             else String c (replace_go p v 0 r)
      end
  end.

(* s.replace("", v) = v + c1 + v + c2 ... + v *)
Fixpoint intersperse (v s : string) : string :=
  match s with
  | EmptyString => v
  | String c r => v ++ String c (intersperse v r)
  end.

Definition replace_all (p v s : string) : string :=
  match p with
  | EmptyString => intersperse v s
  | _ => replace_go p v 0 s
  end.

(* str.isspace() / strip() character class, ASCII: \t \n \v \f \r, 0x1c..0x1f, space *)
Definition is_ws (c : ascii) : bool :=
  let n := nat_of_ascii c in
  ((9 <=? n)%nat && (n <=? 13)%nat) || ((28 <=? n)%nat && (n <=? 32)%nat).

Fixpoint lstrip_by (f : ascii -> bool) (s : string) : string :=
  match s with
  | EmptyString => EmptyString
  | String c r => if f c then lstrip_by f r else s
  end.

Fixpoint rstrip_by (f : ascii -> bool) (s : string) : string :=
  match s with
  | EmptyString => EmptyString
  | String c r => match rstrip_by f r with
                  | EmptyString => if f c then EmptyString else String c EmptyString
                  | r' => String c r'
                  end
  end.

Definition strip (s : string) : string := rstrip_by is_ws (lstrip_by is_ws s).
Definition lstrip_c (c : ascii) (s : string) := lstrip_by (Ascii.eqb c) s.
Definition rstrip_c (c : ascii) (s : string) := rstrip_by (Ascii.eqb c) s.
Definition strip_c (c : ascii) (s : string) := rstrip_c c (lstrip_c c s).

(* s.isspace() : non-empty and only whitespace *)
Fixpoint all_ws (s : string) : bool :=
  match s with EmptyString => true | String c r => is_ws c && all_ws r end.
Definition isspace (s : string) : bool := negb (String.eqb s "") && all_ws s.

(* s.split(c) for a one-character separator *)
Fixpoint split_on (c : ascii) (s : string) : list string :=
  match s with
  | EmptyString => [EmptyString]
  | String b r =>
      if Ascii.eqb b c then EmptyString :: split_on c r
      else match split_on c r with
           | x :: xs => String b x :: xs
           | [] => [String b EmptyString]
           end
  end.

(* s.split(c, 1) : (before, Some after) or (s, None) *)
Fixpoint split1 (c : ascii) (s : string) : string * option string :=
  match s with
  | EmptyString => (EmptyString, None)
  | String b r =>
      if Ascii.eqb b c then (EmptyString, Some r)
      else let '(x, y) := split1 c r in (String b x, y)
  end.

Fixpoint has_char (c : ascii) (s : string) : bool :=
  match s with EmptyString => false | String b r => Ascii.eqb b c || has_char c r end.

Definition is_upper (c : ascii) : bool := let n := nat_of_ascii c in (65 <=? n)%nat && (n <=? 90)%nat.
Definition is_lower (c : ascii) : bool := let n := nat_of_ascii c in (97 <=? n)%nat && (n <=? 122)%nat.
Definition is_digit (c : ascii) : bool := let n := nat_of_ascii c in (48 <=? n)%nat && (n <=? 57)%nat.
Definition lower_c (c : ascii) : ascii := if is_upper c then ascii_of_nat (nat_of_ascii c + 32) else c.
Definition upper_c (c : ascii) : ascii := if is_lower c then ascii_of_nat (nat_of_ascii c - 32) else c.
Fixpoint smap (f : ascii -> ascii) (s : string) : string :=
  match s with EmptyString => EmptyString | String c r => String (f c) (smap f r) end.
Definition lower := smap lower_c.
Definition upper := smap upper_c.

(* str(n) for a natural number *)
Definition digit_char (d : nat) : ascii := ascii_of_nat (48 + d).
Fixpoint dec_go (fuel n : nat) (acc : string) : string :=
  match fuel with
  | O => acc
  | S f => let acc' := String (digit_char (n mod 10)) acc in
           if (n / 10 =? 0)%nat then acc' else dec_go f (n / 10) acc'
  end.
Definition dec (n : nat) : string := dec_go (S n) n EmptyString.

(* int(s) for a string of ASCII digits *)
Fixpoint undec_go (acc : nat) (s : string) : nat :=
  match s with
  | EmptyString => acc
  | String c r => undec_go (10 * acc + (nat_of_ascii c - 48)) r
  end.
Definition undec (s : string) : nat := undec_go 0 s.
Fixpoint all_digits (s : string) : bool :=
  match s with EmptyString => true | String c r => is_digit c && all_digits r end.
(* s.isnumeric(), ASCII *)
Definition isnumeric (s : string) : bool := negb (String.eqb s "") && all_digits s.
