(* Byte strings: the operations of Python's str that kojen's preservation core uses.
   A Coq [string] is a sequence of bytes; text is carried as its UTF-8 bytes. *)
From Coq Require Import String Ascii List Bool Arith.
Import ListNotations.
Open Scope string_scope.

Definition chr (n : nat) : ascii := ascii_of_nat n.
Definition TAB : ascii := chr 9.
Definition LF : ascii := chr 10.
Definition SP : ascii := chr 32.
Definition BSL : ascii := chr 92.

(* bs [104;105] = "hi" : used by the translator so that any byte can be written *)
Fixpoint bs (l : list nat) : string :=
  match l with [] => EmptyString | n :: r => String (chr n) (bs r) end.

Definition nl_str : string := String LF EmptyString.

Fixpoint prefixb (p s : string) : bool :=
  match p, s with
  | EmptyString, _ => true
  | String a p', String b s' => Ascii.eqb a b && prefixb p' s'
  | String _ _, EmptyString => false
  end.

(* p in s *)
Fixpoint contains (p s : string) : bool :=
  prefixb p s || match s with EmptyString => false | String _ s' => contains p s' end.

(* s.replace(c, "") for a single character c *)
Fixpoint remove_char (c : ascii) (s : string) : string :=
  match s with
  | EmptyString => EmptyString
  | String b s' => if Ascii.eqb b c then remove_char c s' else String b (remove_char c s')
  end.

(* s.replace(ab, "") for a two-character pattern (leftmost, non-overlapping) *)
Fixpoint remove2 (a b : ascii) (s : string) : string :=
  match s with
  | EmptyString => EmptyString
  | String x s' =>
      match s' with
      | String y s'' =>
          if Ascii.eqb x a && Ascii.eqb y b then remove2 a b s''
          else String x (remove2 a b s')
      | EmptyString => String x EmptyString
      end
  end.

(* s.replace("\t", "    ") : createoutput's last filter *)
Fixpoint tab4 (s : string) : string :=
  match s with
  | EmptyString => EmptyString
  | String b s' => if Ascii.eqb b TAB then String SP (String SP (String SP (String SP (tab4 s'))))
                   else String b (tab4 s')
  end.

(* One step of CleanUpLine: .replace(pat, '') ; patterns of 1 or 2 characters (the translator refuses others) *)
Definition clean_step (s : string) (pat : string) : string :=
  match pat with
  | String a EmptyString => remove_char a s
  | String a (String b EmptyString) => remove2 a b s
  | _ => s
  end.

Definition clean_with (pats : list string) (s : string) : string := fold_left clean_step pats s.

(* Text-mode line iteration: split after every LF; the last piece is kept if non-empty. *)
Fixpoint split_lines (s : string) : list string :=
  match s with
  | EmptyString => []
  | String c s' =>
      if Ascii.eqb c LF then String c EmptyString :: split_lines s'
      else match split_lines s' with
           | [] => [String c EmptyString]
           | l :: r => String c l :: r
           end
  end.

Definition concat_lines (ls : list string) : string := String.concat "" ls.

Fixpoint no_char (c : ascii) (s : string) : bool :=
  match s with EmptyString => true | String b s' => negb (Ascii.eqb b c) && no_char c s' end.

(* a canonical line: no LF except as its last character, which must be LF *)
Fixpoint canonical (s : string) : bool :=
  match s with
  | EmptyString => false
  | String c EmptyString => Ascii.eqb c LF
  | String c s' => negb (Ascii.eqb c LF) && canonical s'
  end.

Fixpoint ends_lf (s : string) : bool :=
  match s with
  | EmptyString => false
  | String c EmptyString => Ascii.eqb c LF
  | String _ r => ends_lf r
  end.

(* the last line of a file: a canonical line, or a non-empty line without LF *)
Definition last_ok (l : string) : bool := canonical l || (no_char LF l && negb (String.eqb l "")).
