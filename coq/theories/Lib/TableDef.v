(* Transition tables as kojen receives them: a list of 5-tuples of strings
   [start state, event, next state, action, guard]; an absent next state / action / guard is spelled
   '' or any capitalisation of 'none' (smgen.py tests  x != "" and x.lower() != "none"). *)
From Coq Require Import String Ascii List Bool Arith.
Import ListNotations.
Open Scope string_scope.

Record row := mkRow { r_src : string; r_ev : string; r_next : string; r_act : string; r_guard : string }.
Definition table := list row.

Definition lower_ascii (c : ascii) : ascii :=
  let n := nat_of_ascii c in if Nat.leb 65 n && Nat.leb n 90 then ascii_of_nat (n + 32) else c.

Fixpoint lower (s : string) : string :=
  match s with EmptyString => EmptyString | String c r => String (lower_ascii c) (lower r) end.

Definition is_none (s : string) : bool := String.eqb s "" || String.eqb (lower s) "none".

Definition opt (s : string) : option string := if is_none s then None else Some s.

(* the rows of state [s] for event [e], in table order *)
Definition rows_for (t : table) (s e : string) : list row :=
  filter (fun r => String.eqb (r_src r) s && String.eqb (r_ev r) e) t.
