(* Insertion-ordered dictionaries (Python dict / OrderedDict) as association lists. *)
From Coq Require Import List Bool.
Import ListNotations.

Section ODict.
  Context {K V : Type}.
  Variable keqb : K -> K -> bool.

  Fixpoint lookup (k : K) (d : list (K * V)) : option V :=
    match d with
    | [] => None
    | (k', v) :: r => if keqb k k' then Some v else lookup k r
    end.

  Definition mem (k : K) (d : list (K * V)) : bool :=
    match lookup k d with Some _ => true | None => false end.

  (* d[k] = v : an existing key keeps its position *)
  Fixpoint upsert (k : K) (v : V) (d : list (K * V)) : list (K * V) :=
    match d with
    | [] => [(k, v)]
    | (k', v') :: r => if keqb k k' then (k', v) :: r else (k', v') :: upsert k v r
    end.

  Definition keys (d : list (K * V)) : list K := map fst d.
End ODict.
