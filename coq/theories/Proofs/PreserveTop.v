(* Top-level statements for C01..C04 assembled from PreserveStr (per file, bytes) and PreserveTree (code model). *)
From Coq Require Import String Ascii List Bool Arith Lia.
From KV Require Import Lib.Str Lib.ODict Model.PreserveCore Model.Preserve Gen.Tags
                       Proofs.StrProofs Proofs.PreserveCoreProofs Proofs.PreserveStr Proofs.PreserveTree.
Import ListNotations.
Open Scope string_scope.
Open Scope list_scope.

Definition items_of (lines : list string) : list (item string) :=
  match parse_items lines with Some its => its | None => [] end.

(* a directory: for each file name, the user blocks [U fn] spliced into the (TAB-normalised) fresh file *)
Definition dir_of (fresh : cmodel) (U : string -> string -> list string) (fn : string) : old_state :=
  match slookup fn fresh with
  | Some lines => Readable (on_disk (U fn) (items_of lines))
  | None => Missing
  end.

Definition blocks_ok (U : string -> string -> list string) : Prop := forall fn k, block_ok (U fn k) = true.

Definition fresh_ok (fresh : cmodel) : Prop :=
  names_ok (keys fresh) /\ forall fn lines, slookup fn fresh = Some lines -> wf_fresh_file lines = true.

Lemma wf_fresh_file_inv lines : wf_fresh_file lines = true ->
  items_okb (items_of lines) = true /\ parse_items lines = Some (items_of lines) /\ wfb (items_of lines) = true.
Proof.
  unfold wf_fresh_file, items_of. intros H.
  destruct (parse_items lines) as [its|]; [|discriminate]. apply andb_prop in H as [H1 H2]. auto.
Qed.

Lemma In_keys_lookup {V} k (m : list (string * V)) : In k (keys m) -> exists v, slookup k m = Some v.
Proof.
  induction m as [|[k2 v2] m IH]; simpl; [contradiction|].
  destruct (String.eqb k k2) eqn:E; [eexists; reflexivity|].
  intros [H|H]; [subst; rewrite String.eqb_refl in E; discriminate|auto].
Qed.

Lemma lookup_In_keys {V} k (m : list (string * V)) v : slookup k m = Some v -> In k (keys m).
Proof.
  induction m as [|[k2 v2] m IH]; simpl; [discriminate|].
  destruct (String.eqb k k2) eqn:E; [apply String.eqb_eq in E; subst; auto|auto].
Qed.

Lemma regen_file_preserve1 path fresh c :
  regen_file path fresh c
  = (concat_lines (map tab4 (fst (preserve1 path fresh (read_lines c)))),
     map tab4 (snd (preserve1 path fresh (read_lines c)))).
Proof.
  unfold regen_file, regen1, preserve1, regen_one, written.
  destruct (preserve_one _ _ _ _ _ _ _ _ _ _ _ _) as [o l]. reflexivity.
Qed.

(* what ends up on disk under a generated file's name and under its LostCode name *)
Lemma regen_lookup outdir old fresh fn lines :
  names_ok (keys fresh) -> slookup fn fresh = Some lines ->
  let r := regen outdir old fresh in
  slookup fn (fst r)
  = match old fn with
    | Missing => Some (concat_lines (map tab4 lines))
    | Unreadable => None
    | Readable c => Some (fst (regen_file (join outdir fn) lines c))
    end
  /\ slookup (lost_name fn) (fst r)
  = match old fn with
    | Readable c => match snd (regen_file (join outdir fn) lines c) with
                    | [] => None
                    | l => Some (concat_lines l)
                    end
    | _ => None
    end.
Proof.
  intros Hn Hl r. unfold r, regen. rewrite !createoutput_lookup.
  pose proof (lookup_In_keys _ _ _ Hl) as Hin.
  destruct (preserve_files_file outdir old fresh fn Hn Hin) as [H1 H2].
  rewrite H1, H2. unfold file_out, lost_out. rewrite Hl.
  destruct (old fn) as [| |c]; [split; reflexivity|split; reflexivity|].
  rewrite regen_file_preserve1.
  destruct (preserve1 (join outdir fn) lines (read_lines c)) as [o l].
  cbn [fst snd option_map]. split; [reflexivity|].
  destruct l as [|x l]; reflexivity.
Qed.

Lemma classic_lost k (names : list string) :
  (exists fn, In fn names /\ k = lost_name fn) \/ (forall fn, In fn names -> k <> lost_name fn).
Proof.
  induction names as [|x names IH].
  - right. intros fn [].
  - destruct (string_dec k (lost_name x)) as [E|N].
    + left. exists x. split; [left; reflexivity|assumption].
    + destruct IH as [[fn [H1 H2]]|H].
      * left. exists fn. split; [right; assumption|assumption].
      * right. intros fn [Hf|Hf]; [subst; assumption|apply H; assumption].
Qed.

(* C01, whole directory: regenerating the same code model over a directory that holds, for every generated
   file, arbitrary user blocks under its tags, rewrites every file with identical bytes, creates no
   LostCode file and reports exactly the generated files. *)
Theorem tree_fixed_point outdir fresh U :
  fresh_ok fresh -> blocks_ok U ->
  let r := regen outdir (dir_of fresh U) fresh in
  (forall fn lines, slookup fn fresh = Some lines ->
      slookup fn (fst r) = Some (on_disk (U fn) (items_of lines)))
  /\ (forall k, slookup k (fst r) <> None -> In k (keys fresh))
  /\ (forall k, In k (snd r) <-> In k (keys fresh)).
Proof.
  intros [Hn Hwf] HU r.
  assert (Hfile : forall fn lines, slookup fn fresh = Some lines ->
            slookup fn (fst r) = Some (on_disk (U fn) (items_of lines))
            /\ slookup (lost_name fn) (fst r) = None).
  { intros fn lines Hl. destruct (regen_lookup outdir (dir_of fresh U) fresh fn lines Hn Hl) as [H1 H2].
    fold r in H1, H2. rewrite H1, H2. unfold dir_of. rewrite Hl.
    destruct (wf_fresh_file_inv lines (Hwf fn lines Hl)) as (Ha & Hb & Hc).
    rewrite (regen_file_fixed_point (join outdir fn) (U fn) lines (items_of lines) Hb Hc Ha (HU fn)).
    split; reflexivity. }
  assert (Hother : forall k, slookup k (fst r) <> None -> In k (keys fresh)).
  { intros k Hk. destruct (in_dec string_dec k (keys fresh)) as [Hin|Hnin]; [assumption|].
    exfalso. apply Hk. unfold r, regen. rewrite createoutput_lookup.
    destruct (classic_lost k (keys fresh)) as [[fn [Hfn E]]|Hno].
    - subst k. destruct (In_keys_lookup _ _ Hfn) as [lines Hl].
      destruct (Hfile fn lines Hl) as [_ H2]. unfold r, regen in H2. rewrite createoutput_lookup in H2.
      exact H2.
    - rewrite preserve_files_other; [reflexivity|assumption|assumption]. }
  split; [intros fn lines Hl; apply Hfile; assumption|]. split; [assumption|].
  intros k. unfold r, regen. destruct (createoutput_returns (preserve_files outdir (dir_of fresh U) fresh)) as [E1 E2].
  rewrite E1. split.
  - intros Hk. apply Hother. unfold r, regen. rewrite createoutput_lookup.
    destruct (In_keys_lookup _ _ Hk) as [v Hv]. rewrite Hv. discriminate.
  - intros Hk. destruct (In_keys_lookup _ _ Hk) as [lines Hl].
    destruct (Hfile k lines Hl) as [H1 _]. unfold r, regen in H1. rewrite createoutput_lookup in H1.
    destruct (slookup k (preserve_files outdir (dir_of fresh U) fresh)) as [v|] eqn:Ev; [|discriminate].
    eapply lookup_In_keys. exact Ev.
Qed.

(* ---------------------------------------------------------------- C04: confinement *)
(* What is written under a file's name (and under its LostCode name) depends on that file's fresh lines and
   on that file's previous content only -- whatever the other files of the code model or of the directory
   are, and whatever their names are. *)
Theorem confined outdir fresh fresh' old old' fn lines :
  names_ok (keys fresh) -> names_ok (keys fresh') ->
  slookup fn fresh = Some lines -> slookup fn fresh' = Some lines -> old fn = old' fn ->
  slookup fn (fst (regen outdir old fresh)) = slookup fn (fst (regen outdir old' fresh'))
  /\ slookup (lost_name fn) (fst (regen outdir old fresh)) = slookup (lost_name fn) (fst (regen outdir old' fresh')).
Proof.
  intros Hn Hn' Hl Hl' Ho.
  destruct (regen_lookup outdir old fresh fn lines Hn Hl) as [H1 H2].
  destruct (regen_lookup outdir old' fresh' fn lines Hn' Hl') as [H1' H2'].
  cbv zeta in *. rewrite H1, H2, H1', H2', Ho. split; reflexivity.
Qed.

(* ---------------------------------------------------------------- C02: evolution *)
Definition wf_fresh_itemb (it : item string) : bool :=
  match it with
  | Plain l => negb (kpfx (kof l))
  | Pair o c => String.eqb (kof c) (kof o)
  end.

Definition wf_new_file (lines : list string) : bool :=
  match parse_items lines with Some its => forallb wf_fresh_itemb its | None => false end.

Lemma wf_new_file_inv lines : wf_new_file lines = true ->
  parse_items lines = Some (items_of lines) /\ Forall (wf_fresh_item kof kpfx) (items_of lines).
Proof.
  unfold wf_new_file, items_of. destruct (parse_items lines) as [its|]; [|discriminate].
  intros H. split; [reflexivity|]. apply Forall_forall. intros it Hit.
  rewrite forallb_forall in H. specialize (H it Hit). destruct it as [l|o c]; simpl in *.
  - apply negb_true_iff in H. exact H.
  - apply String.eqb_eq in H. exact H.
Qed.

Definition surviving (lines0 : list string) (u : string -> list string) (k : string) : list string :=
  if memk String.eqb k (pair_keys kof (items_of lines0)) then u k else [].

Theorem tree_evolution outdir fresh0 fresh1 U :
  fresh_ok fresh0 -> blocks_ok U -> names_ok (keys fresh1) ->
  (forall fn lines, slookup fn fresh1 = Some lines -> wf_new_file lines = true) ->
  let r := regen outdir (dir_of fresh0 U) fresh1 in
  (* files of the new model: fresh text of the new model + the old block under each tag of the same name *)
  (forall fn lines1, slookup fn fresh1 = Some lines1 ->
     slookup fn (fst r) = Some (match slookup fn fresh0 with
                                | Some lines0 => on_disk (surviving lines0 (U fn)) (items_of lines1)
                                | None => concat_lines (map tab4 lines1)
                                end))
  (* every other name that is not a LostCode name of a new file is not written at all *)
  /\ (forall k, ~ In k (keys fresh1) -> (forall fn, In fn (keys fresh1) -> k <> lost_name fn) ->
        slookup k (fst r) = None).
Proof.
  intros [Hn0 Hwf0] HU Hn1 Hwf1 r. split.
  - intros fn lines1 Hl1.
    destruct (regen_lookup outdir (dir_of fresh0 U) fresh1 fn lines1 Hn1 Hl1) as [H1 _].
    fold r in H1. rewrite H1. unfold dir_of.
    destruct (slookup fn fresh0) as [lines0|] eqn:E0; [|reflexivity].
    destruct (wf_fresh_file_inv lines0 (Hwf0 fn lines0 E0)) as (Ha & Hb & Hc).
    destruct (wf_new_file_inv lines1 (Hwf1 fn lines1 Hl1)) as (Hp & Hf).
    rewrite (regen_file_evolution (join outdir fn) (U fn) (items_of lines0) lines1 (items_of lines1)); try assumption.
    + reflexivity.
    + apply HU.
  - intros k Hk Hlost. unfold r, regen. rewrite createoutput_lookup.
    rewrite preserve_files_other by assumption. reflexivity.
Qed.

(* ---------------------------------------------------------------- C03: LostCode *)
Notation lost_entry_s path := (lost_entry nl nl (nl (basename path)) (nl lost_sep)).

(* the lines of the LostCode pseudo-file of one file: one labelled entry, in collection order, for every
   tag of the old file that holds a non-empty block and is not emitted by the new fresh file *)
Definition lost_lines (path : string) (u : string -> list string) (its its' : list (item string)) : list string :=
  map tab4 (flat_map (fun k => lost_entry_s path k (map tab4 (u k)))
              (filter (fun k => negb (memk String.eqb k (pair_keys kof its')) &&
                                match u k with [] => false | _ => true end)
                      (pair_keys kof its))).

Lemma used_keys_spec_s (tg : list (string * list string)) its' k :
  In k (used_keys String.eqb kof tg its') <-> In k (pair_keys kof its') /\ In k (keys tg).
Proof. exact (used_keys_spec String.eqb eqb_spec_str tab4 is_tag kof sub_of kpfx vis nl nl "" tg its' k). Qed.

Lemma memk_used_keys (tg : list (string * list string)) its' k :
  In k (keys tg) ->
  memk String.eqb k (used_keys String.eqb kof tg its') = memk String.eqb k (pair_keys kof its').
Proof.
  intros Hk.
  destruct (memk String.eqb k (pair_keys kof its')) eqn:E.
  - apply (memk_In String.eqb eqb_spec_str). apply used_keys_spec_s.
    split; [apply (memk_In String.eqb eqb_spec_str); assumption|assumption].
  - apply (memk_false String.eqb eqb_spec_str). intros H.
    apply used_keys_spec_s in H as [H _].
    apply (memk_In String.eqb eqb_spec_str) in H. congruence.
Qed.

Theorem lost_complete path (u : string -> list string) its fresh' its' :
  wfb its = true -> items_okb its = true -> (forall k, block_ok (u k) = true) ->
  parse_items fresh' = Some its' -> Forall (wf_fresh_item kof kpfx) its' ->
  snd (regen_file path fresh' (on_disk u its)) = lost_lines path u its its'.
Proof.
  intros Hwf Hl Hu Hp Hwf'. unfold regen_file.
  rewrite (read_on_disk u its Hl Hu).
  apply parse_items_flatten in Hp. subst fresh'.
  destruct (user_ok_blocks u Hu) as [Huo HT].
  unfold regen1.
  rewrite (regen_evolution String.eqb eqb_spec_str tab4 is_tag kof sub_of kpfx vis nl nl (nl (basename path)) (nl lost_sep)
             (fun k => map tab4 (u k)) its its' "" (wfb_wf its Hwf) Huo Hwf' HT).
  cbn [snd]. unfold lost_lines. f_equal.
  unfold collected.
  assert (G : forall ks, (forall k, In k ks -> In k (pair_keys kof its)) ->
    flat_map (fun kb : string * list string => lost_entry_s path (fst kb) (snd kb))
      (filter (is_lost String.eqb (used_keys String.eqb kof
                 (map (fun k => (k, map tab4 (u k))) (pair_keys kof its)) its'))
              (map (fun k => (k, map tab4 (u k))) ks))
    = flat_map (fun k => lost_entry_s path k (map tab4 (u k)))
        (filter (fun k => negb (memk String.eqb k (pair_keys kof its')) &&
                          match u k with [] => false | _ => true end) ks)).
  { induction ks as [|k ks IH]; intros Hsub; [reflexivity|].
    cbn [map filter]. unfold is_lost at 1. cbn [fst snd].
    rewrite memk_used_keys.
    2:{ unfold keys. rewrite map_map. cbn [fst]. rewrite map_id. apply Hsub. left; reflexivity. }
    assert (Hb : match map tab4 (u k) with [] => false | _ => true end = match u k with [] => false | _ => true end)
      by (destruct (u k); reflexivity).
    rewrite Hb.
    destruct (negb (memk String.eqb k (pair_keys kof its')) && match u k with [] => false | _ => true end).
    - cbn [flat_map fst snd]. rewrite IH by (intros; apply Hsub; right; assumption). reflexivity.
    - apply IH. intros; apply Hsub; right; assumption. }
  apply G. auto.
Qed.

(* location and reporting of the LostCode file; an unreadable file is not written at all *)
Theorem lost_location outdir old fresh fn lines c :
  names_ok (keys fresh) -> slookup fn fresh = Some lines -> old fn = Readable c ->
  snd (regen_file (join outdir fn) lines c) <> [] ->
  let r := regen outdir old fresh in
  slookup (lost_name fn) (fst r) = Some (concat_lines (snd (regen_file (join outdir fn) lines c)))
  /\ In (lost_name fn) (snd r)
  /\ (prefixb "/" fn = false -> fn <> "" -> join outdir (lost_name fn) = (join outdir fn ++ lost_suffix)%string).
Proof.
  intros Hn Hl Ho Hne r.
  destruct (regen_lookup outdir old fresh fn lines Hn Hl) as [_ H2]. fold r in H2. rewrite Ho in H2.
  destruct (snd (regen_file (join outdir fn) lines c)) as [|x l] eqn:E; [contradiction|].
  split; [exact H2|]. split.
  - unfold r, regen in *. destruct (createoutput_returns (preserve_files outdir old fresh)) as [E1 E2].
    rewrite E1. rewrite createoutput_lookup in H2.
    destruct (slookup (lost_name fn) (preserve_files outdir old fresh)) as [v|] eqn:Ev; [|discriminate].
    eapply lookup_In_keys. exact Ev.
  - apply join_lost.
Qed.

Theorem unreadable_untouched outdir old fresh fn lines :
  names_ok (keys fresh) -> slookup fn fresh = Some lines -> old fn = Unreadable ->
  let r := regen outdir old fresh in
  slookup fn (fst r) = None /\ slookup (lost_name fn) (fst r) = None /\ ~ In fn (snd r).
Proof.
  intros Hn Hl Ho r.
  destruct (regen_lookup outdir old fresh fn lines Hn Hl) as [H1 H2]. fold r in H1, H2. rewrite Ho in H1, H2.
  split; [exact H1|]. split; [exact H2|].
  unfold r, regen in *. destruct (createoutput_returns (preserve_files outdir old fresh)) as [E1 E2].
  rewrite E1. intros Hin. destruct (In_keys_lookup _ _ Hin) as [v Hv].
  rewrite createoutput_lookup, Hv in H1. discriminate.
Qed.

Lemma regen_file_iterated n path (u : string -> list string) fresh its :
  parse_items fresh = Some its -> wfb its = true -> items_okb its = true ->
  (forall k, block_ok (u k) = true) ->
  Nat.iter n (fun d => fst (regen_file path fresh d)) (on_disk u its) = on_disk u its.
Proof.
  intros H1 H2 H3 H4. induction n as [|n IH]; [reflexivity|].
  change (Nat.iter (S n) (fun d => fst (regen_file path fresh d)) (on_disk u its))
    with (fst (regen_file path fresh (Nat.iter n (fun d => fst (regen_file path fresh d)) (on_disk u its)))).
  rewrite IH. rewrite (regen_file_fixed_point path u fresh its H1 H2 H3 H4). reflexivity.
Qed.

Lemma chain_step_shape path (u : string -> list string) its fresh' its' :
  wfb its = true -> items_okb its = true -> (forall k, block_ok (u k) = true) ->
  parse_items fresh' = Some its' -> Forall (wf_fresh_item kof kpfx) its' ->
  exists u', (forall k, block_ok (u' k) = true) /\
             fst (regen_file path fresh' (on_disk u its)) = on_disk u' its' /\
             (forall k, u' k = u k \/ u' k = []).
Proof.
  intros H1 H2 H3 H4 H5.
  exists (fun k => if memk String.eqb k (pair_keys kof its) then u k else []). split; [|split].
  - intros k. destruct (memk String.eqb k (pair_keys kof its)); [apply H3|reflexivity].
  - apply regen_file_evolution; assumption.
  - intros k. destruct (memk String.eqb k (pair_keys kof its)); auto.
Qed.

(* ---------------------------------------------------------------- C02: chains of models *)
Fixpoint chain (path : string) (d : string) (ms : list (list string)) : string :=
  match ms with
  | [] => d
  | f :: r => chain path (fst (regen_file path f d)) r
  end.

(* the model whose output is on disk at the end and the blocks it holds: a block survives iff its tag name was
   emitted by EVERY intermediate model (once gone it is not restored when the tag reappears) *)
Fixpoint chain_end (its : list (item string)) (u : string -> list string) (ms : list (list string))
  : list (item string) * (string -> list string) :=
  match ms with
  | [] => (its, u)
  | f :: r => chain_end (items_of f) (fun k => if memk String.eqb k (pair_keys kof its) then u k else []) r
  end.

Lemma wfb_fresh_items its : wfb its = true -> Forall (wf_fresh_item kof kpfx) its.
Proof.
  intros H. apply wfb_wf in H as [H _]. eapply Forall_impl; [|exact H].
  intros it Hit. destruct it as [l|o c]; simpl in *; tauto.
Qed.

Theorem chain_evolution path ms : forall its (u : string -> list string),
  wfb its = true -> items_okb its = true -> (forall k, block_ok (u k) = true) ->
  Forall (fun f => wf_fresh_file f = true) ms ->
  chain path (on_disk u its) ms = on_disk (snd (chain_end its u ms)) (fst (chain_end its u ms)).
Proof.
  induction ms as [|f r IH]; intros its u Hwf Hok Hu Hms; [reflexivity|].
  inversion Hms as [|? ? Hf Hr]; subst.
  destruct (wf_fresh_file_inv f Hf) as (Hok' & Hp' & Hwf').
  cbn [chain chain_end].
  rewrite (regen_file_evolution path u its f (items_of f) Hwf Hok Hu Hp' (wfb_fresh_items _ Hwf')).
  apply IH; try assumption.
  intros k. destruct (memk String.eqb k (pair_keys kof its)); [apply Hu|reflexivity].
Qed.

(* the same from raw directory content: a file whose bytes are not valid UTF-8 is left untouched *)
Theorem undecodable_untouched outdir (dir : string -> option string) fresh fn lines bytes :
  names_ok (keys fresh) -> slookup fn fresh = Some lines -> dir fn = Some bytes -> utf8_valid bytes = false ->
  let r := regen_dir outdir dir fresh in
  slookup fn (fst r) = None /\ slookup (lost_name fn) (fst r) = None /\ ~ In fn (snd r).
Proof.
  intros Hn Hl Hd Hu. unfold regen_dir.
  apply (unreadable_untouched outdir (fun fn0 => classify (dir fn0)) fresh fn lines Hn Hl).
  unfold classify. rewrite Hd, Hu. reflexivity.
Qed.

(* C04, the reading a user relies on: editing, adding or deleting user code (or anything else) in the OTHER files of the
   directory never changes what a regeneration of the same code model writes for [fn] or for its LostCode file. *)
Corollary other_files_irrelevant outdir fresh old old' fn lines :
  names_ok (keys fresh) -> slookup fn fresh = Some lines -> old fn = old' fn ->
  slookup fn (fst (regen outdir old fresh)) = slookup fn (fst (regen outdir old' fresh))
  /\ slookup (lost_name fn) (fst (regen outdir old fresh)) = slookup (lost_name fn) (fst (regen outdir old' fresh)).
Proof. intros Hn Hl Ho. exact (confined outdir fresh fresh old old' fn lines Hn Hn Hl Hl Ho). Qed.

(* C03, the negative half for the directory: when no code of [fn] is lost (or [fn] did not exist before), NO LostCode
   file is written for it -- an existing reader of the directory never sees a spurious <fn>.LostCode.txt. *)
Corollary nothing_lost_no_lostfile outdir old fresh fn lines :
  names_ok (keys fresh) -> slookup fn fresh = Some lines ->
  match old fn with
  | Readable c => snd (regen_file (join outdir fn) lines c) = []
  | Missing => True
  | Unreadable => True
  end ->
  slookup (lost_name fn) (fst (regen outdir old fresh)) = None.
Proof.
  intros Hn Hl Ho. destruct (regen_lookup outdir old fresh fn lines Hn Hl) as [_ H2]. cbv zeta in H2. rewrite H2.
  destruct (old fn) as [| |c]; [reflexivity|reflexivity|]. rewrite Ho. reflexivity.
Qed.

(* C02: the regenerated file depends on the OLD file only through the blocks that survive -- two old files (of any two
   old models, with any text outside their tags) whose surviving blocks agree regenerate to the same bytes. *)
Lemma on_disk_ext (f g : string -> list string) its : (forall k, f k = g k) -> on_disk f its = on_disk g its.
Proof.
  intros E. unfold on_disk. f_equal. unfold written_items. induction its as [|it its IH]; [reflexivity|].
  cbn [flat_map]. rewrite IH. destruct it as [l|o c]; [reflexivity|]. rewrite E. reflexivity.
Qed.

Corollary old_model_irrelevant path (u1 u2 : string -> list string) its1 its2 fresh' its' :
  wfb its1 = true -> items_okb its1 = true -> (forall k, block_ok (u1 k) = true) ->
  wfb its2 = true -> items_okb its2 = true -> (forall k, block_ok (u2 k) = true) ->
  parse_items fresh' = Some its' -> Forall (wf_fresh_item kof kpfx) its' ->
  (forall k, (if memk String.eqb k (pair_keys kof its1) then u1 k else [])
           = (if memk String.eqb k (pair_keys kof its2) then u2 k else [])) ->
  fst (regen_file path fresh' (on_disk u1 its1)) = fst (regen_file path fresh' (on_disk u2 its2)).
Proof.
  intros W1 I1 B1 W2 I2 B2 P F E.
  rewrite (regen_file_evolution path u1 its1 fresh' its' W1 I1 B1 P F).
  rewrite (regen_file_evolution path u2 its2 fresh' its' W2 I2 B2 P F).
  apply on_disk_ext. exact E.
Qed.
