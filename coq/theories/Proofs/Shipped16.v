(* C07 for all models, for the shipped template files that lie in the template grammar of C16 after the first filtering:
   the generated file is the reference expansion, and no generator tag is left in it. *)
From Coq Require Import String Ascii List Bool Arith Lia.
From KV Require Import Lib.Str Lib.StrOps Lib.ODict Gen.Tags Gen.Pipeline Gen.Templates Model.PreserveCore Model.Preserve Model.TagShape
                       Model.Engine Model.EngineSM Model.EngineDomain Model.EngineDomain16 Model.Parse16 Spec.RefExpand Spec.RefExpand16
                       Proofs.EnginePipe Proofs.TagFree Proofs.EngineWhole16.
Import ListNotations.
Open Scope string_scope.
Open Scope list_scope.

Lemma no3_suffix a b : no3 (a ++ b)%string = true -> no3 b = true.
Proof. induction a as [|c a IH]; [auto|]. cbn [append no3]. intros H. apply andb_prop in H as [_ H]. exact (IH H). Qed.

(* the bracket scanner of Model/TagShape.v on a text without "<<<": it never enters a tag *)
Lemma tstep_no3 : forall s n, no3 (match n with 0 => "" | 1 => "<" | _ => "<<" end ++ s)%string = true -> n <= 2 ->
  exists n', fold_string tstep s (Some (Out n, [])) = Some (Out n', []).
Proof.
  induction s as [|c s IH]; intros n H Hn; [exists n; reflexivity|].
  cbn [fold_string tstep]. change TagShape.LT with "<"%char.
  destruct (Ascii.eqb_spec c "<"%char) as [->|N].
  - destruct n as [|[|[|n]]]; try lia.
    + apply (IH 1); [exact H|lia].
    + apply (IH 2); [exact H|lia].
    + cbn in H. discriminate.
  - apply (IH 0); [|lia]. cbn [append].
    destruct n as [|[|n]]; [apply (no3_suffix (String c "")); exact H|apply (no3_suffix (String "<" (String c ""))); exact H|apply (no3_suffix (String "<" (String "<" (String c "")))); exact H].
Qed.

Lemma tagfree_no_generator_tag s : tagfree s = true -> no_generator_tag s = true.
Proof.
  unfold no_generator_tag, tags_of, tagfree. intros H. destruct (tstep_no3 s 0 H) as (n' & E); [lia|]. rewrite E. reflexivity.
Qed.

Section Shipped.
  Variables (lines l0 : list string) (t : template16).
  Hypothesis Hs : shipped16 dict0 lines = Some (l0, t).

  Lemma shipped_facts : load_file dict0 lines = Some (render16 t) /\ in_grammar16 t = true.
  Proof.
    unfold shipped16 in Hs. destruct (load_file dict0 lines) as [l|]; [|discriminate].
    destruct (parse16 l) as [t'|]; [|discriminate].
    destruct (list_eqb (render16 t') l && in_grammar16 t') eqn:E; [|discriminate]. inversion Hs. subst.
    apply andb_prop in E as [E1 E2]. apply Proofs.EngineC17.list_eqb_eq in E1. rewrite E1. auto.
  Qed.

  (* for EVERY state-machine model whose element names are admitted for the file, and every assignment of user tags (the file has no
     line with user tags outside blocks: such lines are the business of C16_generate_user) *)
  Theorem shipped_output m (a : usertags) :
    no_user_lines t = true -> wf_elements16 t (elements_of_model m) = true ->
    generate_file m dict0 a lines = Some (ref16 (elements_of_model m) t)
    /\ forallb no_generator_tag (flat_map (ref_item16 (elements_of_model m)) t) = true.
  Proof.
    intros Hn Hw. destruct shipped_facts as [Hl Hg].
    assert (Hw' : wf_elements16 t (with_user a (elements_of_model m)) = true) by (rewrite (wf_no_user a _ t Hn); exact Hw).
    split.
    - rewrite <- (ref16_no_user a _ t Hn). apply generate_is_ref; assumption.
    - apply (forallb_impl tagfree); [exact tagfree_no_generator_tag|]. rewrite <- (lines_no_user a _ t Hn). apply ref_lines_tagfree; assumption.
  Qed.
  (* with user lines: for every assignment of user tags admitted for the file *)
  Theorem shipped_output_user m (a : usertags) :
    wf_elements16 t (with_user a (elements_of_model m)) = true ->
    generate_file m dict0 a lines = Some (ref16 (with_user a (elements_of_model m)) t).
  Proof. intros Hw. destruct shipped_facts as [Hl Hg]. apply generate_is_ref; assumption. Qed.

  Theorem shipped_consumed_user m (a : usertags) :
    wf_elements16 t (with_user a (elements_of_model m)) = true -> user_lines_closed a t = true ->
    generate_file m dict0 a lines = Some (ref16 (with_user a (elements_of_model m)) t)
    /\ forallb no_generator_tag (flat_map (ref_item16 (with_user a (elements_of_model m))) t) = true.
  Proof.
    intros Hw Hc. destruct shipped_facts as [Hl Hg]. split; [apply generate_is_ref; assumption|].
    apply (forallb_impl tagfree); [exact tagfree_no_generator_tag|]. apply ref_lines_tagfree_user; assumption.
  Qed.
End Shipped.

Lemma shipped_consumed_user_flat lines l0 t m (a : usertags) :
  shipped16 dict0 lines = Some (l0, t) ->
  wf_elements16 t (with_user a (elements_of_model m)) = true -> user_lines_closed a t = true ->
  generate_file m dict0 a lines = Some (ref16 (with_user a (elements_of_model m)) t)
  /\ forallb no_generator_tag (flat_map (ref_item16 (with_user a (elements_of_model m))) t) = true.
Proof. intros Hs Hw Hc. exact (shipped_consumed_user lines l0 t Hs m a Hw Hc). Qed.

Lemma shipped_output_flat lines l0 t m (a : usertags) :
  shipped16 dict0 lines = Some (l0, t) -> no_user_lines t = true ->
  wf_elements16 t (elements_of_model m) = true ->
  generate_file m dict0 a lines = Some (ref16 (elements_of_model m) t)
  /\ forallb no_generator_tag (flat_map (ref_item16 (elements_of_model m)) t) = true.
Proof. intros Hs Hn Hw. exact (shipped_output lines l0 t Hs m a Hn Hw). Qed.
