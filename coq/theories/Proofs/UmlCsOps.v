(* Proofs over Model/UmlCs.v: the operations of the C# back end (the C# view of the diagram, realised operations, rendering,
   every operation once, no constness). *)
From Coq Require Import String Ascii List Bool Arith Lia.
From KV Require Import Lib.Str Lib.ODict Model.Vpp Gen.UmlSrc Model.Uml Model.UmlCs Spec.UmlSpec Proofs.UmlProofs.
Import ListNotations.
Open Scope string_scope.

(* ---------------------------------------------------------------- (1) the view *)

Lemma find_class_map_cs cs id : find_class (map cs_cls cs) id = option_map cs_cls (find_class cs id).
Proof.
  induction cs as [|q cs IH]; [reflexivity|]. cbn [map find_class].
  change (c_id (cs_cls q)) with (c_id q). destruct (c_id q =? id); [reflexivity|exact IH].
Qed.

Lemma find_class_view d id : find_class (classes (cs_view d)) id = option_map cs_cls (find_class (classes d) id).
Proof. unfold cs_view. cbn [classes]. apply find_class_map_cs. Qed.
Print Assumptions find_class_view.

Lemma filter_pure_map_cs l : filter c_pure (map cs_cls l) = map cs_cls (filter c_pure l).
Proof.
  induction l as [|q l IH]; [reflexivity|]. cbn [map filter]. change (c_pure (cs_cls q)) with (c_pure q).
  destruct (c_pure q); [cbn [map]; rewrite IH; reflexivity|exact IH].
Qed.

Lemma edge_parents_view d c : edge_parents (cs_view d) (cs_cls c) = map cs_cls (edge_parents d c).
Proof.
  unfold edge_parents. change (inhs (cs_view d)) with (inhs d). change (c_id (cs_cls c)) with (c_id c).
  rewrite <- filter_pure_map_cs. f_equal.
  induction (filter (fun i => contains (c_id c) (i_to i)) (inhs d)) as [|i l IH]; [reflexivity|].
  cbn [flat_map]. rewrite map_app, <- IH. f_equal.
  rewrite find_class_view. destruct (find_class (classes d) (i_from i)); reflexivity.
Qed.
Print Assumptions edge_parents_view.

Lemma forallb_map_eq {A B} (f : B -> bool) (g : A -> bool) (h : A -> B) l :
  (forall x, In x l -> f (h x) = g x) -> forallb f (map h l) = forallb g l.
Proof.
  induction l as [|x l IH]; intros H; [reflexivity|]. cbn [map forallb].
  rewrite (H x (or_introl eq_refl)), IH; [reflexivity|]. intros y Hy. apply H. right. exact Hy.
Qed.

Lemma bounded_view n d c : bounded n (cs_view d) (cs_cls c) = bounded n d c.
Proof.
  revert c. induction n as [|m IH]; intros c; [reflexivity|]. cbn [bounded]. rewrite edge_parents_view.
  apply forallb_map_eq. intros x _. apply IH.
Qed.
Print Assumptions bounded_view.

Lemma length_view d : List.length (classes (cs_view d)) = List.length (classes d).
Proof. unfold cs_view. cbn [classes]. apply map_length. Qed.
Print Assumptions length_view.

Lemma acyclic_view d : acyclic (cs_view d) = acyclic d.
Proof.
  unfold acyclic. rewrite length_view. unfold cs_view at 2. cbn [classes].
  apply forallb_map_eq. intros x _. apply bounded_view.
Qed.
Print Assumptions acyclic_view.

Lemma closed_view d : closed (cs_view d) = closed d.
Proof.
  unfold closed. change (inhs (cs_view d)) with (inhs d).
  induction (inhs d) as [|i l IH]; [reflexivity|]. cbn [forallb]. rewrite IH. f_equal.
  rewrite find_class_view. destruct (find_class (classes d) (i_from i)); reflexivity.
Qed.
Print Assumptions closed_view.

Lemma vis3_ops_view c : forallb vis3 (c_ops (cs_cls c)) = forallb vis3 (c_ops c).
Proof. unfold cs_cls. cbn [c_ops]. apply forallb_map_eq. intros o _. reflexivity. Qed.
Print Assumptions vis3_ops_view.

Lemma wf_vis_view d : wf_vis (cs_view d) = wf_vis d.
Proof.
  unfold wf_vis. unfold cs_view. cbn [classes]. apply forallb_map_eq. intros c _. apply vis3_ops_view.
Qed.
Print Assumptions wf_vis_view.

Lemma in_view d c : In c (classes d) -> In (cs_cls c) (classes (cs_view d)).
Proof. intros H. unfold cs_view. cbn [classes]. apply in_map. exact H. Qed.
Print Assumptions in_view.

(* ---------------------------------------------------------------- (2) a realised operation is emitted *)

Theorem realised_emitted_cs : forall d fuel vis c i p o l,
  In i (inhs d) -> contains (c_id c) (i_to i) = true -> i_real i = true ->
  find_class (classes d) (i_from i) = Some p -> c_pure p = true -> In o (c_ops p) -> vis_match vis o = true -> c_name c <> "" ->
  existsb (key_eqb (sig_key (cs_oper o))) (declared_of (cs_cls c)) = false ->
  ops_of_cs (S (S fuel)) d vis c = Some l ->
  In {| en_class := c_name c; en_owner := c_name p; en_owner_pure := true; en_realised := true; en_op := cs_oper o |} l.
Proof.
  intros d fuel vis c i p o l Hi Hto Hre Hp Hpure Ho Hv Hne Hnd H.
  unfold ops_of_cs in H.
  apply (realised_emitted (cs_view d) fuel vis [] (cs_cls c) i (cs_cls p) (cs_oper o) l); try assumption.
  - rewrite find_class_view, Hp. reflexivity.
  - unfold cs_cls. cbn [c_ops]. apply in_map. exact Ho.
Qed.
Print Assumptions realised_emitted_cs.

(* ---------------------------------------------------------------- (3) rendering *)

Lemma cs_sapp_assoc (a b c : string) : (a ++ b) ++ c = a ++ b ++ c.
Proof. induction a as [|x a IH]; [reflexivity|]. cbn [append]. rewrite IH. reflexivity. Qed.

Lemma cs_sapp_nil (a : string) : a ++ "" = a.
Proof. induction a as [|x a IH]; [reflexivity|]. cbn [append]. rewrite IH. reflexivity. Qed.

Lemma substring_all b : substring 0 (String.length b) b = b.
Proof. induction b as [|x b IH]; [reflexivity|]. cbn [String.length substring]. rewrite IH. reflexivity. Qed.

Lemma lstrip_virtual b : lstrip ("virtual " ++ b) = "virtual " ++ b.
Proof. reflexivity. Qed.

Lemma prefixb_virtual b : prefixb "virtual " ("virtual " ++ b) = true.
Proof. reflexivity. Qed.

Lemma cut_virtual b : substring 8 (String.length ("virtual " ++ b) - 8) ("virtual " ++ b) = b.
Proof.
  change (String.length ("virtual " ++ b)) with (8 + String.length b).
  replace (8 + String.length b - 8) with (String.length b) by lia.
  change (substring 8 (String.length b) ("virtual " ++ b)) with (substring 0 (String.length b) b).
  apply substring_all.
Qed.

Lemma realised_rendering_cs : forall cn pn o,
  let e := {| en_class := cn; en_owner := pn; en_owner_pure := true; en_realised := true; en_op := o |} in
  cs_has_body e = true /\ cs_line e = cs_head e
  /\ (o_virtual o = true -> o_static o = false ->
      cs_head e = lower (o_vis o) ++ " override " ++ ret_of e ++ " " ++ o_name o ++ "(" ++ param_string true (o_params o) ++ ")").
Proof.
  intros cn pn o e. split; [reflexivity|]. split.
  - unfold cs_line. change (cs_has_body e) with true. cbn iota. apply cs_sapp_nil.
  - intros Hv Hs. unfold cs_head. change (en_realised e) with true. change (en_op e) with o.
    change (en_owner_pure e) with true. rewrite Hv, Hs. cbn [negb andb]. cbn iota.
    set (b := ret_of e ++ " " ++ o_name o ++ "(" ++ param_string true (o_params o) ++ ")").
    rewrite lstrip_virtual, prefixb_virtual, cut_virtual. reflexivity.
Qed.
Print Assumptions realised_rendering_cs.

Lemma own_rendering_cs : forall cn o pure,
  let e := {| en_class := cn; en_owner := cn; en_owner_pure := pure; en_realised := false; en_op := o |} in
  cs_has_body e = negb pure
  /\ cs_line e = lower (o_vis o) ++ " "
       ++ lstrip ((if o_virtual o && negb (o_static o) then "virtual " else if o_static o then "static " else "")
                  ++ ret_of e ++ " " ++ o_name o ++ "(" ++ param_string pure (o_params o) ++ ")")
       ++ (if pure then ";" else "").
Proof.
  intros cn o pure e. split.
  - unfold cs_has_body. change (en_owner_pure e) with pure. change (en_realised e) with false. apply orb_false_r.
  - unfold cs_line, cs_head, cs_has_body. change (en_realised e) with false. cbn [andb]. cbn iota. change (en_op e) with o.
    change (en_owner_pure e) with pure. rewrite orb_false_r.
    rewrite !cs_sapp_assoc. f_equal. f_equal. f_equal.
    + destruct (o_virtual o && negb (o_static o)); reflexivity.
    + destruct pure; reflexivity.
Qed.
Print Assumptions own_rendering_cs.

(* only the KEYWORD virtual becomes override: the word inside a name or a parameter stays (K-C19-8 repaired) *)
Example override_keyword_only_cs :
  cs_line {| en_class := "CImpl"; en_owner := "IFace"; en_owner_pure := true; en_realised := true;
             en_op := {| o_name := "virtualize"; o_vis := "public"; o_ret := "void";
                         o_params := [{| p_type := "int"; p_name := "_virtualAddress"; p_default := ""; p_ext := "" |}];
                         o_virtual := true; o_static := false; o_const := false |} |}
  = "public override void virtualize(int _virtualAddress)".
Proof. vm_compute. reflexivity. Qed.
Print Assumptions override_keyword_only_cs.

(* ---------------------------------------------------------------- (4) every operation once *)

Theorem once_cs : forall d c (P : entry -> bool), acyclic d = true -> closed d = true -> wf_vis d = true -> In c (classes d) ->
  exists ms al, members_cs (List.length (classes d)) d c = Some ms /\ all_cs (List.length (classes d)) d c = Some al
                /\ count P ms = count P al.
Proof.
  intros d c P Ha Hcl Hwf Hc. unfold members_cs, all_cs. rewrite <- (length_view d).
  apply acyclic_decl_def.
  - rewrite acyclic_view. exact Ha.
  - rewrite closed_view. exact Hcl.
  - rewrite wf_vis_view. exact Hwf.
  - apply in_view. exact Hc.
Qed.
Print Assumptions once_cs.

(* ---------------------------------------------------------------- (5) no constness *)

Lemma find_class_in cs id p : find_class cs id = Some p -> In p cs.
Proof.
  induction cs as [|q cs IH]; [discriminate|]. cbn [find_class].
  destruct (c_id q =? id); [intros H; inversion H; left; reflexivity|intros H; right; apply IH; exact H].
Qed.

Lemma collect_in_inv {A B} (g : A -> option B) l rs r :
  collect (map g l) = Some rs -> In r rs -> exists x, In x l /\ g x = Some r.
Proof.
  revert rs. induction l as [|a l IH]; intros rs H Hin.
  - cbn in H. inversion H; subst. destruct Hin.
  - cbn [map] in H. apply collect_cons_inv in H. destruct H as (x & xs & Hx & Hc & ->).
    destruct Hin as [<-|Hin]; [exists a; split; [left; reflexivity|exact Hx]|].
    destruct (IH xs Hc Hin) as (y & Hy & Hg). exists y. split; [right; exact Hy|exact Hg].
Qed.

Lemma parents_in_classes d r c ps p : parents_of d r c = Some ps -> In p ps -> In p (classes d).
Proof.
  unfold parents_of. intros H Hin.
  match type of H with context [collect ?x] => destruct (collect x) as [qs|] eqn:Cq; [|discriminate] end.
  inversion H; subst ps. apply filter_In in Hin. destruct Hin as [Hin _].
  destruct (collect_in_inv _ _ _ _ Cq Hin) as (i & _ & Hf). eapply find_class_in. exact Hf.
Qed.

Definition no_const_ops (c : cls) : Prop := forall o, In o (c_ops c) -> o_const o = false.

Lemma no_const_cs_cls c : no_const_ops (cs_cls c).
Proof.
  intros o Ho. unfold cs_cls in Ho. cbn [c_ops] in Ho. apply in_map_iff in Ho. destruct Ho as (o' & <- & _). reflexivity.
Qed.

Lemma ops_of_no_const d vis : (forall p, In p (classes d) -> no_const_ops p) ->
  forall fuel r dcl c l, no_const_ops c -> ops_of fuel d vis r dcl c = Some l -> forall e, In e l -> o_const (en_op e) = false.
Proof.
  intros Hd. induction fuel as [|f IH]; intros r dcl c l Hc H e He; [discriminate|].
  cbn [ops_of] in H. destruct (parents_of d r c) as [ps|] eqn:Hps; [|discriminate].
  match type of H with context [collect ?x] => destruct (collect x) as [rs|] eqn:Cr; [|discriminate] end.
  inversion H; subst l. apply in_app_or in He. destruct He as [He|He].
  - apply in_concat in He. destruct He as (x & Hx & Hex).
    destruct (collect_in_inv _ _ _ _ Cr Hx) as (p & Hp & Hop).
    eapply IH; [|exact Hop|exact Hex]. apply Hd. eapply parents_in_classes; eauto.
  - unfold own_entries in He. apply in_map_iff in He. destruct He as (o & <- & Ho). cbn [en_op].
    apply filter_In in Ho. destruct Ho as [Ho _]. apply Hc. exact Ho.
Qed.

Lemma entries_have_no_const : forall fuel d vis c l, ops_of_cs fuel d vis c = Some l -> forall e, In e l -> o_const (en_op e) = false.
Proof.
  intros fuel d vis c l H e He. unfold ops_of_cs in H.
  eapply (ops_of_no_const (cs_view d) vis); [|apply no_const_cs_cls|exact H|exact He].
  intros p Hp. unfold cs_view in Hp. cbn [classes] in Hp. apply in_map_iff in Hp. destruct Hp as (q & <- & _).
  apply no_const_cs_cls.
Qed.
Print Assumptions entries_have_no_const.
