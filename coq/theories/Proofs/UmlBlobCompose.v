(* C19: the generator theorems stated from the PROJECT ROWS (under the writer assumption): a project d that hosts the class
   diagram W (its rows as the assumed writer lays them out, all other rows arbitrary). *)
From Coq Require Import String Ascii List Bool Arith.
From KV Require Import Lib.Str Lib.ODict Model.Vpp Gen.UmlSrc Model.Uml Spec.UmlSpec Model.UmlBlob Model.UmlWriter
                       Proofs.UmlProofs Proofs.UmlFiles Proofs.UmlBlobTop Proofs.UmlBlobVis.
Import ListNotations.
Open Scope string_scope.

Lemma files_from_project : forall (d : db) (W : wdiagram) (c : cdiagram) (nsf : bool),
  chosts d W = true -> adaptor (encode_cdiagram W) (wd_name W) = Some c -> files_hyp nsf c = true ->
  adaptor d (wd_name W) = Some c /\ files_of template_files nsf c = expected_files nsf c.
Proof. intros d W c nsf H Hc Hf. split; [eapply adaptor_hosted; eauto|apply files_of_expected; exact Hf]. Qed.

Lemma decl_def_from_project : forall (d : db) (W : wdiagram) (c : cdiagram) (k : cls) (P : entry -> bool),
  chosts d W = true -> adaptor (encode_cdiagram W) (wd_name W) = Some c ->
  acyclic c = true -> closed c = true -> In k (classes c) ->
  adaptor d (wd_name W) = Some c
  /\ exists dl df, decls_of (List.length (classes c)) c k = Some dl /\ defs_of (List.length (classes c)) c k = Some df
                   /\ count P dl = count P df.
Proof.
  intros d W c k P H Hc Ha Hcl Hk. split; [eapply adaptor_hosted; eauto|].
  apply acyclic_decl_def; auto. eapply adaptor_wf_vis; eauto.
Qed.

Lemma realised_from_project : forall (d : db) (W : wdiagram) (c : cdiagram) fuel vis dcl (k : cls) (i : inh) (p : cls) (o : oper) l,
  chosts d W = true -> adaptor (encode_cdiagram W) (wd_name W) = Some c ->
  In i (inhs c) -> contains (c_id k) (i_to i) = true -> i_real i = true ->
  find_class (classes c) (i_from i) = Some p -> c_pure p = true ->
  In o (c_ops p) -> vis_match vis o = true -> c_name k <> "" ->
  existsb (key_eqb (sig_key o)) (declared_of k) = false ->
  ops_of (S (S fuel)) c vis "" dcl k = Some l ->
  adaptor d (wd_name W) = Some c
  /\ In {| en_class := c_name k; en_owner := c_name p; en_owner_pure := true; en_realised := true; en_op := o |} l.
Proof. intros. split; [eapply adaptor_hosted; eauto|eapply realised_emitted; eauto]. Qed.
