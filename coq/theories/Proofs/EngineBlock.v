(* C16: a per-element block of the engine equals the reference block. *)
From Coq Require Import String Ascii List Bool Arith Lia.
From KV Require Import Lib.Str Lib.StrOps Lib.ODict Gen.Tags Gen.Pipeline Model.Engine Model.EngineSM Model.EngineDomain
                       Model.EngineDomain16 Spec.RefExpand Spec.RefExpand16
                       Proofs.StrProofs Proofs.EngineStr Proofs.EngineRepl Proofs.EngineC17 Proofs.EnginePipe Proofs.EngineC16.
Import ListNotations.
Open Scope string_scope.
Open Scope list_scope.

(* ---------------------------------------------------------------- a chain of replaces = one table lookup per tag *)
Definition kv_ok (kv : string * string) : bool := no_lg (fst kv) && negb (has_char EQ (fst kv)) && no_lg (snd kv).

Definition chain (kvs : list (string * string)) (s : string) : string :=
  fold_left (fun acc kv => replace_all (pat (fst kv)) (snd kv) acc) kvs s.

Lemma subst16_cons k v kvs g : subst16 ((k, v) :: kvs) g = subst16 kvs (put k v g).
Proof.
  destruct g as [s|n [d|]]; try reflexivity. unfold put. cbn [is_named subst16 lookup].
  destruct (String.eqb n k); reflexivity.
Qed.

Lemma subst16_nil l : map (subst16 []) l = l.
Proof. induction l as [|g l IH]; [reflexivity|]. cbn [map]. rewrite IH. destruct g as [s|n [d|]]; reflexivity. Qed.

Lemma chain_render : forall kvs l, forallb kv_ok kvs = true -> line_ok l = true ->
  chain kvs (render_line l) = render_line (map (subst16 kvs) l).
Proof.
  induction kvs as [|[k v] kvs IH]; intros l Hk Hl.
  - rewrite subst16_nil. reflexivity.
  - cbn [forallb] in Hk. apply andb_prop in Hk as [H1 Hk]. unfold kv_ok in H1. cbn [fst snd] in H1.
    apply andb_prop in H1 as [H1 Hv]. apply andb_prop in H1 as [Hkk Hke]. apply negb_true_iff in Hke.
    unfold chain. cbn [fold_left fst snd]. rewrite (replace_all_render k v l Hkk Hke Hl).
    fold (chain kvs (render_line (map (put k v) l))). rewrite (IH _ Hk (put_ok k v l Hv Hl)).
    f_equal. rewrite map_map. apply map_ext. intros g. symmetry. apply subst16_cons.
Qed.

Lemma subst16_ext t1 t2 : (forall n, lookup String.eqb n t1 = lookup String.eqb n t2) -> forall g, subst16 t1 g = subst16 t2 g.
Proof. intros H g. destruct g as [s|n [d|]]; try reflexivity. cbn [subst16]. rewrite H. reflexivity. Qed.

(* ---------------------------------------------------------------- the engine's tables, in the engine's order *)
Definition eng_elem (name : string) (alpha cnt : nat) : list (string * string) :=
  [("stateName", camel_case_small name); ("STATENAME", name); ("eventName", camel_case_small name);
   ("STATE_NAME", snake_case name); ("EVENTNAME", name); ("eventName", camel_case_small name);
   ("EVENT_NAME", snake_case name); ("ACTIONNAME", name); ("actionName", camel_case_small name);
   ("ACTION_NAME", snake_case name); ("GUARDNAME", name); ("guardName", camel_case_small name);
   ("GUARD_NAME", snake_case name); ("ALPH", alphabet_to_string alpha); ("NUM", dec cnt)].
Definition eng_proto (name : string) (alpha cnt : nat) : list (string * string) :=
  [("structName", camel_case_small name); ("STRUCTNAME", name); ("msgName", camel_case_small name); ("MSGNAME", name);
   ("PROTOMSGNAME", name); ("protoMsgName", camel_case_small name); ("ALPH", alphabet_to_string alpha); ("NUM", dec cnt)].
Definition eng_sig (a e : string) (alpha cnt : nat) : list (string * string) :=
  [("actionName", camel_case_small a); ("ACTIONNAME", a); ("ACTION_NAME", snake_case a);
   ("eventName", camel_case_small e); ("EVENTNAME", e); ("EVENT_NAME", snake_case e);
   ("ALPH", alphabet_to_string alpha); ("NUM", dec cnt)].

Lemma second_names_chain name alpha cnt s : second_names name alpha cnt s = chain (eng_elem name alpha cnt) s.
Proof. reflexivity. Qed.
Lemma proto_names_chain name alpha cnt s : proto_names name alpha cnt s = chain (eng_proto name alpha cnt) s.
Proof. reflexivity. Qed.
Lemma sig_line_chain a e alpha cnt s : sig_line a e alpha cnt s = chain (eng_sig a e alpha cnt) s.
Proof. reflexivity. Qed.

Ltac lookup_cases n :=
  repeat match goal with
         | |- context [String.eqb n ?k] => destruct (String.eqb n k) eqn:?E;
                                           [apply String.eqb_eq in E; subst n; reflexivity|clear E]
         end; reflexivity.

Lemma eng_elem_lookup name i n :
  lookup String.eqb n (eng_elem name (alpha_at i) i) = lookup String.eqb n (elem_table name i).
Proof.
  unfold eng_elem, elem_table, family, counters, camel, snake. rewrite alpha_letter. cbn [app lookup].
  change (camel_case_small name) with (small_first name). lookup_cases n.
Qed.
Lemma eng_proto_lookup name i n :
  lookup String.eqb n (eng_proto name (alpha_at i) i) = lookup String.eqb n (proto_table name i).
Proof.
  unfold eng_proto, proto_table, counters, camel. rewrite alpha_letter. cbn [app lookup].
  change (camel_case_small name) with (small_first name). lookup_cases n.
Qed.

(* ---------------------------------------------------------------- lines without a tag *)
Lemma hasTag_app_r s r : hasTag r = true -> hasTag (s ++ r)%string = true.
Proof.
  unfold hasTag. induction s as [|c s IH]; intros H; [exact H|].
  cbn [append findall]. destruct (match_tag (String c (s ++ r))) as [[b x]|]; [reflexivity|]. apply IH. exact H.
Qed.

Lemma hasTag_pat body r : no_lg body = true -> hasTag (pat body ++ r)%string = true.
Proof.
  intros Hb. pose proof (match_tag_tag body r Hb) as M. unfold pat. rewrite !app_assoc_s.
  unfold hasTag. change ((OPEN3 ++ body ++ CLOSE3 ++ r)%string) with (String LT (String LT (String LT (body ++ CLOSE3 ++ r))))%string in *.
  cbn [findall]. rewrite M. reflexivity.
Qed.

Lemma seg_tag_pat n d : seg_ok (Tag n d) = true -> exists body, render_seg (Tag n d) = pat body /\ no_lg body = true.
Proof.
  destruct d as [d|]; cbn [seg_ok]; intros H.
  - apply andb_prop in H as [H Hd]. apply andb_prop in H as [Hn _]. exists (n ++ String EQ d)%string. split; [apply render_tag_dflt|].
    rewrite no_lg_app. cbn [no_lg]. rewrite Hn, Hd. reflexivity.
  - apply andb_prop in H as [Hn _]. exists n. split; [reflexivity|assumption].
Qed.

Lemma notag_lits tb : forall l r, line_ok l = true -> hasTag (render_body l ++ r)%string = false -> map (subst16 tb) l = l.
Proof.
  induction l as [|g l IH]; intros r Hl H; [reflexivity|].
  cbn [line_ok forallb] in Hl. apply andb_prop in Hl as [Hg Hl]. fold (line_ok l) in Hl.
  cbn [render_body] in H. rewrite app_assoc_s in H. destruct g as [s|n d].
  - cbn [map subst16]. f_equal. apply (IH r Hl). cbn [render_seg] in H.
    destruct (hasTag (render_body l ++ r)%string) eqn:E; [|reflexivity].
    rewrite (hasTag_app_r s _ E) in H. discriminate.
  - destruct (seg_tag_pat n d Hg) as (body & E & Hb). rewrite E, (hasTag_pat body _ Hb) in H. discriminate.
Qed.

(* ---------------------------------------------------------------- one element: the loop over the body lines *)
Section OneElement.
  Variables (names : string -> nat -> nat -> string -> string) (name : string) (alpha cnt : nat).
  Variables (tbe tbs : list (string * string)).
  Hypothesis Hchain : forall s, names name alpha cnt s = chain tbe s.
  Hypothesis Hext : forall n, lookup String.eqb n tbe = lookup String.eqb n tbs.
  Hypothesis Hkv : forallb kv_ok tbe = true.

  Definition copy (l : uline) : string := render_line (map (subst16 tbs) l).

  Lemma second_lines_ok : forall body,
    forallb (fun l => line_ok l && negb (isspace (render_line l))) body = true ->
    forallb (fun l => negb (isspace (copy l)) && negb (unmodelled (copy l))) body = true ->
    second_lines names name alpha cnt (map render_line body) = Some (map copy body).
  Proof.
    induction body as [|l body IH]; intros H W; [reflexivity|].
    cbn [forallb] in H, W. apply andb_prop in H as [H1 H]. apply andb_prop in W as [W1 W].
    apply andb_prop in H1 as [Hl Hs]. apply andb_prop in W1 as [Ws Wu]. apply negb_true_iff in Hs, Ws, Wu.
    cbn [map second_lines]. rewrite (IH H W).
    assert (C : chain tbe (render_line l) = copy l).
    { rewrite (chain_render tbe l Hkv Hl). unfold copy. f_equal. apply map_ext. apply subst16_ext. exact Hext. }
    destruct (hasTag (render_line l)) eqn:E; cbn [negb].
    - rewrite Hchain, C, Wu, Ws. reflexivity.
    - rewrite Hs. unfold copy. unfold render_line in E. rewrite (notag_lits tbs l nl_str Hl E). reflexivity.
  Qed.
End OneElement.

Lemma body_ok_weaken keys body : forallb (body_line_ok keys) body = true ->
  forallb (fun l => line_ok l && negb (isspace (render_line l))) body = true.
Proof.
  induction body as [|l body IH]; [reflexivity|]. cbn [forallb]. intros H. apply andb_prop in H as [H1 H2].
  rewrite (IH H2), andb_true_r. unfold body_line_ok in H1. repeat (apply andb_prop in H1 as [H1 ?K]). rewrite H1, K1. reflexivity.
Qed.

Lemma eng_elem_kv name i : forallb (fun kv => no_lg (snd kv)) (elem_table name i) = true -> forallb kv_ok (eng_elem name (alpha_at i) i) = true.
Proof.
  unfold elem_table, family, counters, camel, snake. cbn [app forallb snd]. intros H.
  repeat (apply andb_prop in H as [?H H]). unfold eng_elem. rewrite alpha_letter.
  change (camel_case_small name) with (small_first name). cbn [forallb]. unfold kv_ok. cbn [fst snd].
  repeat match goal with K : no_lg _ = true |- _ => rewrite K; clear K end. reflexivity.
Qed.
Lemma eng_proto_kv name i : forallb (fun kv => no_lg (snd kv)) (proto_table name i) = true -> forallb kv_ok (eng_proto name (alpha_at i) i) = true.
Proof.
  unfold proto_table, counters, camel. cbn [app forallb snd]. intros H.
  repeat (apply andb_prop in H as [?H H]). unfold eng_proto. rewrite alpha_letter.
  change (camel_case_small name) with (small_first name). cbn [forallb]. unfold kv_ok. cbn [fst snd].
  repeat match goal with K : no_lg _ = true |- _ => rewrite K; clear K end. reflexivity.
Qed.

(* ---------------------------------------------------------------- a whole block *)
Section Block.
  Variables (names : string -> nat -> nat -> string -> string)
            (tbe : string -> nat -> nat -> list (string * string)) (tbs : string -> nat -> list (string * string)).
  Hypothesis Hchain : forall name alpha cnt s, names name alpha cnt s = chain (tbe name alpha cnt) s.
  Hypothesis Hext : forall name i n, lookup String.eqb n (tbe name (alpha_at i) i) = lookup String.eqb n (tbs name i).
  Hypothesis Hkv : forall name i, forallb (fun kv => no_lg (snd kv)) (tbs name i) = true -> forallb kv_ok (tbe name (alpha_at i) i) = true.

  Lemma block_from : forall items k body,
    forallb (fun l => line_ok l && negb (isspace (render_line l))) body = true ->
    forallb (fun ix =>
       forallb (fun kv => no_lg (snd kv)) (tbs (snd ix) (fst ix))
       && forallb (fun l => let out := render_line (map (subst16 (tbs (snd ix) (fst ix))) l) in
                            negb (isspace out) && negb (unmodelled out)) body) (enumerate_from k items) = true ->
    second_items names (alpha_at k) k items (map render_line body)
    = Some (flat_map (fun ix => map (fun l => render_line (map (subst16 (tbs (snd ix) (fst ix))) l)) body) (enumerate_from k items)).
  Proof.
    induction items as [|name items IH]; intros k body Hb W; [reflexivity|].
    cbn [enumerate_from forallb fst snd] in W. apply andb_prop in W as [W1 W]. apply andb_prop in W1 as [Wv Wl].
    cbn [second_items enumerate_from flat_map fst snd].
    rewrite (second_lines_ok names name (alpha_at k) k (tbe name (alpha_at k) k) (tbs name k)
               (Hchain name (alpha_at k) k) (Hext name k) (Hkv name k Wv) body Hb Wl).
    rewrite <- alpha_at_S, (IH (S k) body Hb W). reflexivity.
  Qed.
End Block.

(* a per-state / per-event / per-action / per-guard block *)
Theorem elem_block_is_ref items body :
  forallb (body_line_ok (keys_of KState)) body = true -> block_wf elem_table items body = true ->
  inner_second items (map render_line body) None = Some (ref_block elem_table items body).
Proof.
  intros Hb W. unfold inner_second, ref_block, block_wf in *.
  exact (block_from second_names eng_elem elem_table second_names_chain eng_elem_lookup eng_elem_kv items 0 body (body_ok_weaken _ _ Hb) W).
Qed.

(* a per-struct / per-message block *)
Theorem proto_block_is_ref items body :
  forallb (body_line_ok (keys_of KStruct)) body = true -> block_wf proto_table items body = true ->
  inner_proto items (map render_line body) None = Some (ref_block proto_table items body).
Proof.
  intros Hb W. unfold inner_proto, ref_block, block_wf in *.
  exact (block_from proto_names eng_proto proto_table proto_names_chain eng_proto_lookup eng_proto_kv items 0 body (body_ok_weaken _ _ Hb) W).
Qed.

(* ---------------------------------------------------------------- per-action-signature block *)
Lemma lower_same s : StrOps.lower s = TableDef.lower s.
Proof. induction s as [|c s IH]; [reflexivity|]. cbn [StrOps.lower smap TableDef.lower]. f_equal. exact IH. Qed.

Lemma sig_event_same e : sig_event e = sig_event_name e.
Proof. unfold sig_event, sig_event_name, TableDef.is_none. rewrite !lower_same. reflexivity. Qed.

Lemma eng_sig_lookup ae i n :
  lookup String.eqb n (eng_sig (fst ae) (sig_event (snd ae)) (alpha_at i) i) = lookup String.eqb n (sig_table ae i).
Proof.
  unfold eng_sig, sig_table, family, counters, camel, snake. rewrite alpha_letter, sig_event_same. cbn [app lookup].
  change (camel_case_small (fst ae)) with (small_first (fst ae)).
  change (camel_case_small (sig_event_name (snd ae))) with (small_first (sig_event_name (snd ae))). lookup_cases n.
Qed.

Lemma eng_sig_kv ae i : forallb (fun kv => no_lg (snd kv)) (sig_table ae i) = true ->
  forallb kv_ok (eng_sig (fst ae) (sig_event (snd ae)) (alpha_at i) i) = true.
Proof.
  unfold sig_table, family, counters, camel, snake. cbn [app forallb snd]. intros H.
  repeat (apply andb_prop in H as [?H H]). unfold eng_sig. rewrite alpha_letter, sig_event_same.
  change (camel_case_small (fst ae)) with (small_first (fst ae)).
  change (camel_case_small (sig_event_name (snd ae))) with (small_first (sig_event_name (snd ae))).
  cbn [forallb]. unfold kv_ok. cbn [fst snd].
  repeat match goal with K : no_lg _ = true |- _ => rewrite K; clear K end. reflexivity.
Qed.

Lemma sig_block_from : forall (sigs : list (string * (string * string))) k body,
  forallb line_ok body = true ->
  forallb (fun ix => forallb (fun kv => no_lg (snd kv)) (sig_table (snd ix) (fst ix))) (enumerate_from k (map snd sigs)) = true ->
  sig_items (alpha_at k) k sigs (map render_line body)
  = flat_map (fun ix => map (fun l => render_line (map (subst16 (sig_table (snd ix) (fst ix))) l)) body) (enumerate_from k (map snd sigs)).
Proof.
  induction sigs as [|[key [a0 e0]] sigs IH]; intros k body Hb W; [reflexivity|].
  cbn [map enumerate_from forallb fst snd] in W. apply andb_prop in W as [Wv W].
  cbn [sig_items map enumerate_from flat_map fst snd]. rewrite <- alpha_at_S, (IH (S k) body Hb W). f_equal.
  rewrite map_map. clear IH W. induction body as [|l body IHb]; [reflexivity|].
  cbn [forallb] in Hb. apply andb_prop in Hb as [Hl Hb]. cbn [map]. rewrite (IHb Hb). f_equal.
  rewrite sig_line_chain. pose proof (eng_sig_kv (a0, e0) k Wv) as KV. pose proof (eng_sig_lookup (a0, e0) k) as LK.
  cbn [fst snd] in KV, LK. rewrite (chain_render _ l KV Hl). f_equal.
  apply map_ext. apply subst16_ext. exact LK.
Qed.

Lemma body_ok_line_ok keys body : forallb (body_line_ok keys) body = true -> forallb line_ok body = true.
Proof.
  induction body as [|l body IH]; [reflexivity|]. cbn [forallb]. intros H. apply andb_prop in H as [H1 H2].
  rewrite (IH H2), andb_true_r. unfold body_line_ok in H1. repeat (apply andb_prop in H1 as [H1 ?K]). exact H1.
Qed.

Lemma block_wf_values {A} (tb : A -> nat -> list (string * string)) : forall items k body,
  forallb (fun ix => forallb (fun kv => no_lg (snd kv)) (tb (snd ix) (fst ix))
                     && forallb (fun l => let out := render_line (map (subst16 (tb (snd ix) (fst ix))) l) in
                                          negb (isspace out) && negb (unmodelled out)) body) (enumerate_from k items) = true ->
  forallb (fun ix => forallb (fun kv => no_lg (snd kv)) (tb (snd ix) (fst ix))) (enumerate_from k items) = true.
Proof.
  induction items as [|x items IH]; intros k body H; [reflexivity|]. cbn [enumerate_from forallb] in *.
  apply andb_prop in H as [H1 H2]. apply andb_prop in H1 as [H1 _]. rewrite H1, (IH _ _ H2). reflexivity.
Qed.

Theorem sig_block_is_ref sigs body :
  forallb (body_line_ok sig_keys) body = true -> block_wf sig_table (map snd sigs) body = true ->
  inner_actionsigs sigs (map render_line body) None = Some (ref_block sig_table (map snd sigs) body).
Proof.
  intros Hb W. unfold inner_actionsigs, ref_block, block_wf in *. f_equal.
  exact (sig_block_from sigs 0 body (body_ok_line_ok _ _ Hb) (block_wf_values sig_table _ 0 body W)).
Qed.

(* ---------------------------------------------------------------- PairExpander.Expand around a block *)
Section PairBlock.
  Variables (bt et : string) (f : list string -> option string -> option (list string)).
  Notation PG := (pair_go bt et f).
  Definition not_be (l : string) : bool := negb (hasSpecificTag l bt) && negb (hasSpecificTag l et).

  Lemma not_be_parts l : not_be l = true -> hasSpecificTag l bt = false /\ hasSpecificTag l et = false.
  Proof. unfold not_be. intros H. apply andb_prop in H as [H1 H2]. apply negb_true_iff in H1, H2. tauto. Qed.

  Lemma pb_pre : forall pre r p, forallb not_be pre = true -> PG false [] p (pre ++ r) = option_map (app pre) (PG false [] p r).
  Proof.
    induction pre as [|l pre IH]; intros r p H.
    - cbn [app]. destruct (PG false [] p r); reflexivity.
    - cbn [forallb] in H. apply andb_prop in H as [H1 H2]. destruct (not_be_parts l H1) as [Hb He].
      cbn [app pair_go]. rewrite Hb, He. cbn [orb andb negb]. rewrite (IH r p H2). destruct (PG false [] p r); reflexivity.
  Qed.

  Lemma pb_body : forall body snip p r, forallb not_be body = true -> PG true snip p (body ++ r) = PG true (snip ++ body) p r.
  Proof.
    induction body as [|l body IH]; intros snip p r H.
    - cbn [app]. rewrite app_nil_r. reflexivity.
    - cbn [forallb] in H. apply andb_prop in H as [H1 H2]. destruct (not_be_parts l H1) as [Hb He].
      cbn [app pair_go]. rewrite Hb, He. cbn [orb andb negb]. rewrite (IH _ p r H2). rewrite <- app_assoc. cbn [app].
      destruct (PG true (snip ++ l :: body) p r); reflexivity.
  Qed.

  (* text, then a block (begin line without parameter, body, end line), then the rest: the text is kept, the block is
     replaced by what the expansion function returns for the body, the expander is back in its initial state *)
  Lemma pair_block pre bl body el rest :
    forallb not_be pre = true -> forallb not_be body = true ->
    hasSpecificTag bl bt = true -> hasSpecificTag bl et = false -> hasDefault bl = false ->
    hasSpecificTag el bt = false -> hasSpecificTag el et = true ->
    PG false [] None (pre ++ bl :: body ++ el :: rest)
    = match f body None with
      | Some out => option_map (fun t => pre ++ out ++ t) (PG false [] None rest)
      | None => None
      end.
  Proof.
    intros Hpre Hbody B1 B2 B3 E1 E2. rewrite (pb_pre pre _ None Hpre).
    cbn [pair_go]. rewrite B1, B2, B3. cbn [orb andb negb app].
    rewrite (pb_body body [] None _ Hbody). cbn [app pair_go]. rewrite E1, E2. cbn [orb andb negb app].
    destruct (f body None) as [out|]; [|reflexivity]. destruct (PG false [] None rest); reflexivity.
  Qed.
End PairBlock.

(* ---------------------------------------------------------------- the expander stage of a block kind *)
Definition inner_of_kind (k : ekind) (items : list string) : list string -> option string -> option (list string) :=
  match k with KStruct | KProto | KMsg => inner_proto items | _ => inner_second items end.

(* the stage list read from the source has, for every kind, the stage with these tags and this inner function *)
Lemma stage_in_source m k :
  existsb (fun st => let '(kind, b, e, inner, coll) := st in
                     String.eqb kind "Pair" && String.eqb b (fst (stage_tags k)) && String.eqb e (snd (stage_tags k))
                     && match inner_of m inner coll with Some _ => true | None => false end)
          (second_stages ++ second_stages_iface) = true.
Proof. destruct k; reflexivity. Qed.

Lemma block_lines_facts tags bl el : block_lines_ok tags bl el = true ->
  hasSpecificTag bl (fst tags) = true /\ hasSpecificTag bl (snd tags) = false /\ hasDefault bl = false
  /\ hasSpecificTag el (fst tags) = false /\ hasSpecificTag el (snd tags) = true.
Proof.
  unfold block_lines_ok. intros H. apply andb_prop in H as [H _]. apply andb_prop in H as [H _]. apply andb_prop in H as [H _].
  apply andb_prop in H as [H E2]. apply andb_prop in H as [H E1]. apply andb_prop in H as [H B3]. apply andb_prop in H as [B1 B2].
  apply negb_true_iff in B2, B3, E1. auto.
Qed.

Lemma inner_block k items body :
  forallb (body_line_ok (keys_of k)) body = true -> block_wf (table_of_kind k) items body = true ->
  inner_of_kind k items (map render_line body) None = Some (ref_block (table_of_kind k) items body).
Proof.
  destruct k; cbn [inner_of_kind table_of_kind]; intros Hb W;
    first [apply elem_block_is_ref; [exact (eq_trans (f_equal (fun ks => forallb (body_line_ok ks) body) eq_refl) Hb)|exact W]
          |apply proto_block_is_ref; [exact (eq_trans (f_equal (fun ks => forallb (body_line_ok ks) body) eq_refl) Hb)|exact W]].
Qed.

(* PairExpander.Expand of the block's stage: the text before the block is kept, the block (begin line, body, end line) is
   replaced by the reference block, and the expander continues on the rest from its initial state *)
Theorem block_stage k ib ie items pre body rest :
  let bt := fst (stage_tags k) in let et := snd (stage_tags k) in
  forallb (not_be bt et) pre = true -> forallb (not_be bt et) (map render_line body) = true ->
  item16_ok (Block k ib ie body) = true -> block_wf (table_of_kind k) items body = true ->
  pair_expand bt et (inner_of_kind k items) (pre ++ render_item16 (Block k ib ie body) ++ rest)
  = option_map (fun t => pre ++ ref_block (table_of_kind k) items body ++ t)
               (pair_go bt et (inner_of_kind k items) false [] None rest).
Proof.
  intros bt et Hpre Hnb Hok W. cbn [item16_ok] in Hok. apply andb_prop in Hok as [Hl Hb].
  destruct (block_lines_facts _ _ _ Hl) as (B1 & B2 & B3 & E1 & E2).
  unfold pair_expand. cbn [render_item16 app]. rewrite <- app_assoc. cbn [app].
  rewrite (pair_block bt et (inner_of_kind k items) pre _ (map render_line body) _ rest Hpre Hnb B1 B2 B3 E1 E2).
  rewrite (inner_block k items body Hb W). reflexivity.
Qed.
