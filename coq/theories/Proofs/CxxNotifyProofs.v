(* C15 -- one notify_one per push suffices (no missed wake-up, any number of consumers and pushes, any schedule);
   notifying only on the empty -> non-empty transition does not (two consumers). *)
From Coq Require Import List Bool Arith Lia.
From KV Require Import Model.CxxNotify.
Import ListNotations.
Open Scope list_scope.

Definition ind (f : cpc -> bool) (c : cpc) : nat := if f c then 1 else 0.

Lemma count_cons : forall f x l, count f (x :: l) = ind f x + count f l.
Proof. intros. unfold count, ind. cbn. destruct (f x); reflexivity. Qed.

Lemma count_nupd : forall f i x l old, nth_error l i = Some old -> count f (nupd i x l) + ind f old = count f l + ind f x.
Proof.
  intros f i x l. revert i. induction l as [|y l IH]; destruct i; cbn [nth_error nupd]; intros old H; try discriminate.
  - inversion H; subst. rewrite !count_cons. lia.
  - specialize (IH _ _ H). rewrite !count_cons. lia.
Qed.

(* notify_one moves exactly one sleeper to "signalled" if there is one, and changes nothing otherwise *)
Lemma signal_one_counts : forall l,
  (count is_asleep l = 0 /\ signal_one l = l) \/
  (count is_asleep (signal_one l) + 1 = count is_asleep l /\ count is_sig (signal_one l) = count is_sig l + 1
   /\ count is_idle (signal_one l) = count is_idle l).
Proof.
  induction l as [|x l IH]; [left; split; reflexivity|].
  destruct x as [|[|]|]; cbn [signal_one].
  - destruct IH as [[A B]|(A & B & C)]; [left|right]; rewrite ?count_cons in *; cbn; rewrite ?B; try split; try lia; auto.
  - destruct IH as [[A B]|(A & B & C)]; [left|right]; rewrite ?count_cons in *; cbn; rewrite ?B; try split; try lia; auto.
  - right. rewrite !count_cons. cbn. lia.
  - destruct IH as [[A B]|(A & B & C)]; [left|right]; rewrite ?count_cons in *; cbn; rewrite ?B; try split; try lia; auto.
Qed.

Lemma matched_step : forall s t s', work_matched s -> nstep NotifyEveryPush t s = Some s' -> work_matched s'.
Proof.
  intros s t s' HI H. unfold work_matched in *. destruct t as [|i]; cbn [nstep] in H.
  - destruct (todo s) as [|k]; [discriminate|]. inversion H; subst s'; clear H. cbn [nq cons].
    destruct (signal_one_counts (cons s)) as [[A B]|(A & B & C)].
    + rewrite B. lia.
    + intros Hs. lia.
  - destruct (nth_error (cons s) i) as [pc|] eqn:W; [|discriminate].
    pose proof (count_nupd is_asleep i) as Ua. pose proof (count_nupd is_sig i) as Us. pose proof (count_nupd is_idle i) as Ui.
    destruct pc as [|[|]|].
    + destruct (nq s) as [|q] eqn:Q; inversion H; subst s'; clear H; cbn [nq cons]; intros Hs.
      * lia.
      * specialize (Ua CHandling _ _ W). specialize (Us CHandling _ _ W). specialize (Ui CHandling _ _ W). cbn in *. lia.
    + inversion H; subst s'; clear H; cbn [nq cons]; intros Hs.
      specialize (Ua CIdle _ _ W). specialize (Us CIdle _ _ W). specialize (Ui CIdle _ _ W). cbn in *. lia.
    + discriminate.
    + inversion H; subst s'; clear H; cbn [nq cons]; intros Hs.
      specialize (Ua CIdle _ _ W). specialize (Us CIdle _ _ W). specialize (Ui CIdle _ _ W). cbn in *. lia.
Qed.

Lemma notify_per_push_no_missed_wakeup : forall c p s, nreach NotifyEveryPush c p s -> work_matched s.
Proof.
  intros c p s R. induction R as [|s t s' R IH H].
  - unfold work_matched. cbn. lia.
  - eapply matched_step; eauto.
Qed.

(* consequence: a sleeping consumer next to a non-empty queue always has an awake or notified colleague who can move *)
Lemma notify_per_push_someone_moves : forall c p s, nreach NotifyEveryPush c p s ->
  nq s > 0 -> count is_asleep (cons s) > 0 -> exists i, enabled_n NotifyEveryPush s (NCons i) = true.
Proof.
  intros c p s R Hq Ha. pose proof (notify_per_push_no_missed_wakeup _ _ _ R Ha) as M.
  assert (E : exists i pc, nth_error (cons s) i = Some pc /\ (is_sig pc = true \/ is_idle pc = true)).
  { assert (G : count is_sig (cons s) + count is_idle (cons s) > 0) by lia. clear - G.
    induction (cons s) as [|x l IH]; [cbn in G; lia|]. rewrite !count_cons in G.
    destruct (is_sig x) eqn:S1; [exists 0, x; cbn; auto|]. destruct (is_idle x) eqn:S2; [exists 0, x; cbn; auto|].
    unfold ind in G. rewrite S1, S2 in G. destruct IH as (i & pc & A & B); [lia|]. exists (S i), pc. auto. }
  destruct E as (i & pc & W & [S1|S2]); exists i; unfold enabled_n; cbn [nstep]; rewrite W.
  - destruct pc as [|[|]|]; try discriminate. reflexivity.
  - destruct pc as [|[|]|]; try discriminate. destruct (nq s); reflexivity.
Qed.

(* ---- notify only when the queue was empty: two consumers asleep, two pushes *)
Definition tr_sched : list ntid := [NCons 0; NCons 1; NProd; NProd].
Definition tr_sched_stuck : list ntid := tr_sched ++ [NCons 0; NCons 0].

Lemma nrun_reach : forall pol c p sc s, nreach pol c p s -> nreach pol c p (nrun pol sc s).
Proof.
  intros pol c p sc. induction sc as [|t r IH]; intros s R; cbn; auto.
  destruct (nstep pol t s) eqn:E; [apply IH; eapply nreach_step; eauto|apply IH; exact R].
Qed.

Lemma notify_on_transition_only_refuted :
  exists s, nreach NotifyOnTransition 2 2 s /\ ~ work_matched s /\
            (* ... and further on: one item queued, nobody will ever notify, the only awake consumer is inside its handler *)
            let s2 := nrun NotifyOnTransition tr_sched_stuck (ninit 2 2) in
            nreach NotifyOnTransition 2 2 s2 /\ nq s2 = 1 /\ todo s2 = 0 /\ cons s2 = [CHandling; CWaiting false] /\
            enabled_n NotifyOnTransition s2 NProd = false /\ enabled_n NotifyOnTransition s2 (NCons 1) = false.
Proof.
  exists (nrun NotifyOnTransition tr_sched (ninit 2 2)). split; [apply nrun_reach; apply nreach_init|]. split.
  - unfold work_matched. vm_compute. intros H. specialize (H (le_n 1)). lia.
  - split; [apply nrun_reach; apply nreach_init|]. vm_compute. auto 10.
Qed.

(* the same schedule under the every-push policy wakes both consumers *)
Lemma every_push_same_schedule :
  cons (nrun NotifyEveryPush tr_sched (ninit 2 2)) = [CWaiting true; CWaiting true].
Proof. vm_compute. reflexivity. Qed.
