(* C19 semantic read-back: associations are read back as the specification says (goal_assoc of Proofs/UmlSemGoals.v):
   Association.ParseAssociation on the dictionary of a semantic association blob (two ends, in the order of the layout,
   any inert properties and inert owned elements around them) gives rassoc_of. *)
From Coq Require Import String Ascii List Bool Arith Lia.
From KV Require Import Lib.Str Lib.ODict Model.Vpp Model.VppWriter Model.Uml Model.UmlBlob Model.UmlWriter Model.UmlSem
                       Proofs.UmlBlobDefs Proofs.UmlBlobStruct Proofs.UmlBlobText Proofs.UmlSemDefs Proofs.UmlSemDict Proofs.UmlSemDoc
                       Proofs.UmlSemGoals.
Import ListNotations.  Open Scope string_scope.

(* ---------------------------------------------------------------- booleans, strings *)

Ltac x_split :=
  repeat match goal with
         | H : (_ && _)%bool = true |- _ => apply andb_true_iff in H; destruct H
         end.

Lemma x_app_assoc : forall a b c : string, (a ++ b) ++ c = a ++ (b ++ c).
Proof. induction a as [|y a IH]; intros; cbn [append]; [reflexivity | rewrite IH; reflexivity]. Qed.

Lemma x_app_nil_r : forall a : string, a ++ "" = a.
Proof. induction a as [|y a IH]; cbn [append]; [reflexivity | rewrite IH; reflexivity]. Qed.

Lemma x_slen_app : forall a b, String.length (a ++ b) = String.length a + String.length b.
Proof. induction a as [|y a IH]; intros; cbn [append String.length]; [reflexivity | rewrite IH; reflexivity]. Qed.

Lemma x_substring_app_len : forall a b, substring 0 (String.length a) (a ++ b) = a.
Proof.
  induction a as [|c a IH]; intro b; [destruct b; reflexivity|].
  cbn [String.length append substring]. rewrite IH. reflexivity.
Qed.

Lemma x_unq_q : forall v, unq (q v) = v.
Proof.
  intro v. unfold q, dq. cbn [append unq]. rewrite Ascii.eqb_refl, x_slen_app. cbn [String.length].
  replace (String.length v + 1 - 1) with (String.length v) by lia. apply x_substring_app_len.
Qed.

Lemma x_unq_plain : forall c, prefixb dq c = false -> unq c = c.
Proof.
  intros c H. destruct c as [|y r]; [reflexivity|].
  unfold dq in H. cbn [prefixb] in H. rewrite andb_true_r in H. rewrite Ascii.eqb_sym in H.
  cbn [unq]. rewrite H. reflexivity.
Qed.

(* ---------------------------------------------------------------- identifiers and paths *)

Lemma x_ident_parts : forall s, ident s = true -> no_char ":" s = true /\ s <> "".
Proof.
  intros s H. unfold ident in H. x_split. split.
  - assumption.
  - match goal with H : negb (String.eqb s "") = true |- _ => apply negb_true_iff in H; apply String.eqb_neq in H; exact H end.
Qed.

Lemma x_join_cons2 : forall sep y z r, Uml.join sep (y :: z :: r) = y ++ sep ++ Uml.join sep (z :: r).
Proof. reflexivity. Qed.

Lemma x_join_ne : forall sep ids, ids <> [] -> forallb (fun i => negb (String.eqb i "")) ids = true -> Uml.join sep ids <> "".
Proof.
  intros sep ids Hn H. destruct ids as [|y r]; [congruence|].
  cbn [forallb] in H. x_split.
  match goal with H : negb (String.eqb y "") = true |- _ => apply negb_true_iff in H; apply String.eqb_neq in H; rename H into Hy end.
  destruct r as [|z r'].
  - exact Hy.
  - rewrite x_join_cons2. destruct y; [congruence | cbn [append]; discriminate].
Qed.

Lemma x_split_on_nonempty : forall c s, split_on c s <> [].
Proof.
  intros c s. destruct s as [|y s]; cbn [split_on]; [discriminate|].
  destruct (split_on c s); [discriminate|]. destruct (Ascii.eqb y c); discriminate.
Qed.

Lemma x_split_on_app : forall c a b, split_on c (a ++ String c b) = (split_on c a ++ split_on c b)%list.
Proof.
  intros c a b. induction a as [|y a IH].
  - cbn [append]. cbn [split_on]. generalize (x_split_on_nonempty c b).
    destruct (split_on c b); [congruence|]. intros _. rewrite Ascii.eqb_refl. reflexivity.
  - cbn [append]. cbn [split_on]. rewrite IH. generalize (x_split_on_nonempty c a).
    destruct (split_on c a) as [|h t]; [congruence|]. intros _. cbn [app].
    destruct (Ascii.eqb y c); reflexivity.
Qed.

Lemma x_split_on_none : forall c a, no_char c a = true -> split_on c a = [a].
Proof.
  intros c a. induction a as [|y a IH]; intro H; [reflexivity|].
  cbn [no_char] in H. apply andb_true_iff in H. destruct H as [H1 H2]. apply negb_true_iff in H1.
  cbn [split_on]. rewrite (IH H2), H1. reflexivity.
Qed.

Lemma x_split_join : forall ids, ids <> [] -> forallb (no_char ":") ids = true -> split_on ":" (Uml.join ":" ids) = ids.
Proof.
  induction ids as [|y r IH]; intros Hn H; [congruence|].
  cbn [forallb] in H. x_split.
  destruct r as [|z r'].
  - cbn [Uml.join]. apply x_split_on_none. assumption.
  - rewrite x_join_cons2. change (":" ++ Uml.join ":" (z :: r')) with (String ":" (Uml.join ":" (z :: r'))).
    rewrite x_split_on_app, x_split_on_none by assumption. rewrite IH; [reflexivity | discriminate | assumption].
Qed.

Lemma x_idents_nocolon : forall ids, forallb ident ids = true -> forallb (no_char ":") ids = true.
Proof.
  induction ids as [|y r IH]; intro H; [reflexivity|].
  cbn [forallb] in *. x_split. rewrite IH by assumption.
  destruct (x_ident_parts y ltac:(assumption)) as [Hy _]. rewrite Hy. reflexivity.
Qed.

(* ---------------------------------------------------------------- rstrip(':') *)

Lemma x_rstrip_char_app : forall c a b,
  rstrip_char c (a ++ b) = match rstrip_char c b with EmptyString => rstrip_char c a | r => a ++ r end.
Proof.
  intros c a b. induction a as [|y a IH].
  - cbn [append rstrip_char]. destruct (rstrip_char c b); reflexivity.
  - cbn [append rstrip_char]. rewrite IH. destruct (rstrip_char c b) as [|z t] eqn:E; [reflexivity|].
    destruct (a ++ String z t) eqn:E2; [|reflexivity].
    destruct a; cbn [append] in E2; discriminate.
Qed.

Lemma x_rstrip_char_none : forall c n, no_char c n = true -> rstrip_char c n = n.
Proof.
  intros c n. induction n as [|y n IH]; intro H; [reflexivity|].
  cbn [no_char] in H. x_split. cbn [rstrip_char]. rewrite IH by assumption.
  match goal with H : negb (Ascii.eqb y c) = true |- _ => apply negb_true_iff in H; rewrite H end.
  destruct n; reflexivity.
Qed.

Fixpoint x_cat (l : list string) : string := match l with [] => "" | y :: r => y ++ "::" ++ x_cat r end.

Lemma x_names_ne : forall l, forallb (fun n => no_char ":" n && negb (String.eqb n "")) l = true ->
  forallb (fun i => negb (String.eqb i "")) l = true.
Proof.
  induction l as [|z l IHl]; intro H; [reflexivity|].
  cbn [forallb] in *. x_split. rewrite IHl by assumption.
  match goal with H : negb (String.eqb z "") = true |- _ => rewrite H end. reflexivity.
Qed.

Lemma x_rstrip_cat : forall names, names <> [] -> forallb (fun n => no_char ":" n && negb (String.eqb n "")) names = true ->
  rstrip_char ":" (x_cat names) = Uml.join "::" names.
Proof.
  induction names as [|y r IH]; intros Hn H; [congruence|].
  cbn [forallb] in H. x_split.
  match goal with H : negb (String.eqb y "") = true |- _ => apply negb_true_iff in H; apply String.eqb_neq in H; rename H into Hy end.
  cbn [x_cat]. destruct r as [|z r'].
  - cbn [x_cat Uml.join]. rewrite x_rstrip_char_app. change (rstrip_char ":" ("::" ++ "")) with "".
    cbv iota. apply x_rstrip_char_none. assumption.
  - rewrite x_join_cons2. rewrite <- x_app_assoc. rewrite x_rstrip_char_app.
    rewrite IH; [|discriminate|assumption].
    assert (Hj : Uml.join "::" (z :: r') <> "").
    { apply x_join_ne; [discriminate | apply x_names_ne; assumption]. }
    destruct (Uml.join "::" (z :: r')) eqn:E; [congruence|]. rewrite x_app_assoc. reflexivity.
Qed.

(* ---------------------------------------------------------------- foldM *)

Lemma x_foldM_app : forall (A St : Type) (f : St -> A -> option St) (l1 l2 : list A) (s : St),
  foldM f (l1 ++ l2)%list s = match foldM f l1 s with Some s' => foldM f l2 s' | None => None end.
Proof.
  intros A St f l1. induction l1 as [|y r IH]; intros l2 s; [reflexivity|].
  cbn [app foldM]. unfold bind. destruct (f s y) as [s'|]; [apply IH | reflexivity].
Qed.

Lemma x_foldM_skip : forall (A St : Type) (f : St -> A -> option St) (l : list A) (s : St),
  (forall y, In y l -> forall s, f s y = Some s) -> foldM f l s = Some s.
Proof.
  intros A St f l. induction l as [|y r IH]; intros s H; [reflexivity|].
  cbn [foldM]. rewrite (H y (or_introl eq_refl)). unfold bind. apply IH.
  intros z Hz. apply H. right. exact Hz.
Qed.

(* ---------------------------------------------------------------- GetNestedTypeNamesFromNestedTypeIDS *)

Lemma x_names_fold : forall S g ids acc, g_names S g -> forallb (known S) ids = true ->
  foldM (fun acc t => e <- g t ;; Some (acc ++ ve_name e ++ "::")) ids acc
  = Some (acc ++ x_cat (map (fun i => ostr (name_of S i)) ids)).
Proof.
  intros S g ids. induction ids as [|y r IH]; intros acc Hg H.
  - cbn [foldM map x_cat]. rewrite x_app_nil_r. reflexivity.
  - cbn [forallb] in H. x_split. cbn [foldM map x_cat].
    match goal with H : known S y = true |- _ => unfold known in H; rename H into Hk end.
    destruct (name_of S y) as [n|] eqn:En; [|discriminate Hk].
    destruct (Hg y n En) as [v [Hv Hn]]. rewrite Hv. unfold bind at 2. unfold bind at 1.
    rewrite IH by assumption. rewrite Hn. cbn [ostr]. rewrite !x_app_assoc. reflexivity.
Qed.

Lemma x_path_known : forall S ids, path_ok S ids = true -> forallb (known S) ids = true.
Proof.
  intros S ids. unfold path_ok. induction ids as [|y r IH]; intro H; [reflexivity|].
  cbn [forallb] in *. x_split. rewrite IH by assumption.
  match goal with H : known S y = true |- _ => rewrite H end. reflexivity.
Qed.

Lemma x_path_ident : forall S ids, path_ok S ids = true -> forallb ident ids = true.
Proof.
  intros S ids. unfold path_ok. induction ids as [|y r IH]; intro H; [reflexivity|].
  cbn [forallb] in *. x_split. rewrite IH by assumption.
  match goal with H : ident y = true |- _ => rewrite H end. reflexivity.
Qed.

Lemma x_path_names : forall S ids, path_ok S ids = true ->
  forallb (fun n => no_char ":" n && negb (String.eqb n "")) (map (fun i => ostr (name_of S i)) ids) = true.
Proof.
  intros S ids. unfold path_ok. induction ids as [|y r IH]; intro H; [reflexivity|].
  cbn [forallb map] in *. x_split. rewrite IH by assumption.
  match goal with H : ident (ostr (name_of S y)) = true |- _ => unfold ident in H end. x_split.
  repeat match goal with H : _ = true |- _ => rewrite H; clear H end. reflexivity.
Qed.

Lemma x_nested : forall S g ids, g_names S g -> ids <> [] -> path_ok S ids = true ->
  nested_type_names g (path_text ids) = Some (type_name S ids).
Proof.
  intros S g ids Hg Hn H. unfold nested_type_names, path_text.
  rewrite x_split_join; [|exact Hn|apply x_idents_nocolon; apply (x_path_ident S); exact H].
  rewrite (x_names_fold S g ids "" Hg (x_path_known S ids H)). unfold bind. cbn [append].
  rewrite x_rstrip_cat; [reflexivity| |apply x_path_names; exact H].
  destruct ids; [congruence | discriminate].
Qed.

Lemma x_last_split : forall S ids, ids <> [] -> path_ok S ids = true -> last_of (split_on ":" (path_text ids)) = last ids "".
Proof.
  intros S ids Hn H. unfold path_text, last_of.
  rewrite x_split_join; [reflexivity|exact Hn|apply x_idents_nocolon; apply (x_path_ident S); exact H].
Qed.

(* ---------------------------------------------------------------- written values survive the reader *)

Definition x_kept (s : string) : bool := negb (String.eqb (py_strip (remove_char "," s)) "").

Lemma x_remove_none : forall c s, no_char c s = true -> remove_char c s = s.
Proof.
  intros c s. induction s as [|y s IH]; intro H; [reflexivity|].
  cbn [no_char] in H. apply andb_true_iff in H. destruct H as [H1 H2]. apply negb_true_iff in H1.
  cbn [remove_char]. rewrite H1, (IH H2). reflexivity.
Qed.

Lemma x_txt_kept : forall s, txt s = true -> negb (String.eqb s "") = true -> x_kept s = true.
Proof.
  intros s H Hn. unfold x_kept. unfold txt in H. x_split.
  rewrite x_remove_none by assumption.
  match goal with H : String.eqb (py_strip s) s = true |- _ => apply String.eqb_eq in H; rewrite H end. exact Hn.
Qed.

Lemma x_vtxt_kept : forall s, vtxt s = true -> String.eqb s "" = false -> x_kept s = true.
Proof.
  intros s H Hn. unfold vtxt in H. x_split.
  match goal with H : (String.eqb s "" || _)%bool = true |- _ => rewrite Hn in H; cbn [orb] in H; exact H end.
Qed.

Lemma x_noise_val_kept : forall v, noise_val v = true -> x_kept (unq v) = true.
Proof.
  intros v H. unfold noise_val in H. apply orb_true_iff in H. destruct H as [H|H].
  - x_split. rewrite x_unq_plain; [apply x_txt_kept; assumption|]. apply negb_true_iff. assumption.
  - remember (substring 1 (String.length v - 2) v) as u eqn:Eu. clear Eu. x_split.
    match goal with H : String.eqb v (q u) = true |- _ => apply String.eqb_eq in H; subst v end.
    rewrite x_unq_q. apply x_txt_kept; assumption.
Qed.

Lemma x_code_kept : forall c, code_ok (Some c) = true -> unq c = c /\ x_kept c = true.
Proof.
  intros c H. cbn [code_ok] in H. x_split. split.
  - apply x_unq_plain. apply negb_true_iff. assumption.
  - apply x_txt_kept; assumption.
Qed.

(* ---------------------------------------------------------------- layouts *)

Definition x_noise_ok (l : list slot) : bool :=
  forallb (fun s => match s with SNoise k v => noise_key k && noise_val v | _ => true end) l.

Lemma x_layout_parts : forall f l, layout_ok f l = true ->
  nodup_tags l [] = true /\ nodups (entry_keys (items_of "" f l)) = true
  /\ forallb (fun k => negb (prefixb "child_" k)) (entry_keys (items_of "" f l)) = true
  /\ x_noise_ok l = true
  /\ (forall t it, f t = Some it -> has_tag t l = true).
Proof.
  intros f l H. unfold layout_ok in H.
  apply andb_true_iff in H. destruct H as [H H5]. apply andb_true_iff in H. destruct H as [H H4].
  apply andb_true_iff in H. destruct H as [H H3]. apply andb_true_iff in H. destruct H as [H1 H2].
  repeat split; try assumption.
  intros t it Hf. cbn [forallb] in H5. x_split.
  destruct t; match goal with H : match f ?T with Some _ => _ | None => _ end = true |- has_tag ?T l = true => rewrite Hf in H; exact H end.
Qed.

Lemma x_noise_in : forall l k v, x_noise_ok l = true -> In (SNoise k v) l -> noise_key k = true /\ noise_val v = true.
Proof.
  intros l k v H Hin. unfold x_noise_ok in H. rewrite forallb_forall in H. specialize (H _ Hin). cbn beta iota in H.
  apply andb_true_iff in H. exact H.
Qed.

Lemma x_noise_not_reserved : forall kn k, noise_key kn = true -> existsb (String.eqb k) reserved_keys = true -> kn <> k.
Proof.
  intros kn k H Hk E. subst kn. unfold noise_key in H. x_split.
  match goal with H : negb (existsb (String.eqb k) reserved_keys) = true |- _ => rewrite Hk in H; discriminate H end.
Qed.

Lemma x_noise_not_child : forall k, noise_key k = true -> is_child_key k = false.
Proof.
  intros k H. unfold noise_key in H. x_split.
  match goal with H : forallb _ reserved_parts = true |- _ => cbn [forallb reserved_parts] in H end. x_split.
  unfold is_child_key. apply negb_true_iff. assumption.
Qed.

(* the lookup of a key of the adaptor in the body dictionary of a layout: what the one tag that writes it wrote
   (noise keys are not reserved, inert keys are none of the keys of the kind, owned elements have the keys child_<n>) *)
Lemma x_lookup : forall K ws f l k t0 vals, layout_ok f l = true -> inerts_ok K l = true ->
  existsb (String.eqb k) reserved_keys = true -> existsb (String.eqb k) (kind_keys K) = true -> prefixb "child_" k = false ->
  (forall t, t <> t0 -> lookup String.eqb k (tag_entries f t) = None) ->
  lookup String.eqb k (entries (items_of ws f l) ++ numbered vals 0)%list = lookup String.eqb k (tag_entries f t0).
Proof.
  intros K ws f l k t0 vals H Hi Hk Hkk Hp Ho. destruct (x_layout_parts f l H) as [_ [_ [_ [H4 H5]]]].
  rewrite lookup_app, (lookup_numbered_none k vals 0 Hp).
  assert (E : lookup String.eqb k (entries (items_of ws f l)) = lookup String.eqb k (tag_entries f t0)).
  { rewrite lookup_drop_noise.
    - rewrite (lookup_single_tag f (tags_of l) k t0 Ho), <- has_tag_tags_of.
      unfold tag_entries at 2. destruct (f t0) as [it|] eqn:E.
      + rewrite (H5 t0 it E). unfold tag_entries. rewrite E. reflexivity.
      + destruct (has_tag t0 l); [unfold tag_entries; rewrite E|]; reflexivity.
    - intros s Hin. destruct s as [kn vn|t|it].
      + destruct (x_noise_in l kn vn H4 Hin) as [Hkn _]. apply x_noise_not_reserved; assumption.
      + exact I.
      + intro Hin2. destruct (inert_key_free K l it k Hi Hin Hin2) as [Hf _]. rewrite Hf in Hkk. discriminate Hkk. }
  rewrite E. destruct (lookup String.eqb k (tag_entries f t0)); reflexivity.
Qed.

Lemma x_nodup_seen : forall l seen t, nodup_tags l seen = true -> existsb (tag_eqb t) seen = true -> has_tag t l = false.
Proof.
  induction l as [|s r IH]; intros seen t H Hs; [reflexivity|].
  destruct s as [k v|y|it].
  - cbn [nodup_tags] in H. unfold has_tag. cbn [existsb orb]. apply (IH seen t H Hs).
  - cbn [nodup_tags] in H. x_split. unfold has_tag. cbn [existsb]. apply orb_false_iff. split.
    + destruct (tag_eqb y t) eqn:E; [|reflexivity]. apply tag_eqb_eq in E. subst y.
      match goal with H : negb _ = true |- _ => rewrite Hs in H; discriminate H end.
    + apply (IH (y :: seen) t); [assumption|]. cbn [existsb]. rewrite Hs. apply orb_true_r.
  - cbn [nodup_tags] in H. unfold has_tag. cbn [existsb orb]. apply (IH seen t H Hs).
Qed.

Lemma x_has_tag_cons : forall t s r, has_tag t (s :: r) = (match s with STag y => tag_eqb y t | _ => false end) || has_tag t r.
Proof. reflexivity. Qed.

(* what the fields write *)
Definition x_text (k v : string) : list (string * UmlBlob.pv) := if String.eqb v "" then [] else [(k, PStr v)].
Definition x_flag (k : string) (b : bool) : list (string * UmlBlob.pv) := if b then [(k, PStr "T")] else [].
Definition x_ref (k : string) (ids : list string) : list (string * UmlBlob.pv) :=
  match ids with [] => [] | _ => [(k ++ "_0", PStr (path_text ids))] end.

Lemma x_text_entries : forall ws k v, vtxt v = true ->
  match text_field ws k v with Some it => item_entries it | None => [] end = x_text k v.
Proof.
  intros ws k v Hv. unfold text_field, x_text. destruct (String.eqb v "") eqn:E; [reflexivity|]. cbn [item_entries]. rewrite x_unq_q.
  pose proof (x_vtxt_kept v Hv E) as Hk. unfold x_kept in Hk. apply negb_true_iff in Hk. rewrite Hk. reflexivity.
Qed.
Lemma x_flag_entries : forall ws k b, match flag_field ws k b with Some it => item_entries it | None => [] end = x_flag k b.
Proof. intros. unfold flag_field, x_flag. destruct b; reflexivity. Qed.
Lemma x_ref_entries : forall ws k ids, match ref_field ws k ids with Some it => item_entries it | None => [] end = x_ref k ids.
Proof. intros. unfold ref_field, x_ref. destruct ids; reflexivity. Qed.
Lemma x_code_entry : forall ws k c, code_ok (Some c) = true -> item_entries (IField ws k c) = [(k, PStr (unq c))].
Proof.
  intros ws k c H. destruct (x_code_kept c H) as [Hu Hk]. cbn [item_entries]. rewrite Hu.
  unfold x_kept in Hk. apply negb_true_iff in Hk. rewrite Hk. reflexivity.
Qed.

(* ---------------------------------------------------------------- the body dictionary of an association end *)

Definition x_end_entries (from : bool) (e : send) (t : tag) : list (string * UmlBlob.pv) :=
  match t with
  | TDir => [("Direction", PStr (if from then "0" else "1"))]
  | TType => x_ref "EndModelElement" (se_class e)
  | TMult => x_text "multiplicity" (se_mult e)
  | TAgg => match se_agg e with Some c => [("aggregationKind", PStr (unq c))] | None => [] end
  | TVis => match se_vis e with Some c => [("visibility", PStr (unq c))] | None => [] end
  | TGetter => x_flag "providePropertyGetterMethod" (se_getter e)
  | TSetter => x_flag "providePropertySetterMethod" (se_setter e)
  | TReadOnly => x_flag "readOnly" (se_const e)
  | _ => []
  end.

Lemma x_end_tag : forall S from e t, end_ok S from e = true -> tag_entries (end_item from e) t = x_end_entries from e t.
Proof.
  intros S from e t H. unfold end_ok in H. x_split. unfold tag_entries.
  destruct t; cbn [end_item x_end_entries]; rewrite ?x_flag_entries, ?x_ref_entries; try reflexivity.
  - destruct (se_vis e) as [c|]; [|reflexivity]. apply x_code_entry. assumption.
  - destruct from; reflexivity.
  - apply x_text_entries. assumption.
  - destruct (se_agg e) as [c|]; [|reflexivity]. apply x_code_entry. assumption.
Qed.

Ltac x_end_other S Hok :=
  let t := fresh "t" in let Ht := fresh "Ht" in
  intros t Ht; rewrite (x_end_tag S _ _ _ Hok); destruct t; try (exfalso; apply Ht; reflexivity);
  cbn [x_end_entries]; unfold x_text, x_flag, x_ref; try reflexivity;
  repeat match goal with |- context [match ?y with _ => _ end] => destruct y end; reflexivity.

Lemma x_end_lookup : forall S from e k t0 vals, end_ok S from e = true ->
  existsb (String.eqb k) reserved_keys = true -> existsb (String.eqb k) (kind_keys KEnd) = true -> prefixb "child_" k = false ->
  (forall t, t <> t0 -> lookup String.eqb k (tag_entries (end_item from e) t) = None) ->
  lookup String.eqb k (entries (items_of (tabsn (se_nl e) 2) (end_item from e) (se_layout e)) ++ numbered vals 0)%list
  = lookup String.eqb k (x_end_entries from e t0).
Proof.
  intros S from e k t0 vals H Hk Hkk Hp Ho. rewrite <- (x_end_tag S from e t0 H).
  unfold end_ok in H. x_split. apply (x_lookup KEnd); assumption.
Qed.

(* ---------------------------------------------------------------- one end: the reader's steps and the specification's *)

Definition x_st1 (g : string -> option velem) (a : rassoc) (vvv : UmlBlob.pv) (d0 d1 : bool) : option rassoc :=
  if d0 then e <- sidx "EndModelElement_0" vvv ;; n <- nested_type_names g e ;; Some (set_from a n (last_of (split_on ":" e)))
  else if d1 then e <- sidx "EndModelElement_0" vvv ;; n <- nested_type_names g e ;; Some (set_to a n (last_of (split_on ":" e)))
  else Some a.
Definition x_st2 (vvv : UmlBlob.pv) (a1 : rassoc) : option rassoc :=
  if has "aggregationKind" vvv then k <- idx "aggregationKind" vvv ;;
    Some (if pv_is "66" k then set_type a1 "Aggregation" else if pv_is "67" k then set_type a1 "Composition" else a1)
  else Some a1.
Definition x_st3 (vvv : UmlBlob.pv) (d0 d1 : bool) (a2 : rassoc) : option rassoc :=
  if has "multiplicity" vvv then m <- sidx "multiplicity" vvv ;;
    Some (if d0 then set_end a2 true None None None (Some m) None None else if d1 then set_end a2 false None None None (Some m) None None else a2)
  else Some (if d0 then (if String.eqb (as_type a2) "Composition" then set_end a2 true None None None (Some "1") None None else a2)
             else if d1 then (if negb (String.eqb (as_type a2) "Association") then set_end a2 false None None None (Some "0") None None else a2)
             else a2).
Definition x_st4 (vvv : UmlBlob.pv) (d0 d1 : bool) (a3 : rassoc) : option rassoc :=
  if has "visibility" vvv then vis <- idx "visibility" vvv ;;
    Some (if pv_is "68" vis then (if d0 then set_end a3 true None (Some true) None None None None else if d1 then set_end a3 false None (Some true) None None None None else a3)
          else (if d0 then set_end a3 true (Some (visibility_str vis)) None None None None None
                else if d1 then set_end a3 false (Some (visibility_str vis)) None None None None None else a3))
  else Some a3.
Definition x_st5 (vvv : UmlBlob.pv) (d0 d1 : bool) (a4 : rassoc) : rassoc :=
  if has "providePropertyGetterMethod" vvv
  then (if d0 then set_end a4 true None None None None (Some true) None else if d1 then set_end a4 false None None None None (Some true) None else a4) else a4.
Definition x_st6 (vvv : UmlBlob.pv) (d0 d1 : bool) (a5 : rassoc) : rassoc :=
  if has "providePropertySetterMethod" vvv
  then (if d0 then set_end a5 true None None None None None (Some true) else if d1 then set_end a5 false None None None None None (Some true) else a5) else a5.

Lemma x_end_step_eq : forall g a vvv,
  assoc_end_step g a vvv =
  (d0 <- dir_is "0" vvv ;; d1 <- dir_is "1" vvv ;;
   a1 <- x_st1 g a vvv d0 d1 ;; a2 <- x_st2 vvv a1 ;; a3 <- x_st3 vvv d0 d1 a2 ;; a4 <- x_st4 vvv d0 d1 a3 ;;
   Some (x_st6 vvv d0 d1 (x_st5 vvv d0 d1 a4))).
Proof. reflexivity. Qed.

Definition x_s1 (S : sdiagram) (from : bool) (e : send) (a : rassoc) : rassoc :=
  if from then set_from a (type_name S (se_class e)) (last (se_class e) "") else set_to a (type_name S (se_class e)) (last (se_class e) "").
Definition x_s2 (e : send) (a1 : rassoc) : rassoc :=
  match se_agg e with
  | Some c => if String.eqb c "66" then set_type a1 "Aggregation" else if String.eqb c "67" then set_type a1 "Composition" else a1
  | None => a1
  end.
Definition x_s3 (from : bool) (e : send) (a2 : rassoc) : rassoc :=
  if negb (String.eqb (se_mult e) "") then set_end a2 from None None None (Some (se_mult e)) None None
  else if from then (if String.eqb (as_type a2) "Composition" then set_end a2 true None None None (Some "1") None None else a2)
  else (if negb (String.eqb (as_type a2) "Association") then set_end a2 false None None None (Some "0") None None else a2).
Definition x_s4 (from : bool) (e : send) (a3 : rassoc) : rassoc :=
  match se_vis e with
  | Some c => if String.eqb c "68" then set_end a3 from None (Some true) None None None None
              else set_end a3 from (Some (vis_of_code c)) None None None None None
  | None => a3
  end.
Definition x_s5 (from : bool) (e : send) (a4 : rassoc) : rassoc := if se_getter e then set_end a4 from None None None None (Some true) None else a4.
Definition x_s6 (from : bool) (e : send) (a5 : rassoc) : rassoc := if se_setter e then set_end a5 from None None None None None (Some true) else a5.
Definition x_s7 (from : bool) (e : send) (a6 : rassoc) : rassoc := if se_const e then set_end a6 from None None (Some true) None None None else a6.

Lemma x_end_spec_eq : forall S from e a,
  end_spec S from e a = x_s7 from e (x_s6 from e (x_s5 from e (x_s4 from e (x_s3 from e (x_s2 e (x_s1 S from e a)))))).
Proof. reflexivity. Qed.

Lemma x_has_flag : forall k E b, lookup String.eqb k E = lookup String.eqb k (x_flag k b) -> has k (PDict E) = b.
Proof.
  intros k E b H. unfold has. rewrite mem_lookup, H. unfold x_flag. destruct b; [|reflexivity].
  cbn [lookup]. rewrite String.eqb_refl. reflexivity.
Qed.

(* THE END STEP: the property dictionary of an end (with any inert properties and inert owned elements), read by
   assoc_end_step and then by the readOnly test *)
Lemma x_end_body_step : forall S g from e a, g_names S g -> end_ok S from e = true ->
  (a1 <- assoc_end_step g a (body_pv (items_of (tabsn (se_nl e) 2) (end_item from e) (se_layout e))) ;;
   assoc_readonly a1 (body_pv (items_of (tabsn (se_nl e) 2) (end_item from e) (se_layout e)))) = Some (end_spec S from e a).
Proof.
  intros S g from e a Hg Hok. pose proof Hok as Hok'. unfold end_ok in Hok'. x_split.
  destruct (x_layout_parts _ _ ltac:(eassumption)) as [_ [L2 [L3 _]]].
  rewrite body_explicit by (rewrite entry_keys_ws; assumption).
  remember (entries (items_of (tabsn (se_nl e) 2) (end_item from e) (se_layout e))
            ++ numbered (map node_pv (children_of (items_of (tabsn (se_nl e) 2) (end_item from e) (se_layout e)))) 0)%list as E eqn:HE.
  assert (Ldir : lookup String.eqb "Direction" E = lookup String.eqb "Direction" (x_end_entries from e TDir))
    by (subst E; apply (x_end_lookup S); [exact Hok | reflexivity | reflexivity | reflexivity | x_end_other S Hok]).
  assert (Lty : lookup String.eqb "EndModelElement_0" E = lookup String.eqb "EndModelElement_0" (x_end_entries from e TType))
    by (subst E; apply (x_end_lookup S); [exact Hok | reflexivity | reflexivity | reflexivity | x_end_other S Hok]).
  assert (Lagg : lookup String.eqb "aggregationKind" E = lookup String.eqb "aggregationKind" (x_end_entries from e TAgg))
    by (subst E; apply (x_end_lookup S); [exact Hok | reflexivity | reflexivity | reflexivity | x_end_other S Hok]).
  assert (Lmu : lookup String.eqb "multiplicity" E = lookup String.eqb "multiplicity" (x_end_entries from e TMult))
    by (subst E; apply (x_end_lookup S); [exact Hok | reflexivity | reflexivity | reflexivity | x_end_other S Hok]).
  assert (Lvis : lookup String.eqb "visibility" E = lookup String.eqb "visibility" (x_end_entries from e TVis))
    by (subst E; apply (x_end_lookup S); [exact Hok | reflexivity | reflexivity | reflexivity | x_end_other S Hok]).
  assert (Lget : lookup String.eqb "providePropertyGetterMethod" E = lookup String.eqb "providePropertyGetterMethod" (x_end_entries from e TGetter))
    by (subst E; apply (x_end_lookup S); [exact Hok | reflexivity | reflexivity | reflexivity | x_end_other S Hok]).
  assert (Lset : lookup String.eqb "providePropertySetterMethod" E = lookup String.eqb "providePropertySetterMethod" (x_end_entries from e TSetter))
    by (subst E; apply (x_end_lookup S); [exact Hok | reflexivity | reflexivity | reflexivity | x_end_other S Hok]).
  assert (Lro : lookup String.eqb "readOnly" E = lookup String.eqb "readOnly" (x_end_entries from e TReadOnly))
    by (subst E; apply (x_end_lookup S); [exact Hok | reflexivity | reflexivity | reflexivity | x_end_other S Hok]).
  clear HE. cbn [x_end_entries] in *.
  assert (D0 : dir_is "0" (PDict E) = Some from) by (unfold dir_is, idx; rewrite Ldir; destruct from; reflexivity).
  assert (D1 : dir_is "1" (PDict E) = Some (negb from)) by (unfold dir_is, idx; rewrite Ldir; destruct from; reflexivity).
  assert (Hne : se_class e <> []) by (destruct (se_class e); [discriminate | discriminate]).
  assert (Q1 : x_st1 g a (PDict E) from (negb from) = Some (x_s1 S from e a)).
  { assert (Hs : sidx "EndModelElement_0" (PDict E) = Some (path_text (se_class e))).
    { unfold sidx, idx. rewrite Lty. unfold x_ref. destruct (se_class e) as [|y r]; [congruence|].
      change ("EndModelElement" ++ "_0") with "EndModelElement_0". cbn [lookup]. rewrite String.eqb_refl. reflexivity. }
    unfold x_st1, x_s1. rewrite Hs. cbn [bind]. rewrite (x_nested S g (se_class e) Hg Hne) by assumption. cbn [bind].
    rewrite (x_last_split S (se_class e) Hne) by assumption. destruct from; reflexivity. }
  assert (Q2 : forall a1, x_st2 (PDict E) a1 = Some (x_s2 e a1)).
  { intro a1. unfold x_st2, x_s2, has, idx. rewrite mem_lookup, Lagg. destruct (se_agg e) as [c|]; [|reflexivity].
    cbn [lookup]. rewrite String.eqb_refl. cbn [bind].
    destruct (x_code_kept c ltac:(assumption)) as [Hu _]. rewrite Hu. reflexivity. }
  assert (Q3 : forall a2, x_st3 (PDict E) from (negb from) a2 = Some (x_s3 from e a2)).
  { intro a2. unfold x_st3, x_s3, has, sidx, idx. rewrite mem_lookup, Lmu. unfold x_text.
    destruct (String.eqb (se_mult e) "").
    - destruct from; reflexivity.
    - cbn [lookup]. rewrite String.eqb_refl. destruct from; reflexivity. }
  assert (Q4 : forall a3, x_st4 (PDict E) from (negb from) a3 = Some (x_s4 from e a3)).
  { intro a3. unfold x_st4, x_s4, has, idx. rewrite mem_lookup, Lvis. destruct (se_vis e) as [c|]; [|reflexivity].
    cbn [lookup]. rewrite String.eqb_refl. cbn [bind].
    destruct (x_code_kept c ltac:(assumption)) as [Hu _]. rewrite Hu. cbn [pv_is].
    destruct (String.eqb c "68"); destruct from; reflexivity. }
  assert (Q5 : forall a4, x_st5 (PDict E) from (negb from) a4 = x_s5 from e a4).
  { intro a4. unfold x_st5, x_s5. rewrite (x_has_flag _ _ _ Lget). destruct (se_getter e); [|reflexivity]. destruct from; reflexivity. }
  assert (Q6 : forall a5, x_st6 (PDict E) from (negb from) a5 = x_s6 from e a5).
  { intro a5. unfold x_st6, x_s6. rewrite (x_has_flag _ _ _ Lset). destruct (se_setter e); [|reflexivity]. destruct from; reflexivity. }
  assert (Q7 : forall a6, assoc_readonly a6 (PDict E) = Some (x_s7 from e a6)).
  { intro a6. unfold assoc_readonly, x_s7. rewrite (x_has_flag _ _ _ Lro). destruct (se_const e); [|reflexivity].
    rewrite D0, D1. cbn [bind]. destruct from; reflexivity. }
  rewrite x_end_step_eq, x_end_spec_eq. rewrite D0, D1. cbn [bind].
  rewrite Q1. cbn [bind]. rewrite Q2. cbn [bind]. rewrite Q3. cbn [bind]. rewrite Q4. cbn [bind].
  rewrite Q5, Q6. apply Q7.
Qed.

(* ---------------------------------------------------------------- the loops of ParseAssociation *)

Definition x_inn (g : string -> option velem) (a : rassoc) (kv3 : string * UmlBlob.pv) : option rassoc :=
  a1 <- (if is_child_key (fst kv3) then assoc_end_step g a (snd kv3) else Some a) ;;
  assoc_readonly a1 (snd kv3).
Definition x_mid (g : string -> option velem) (a : rassoc) (kv2 : string * UmlBlob.pv) : option rassoc :=
  if is_child_key (fst kv2) then
    if truthy (snd kv2) then
      t <- sidx "type" (snd kv2) ;;
      if contains "associationend" (lower t) then its3 <- items (snd kv2) ;; foldM (x_inn g) its3 a
      else Some a
    else Some a
  else Some a.
Definition x_top (g : string -> option velem) (a : rassoc) (kv : string * UmlBlob.pv) : option rassoc :=
  a' <- (if has "documentation_plain" (snd kv) then c <- sidx "documentation_plain" (snd kv) ;; Some (set_comment a c) else Some a) ;;
  if is_child_key (fst kv) then its2 <- items (snd kv) ;; foldM (x_mid g) its2 a' else Some a'.

Lemma x_parse_eq : forall g (P : velem -> option UmlBlob.pv) v,
  parse_association g P v = (top <- P v ;; its <- items top ;; foldM (x_top g) its (assoc0 (ve_id v) (ve_name v))).
Proof. reflexivity. Qed.

Lemma x_inn_str : forall g a k s, is_child_key k = false -> contains "readOnly" s = false -> x_inn g a (k, PStr s) = Some a.
Proof.
  intros g a k s Hk Hs. unfold x_inn. cbn [fst snd]. rewrite Hk. cbn [bind]. unfold assoc_readonly, has. rewrite Hs. reflexivity.
Qed.

Lemma x_top_str : forall g a k s, is_child_key k = false -> contains "documentation_plain" s = false -> x_top g a (k, PStr s) = Some a.
Proof.
  intros g a k s Hk Hs. unfold x_top. cbn [fst snd]. unfold has. rewrite Hs. cbn [bind]. rewrite Hk. reflexivity.
Qed.

Lemma x_name_avoid : forall avoid nm, name_ok avoid nm = true -> contains avoid "NULL" = false -> contains avoid (name_text nm) = false.
Proof.
  intros avoid nm H Hn. destruct nm as [n|]; [|exact Hn].
  cbn [name_ok] in H. x_split. cbn [name_text]. apply negb_true_iff. assumption.
Qed.

Lemma x_head_type : forall a b c d, sidx "type" (PDict [("id", a); ("name", b); ("type", PStr c); ("child_0", d)]) = Some c.
Proof. reflexivity. Qed.

Lemma x_child_key : forall s, is_child_key ("child_" ++ s) = true.
Proof. intro s. reflexivity. Qed.

(* the wrapper of an end (a numbered child of the association body) *)
Lemma x_wrapper : forall S g from e a k, g_names S g -> end_ok S from e = true -> is_child_key k = true ->
  x_mid g a (k, node_pv (tree_of_end from e)) = Some (end_spec S from e a).
Proof.
  intros S g from e a k Hg Hok Hk. pose proof Hok as Hok'. unfold end_ok in Hok'. x_split.
  unfold x_mid. cbn [fst snd]. rewrite Hk. unfold tree_of_end. rewrite node_explicit. cbn [truthy].
  rewrite x_head_type. cbn [bind].
  change (contains "associationend" (lower "AssociationEnd")) with true. cbn [items bind foldM].
  rewrite x_inn_str; [|reflexivity|apply negb_true_iff; assumption]. cbn [bind].
  rewrite x_inn_str; [|reflexivity|apply x_name_avoid; [assumption|reflexivity]]. cbn [bind].
  rewrite x_inn_str; [|reflexivity|reflexivity]. cbn [bind].
  unfold x_inn. cbn [fst snd]. change (is_child_key "child_0") with true. cbv iota.
  rewrite (x_end_body_step S g from e a Hg Hok). reflexivity.
Qed.

(* an element owned by an inert property of the association (a model view ...) is skipped: its type is no association end *)
Lemma x_mid_inert : forall g a k n, is_child_key k = true -> kind_child_ok KAssoc (node_type n) = true ->
  x_mid g a (k, node_pv n) = Some a.
Proof.
  intros g a k n Hk H. destruct n as [id nm ty its tl]. cbn [node_type kind_child_ok] in H. apply negb_true_iff in H.
  unfold x_mid. cbn [fst snd]. rewrite Hk, node_explicit. cbn [truthy]. rewrite x_head_type. cbn [bind]. rewrite H. reflexivity.
Qed.

Lemma x_numbered_in : forall vals n kv, In kv (numbered vals n) -> exists m v, kv = ("child_" ++ dec m, v) /\ In v vals.
Proof.
  induction vals as [|v r IH]; intros n kv H; [destruct H|].
  cbn [numbered In] in H. destruct H as [H|H].
  - exists n, v. split; [symmetry; exact H | left; reflexivity].
  - destruct (IH _ _ H) as [m [w [E1 E2]]]. exists m, w. split; [exact E1 | right; exact E2].
Qed.

(* ---------------------------------------------------------------- the body dictionary of an association *)

(* the owned elements a slot of the association writes; what the reader makes of them *)
Definition x_kidsf (x : sassoc) (s : slot) : list wnode :=
  match s with
  | STag t => match assoc_item x t with Some it => kids_of it | None => [] end
  | SInert it => kids_of it
  | SNoise _ _ => []
  end.
Definition x_step (S : sdiagram) (x : sassoc) (a : rassoc) (s : slot) : rassoc :=
  match s with
  | STag TFrom => end_spec S true (sx_from x) a
  | STag TTo => end_spec S false (sx_to x) a
  | _ => a
  end.

Lemma x_mid_fold : forall S g x, g_names S g -> end_ok S true (sx_from x) = true -> end_ok S false (sx_to x) = true ->
  nl_ok (sx_nl x) = true -> doc_ok (tabsn (sx_nl x) 1) (sx_doc x) = true ->
  forall l n a, inerts_ok KAssoc l = true ->
  foldM (x_mid g) (numbered (map node_pv (flat_map (x_kidsf x) l)) n) a = Some (fold_left (x_step S x) l a).
Proof.
  intros S g x Hg Hf Ht Hnl Hdoc l. induction l as [|s r IH]; intros n a Hi; [reflexivity|].
  unfold inerts_ok in Hi. cbn [forallb] in Hi. apply andb_true_iff in Hi. destruct Hi as [Hs Hr].
  cbn [flat_map fold_left]. rewrite map_app, numbered_app, x_foldM_app.
  assert (E : foldM (x_mid g) (numbered (map node_pv (x_kidsf x s)) n) a = Some (x_step S x a s)).
  { destruct s as [k v|t|it].
    - reflexivity.
    - destruct t; cbn [x_kidsf assoc_item x_step]; try reflexivity.
      + destruct (doc_field (tabsn (sx_nl x) 1) (sx_doc x)) as [it|] eqn:Ed; [|reflexivity].
        destruct (doc_entries _ _ _ _ Hnl Hdoc Ed) as [_ [_ Hk]]. rewrite Hk. reflexivity.
      + cbn [kids_of map numbered foldM]. rewrite (x_wrapper S g true (sx_from x) a _ Hg Hf (x_child_key _)). reflexivity.
      + cbn [kids_of map numbered foldM]. rewrite (x_wrapper S g false (sx_to x) a _ Hg Ht (x_child_key _)). reflexivity.
    - cbn [x_kidsf x_step]. destruct it as [ws k v|ws k o sep c ids|ws k o sep c ns|s|s]; try reflexivity.
      cbn [kids_of]. apply x_foldM_skip. intros kv Hin s0.
      destruct (x_numbered_in _ _ _ Hin) as [m [v [E1 E2]]]. subst kv.
      apply in_map_iff in E2. destruct E2 as [nd [E3 E4]]. subst v.
      apply x_mid_inert; [apply x_child_key|].
      unfold inert_ok in Hs. apply andb_true_iff in Hs. destruct Hs as [_ Hc].
      rewrite forallb_forall in Hc. exact (Hc _ E4). }
  rewrite E. apply IH. exact Hr.
Qed.

Lemma x_step_other : forall S x a t, t <> TFrom -> t <> TTo -> x_step S x a (STag t) = a.
Proof. intros S x a t H1 H2. destruct t; try reflexivity; congruence. Qed.

Lemma x_fold_none : forall S x l a, has_tag TFrom l = false -> has_tag TTo l = false -> fold_left (x_step S x) l a = a.
Proof.
  intros S x l. induction l as [|s r IH]; intros a Hf Ht; [reflexivity|].
  rewrite x_has_tag_cons in Hf, Ht. apply orb_false_iff in Hf. apply orb_false_iff in Ht. destruct Hf as [Hf1 Hf2]. destruct Ht as [Ht1 Ht2].
  cbn [fold_left]. rewrite (IH _ Hf2 Ht2). destruct s as [k v|t|it]; try reflexivity.
  apply x_step_other; intro; subst t; discriminate.
Qed.

Lemma x_fold_to : forall S x l seen a, nodup_tags l seen = true -> has_tag TFrom l = false -> has_tag TTo l = true ->
  fold_left (x_step S x) l a = end_spec S false (sx_to x) a.
Proof.
  intros S x l. induction l as [|s r IH]; intros seen a Hn Hf Ht; [discriminate Ht|].
  rewrite x_has_tag_cons in Hf, Ht. apply orb_false_iff in Hf. destruct Hf as [Hf1 Hf2].
  cbn [fold_left]. destruct s as [k v|t|it].
  - cbn [nodup_tags] in Hn. cbn [orb] in Ht. exact (IH seen _ Hn Hf2 Ht).
  - cbn [nodup_tags] in Hn. apply andb_true_iff in Hn. destruct Hn as [Hn1 Hn2].
    destruct (tag_eqb t TTo) eqn:E.
    + apply tag_eqb_eq in E. subst t.
      exact (x_fold_none S x r _ Hf2 (x_nodup_seen r (TTo :: seen) TTo Hn2 eq_refl)).
    + cbn [orb] in Ht. rewrite x_step_other; [exact (IH (t :: seen) _ Hn2 Hf2 Ht)| |]; intro; subst t; discriminate.
  - cbn [nodup_tags] in Hn. cbn [orb] in Ht. exact (IH seen _ Hn Hf2 Ht).
Qed.

Lemma x_fold_from : forall S x l seen a, nodup_tags l seen = true -> has_tag TFrom l = true -> has_tag TTo l = false ->
  fold_left (x_step S x) l a = end_spec S true (sx_from x) a.
Proof.
  intros S x l. induction l as [|s r IH]; intros seen a Hn Hf Ht; [discriminate Hf|].
  rewrite x_has_tag_cons in Hf, Ht. apply orb_false_iff in Ht. destruct Ht as [Ht1 Ht2].
  cbn [fold_left]. destruct s as [k v|t|it].
  - cbn [nodup_tags] in Hn. cbn [orb] in Hf. exact (IH seen _ Hn Hf Ht2).
  - cbn [nodup_tags] in Hn. apply andb_true_iff in Hn. destruct Hn as [Hn1 Hn2].
    destruct (tag_eqb t TFrom) eqn:E.
    + apply tag_eqb_eq in E. subst t.
      exact (x_fold_none S x r _ (x_nodup_seen r (TFrom :: seen) TFrom Hn2 eq_refl) Ht2).
    + cbn [orb] in Hf. rewrite x_step_other; [exact (IH (t :: seen) _ Hn2 Hf Ht2)| |]; intro; subst t; discriminate.
  - cbn [nodup_tags] in Hn. cbn [orb] in Hf. exact (IH seen _ Hn Hf Ht2).
Qed.

(* the two ends are read in the order of the layout, whatever lies before, between and after them *)
Lemma x_fold_both : forall S x l seen a, nodup_tags l seen = true -> has_tag TFrom l = true -> has_tag TTo l = true ->
  fold_left (x_step S x) l a
  = if to_first l then end_spec S true (sx_from x) (end_spec S false (sx_to x) a)
    else end_spec S false (sx_to x) (end_spec S true (sx_from x) a).
Proof.
  intros S x l. induction l as [|s r IH]; intros seen a Hn Hf Ht; [discriminate Hf|].
  rewrite x_has_tag_cons in Hf, Ht. cbn [fold_left]. destruct s as [k v|t|it].
  - cbn [nodup_tags] in Hn. cbn [orb] in Hf, Ht. cbn [to_first]. exact (IH seen _ Hn Hf Ht).
  - cbn [nodup_tags] in Hn. apply andb_true_iff in Hn. destruct Hn as [Hn1 Hn2].
    destruct (tag_eqb t TFrom) eqn:E1; [|destruct (tag_eqb t TTo) eqn:E2].
    + apply tag_eqb_eq in E1. subst t. cbn [tag_eqb orb] in Ht. cbn [to_first x_step].
      exact (x_fold_to S x r (TFrom :: seen) _ Hn2 (x_nodup_seen r (TFrom :: seen) TFrom Hn2 eq_refl) Ht).
    + apply tag_eqb_eq in E2. subst t. cbn [tag_eqb orb] in Hf. cbn [to_first x_step].
      exact (x_fold_from S x r (TTo :: seen) _ Hn2 Hf (x_nodup_seen r (TTo :: seen) TTo Hn2 eq_refl)).
    + cbn [orb] in Hf, Ht. rewrite x_step_other; [|intro; subst t; discriminate|intro; subst t; discriminate].
      rewrite (IH (t :: seen) _ Hn2 Hf Ht). destruct t; try reflexivity; discriminate.
  - cbn [nodup_tags] in Hn. cbn [orb] in Hf, Ht. cbn [to_first]. exact (IH seen _ Hn Hf Ht).
Qed.

Definition x_assoc_entries (x : sassoc) (t : tag) : list (string * UmlBlob.pv) :=
  match t with
  | TDoc => match doc_field (tabsn (sx_nl x) 1) (sx_doc x) with Some _ => [("documentation_plain", PStr (doc_value (sx_doc x)))] | None => [] end
  | _ => []
  end.

Lemma x_assoc_tag : forall x t, nl_ok (sx_nl x) = true -> doc_ok (tabsn (sx_nl x) 1) (sx_doc x) = true ->
  tag_entries (assoc_item x) t = x_assoc_entries x t.
Proof.
  intros x t Hnl Hdoc. unfold tag_entries. destruct t; cbn [assoc_item x_assoc_entries]; try reflexivity.
  destruct (doc_field (tabsn (sx_nl x) 1) (sx_doc x)) as [it|] eqn:Ed; [|reflexivity].
  destruct (doc_entries _ _ _ _ Hnl Hdoc Ed) as [He _]. exact He.
Qed.

Lemma x_assoc_body : forall S x, assoc_ok S x = true ->
  body_pv (items_of (tabsn (sx_nl x) 1) (assoc_item x) (sx_layout x))
  = PDict (entries (items_of (tabsn (sx_nl x) 1) (assoc_item x) (sx_layout x))
           ++ numbered (map node_pv (flat_map (x_kidsf x) (sx_layout x))) 0)%list.
Proof.
  intros S x H. unfold assoc_ok in H. x_split.
  destruct (x_layout_parts _ _ ltac:(eassumption)) as [_ [L2 [L3 _]]].
  rewrite body_explicit by (rewrite entry_keys_ws; assumption).
  rewrite children_of_layout. reflexivity.
Qed.

Lemma x_in_entries_one : forall it kv, In kv (entries [it]) -> In (fst kv) (item_keys it).
Proof. intros it kv H. rewrite <- entry_keys_one, <- entries_keys. apply in_map. exact H. Qed.

(* the entries of the association body are no owned elements *)
Lemma x_assoc_entries_skip : forall x, nl_ok (sx_nl x) = true -> doc_ok (tabsn (sx_nl x) 1) (sx_doc x) = true ->
  forall ws l, x_noise_ok l = true -> inerts_ok KAssoc l = true ->
  forall kv, In kv (entries (items_of ws (assoc_item x) l)) -> is_child_key (fst kv) = false.
Proof.
  intros x Hnl Hdoc ws l. induction l as [|s r IH]; intros Hn Hi kv Hin; [destruct Hin|].
  unfold x_noise_ok in Hn. cbn [forallb] in Hn. apply andb_true_iff in Hn. destruct Hn as [Hs Hr].
  unfold inerts_ok in Hi. cbn [forallb] in Hi. apply andb_true_iff in Hi. destruct Hi as [Hi1 Hi2].
  rewrite items_of_cons, entries_app in Hin. apply in_app_or in Hin. destruct Hin as [Hin|Hin]; [|exact (IH Hr Hi2 kv Hin)].
  destruct s as [k v|t|it].
  - apply x_in_entries_one in Hin. cbn [item_keys] in Hin.
    destruct (String.eqb (py_strip (remove_char "," (unq v))) ""); [destruct Hin|]. destruct Hin as [Hin|[]]. rewrite <- Hin.
    apply andb_true_iff in Hs. destruct Hs as [Hk _]. apply x_noise_not_child. exact Hk.
  - rewrite tag_item_entries, (x_assoc_tag x t Hnl Hdoc) in Hin. destruct t; cbn [x_assoc_entries] in Hin; try (destruct Hin; fail).
    destruct (doc_field (tabsn (sx_nl x) 1) (sx_doc x)); [|destruct Hin]. destruct Hin as [Hin|[]]. subst kv. reflexivity.
  - apply x_in_entries_one in Hin. unfold inert_ok in Hi1. apply andb_true_iff in Hi1. destruct Hi1 as [Hi1 _].
    apply andb_true_iff in Hi1. destruct Hi1 as [_ Hi1]. rewrite forallb_forall in Hi1. specialize (Hi1 _ Hin).
    apply andb_true_iff in Hi1. destruct Hi1 as [_ Hp]. cbn [kind_parts forallb] in Hp. rewrite andb_true_r in Hp.
    unfold is_child_key. apply negb_true_iff. exact Hp.
Qed.

Lemma x_doc_lookup : forall S x vals, assoc_ok S x = true ->
  lookup String.eqb "documentation_plain" (entries (items_of (tabsn (sx_nl x) 1) (assoc_item x) (sx_layout x)) ++ numbered vals 0)%list
  = match doc_field (tabsn (sx_nl x) 1) (sx_doc x) with Some _ => Some (PStr (doc_value (sx_doc x))) | None => None end.
Proof.
  intros S x vals H. unfold assoc_ok in H. x_split.
  rewrite (x_lookup KAssoc _ _ _ "documentation_plain" TDoc); [|assumption|assumption|reflexivity|reflexivity|reflexivity|].
  - rewrite x_assoc_tag by assumption. cbn [x_assoc_entries].
    destruct (doc_field (tabsn (sx_nl x) 1) (sx_doc x)); reflexivity.
  - intros t Ht. rewrite x_assoc_tag by assumption. destruct t; try (exfalso; apply Ht; reflexivity); reflexivity.
Qed.

(* ---------------------------------------------------------------- the association *)

Theorem build_assoc : goal_assoc.
Proof.
  intros S g P v x Hg Hok HP Hid Hname. pose proof Hok as Hok'. unfold assoc_ok in Hok'. x_split.
  destruct (x_layout_parts _ _ ltac:(eassumption)) as [L1 [_ [_ [L4 L5]]]].
  assert (Hnm : contains "documentation_plain" (name_text (sx_name x)) = false).
  { match goal with H : match sx_name x with Some _ => _ | None => _ end = true |- _ => revert H end.
    destruct (sx_name x) as [n|]; intro Hm; [|reflexivity]. x_split. apply negb_true_iff. assumption. }
  rewrite x_parse_eq, HP. cbn [bind]. unfold tree_of_assoc. rewrite top_explicit_c. unfold top_head. cbn [app].
  rewrite (x_assoc_body S x Hok). cbn [items bind]. rewrite Hid, Hname.
  cbn [foldM].
  rewrite x_top_str; [|reflexivity|].
  2:{ change (contains "documentation_plain" (String "b" (String SQ (sx_id x)))) with (contains "documentation_plain" (sx_id x)).
      apply negb_true_iff. assumption. }
  cbn [bind].
  rewrite x_top_str; [|reflexivity|exact Hnm]. cbn [bind].
  rewrite x_top_str; [|reflexivity|reflexivity]. cbn [bind].
  set (a0 := assoc0 (sx_id x) (ostr (sx_name x))).
  set (Ents := entries (items_of (tabsn (sx_nl x) 1) (assoc_item x) (sx_layout x))).
  set (vals := map node_pv (flat_map (x_kidsf x) (sx_layout x))).
  assert (Hdoc : (if has "documentation_plain" (PDict (Ents ++ numbered vals 0)%list)
                  then c <- sidx "documentation_plain" (PDict (Ents ++ numbered vals 0)%list) ;; Some (set_comment a0 c)
                  else Some a0) = Some (set_comment a0 (doc_value (sx_doc x)))).
  { unfold has, sidx, idx. rewrite mem_lookup. unfold Ents. rewrite (x_doc_lookup S x _ Hok).
    destruct (doc_field (tabsn (sx_nl x) 1) (sx_doc x)) as [it|] eqn:Ed; [reflexivity|].
    rewrite (doc_absent _ _ Ed). reflexivity. }
  unfold x_top. cbn [fst snd]. rewrite Hdoc. cbn [bind]. change (is_child_key "child_0") with true. cbv iota.
  cbn [items bind]. rewrite x_foldM_app.
  rewrite x_foldM_skip.
  2:{ intros kv Hin s. unfold x_mid. unfold Ents in Hin.
      rewrite (x_assoc_entries_skip x ltac:(assumption) ltac:(assumption) _ _ L4 ltac:(assumption) kv Hin). reflexivity. }
  unfold vals. rewrite (x_mid_fold S g x Hg) by assumption.
  rewrite (x_fold_both S x (sx_layout x) [] _ L1).
  - reflexivity.
  - apply (L5 TFrom (IChildren (tabsn (sx_nl x) 1) "from" "" "" "" [tree_of_end true (sx_from x)])). reflexivity.
  - apply (L5 TTo (IChildren (tabsn (sx_nl x) 1) "to" "" "" "" [tree_of_end false (sx_to x)])). reflexivity.
Qed.

Print Assumptions build_assoc.
