(* The parsed program [prog_of t] executes exactly what the table interpreter computes (C08_sem, C08_init). *)
From Coq Require Import String Ascii List Bool Arith Lia.
From KV Require Import Lib.TableDef Model.TTable Model.PyShape Spec.TableInterp Gen.PyTmpl Model.PySM Proofs.TTableProofs Proofs.PySMGen.
Import ListNotations.
Open Scope string_scope.

(* ------------------------------------------------------------------ execution lemmas *)
Lemma seq_ext : forall r k k', (forall c n, k c n = k' c n) -> seq r k = seq r k'.
Proof. intros [[[o t] c] n] k k' H. destruct o; cbn [seq]; try reflexivity. rewrite H. reflexivity. Qed.

Lemma exec_block : forall gv e call h body cur n,
  exec_stmt gv e call (Block h body) cur n =
  match cond gv e h cur n with
  | None => err cur n
  | Some (b, t, n') => if b then seq (ONormal, t, cur, n') (exec_stmts gv e call body) else (ONormal, t, cur, n')
  end.
Proof.
  intros. cbn [exec_stmt]. destruct (cond gv e h cur n) as [[[b t] n']|]; [|reflexivity].
  destruct b; [|reflexivity]. apply seq_ext. clear.
  induction body as [|x r IH]; intros c m; [reflexivity|]. cbn [exec_stmts]. apply seq_ext. exact IH.
Qed.

Lemma exec_cons : forall gv e call x r cur n,
  exec_stmts gv e call (x :: r) cur n = seq (exec_stmt gv e call x cur n) (exec_stmts gv e call r).
Proof. reflexivity. Qed.

Lemma exec_app : forall gv e call a b cur n,
  exec_stmts gv e call (a ++ b) cur n = seq (exec_stmts gv e call a cur n) (exec_stmts gv e call b).
Proof.
  induction a as [|x a IH]; intros b cur n.
  - cbn [app exec_stmts seq]. destruct (exec_stmts gv e call b cur n) as [[[o t] c] m]. reflexivity.
  - cbn [app]. rewrite !exec_cons.
    destruct (exec_stmt gv e call x cur n) as [[[o t] c] m]. destruct o; cbn [seq]; try reflexivity.
    rewrite IH. destruct (exec_stmts gv e call a c m) as [[[o1 t1] c1] m1].
    destruct o1; cbn [seq]; try reflexivity.
    destruct (exec_stmts gv e call b c1 m1) as [[[o2 t2] c2] m2]. rewrite app_assoc. reflexivity.
Qed.

(* ------------------------------------------------------------------ the rows of one (state, event) *)
(* guard evaluations in table order up to the first row that fires *)
Fixpoint scan (gv : gval) (n : nat) (e : string) (rows : list row) : list cb * nat * option row :=
  match rows with
  | [] => ([], n, None)
  | r :: rest =>
      match opt (r_guard r) with
      | None => ([], n, Some r)
      | Some g => if gv n g then ([CGuard g e], S n, Some r)
                  else let '(t, n', o) := scan gv (S n) e rest in (CGuard g e :: t, n', o)
      end
  end.

Lemma step_rows_scan : forall gv e cur rows n,
  step_rows gv n cur e rows =
  let '(t, n', o) := scan gv n e rows in
  match o with
  | Some r => ((t ++ fst (fire r cur e))%list, snd (fire r cur e), n')
  | None => ((t ++ [CNoTrans e])%list, cur, n')
  end.
Proof.
  induction rows as [|r rows IH]; intro n; cbn [step_rows scan]; [reflexivity|].
  destruct (opt (r_guard r)) as [g|].
  - destruct (gv n g); [reflexivity|]. rewrite IH. destruct (scan gv (S n) e rows) as [[t n'] o].
    destruct o; reflexivity.
  - destruct (fire r cur e). reflexivity.
Qed.

Lemma exec_row_body : forall gv e call r cur n,
  exec_stmts gv e call (map Atom (row_body r)) cur n = (OReturn, fst (fire r cur e), snd (fire r cur e), n).
Proof.
  intros. unfold row_body, fire, act_cbs.
  destruct (opt (r_next r)); destruct (opt (r_act r)); reflexivity.
Qed.

Lemma exec_rows : forall gv e call rows cur n,
  exec_stmts gv e call (map row_block rows) cur n =
  let '(t, n', o) := scan gv n e rows in
  match o with
  | Some r => (OReturn, (t ++ fst (fire r cur e))%list, snd (fire r cur e), n')
  | None => (ONormal, t, cur, n')
  end.
Proof.
  induction rows as [|r rows IH]; intros cur n; [reflexivity|].
  cbn [map scan]. rewrite exec_cons. unfold row_block at 1. rewrite exec_block.
  unfold guard_atom. destruct (opt (r_guard r)) as [g|]; cbn [cond].
  - destruct (gv n g).
    + cbn [seq]. rewrite exec_row_body. cbn [seq app]. reflexivity.
    + cbn [seq]. rewrite IH. destruct (scan gv (S n) e rows) as [[t n'] o]. destruct o; reflexivity.
  - cbn [seq]. rewrite exec_row_body. cbn [seq app]. reflexivity.
Qed.

(* ------------------------------------------------------------------ the event blocks of one state *)
Lemma exec_events_skip : forall gv e call t s evs cur n, ~ In e evs ->
  exec_stmts gv e call (map (event_block t s) evs) cur n = (ONormal, [], cur, n).
Proof.
  induction evs as [|x evs IH]; intros cur n Hn; [reflexivity|].
  cbn [map]. rewrite exec_cons. unfold event_block at 1. rewrite exec_block. cbn [cond].
  assert (String.eqb e x = false) as ->. { apply String.eqb_neq. intro. subst. apply Hn. left. reflexivity. }
  cbn [seq]. rewrite IH; [reflexivity|]. intro. apply Hn. right. assumption.
Qed.

Lemma exec_events : forall gv e call t s evs cur n, NoDup evs -> In e evs ->
  exec_stmts gv e call (map (event_block t s) evs) cur n =
  exec_stmts gv e call (map row_block (trans_of t s e)) cur n.
Proof.
  induction evs as [|x evs IH]; intros cur n Hnd Hin; [destruct Hin|].
  inversion Hnd as [|? ? Hx Hnd']; subst.
  cbn [map]. rewrite exec_cons. unfold event_block at 1. rewrite exec_block. cbn [cond].
  destruct (String.eqb e x) eqn:E.
  - apply String.eqb_eq in E. subst x. cbn [seq].
    destruct (exec_stmts gv e call (map row_block (trans_of t s e)) cur n) as [[[o tr] c] m] eqn:R.
    cbn [seq app]. destruct o; try reflexivity.
    rewrite exec_events_skip by assumption. rewrite app_nil_r. reflexivity.
  - apply String.eqb_neq in E. cbn [seq]. destruct Hin as [->|Hin]; [congruence|].
    rewrite IH by assumption.
    destruct (exec_stmts gv e call (map row_block (trans_of t s e)) cur n) as [[[o tr] c] m]. reflexivity.
Qed.



Lemma rows_for_nil_event : forall t s e, forallb row_ok t = true -> ~ In e (events_of t s) -> rows_for t s e = [].
Proof.
  intros t s e Hwf Hn. unfold rows_for.
  destruct (filter (fun r => String.eqb (r_src r) s && String.eqb (r_ev r) e) t) as [|r l] eqn:E; [reflexivity|].
  exfalso. apply Hn.
  assert (In r (filter (fun r => String.eqb (r_src r) s && String.eqb (r_ev r) e) t)) as Hin by (rewrite E; left; reflexivity).
  apply filter_In in Hin as [Hin Hc]. apply andb_true_iff in Hc as [Hs He].
  apply String.eqb_eq in He. subst e.
  unfold events_of. apply In_dedup. unfold present. apply filter_In. split.
  - apply in_map. apply filter_In. split; assumption.
  - rewrite forallb_forall in Hwf. specialize (Hwf r Hin). unfold row_ok in Hwf.
    repeat (apply andb_true_iff in Hwf as [Hwf ?]).
    unfold ident_ok in H2. destruct (r_ev r); [discriminate|].
    repeat (apply andb_true_iff in H2 as [H2 ?]). assumption.
Qed.

Lemma rows_for_nil_state : forall t s e, forallb row_ok t = true -> ~ In s (tps_states t) -> rows_for t s e = [].
Proof.
  intros t s e Hwf Hn. unfold rows_for.
  destruct (filter (fun r => String.eqb (r_src r) s && String.eqb (r_ev r) e) t) as [|r l] eqn:E; [reflexivity|].
  exfalso. apply Hn.
  assert (In r (filter (fun r => String.eqb (r_src r) s && String.eqb (r_ev r) e) t)) as Hin by (rewrite E; left; reflexivity).
  apply filter_In in Hin as [Hin Hc]. apply andb_true_iff in Hc as [Hs He].
  apply String.eqb_eq in Hs. subst s.
  rewrite tps_states_all. apply in_or_app. left.
  unfold src_states. apply In_dedup. unfold present. apply filter_In. split.
  - apply in_map. assumption.
  - rewrite forallb_forall in Hwf. specialize (Hwf r Hin). unfold row_ok in Hwf.
    repeat (apply andb_true_iff in Hwf as [Hwf ?]).
    unfold ident_ok in Hwf. destruct (r_src r); [discriminate|].
    repeat (apply andb_true_iff in Hwf as [Hwf ?]). assumption.
Qed.

(* the body of process<s>, entered in state s: exactly one step of the interpreter *)
Lemma exec_state_body : forall gv e call t s n, forallb row_ok t = true ->
  as_call (exec_stmts gv e call (state_body t s) s n) =
  let '(tr, c, n') := step_rows gv n s e (rows_for t s e) in (ONormal, tr, c, n').
Proof.
  intros gv e call t s n Hwf. unfold state_body. rewrite exec_app, step_rows_scan.
  destruct (in_dec string_dec e (events_of t s)) as [Hin|Hn].
  - rewrite exec_events by (auto; apply NoDup_dedup). rewrite exec_rows. unfold trans_of.
    destruct (scan gv n e (rows_for t s e)) as [[tr n'] o]. destruct o; reflexivity.
  - rewrite exec_events_skip by assumption. rewrite rows_for_nil_event by assumption. reflexivity.
Qed.

(* ------------------------------------------------------------------ process: dispatch on the current state *)
Lemma exec_dispatch_skip : forall gv e call l cur n, ~ In cur l ->
  exec_stmts gv e call (map dispatch_block l) cur n = (ONormal, [], cur, n).
Proof.
  induction l as [|x l IH]; intros cur n Hn; [reflexivity|].
  cbn [map]. rewrite exec_cons. unfold dispatch_block at 1. rewrite exec_block. cbn [cond].
  assert (String.eqb cur x = false) as ->. { apply String.eqb_neq. intro. subst. apply Hn. left. reflexivity. }
  cbn [seq]. rewrite IH; [reflexivity|]. intro. apply Hn. right. assumption.
Qed.

Lemma exec_dispatch_hit : forall gv e call l rest cur n, In cur l ->
  exec_stmts gv e call (map dispatch_block l ++ rest) cur n =
  match call ("process" ++ cur) cur n with
  | (ONormal, t, c, m) => (OReturn, t, c, m)
  | other => other
  end.
Proof.
  induction l as [|x l IH]; intros rest cur n Hin; [destruct Hin|].
  cbn [map app]. rewrite exec_cons. unfold dispatch_block at 1. rewrite exec_block. cbn [cond].
  destruct (String.eqb cur x) eqn:E.
  - apply String.eqb_eq in E. subst x. cbn [exec_stmts exec_stmt exec_atom seq app].
    destruct (call ("process" ++ cur) cur n) as [[[o t] c] m]. destruct o; cbn [seq]; try reflexivity.
    rewrite app_nil_r. reflexivity.
  - apply String.eqb_neq in E. destruct Hin as [->|Hin]; [congruence|]. cbn [seq].
    rewrite IH by assumption. destruct (call ("process" ++ cur) cur n) as [[[o t] c] m]. destruct o; reflexivity.
Qed.

(* ------------------------------------------------------------------ method lookup in prog_of *)
Lemma append_inj : forall p a b, (p ++ a)%string = (p ++ b)%string -> a = b.
Proof. induction p as [|ch p IH]; cbn; intros a b H; [assumption|]. injection H. auto. Qed.

Lemma process_name_neq : forall s, s <> "" -> String.eqb ("process" ++ s) "process" = false.
Proof.
  intros s Hs. apply String.eqb_neq. intro H. apply Hs.
  apply (append_inj "process"). rewrite H. reflexivity.
Qed.

Lemma lookup_state_defs : forall t l s, In s l ->
  lookup_def ("process" ++ s) (map (state_def t) l) = Some (state_body t s).
Proof.
  induction l as [|x l IH]; intros s Hin; [destruct Hin|].
  cbn [map lookup_def state_def]. destruct (String.eqb ("process" ++ x) ("process" ++ s)) eqn:E.
  - apply String.eqb_eq in E. apply append_inj in E. subst. reflexivity.
  - destruct Hin as [->|Hin]; [rewrite String.eqb_refl in E; discriminate|]. apply IH. assumption.
Qed.

Lemma lookup_state_def : forall t s, In s (tps_states t) ->
  lookup_def ("process" ++ s) (prog_of t) = Some (state_body t s).
Proof.
  intros t s Hin. unfold prog_of. cbn [lookup_def].
  assert (String.eqb "__init__" ("process" ++ s) = false) as -> by reflexivity.
  assert (s <> "") as Hs.
  { intro. subst. rewrite tps_states_all in Hin. apply in_app_or in Hin as [Hin|Hin].
    - unfold src_states in Hin. apply (proj1 (In_dedup _ _)) in Hin. unfold present in Hin.
      apply filter_In in Hin as [_ H]. discriminate.
    - apply filter_In in Hin as [Hin _]. unfold states in Hin. apply (proj1 (In_dedup _ _)) in Hin.
      unfold present in Hin. apply filter_In in Hin as [_ H]. discriminate. }
  assert (String.eqb "process" ("process" ++ s) = false) as ->.
  { rewrite String.eqb_sym. apply process_name_neq. assumption. }
  apply lookup_state_defs. assumption.
Qed.

(* ------------------------------------------------------------------ one event *)
Lemma run_process : forall gv e t cur n, forallb row_ok t = true ->
  run_method gv e (prog_of t) "process" cur n =
  let '(tr, c, n') := step_rows gv n cur e (rows_for t cur e) in (ONormal, tr, c, n').
Proof.
  intros gv e t cur n Hwf. unfold run_method.
  change (lookup_def "process" (prog_of t)) with (Some (process_body t)). unfold process_body.
  destruct (in_dec string_dec cur (tps_states t)) as [Hin|Hn].
  - rewrite exec_dispatch_hit by assumption. unfold call1. rewrite lookup_state_def by assumption.
    pose proof (exec_state_body gv e call0 t cur n Hwf) as H. rewrite H.
    destruct (step_rows gv n cur e (rows_for t cur e)) as [[tr c] n']. reflexivity.
  - rewrite exec_app, exec_dispatch_skip by assumption.
    rewrite rows_for_nil_state by assumption. reflexivity.
Qed.

Lemma run_events_interp : forall gv t evs cur n, forallb row_ok t = true ->
  run_events gv (prog_of t) cur n evs = Some (interp_from t gv n cur evs).
Proof.
  induction evs as [|e evs IH]; intros cur n Hwf; [reflexivity|].
  cbn [run_events interp_from]. rewrite run_process by assumption.
  destruct (step_rows gv n cur e (rows_for t cur e)) as [[tr c] n'].
  rewrite IH by assumption. reflexivity.
Qed.

Lemma wf_table_rows : forall t, wf_table t = true -> forallb row_ok t = true /\ t <> [].
Proof.
  intros t H. unfold wf_table in H. repeat (apply andb_true_iff in H as [H ?]).
  split; [assumption|]. intro. subst. discriminate.
Qed.

Lemma run_init : forall gv t, t <> [] ->
  run_method gv "" (prog_of t) "__init__" "" 0 = (ONormal, [CEntry (first_state t) startup_event], first_state t, 0).
Proof.
  intros gv t Hne. destruct t as [|r t]; [congruence|]. reflexivity.
Qed.

Theorem py_sem : forall t, wf_table t = true -> forall evs gv,
  exists prog, parse_indent (gen_py t) = Some prog /\ run_py prog evs gv = Some (table_interp t evs gv).
Proof.
  intros t Hwf evs gv. destruct (wf_table_rows t Hwf) as [Hr Hne].
  exists (prog_of t). split; [apply parse_gen_py|].
  unfold run_py. rewrite run_init by assumption. rewrite run_events_interp by assumption. reflexivity.
Qed.

Theorem py_init_state : forall t, wf_table t = true -> forall gv,
  exists prog, parse_indent (gen_py t) = Some prog /\
    run_py prog [] gv = Some [([CEntry (first_state t) startup_event], first_state t)].
Proof.
  intros t Hwf gv. destruct (py_sem t Hwf [] gv) as (p & H1 & H2). exists p. split; assumption.
Qed.

(* The bare names of the template's module, as the theorem's name-domain hypothesis assumes them.  A template that binds
   further library names at module level (from queue import Queue, Empty ...) changes Gen/PyTmpl.v and this stops compiling. *)
Lemma py_reserved_as_assumed :
  py_reserved_names = ["Enum"; "EventStartup"; "auto"; "queue"; "threading"; "unique"] /\
  py_reserved_suffixes = ["StateId"; "StateMachine"].
Proof. split; reflexivity. Qed.
