(* C09: the emitted boost::sml table is the input table, row by row; hooks exactly once per state. *)
From Coq Require Import String Ascii List Bool Arith Lia.
From KV Require Import Lib.TableDef Model.TTable Gen.SmlTmpl Model.SmlTT Proofs.TTableProofs Proofs.TTableSigProofs.
Import ListNotations.
Open Scope string_scope.

Lemma lower_ascii_idem : forall c, lower_ascii (lower_ascii c) = lower_ascii c.
Proof. intros [[] [] [] [] [] [] [] []]; vm_compute; reflexivity. Qed.

Lemma is_none_camel : forall g, is_none (camel_small g) = is_none g.
Proof.
  intros [|c r]; [reflexivity|]. unfold is_none. cbn [camel_small lower String.eqb].
  rewrite lower_ascii_idem. reflexivity.
Qed.

(* ------------------------------------------------------------------ rows *)
Lemma rows_of_app : forall a b, rows_of (a ++ b) = (rows_of a ++ rows_of b)%list.
Proof. intros. unfold rows_of. apply flat_map_app. Qed.

Lemma rows_of_hooks_all : forall l, rows_of (flat_map hooks l) = [].
Proof. induction l as [|s l IH]; [reflexivity|]. cbn [flat_map]. rewrite rows_of_app, IH. reflexivity. Qed.

Lemma rows_of_gen_rows : forall ee t first seen,
  rows_of (gen_rows ee first seen t) =
  match t with [] => [] | r :: rest => sml_row first r :: map (sml_row false) rest end.
Proof.
  intros ee t. induction t as [|r rest IH]; intros first seen; [reflexivity|].
  cbn [gen_rows]. change (rows_of (IRow ?x :: ?l)) with (x :: rows_of l). f_equal.
  rewrite rows_of_app, IH.
  assert (rows_of (if ee && negb (mem (r_src r) seen) then hooks (r_src r) else []) = []) as ->.
  { destruct (ee && negb (mem (r_src r) seen)); reflexivity. }
  destruct rest; reflexivity.
Qed.

Lemma ident_ok_not_none : forall s, ident_ok s = true -> is_none s = false.
Proof.
  intros s H. unfold ident_ok in H. destruct s as [|c r]; [discriminate|].
  apply andb_true_iff in H as [H _]. apply andb_true_iff in H as [H _]. apply andb_true_iff in H as [_ H].
  apply negb_true_iff. assumption.
Qed.

Lemma row_ok_fields : forall r, row_ok r = true -> is_none (r_src r) = false /\ is_none (r_ev r) = false.
Proof.
  intros r H. unfold row_ok in H.
  apply andb_true_iff in H as [H _]. apply andb_true_iff in H as [H _]. apply andb_true_iff in H as [H _].
  apply andb_true_iff in H as [H1 H2]. split; apply ident_ok_not_none; assumption.
Qed.

Lemma sml_row_spec : forall first r, row_ok r = true -> sml_row first r = spec_row first r.
Proof.
  intros first r H. destruct (row_ok_fields r H) as [Hs He].
  unfold sml_row, spec_row, msm_name, guard_inst, action_inst, target_of, next_absent, opt.
  rewrite Hs, He, !is_none_camel.
  change sml_empty_next_is_absent with true. cbv iota.
  destruct (is_none (r_guard r)); destruct (is_none (r_act r)); destruct (is_none (r_next r)); reflexivity.
Qed.

Theorem sml_rows : forall ee t, forallb row_ok t = true -> rows_of (gen_sml ee t) = spec_rows t.
Proof.
  intros ee t H. unfold gen_sml. rewrite rows_of_app, rows_of_gen_rows.
  assert (rows_of (if ee && sml_hooks_for_all_states
                   then flat_map hooks (filter (fun s => negb (mem s (map r_src t))) (states t)) else []) = []) as ->.
  { destruct (ee && sml_hooks_for_all_states); [apply rows_of_hooks_all|reflexivity]. }
  rewrite app_nil_r. unfold spec_rows. destruct t as [|r rest]; [reflexivity|].
  cbn [forallb] in H. apply andb_true_iff in H as [Hr Hrest].
  rewrite sml_row_spec by assumption. f_equal.
  apply map_ext_in. intros x Hx. apply sml_row_spec. rewrite forallb_forall in Hrest. auto.
Qed.

(* ------------------------------------------------------------------ hooks: exactly once per state *)
Lemma count_app : forall {A} (f : A -> bool) a b, count f (a ++ b) = count f a + count f b.
Proof. intros. unfold count. rewrite filter_app, app_length. reflexivity. Qed.

Lemma mem_In : forall x l, mem x l = true <-> In x l.
Proof.
  induction l as [|y l IH]; cbn [mem In]; [split; [discriminate|tauto]|].
  rewrite orb_true_iff, IH, String.eqb_eq. split; intros [H|H]; auto.
Qed.

Lemma count_hooks : forall ex s s', count (is_hook_of ex s) (hooks s') = if String.eqb s' s then 1 else 0.
Proof.
  intros ex s s'. unfold hooks, count. cbn [filter is_hook_of].
  destruct (String.eqb s' s) eqn:E.
  - apply String.eqb_eq in E. subst. rewrite !String.eqb_refl. destruct ex; reflexivity.
  - destruct ex; cbn [andb]; reflexivity.
Qed.

Lemma count_gen_rows : forall ex s t first seen,
  count (is_hook_of ex s) (gen_rows true first seen t) =
  if mem s seen then 0 else if mem s (map r_src t) then 1 else 0.
Proof.
  intros ex s t. induction t as [|r rest IH]; intros first seen.
  - cbn [gen_rows map mem]. destruct (mem s seen); reflexivity.
  - cbn [gen_rows]. change (count (is_hook_of ex s) (IRow ?x :: ?l)) with (count (is_hook_of ex s) l).
    rewrite count_app, IH. cbn [andb mem map].
    destruct (String.eqb s (r_src r)) eqn:E.
    + apply String.eqb_eq in E. subst s. cbn [orb].
      destruct (mem (r_src r) seen) eqn:M; cbn [negb]; [reflexivity|].
      rewrite count_hooks, String.eqb_refl. reflexivity.
    + cbn [orb]. assert (count (is_hook_of ex s) (if negb (mem (r_src r) seen) then hooks (r_src r) else []) = 0) as ->.
      { destruct (negb (mem (r_src r) seen)); [|reflexivity]. rewrite count_hooks, String.eqb_sym, E. reflexivity. }
      reflexivity.
Qed.

Lemma count_hooks_all : forall ex s l, NoDup l ->
  count (is_hook_of ex s) (flat_map hooks l) = if mem s l then 1 else 0.
Proof.
  intros ex s l. induction l as [|x l IH]; intro Hnd; [reflexivity|].
  inversion Hnd as [|? ? Hx Hnd']; subst. cbn [flat_map]. rewrite count_app, count_hooks, IH by assumption.
  cbn [mem]. rewrite (String.eqb_sym s x). destruct (String.eqb x s) eqn:E; [|reflexivity].
  apply String.eqb_eq in E. subst x.
  destruct (mem s l) eqn:M; [|reflexivity]. apply mem_In in M. contradiction.
Qed.

Lemma mem_filter_not : forall s srcs l,
  mem s (filter (fun x => negb (mem x srcs)) l) = mem s l && negb (mem s srcs).
Proof.
  intros s srcs l. induction l as [|x l IH]; [reflexivity|]. cbn [filter mem].
  destruct (mem x srcs) eqn:M; cbn [negb mem]; rewrite IH.
  - destruct (String.eqb s x) eqn:E; [|reflexivity]. apply String.eqb_eq in E. subst. rewrite M. cbn.
    destruct (mem x l); reflexivity.
  - destruct (String.eqb s x) eqn:E; [|reflexivity]. apply String.eqb_eq in E. subst. rewrite M. reflexivity.
Qed.

Lemma src_in_states : forall t r, In r t -> is_none (r_src r) = false -> In (r_src r) (states t).
Proof.
  intros t r Hin Hn. unfold states. apply In_dedup. unfold present. apply filter_In. split.
  - apply in_flat_map. exists r. split; [assumption|]. left. reflexivity.
  - rewrite Hn. reflexivity.
Qed.

Theorem sml_entry_exit : forall t, forallb row_ok t = true -> forall s ex, In s (states t) ->
  count (is_hook_of ex s) (gen_sml true t) = 1.
Proof.
  intros t Hwf s ex Hin. unfold gen_sml. rewrite count_app, count_gen_rows.
  change (true && sml_hooks_for_all_states) with true. cbv iota.
  rewrite count_hooks_all by (apply NoDup_filter; apply NoDup_dedup).
  rewrite mem_filter_not. cbn [mem].
  apply mem_In in Hin. rewrite Hin. destruct (mem s (map r_src t)); reflexivity.
Qed.

Theorem sml_hooks_only_states : forall t, forallb row_ok t = true -> forall i s,
  In i (gen_sml true t) -> hook_state i = Some s -> In s (states t).
Proof.
  intros t Hwf i s Hin Hs. unfold gen_sml in Hin. apply in_app_or in Hin as [Hin|Hin].
  - assert (forall first seen, In i (gen_rows true first seen t) -> In s (map r_src t)) as G.
    { clear Hin Hwf. induction t as [|r rest IH]; intros first seen H; [destruct H|].
      cbn [gen_rows] in H. destruct H as [H|H]; [subst; discriminate|].
      apply in_app_or in H as [H|H].
      - destruct (true && negb (mem (r_src r) seen)); [|destruct H].
        cbn [hooks In] in H. destruct H as [H|[H|[]]]; subst; injection Hs as <-; left; reflexivity.
      - right. eapply IH. exact H. }
    apply G in Hin. apply in_map_iff in Hin as (r & <- & Hr).
    apply src_in_states; [assumption|]. rewrite forallb_forall in Hwf. apply (row_ok_fields r (Hwf r Hr)).
  - change (true && sml_hooks_for_all_states) with true in Hin. cbv iota in Hin.
    apply in_flat_map in Hin as (x & Hx & Hi). apply filter_In in Hx as [Hx _].
    cbn [hooks In] in Hi. destruct Hi as [Hi|[Hi|[]]]; subst; injection Hs as <-; assumption.
Qed.


(* ------------------------------------------------------------------ references are declared exactly once
   (at the level of the element lists that the per-element template blocks iterate over) *)
Lemma pair_eqb_eq : forall a b, pair_eqb a b = true <-> a = b.
Proof.
  intros [a1 a2] [b1 b2]. unfold pair_eqb. cbn [fst snd]. rewrite andb_true_iff, !String.eqb_eq.
  split; [intros [-> ->]; reflexivity|intro H; injection H; auto].
Qed.

Lemma In_dedup_pair : forall x l, In x (dedup_pair l) <-> In x l.
Proof.
  induction l as [|y l IH]; [tauto|]. cbn [dedup_pair In]. rewrite filter_In, IH.
  split.
  - intros [H|[H _]]; auto.
  - intros [H|H]; [auto|]. destruct (pair_eqb x y) eqn:E.
    + apply pair_eqb_eq in E. subst. auto.
    + right. split; [assumption|]. reflexivity.
Qed.

Lemma NoDup_dedup_pair : forall l, NoDup (dedup_pair l).
Proof.
  induction l as [|x l IH]; [constructor|]. cbn [dedup_pair]. constructor.
  - intro H. apply filter_In in H as [_ H]. assert (pair_eqb x x = true) as E by (apply pair_eqb_eq; reflexivity).
    apply negb_true_iff in H. congruence.
  - apply NoDup_filter. exact IH.
Qed.

Lemma In_present_dedup : forall x l, In x l -> is_none x = false -> In x (dedup (present l)).
Proof. intros. apply In_dedup. unfold present. apply filter_In. split; [assumption|]. rewrite H0. reflexivity. Qed.

Lemma opt_some : forall s x, opt s = Some x -> x = s /\ is_none s = false.
Proof. intros s x H. unfold opt in H. destruct (is_none s); [discriminate|]. injection H as <-. auto. Qed.

Theorem sml_refs_declared : forall t, forallb row_ok t = true -> forall r, In r t ->
  In (r_src r) (states t) /\ In (r_ev r) (events t) /\
  (forall n, opt (r_next r) = Some n -> In n (states t)) /\
  (forall g, opt (r_guard r) = Some g -> In g (guards t)) /\
  (forall a, opt (r_act r) = Some a -> In a (actions t) /\ In (a, r_ev r) (actionsignatures t)).
Proof.
  intros t Hwf r Hr. rewrite forallb_forall in Hwf. destruct (row_ok_fields r (Hwf r Hr)) as [Hs He].
  split; [apply src_in_states; assumption|].
  split; [unfold events; apply In_present_dedup; [apply in_map; assumption|assumption]|].
  split; [|split].
  - intros n Hn. apply opt_some in Hn as [-> Hn]. unfold states. apply In_present_dedup; [|assumption].
    apply in_flat_map. exists r. split; [assumption|]. right. left. reflexivity.
  - intros g Hg. apply opt_some in Hg as [-> Hg]. unfold guards. apply In_present_dedup; [apply in_map; assumption|assumption].
  - intros a Ha. apply opt_some in Ha as [-> Ha]. split.
    + unfold actions. apply In_present_dedup; [apply in_map; assumption|assumption].
    + rewrite actionsignatures_pair. apply In_dedup_pair.
      apply (in_map (fun r => (r_act r, r_ev r))). apply filter_In. split; [assumption|]. rewrite Ha. reflexivity.
Qed.

Theorem sml_decl_lists_nodup : forall t,
  NoDup (states t) /\ NoDup (events t) /\ NoDup (guards t) /\ NoDup (actions t) /\ NoDup (actionsignatures t).
Proof. intro t. repeat split; try apply NoDup_dedup. rewrite actionsignatures_pair. apply NoDup_dedup_pair. Qed.
