(* C13: the generated receiver switch reaches exactly the handler of the message's type id; the transmitter's retry loop;
   the loop-back composition with the connection layer (uses Proofs/ConnProofs.reassembly). *)
From Coq Require Import String Ascii List Bool Arith NArith ZArith Lia.
From KV Require Import Lib.Str Lib.ByteSeq Gen.CxxConn Gen.ProtoTmpl Model.Conn Model.Proto
                       Proofs.ByteSeqProofs Proofs.ConnProofs.
Import ListNotations.
Open Scope N_scope.
Open Scope list_scope.

(* ---- the switch ---- *)
Lemma find_case_miss tid : forall ifc k, (forall e, In e ifc -> fst e <> tid) -> find_case tid ifc k = None.
Proof.
  induction ifc as [| [id size] r IH]; intros k H; [reflexivity |].
  cbn [find_case]. destruct (N.eqb_spec id tid) as [E | E].
  - exfalso. apply (H (id, size)); [left; reflexivity | exact E].
  - apply IH. intros e He. apply H. right. exact He.
Qed.

Lemma find_case_hit : forall ifc i k id size,
  nodup_ids ifc = true -> nth_error ifc i = Some (id, size) -> find_case id ifc k = Some ((k + i)%nat, size).
Proof.
  induction ifc as [| [id' size'] r IH]; intros i k id size Hn Hi.
  - destruct i; discriminate Hi.
  - cbn [nodup_ids] in Hn. apply andb_true_iff in Hn. destruct Hn as [Hfresh Hn].
    destruct i as [| i].
    + cbn [nth_error] in Hi. injection Hi as -> ->. cbn [find_case]. rewrite N.eqb_refl.
      rewrite Nat.add_0_r. reflexivity.
    + cbn [nth_error] in Hi. cbn [find_case].
      destruct (N.eqb_spec id' id) as [E | E].
      * exfalso. apply negb_true_iff in Hfresh.
        assert (existsb (fun e => fst e =? id') r = true) as Hex.
        { apply existsb_exists. exists (id, size). split; [eapply nth_error_In; exact Hi |].
          cbn [fst]. apply N.eqb_eq. auto. }
        congruence.
      * rewrite (IH i (S k) id size Hn Hi). f_equal. f_equal. lia.
Qed.

Theorem dispatch_hit ifc unh m i id size :
  iface_ok ifc = true -> nth_error ifc i = Some (id, size) -> type_id m = id ->
  dispatch ifc unh m = [Handler i (take size m)].
Proof.
  intros Hn Hi Ht. unfold dispatch. rewrite Ht, (find_case_hit ifc i 0 id size Hn Hi). reflexivity.
Qed.

Theorem dispatch_miss ifc unh m :
  (forall e, In e ifc -> fst e <> type_id m) ->
  dispatch ifc unh m = if unh then [NotHandled m] else [].
Proof. intros H. unfold dispatch. rewrite (find_case_miss _ ifc 0 H). reflexivity. Qed.

(* ---- the retry loop ---- *)
Lemma wrap_int8_small z : (-128 <= z <= 127)%Z -> wrap_int8 z = z.
Proof. intros H. unfold wrap_int8. rewrite Z.mod_small by lia. lia. Qed.

Lemma loop_spec : forall n fuel c accept,
  (n <= 128)%nat -> (n < fuel)%nat ->
  transmit_loop fuel (Z.of_nat n - 1) false accept c
  = Some (match first_accept n accept c with Some k => (true, S k) | None => (false, (c + n)%nat) end).
Proof.
  induction n as [| n IH]; intros fuel c accept Hn Hf.
  - destruct fuel as [| f]; [lia |]. cbn [transmit_loop first_accept]. rewrite Nat.add_0_r. reflexivity.
  - destruct fuel as [| f]; [lia |]. cbn [transmit_loop first_accept].
    assert ((0 <=? Z.of_nat (S n) - 1)%Z = true) as Hc by (apply Z.leb_le; lia).
    rewrite Hc. cbn [negb andb].
    replace (Z.of_nat (S n) - 1 - 1)%Z with (Z.of_nat n - 1)%Z by lia.
    rewrite wrap_int8_small by lia.
    destruct (accept c) eqn:Ea.
    + destruct f as [| f]; [lia |]. cbn [transmit_loop negb]. rewrite andb_false_r. reflexivity.
    + rewrite (IH f (S c) accept) by lia.
      destruct (first_accept n accept (S c)); [reflexivity |]. f_equal. f_equal. lia.
Qed.

Lemma first_accept_some : forall n accept c k, first_accept n accept c = Some k ->
  (c <= k < c + n)%nat /\ accept k = true /\ forall j, (c <= j < k)%nat -> accept j = false.
Proof.
  induction n as [| n IH]; intros accept c k H; [discriminate H |].
  cbn [first_accept] in H. destruct (accept c) eqn:Ea.
  - injection H as <-. repeat split; try lia; auto; intros j Hj; lia.
  - destruct (IH accept (S c) k H) as (Hr & Hk & Hbefore). repeat split; try lia; auto;
    intros j Hj; destruct (Nat.eq_dec j c) as [-> | Hne]; [exact Ea | apply Hbefore; lia].
Qed.

Lemma first_accept_none : forall n accept c, first_accept n accept c = None ->
  forall j, (c <= j < c + n)%nat -> accept j = false.
Proof.
  induction n as [| n IH]; intros accept c H j Hj; [lia |].
  cbn [first_accept] in H. destruct (accept c) eqn:Ea; [discriminate H |].
  destruct (Nat.eq_dec j c) as [-> | Hne]; [exact Ea | apply (IH accept (S c) H); lia].
Qed.

Theorem transmit_spec retries accept :
  int8_ok retries = true ->
  transmit retries accept
  = Some (match first_accept (attempts retries) accept 0 with
          | Some k => (true, S k) | None => (false, attempts retries) end).
Proof.
  unfold int8_ok. rewrite andb_true_iff, !Z.leb_le. intros [Hlo Hhi]. unfold transmit, attempts.
  destruct (Z.ltb_spec retries 0) as [Hneg | Hpos].
  - replace (Z.to_nat (retries + 1)) with 0%nat by lia.
    cbn [transmit_loop first_accept].
    assert ((0 <=? retries)%Z = false) as Hc by (apply Z.leb_gt; lia). rewrite Hc. reflexivity.
  - replace retries with (Z.of_nat (Z.to_nat (retries + 1)) - 1)%Z at 1 by lia.
    rewrite (loop_spec (Z.to_nat (retries + 1)) 130 0 accept) by lia. reflexivity.
Qed.

(* expanded reading of the result *)
Theorem transmit_meaning retries accept :
  int8_ok retries = true ->
  exists ok calls, transmit retries accept = Some (ok, calls) /\
    (ok = true <-> exists k, (k < attempts retries)%nat /\ accept k = true) /\
    (ok = true -> exists k, calls = S k /\ accept k = true /\ forall j, (j < k)%nat -> accept j = false) /\
    (ok = false -> calls = attempts retries) /\
    (calls <= attempts retries)%nat.
Proof.
  intros H. rewrite (transmit_spec retries accept H).
  destruct (first_accept (attempts retries) accept 0) as [k |] eqn:E.
  - destruct (first_accept_some _ _ _ _ E) as (Hr & Hk & Hb).
    exists true, (S k). split; [reflexivity |]. split; [| split; [| split]].
    + split; [intros _; exists k; split; [lia | exact Hk] | intros _; reflexivity].
    + intros _. exists k. split; [reflexivity |]. split; [exact Hk |]. intros j Hj. apply Hb. lia.
    + discriminate.
    + lia.
  - pose proof (first_accept_none _ _ _ E) as Hn.
    exists false, (attempts retries). split; [reflexivity |]. split; [| split; [| split]].
    + split; [discriminate |]. intros [k [Hk Ha]]. rewrite (Hn k) in Ha by lia. discriminate.
    + discriminate.
    + reflexivity.
    + lia.
Qed.

(* ---- SendData's uint16 length ---- *)
Lemma sent_bytes_small m : len m < 65536 -> sent_bytes m = m.
Proof.
  intros H. unfold sent_bytes, wrap. change (2 ^ send_len_bits) with 65536.
  rewrite N.mod_small by exact H. apply take_all.
Qed.

(* ---- composition with the connection layer ---- *)
Section RoundTrip.
  Variables p0 p1 : byte.

  Definition sendable (m : list byte) : bool := wf_msg p0 p1 m && (len m <? 2 ^ send_len_bits).

  Lemma items_of_msgs msgs : forallb sendable msgs = true ->
    forallb (wf_item p0 p1) (map (fun m => ([], m)) msgs) = true /\
    map snd (map (fun m => (@nil byte, m)) msgs) = msgs /\
    stream_of (map (fun m => ([], m)) msgs) [] = concat (map sent_bytes msgs).
  Proof.
    induction msgs as [| m r IH]; intros H.
    - repeat split; reflexivity.
    - cbn [forallb] in H. apply andb_true_iff in H. destruct H as [Hm Hr].
      unfold sendable in Hm. apply andb_true_iff in Hm. destruct Hm as [Hwf Hlen].
      apply N.ltb_lt in Hlen. change (2 ^ send_len_bits) with 65536 in Hlen.
      destruct (IH Hr) as (H1 & H2 & H3). cbn [map forallb concat].
      repeat split.
      + unfold wf_item at 1. cbn [fst snd filler_ok forallb]. rewrite Hwf, H1. reflexivity.
      + cbn [snd]. rewrite H2. reflexivity.
      + rewrite (stream_of_cons [] m). cbn [app]. rewrite H3, (sent_bytes_small m Hlen). reflexivity.
  Qed.

  Theorem round_trip_ok ifc unh msgs chunks :
    forallb sendable msgs = true -> forallb chunk_ok chunks = true ->
    concat chunks = concat (map sent_bytes msgs) ->
    feed p0 p1 init chunks = Done init msgs /\
    round_trip p0 p1 ifc unh chunks = Some (flat_map (dispatch ifc unh) msgs).
  Proof.
    intros Hm Hc Hs. destruct (items_of_msgs msgs Hm) as (H1 & H2 & H3).
    assert (feed p0 p1 init chunks = Done init msgs) as Hf.
    { rewrite <- H2 at 1. apply (reassembly p0 p1 _ [] chunks); auto. rewrite H3. exact Hs. }
    split; [exact Hf |]. unfold round_trip. rewrite Hf. reflexivity.
  Qed.
End RoundTrip.
