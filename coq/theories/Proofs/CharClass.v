(* Character classes of strings, and what kojen's case helpers / counters do to them. *)
From Coq Require Import String Ascii List Bool Arith Lia.
From KV Require Import Lib.Str Lib.StrOps Model.Engine Model.EngineDomain Spec.RefExpand Proofs.StrProofs.
Import ListNotations.
Open Scope string_scope.

Fixpoint allc (P : ascii -> bool) (s : string) : bool :=
  match s with EmptyString => true | String c r => P c && allc P r end.

Definition alnumc (c : ascii) : bool := is_upper c || is_lower c || is_digit c.
Definition identc (c : ascii) : bool := alnumc c || Ascii.eqb c USC.     (* letters, digits, '_' *)

Lemma allc_app P a b : allc P (a ++ b) = allc P a && allc P b.
Proof. induction a as [|c a IH]; [reflexivity|]. cbn [append allc]. rewrite IH. apply andb_assoc. Qed.

Lemma allc_impl (P Q : ascii -> bool) s : (forall c, P c = true -> Q c = true) -> allc P s = true -> allc Q s = true.
Proof.
  intros H. induction s as [|c s IH]; [reflexivity|]. cbn [allc]. intros K. apply andb_prop in K as [K1 K2].
  rewrite (H c K1), (IH K2). reflexivity.
Qed.

Lemma allc_no_char P c s : P c = false -> allc P s = true -> no_char c s = true.
Proof.
  intros Hc. induction s as [|d s IH]; [reflexivity|]. cbn [allc no_char]. intros K. apply andb_prop in K as [K1 K2].
  rewrite (IH K2), andb_true_r. apply negb_true_iff. destruct (Ascii.eqb d c) eqn:E; [|reflexivity].
  apply Ascii.eqb_eq in E. subst d. congruence.
Qed.

(* ---------------------------------------------------------------- lower_c *)
Lemma lower_c_alnum c : alnumc c = true -> alnumc (lower_c c) = true.
Proof.
  unfold lower_c. destruct (is_upper c) eqn:U; [|auto]. intros _.
  unfold is_upper in U. apply andb_prop in U as [U1 U2]. apply Nat.leb_le in U1, U2.
  unfold alnumc, is_lower. rewrite nat_ascii_embedding by lia.
  replace ((97 <=? nat_of_ascii c + 32)%nat) with true by (symmetry; apply Nat.leb_le; lia).
  replace ((nat_of_ascii c + 32 <=? 122)%nat) with true by (symmetry; apply Nat.leb_le; lia).
  cbn [andb orb]. rewrite orb_true_r. reflexivity.
Qed.

Lemma lower_c_ident c : identc c = true -> identc (lower_c c) = true.
Proof.
  unfold identc. intros H. apply orb_prop in H as [H|H].
  - rewrite (lower_c_alnum c H). reflexivity.
  - apply Ascii.eqb_eq in H. subst c. reflexivity.
Qed.

Section Closed.
  Variable P : ascii -> bool.
  Hypothesis Pus : P USC = true.
  Hypothesis Plow : forall c, P c = true -> P (lower_c c) = true.

  Lemma allc_smap f s : (forall c, P c = true -> P (f c) = true) -> allc P s = true -> allc P (smap f s) = true.
  Proof.
    intros Hf. induction s as [|c s IH]; [reflexivity|]. cbn [allc smap]. intros K. apply andb_prop in K as [K1 K2].
    rewrite (Hf c K1), (IH K2). reflexivity.
  Qed.

  Lemma allc_dashdot : forall s b, allc P s = true -> allc P (sn_dashdot b s) = true.
  Proof.
    induction s as [|c s IH]; intros b K; [reflexivity|]. cbn [allc] in K. apply andb_prop in K as [K1 K2]. cbn [sn_dashdot].
    destruct (is_dashdot c); [destruct b|]; cbn [allc]; rewrite ?Pus, ?K1, (IH _ K2); reflexivity.
  Qed.

  Lemma allc_hump : forall s, allc P s = true -> allc P (sn_hump s) = true.
  Proof.
    induction s as [|c s IH]; intros K; [reflexivity|]. cbn [allc] in K. apply andb_prop in K as [K1 K2]. cbn [sn_hump].
    destruct s as [|d s']; [cbn [allc]; rewrite K1; reflexivity|].
    destruct (is_lower c && is_upper d); cbn [allc]; rewrite ?Pus, K1, (IH K2); reflexivity.
  Qed.

  Lemma allc_uscrun : forall s b, allc P s = true -> allc P (sn_uscrun b s) = true.
  Proof.
    induction s as [|c s IH]; intros b K; [reflexivity|]. cbn [allc] in K. apply andb_prop in K as [K1 K2]. cbn [sn_uscrun].
    destruct (Ascii.eqb c USC); [destruct b|]; cbn [allc]; rewrite ?Pus, ?K1, (IH _ K2); reflexivity.
  Qed.

  Lemma allc_lstrip f : forall s, allc P s = true -> allc P (lstrip_by f s) = true.
  Proof.
    induction s as [|c s IH]; intros K; [reflexivity|]. cbn [lstrip_by]. destruct (f c); [|exact K].
    cbn [allc] in K. apply andb_prop in K as [_ K2]. exact (IH K2).
  Qed.

  Lemma allc_rstrip f : forall s, allc P s = true -> allc P (rstrip_by f s) = true.
  Proof.
    induction s as [|c s IH]; intros K; [reflexivity|]. cbn [allc] in K. apply andb_prop in K as [K1 K2]. cbn [rstrip_by].
    specialize (IH K2). destruct (rstrip_by f s) as [|d r].
    - destruct (f c); [reflexivity|]. cbn [allc]. rewrite K1. reflexivity.
    - cbn [allc] in *. rewrite K1, IH. reflexivity.
  Qed.

  Lemma allc_snake s : allc P s = true -> allc P (snake_case s) = true.
  Proof.
    intros K. unfold snake_case, strip_c, rstrip_c, lstrip_c, lower, sn_space.
    apply allc_uscrun, allc_rstrip, allc_lstrip, allc_smap; [exact Plow|].
    apply allc_hump, allc_smap; [intros c Hc; destruct (Ascii.eqb c SP); [exact Pus|exact Hc]|].
    apply allc_dashdot. exact K.
  Qed.

  Lemma allc_camel s : allc P s = true -> allc P (camel_case_small s) = true.
  Proof. destruct s as [|c s]; [reflexivity|]. cbn [camel_case_small allc]. intros K. apply andb_prop in K as [K1 K2]. rewrite (Plow c K1), K2. reflexivity. Qed.
End Closed.

(* ---------------------------------------------------------------- counters *)
Lemma digit_char_digit d : d < 10 -> is_digit (digit_char d) = true.
Proof. intros H. do 10 (destruct d as [|d]; [reflexivity|]). lia. Qed.

Lemma allc_dec_go : forall fuel n acc, allc is_digit acc = true -> allc is_digit (dec_go fuel n acc) = true.
Proof.
  induction fuel as [|f IH]; intros n acc K; [exact K|]. cbn [dec_go].
  assert (D : allc is_digit (String (digit_char (n mod 10)) acc) = true).
  { cbn [allc]. rewrite digit_char_digit by (apply Nat.mod_upper_bound; lia). exact K. }
  destruct (n / 10 =? 0)%nat; [exact D|apply IH; exact D].
Qed.

Lemma allc_dec n : allc is_digit (dec n) = true.
Proof. unfold dec. apply allc_dec_go. reflexivity. Qed.

Lemma get_allc P : forall s n c, allc P s = true -> get n s = Some c -> P c = true.
Proof.
  induction s as [|d s IH]; intros n c K G; [destruct n; discriminate|]. cbn [allc] in K. apply andb_prop in K as [K1 K2].
  destruct n as [|n]; cbn [get] in G; [inversion G; subst; exact K1|exact (IH n c K2 G)].
Qed.

Lemma allc_letter i : allc alnumc (letter i) = true.
Proof.
  unfold letter. destruct (get (i mod 52) letters) as [c|] eqn:G; [|reflexivity].
  cbn [allc]. rewrite (get_allc alnumc letters _ c eq_refl G). reflexivity.
Qed.

Lemma digit_alnum c : is_digit c = true -> alnumc c = true.
Proof. unfold alnumc. intros H. rewrite H. apply orb_true_r. Qed.
Lemma alnum_ident c : alnumc c = true -> identc c = true.
Proof. unfold identc. intros H. rewrite H. reflexivity. Qed.

Lemma dec_ident i : allc identc (dec i) = true.
Proof. apply (allc_impl is_digit); [intros c H; apply alnum_ident, digit_alnum; exact H|apply allc_dec]. Qed.

Lemma ident_no_lg s : allc identc s = true -> no_lg s = true.
Proof.
  induction s as [|c s IH]; [reflexivity|]. cbn [allc no_lg]. intros H. apply andb_prop in H as [Hc Hs]. rewrite (IH Hs), andb_true_r.
  apply negb_true_iff. unfold is_lg. destruct (Ascii.eqb c LT) eqn:E1; [apply Ascii.eqb_eq in E1; subst c; discriminate|].
  destruct (Ascii.eqb c GT) eqn:E2; [apply Ascii.eqb_eq in E2; subst c; discriminate|]. reflexivity.
Qed.


