(* C07, USER-tag half: the expanded file of a template of the block grammar is a well-formed fresh file
   (Preserve.wf_fresh_file) for EVERY element lists with admissible names, provided the cleaned tag names are pairwise
   distinct (keys07; discharged per shipped file in Proofs/Shipped07Cpp.v). *)
From Coq Require Import String Ascii List Bool Arith Lia.
From KV Require Import Lib.Str Lib.StrOps Lib.ODict Gen.Tags Model.PreserveCore Model.Preserve Model.Engine Model.EngineSM
                       Model.EngineDomain Model.EngineDomain16 Model.EngineDomain07 Spec.RefExpand Spec.RefExpand16
                       Proofs.StrProofs Proofs.CleanProofs Proofs.PreserveStr Proofs.EngineStr Proofs.EngineRepl Proofs.CharClass
                       Proofs.KofProofs Proofs.EngineC17 Proofs.EnginePipe Proofs.EngineBlock Proofs.TagFree Proofs.EngineWhole16.
Import ListNotations.
Open Scope string_scope.
Open Scope list_scope.

(* ---------------------------------------------------------------- strings *)
Lemma contains_app_l p a b : contains p a = true -> contains p (a ++ b)%string = true.
Proof. intros H. apply contains_split in H as (x & y & E). subst a. rewrite !append_assoc_c. apply contains_intro. Qed.

Lemma contains_app_r p a b : contains p b = true -> contains p (a ++ b)%string = true.
Proof. intros H. apply contains_split in H as (x & y & E). subst b. rewrite <- append_assoc_c. apply contains_intro. Qed.

Lemma no_char_contains c p s : no_char c s = true -> contains (String c p) s = false.
Proof.
  induction s as [|d s IH]; [reflexivity|]. cbn [no_char]. intros H. apply andb_prop in H as [Hd Hs]. apply negb_true_iff in Hd.
  cbn [contains prefixb]. rewrite Ascii.eqb_sym, Hd. cbn [andb orb]. exact (IH Hs).
Qed.

Lemma tag_prefix_lbr : exists p, tag_prefix = String LBR p.
Proof. eexists. vm_compute. reflexivity. Qed.

Lemma no_lbr_not_tag s : no_char LBR s = true -> is_tag s = false.
Proof. intros H. unfold is_tag. destruct tag_prefix_lbr as (p & E). rewrite E. apply no_char_contains. exact H. Qed.

Lemma no_char_tab4 c s : Ascii.eqb c SP = false -> no_char c s = true -> no_char c (tab4 s) = true.
Proof.
  intros Hc. induction s as [|d s IH]; [reflexivity|]. cbn [no_char tab4]. intros H. apply andb_prop in H as [Hd Hs].
  destruct (Ascii.eqb d TAB); cbn [no_char]; rewrite ?(IH Hs), ?Hd; [|reflexivity].
  rewrite Ascii.eqb_sym, Hc. reflexivity.
Qed.

Lemma no_char_split_lines c : forall s, no_char c s = true -> forallb (no_char c) (split_lines s) = true.
Proof.
  induction s as [|d s IH]; [reflexivity|]. cbn [no_char split_lines]. intros H. apply andb_prop in H as [Hd Hs]. specialize (IH Hs).
  destruct (Ascii.eqb d LF).
  - cbn [forallb no_char]. rewrite Hd, IH. reflexivity.
  - destruct (split_lines s) as [|x r]; cbn [forallb no_char] in *; [rewrite Hd; reflexivity|].
    apply andb_prop in IH as [I1 I2]. rewrite Hd, I1, I2. reflexivity.
Qed.

Lemma canonical_nl b : no_char LF b = true -> canonical (b ++ nl_str)%string = true.
Proof.
  induction b as [|c b IH]; [reflexivity|]. cbn [no_char]. intros H. apply andb_prop in H as [Hc Hb].
  cbn [append canonical]. specialize (IH Hb). destruct (b ++ nl_str)%string eqn:E; [destruct b; discriminate|]. rewrite Hc. exact IH.
Qed.

Lemma canonical_ends_lf s : canonical s = true -> ends_lf s = true.
Proof.
  induction s as [|c s IH]; [discriminate|]. cbn [canonical ends_lf]. destruct s as [|d s']; [auto|].
  intros H. apply andb_prop in H as [_ H]. exact (IH H).
Qed.

(* a canonical line is a chunk of text that is empty or ends with LF (chunk_end: what a plain element of a fresh file must be) *)
Lemma canon_chunk s : canonical s = true -> chunk_end s = true.
Proof. intros H. unfold chunk_end. rewrite (canonical_ends_lf s H). apply orb_true_r. Qed.

(* ---------------------------------------------------------------- a body line with the names substituted *)
Definition vals_ident (tb : list (string * string)) : bool := forallb (fun kv => allc identc (snd kv)) tb.

Lemma lookup_ident n : forall tb, vals_ident tb = true -> existsb (String.eqb n) (map fst tb) = true ->
  exists v, lookup String.eqb n tb = Some v /\ allc identc v = true.
Proof.
  induction tb as [|[k v] tb IH]; cbn [vals_ident forallb map existsb fst snd lookup]; intros H E; [discriminate|].
  apply andb_prop in H as [Hv H]. destruct (String.eqb n k); [exists v; auto|]. apply IH; assumption.
Qed.

Definition lits_sat (P : string -> bool) (l : uline) : bool :=
  forallb (fun g => match g with Lit s => P s | _ => true end) l.

Lemma sym_lits lit_ok l : sym_line_ok lit_ok l = true -> lits_sat lit_ok l = true.
Proof.
  unfold sym_line_ok, lits_sat. apply forallb_impl. intros g H. destruct g as [s|n [d|]]; [exact H|reflexivity|reflexivity].
Qed.

Lemma lits_sat_impl (P Q : string -> bool) l : (forall s, P s = true -> Q s = true) -> lits_sat P l = true -> lits_sat Q l = true.
Proof. intros H. unfold lits_sat. apply forallb_impl. intros g K. destruct g; [apply H; exact K|reflexivity]. Qed.

Section Copy.
  Variable tb : list (string * string).
  Hypothesis Hv : vals_ident tb = true.

  Lemma copy_body_no_char c : identc c = false -> forall l,
    forallb (closed_seg (map fst tb)) l = true -> lits_sat (no_char c) l = true ->
    no_char c (render_body (map (subst16 tb) l)) = true.
  Proof.
    intros Hc. induction l as [|g l IH]; intros Hcl Hl; [reflexivity|].
    cbn [forallb lits_sat] in Hcl, Hl. apply andb_prop in Hcl as [Hg Hcl]. apply andb_prop in Hl as [Hs Hl]. fold (lits_sat (no_char c) l) in Hl.
    cbn [map render_body]. rewrite no_char_append, (IH Hcl Hl), andb_true_r.
    destruct g as [s|n [d|]]; cbn [closed_seg] in Hg; [exact Hs|discriminate|].
    cbn [subst16]. destruct (lookup_ident n tb Hv Hg) as (v & Ev & Hi). rewrite Ev. cbn [render_seg].
    exact (allc_no_char identc c v Hc Hi).
  Qed.

  Lemma copy_no_char c l : identc c = false -> Ascii.eqb c LF = false ->
    forallb (closed_seg (map fst tb)) l = true -> lits_sat (no_char c) l = true ->
    no_char c (render_line (map (subst16 tb) l)) = true.
  Proof.
    intros Hc Hlf Hcl Hl. unfold render_line. rewrite no_char_append, (copy_body_no_char c Hc l Hcl Hl).
    cbn [nl_str no_char]. rewrite Ascii.eqb_sym, Hlf. reflexivity.
  Qed.

  Lemma copy_canonical l : forallb (closed_seg (map fst tb)) l = true -> lits_sat (no_char LF) l = true ->
    canonical (render_line (map (subst16 tb) l)) = true.
  Proof. intros Hcl Hl. apply canonical_nl. apply copy_body_no_char; [reflexivity|assumption|assumption]. Qed.

  Lemma copy_contains p : forall l,
    existsb (fun g => match g with Lit s => contains p s | _ => false end) l = true ->
    contains p (render_line (map (subst16 tb) l)) = true.
  Proof.
    intros l H. unfold render_line. apply contains_app_l. induction l as [|g l IH]; [discriminate|].
    cbn [existsb] in H. cbn [map render_body]. apply orb_prop in H as [H|H].
    - destruct g as [s|n d]; [|discriminate]. cbn [subst16 render_seg]. apply contains_app_l. exact H.
    - apply contains_app_r. exact (IH H).
  Qed.

  Lemma copy_body_kof : forall l,
    forallb (closed_seg (map fst tb)) l = true -> lits_sat nobs l = true ->
    kof (render_body (map (subst16 tb) l)) = String.concat "" (map (akey_seg tb) l)
    /\ nobs (render_body (map (subst16 tb) l)) = true.
  Proof.
    induction l as [|g l IH]; intros Hcl Hl; [split; reflexivity|].
    cbn [forallb lits_sat] in Hcl, Hl. apply andb_prop in Hcl as [Hg Hcl]. apply andb_prop in Hl as [Hs Hl]. fold (lits_sat nobs l) in Hl.
    destruct (IH Hcl Hl) as [IK IN]. cbn [map render_body].
    assert (G : kof (render_seg (subst16 tb g)) = akey_seg tb g /\ nobs (render_seg (subst16 tb g)) = true).
    { destruct g as [s|n [d|]]; cbn [closed_seg] in Hg; [split; [reflexivity|exact Hs]|discriminate|].
      cbn [subst16 akey_seg]. destruct (lookup_ident n tb Hv Hg) as (v & Ev & Hi). rewrite Ev. cbn [render_seg].
      split; [apply kof_ident; exact Hi|apply ident_nobs; exact Hi]. }
    destruct G as [GK GN]. split.
    - rewrite (kof_app _ _ GN IN), GK, IK. destruct l; cbn [map String.concat]; [rewrite app_nil_r_s; reflexivity|reflexivity].
    - unfold nobs in *. rewrite no_char_append, GN, IN. reflexivity.
  Qed.

  Lemma kof_nl : kof nl_str = EmptyString.
  Proof. vm_compute. reflexivity. Qed.

  Lemma copy_kof l : forallb (closed_seg (map fst tb)) l = true -> lits_sat nobs l = true ->
    kof (render_line (map (subst16 tb) l)) = akey tb l.
  Proof.
    intros Hcl Hl. destruct (copy_body_kof l Hcl Hl) as [K N]. unfold render_line, akey.
    assert (NL : nobs nl_str = true) by reflexivity.
    rewrite (kof_app _ _ N NL), K, kof_nl. apply app_nil_r_s.
  Qed.
End Copy.

(* ---------------------------------------------------------------- output items: a plain line, or a tag line twice *)
Inductive oitem := OPlain (s : string) | OPair (s : string).
Definition o_lines (oi : oitem) : list string := match oi with OPlain s => [s] | OPair s => [s; s] end.
Definition to_item (oi : oitem) : PreserveCore.item string := match oi with OPlain s => PreserveCore.Plain s | OPair s => PreserveCore.Pair s s end.
Definition o_keys (ois : list oitem) : list string := flat_map (fun oi => match oi with OPair s => [kof s] | OPlain _ => [] end) ois.

(* what is needed of an item anywhere but (for a plain line) at the very end of the file *)
Definition o_ok (oi : oitem) : Prop :=
  match oi with
  | OPlain s => is_tag (tab4 s) = false /\ wf_itemb (PreserveCore.Plain s) = true /\ no_char CR s = true /\ chunk_end s = true
  | OPair s => is_tag (tab4 s) = true /\ wf_itemb (PreserveCore.Pair s s) = true /\ no_char CR s = true /\ canonical s = true
  end.
(* the last line of a file may lack its newline *)
Definition o_ok_last (oi : oitem) : Prop :=
  match oi with
  | OPlain s => is_tag (tab4 s) = false /\ wf_itemb (PreserveCore.Plain s) = true /\ no_char CR s = true
  | OPair _ => False
  end.

Lemma o_ok_weak oi : o_ok oi -> match oi with OPlain _ => o_ok_last oi | OPair _ => True end.
Proof. destruct oi; cbn; tauto. Qed.

Definition tagok (oi : oitem) : Prop :=
  match oi with OPlain s => is_tag (tab4 s) = false | OPair s => is_tag (tab4 s) = true end.

Lemma parse_oitems : forall ois, Forall tagok ois -> parse_items (flat_map o_lines ois) = Some (map to_item ois).
Proof.
  induction ois as [|oi ois IH]; intros H; [reflexivity|]. inversion H as [|? ? H1 H2]; subst. specialize (IH H2).
  destruct oi as [s|s]; cbn [tagok] in H1; cbn [flat_map o_lines app parse_items map to_item]; rewrite H1, IH; reflexivity.
Qed.

Lemma spair_keys_oitems : forall ois, spair_keys (map to_item ois) = o_keys ois.
Proof.
  unfold spair_keys, o_keys. induction ois as [|oi ois IH]; [reflexivity|]. destruct oi; cbn [map to_item pair_keys flat_map app]; rewrite IH; reflexivity.
Qed.

Definition strong (it : PreserveCore.item string) : Prop :=
  match it with
  | PreserveCore.Plain l => no_char CR l = true /\ chunk_end l = true
  | PreserveCore.Pair o c => canonical o = true /\ no_char CR o = true /\ canonical c = true /\ no_char CR c = true
  end.

Lemma items_okb_app : forall a b, Forall strong a -> items_okb b = true -> items_okb (a ++ b) = true.
Proof.
  induction a as [|x a IH]; intros b Ha Hb; [exact Hb|]. inversion Ha as [|? ? H1 H2]; subst. specialize (IH b H2 Hb).
  cbn [app]. destruct x as [l|o c]; cbn [strong] in H1.
  - destruct H1 as [C1 C2]. destruct (a ++ b) as [|y r] eqn:E; cbn [items_okb].
    + exact C1.
    + unfold chunk_end in C2. rewrite C1, C2. exact IH.
  - destruct H1 as (C1 & C2 & C3 & C4). destruct (a ++ b) as [|y r] eqn:E; cbn [items_okb].
    + unfold last_ok. rewrite C1, C2, C3, C4. reflexivity.
    + rewrite C1, C2, C3, C4. exact IH.
Qed.

Lemma o_ok_strong oi : o_ok oi -> strong (to_item oi).
Proof. destruct oi; cbn; tauto. Qed.

(* a list of good items, possibly closed by an unterminated plain line *)
Inductive good : list oitem -> Prop :=
| good_nil : good []
| good_last oi : o_ok_last oi -> good [oi]
| good_cons oi r : o_ok oi -> good r -> good (oi :: r).

Lemma good_app a b : Forall o_ok a -> good b -> good (a ++ b).
Proof. induction a as [|x a IH]; intros Ha Hb; [exact Hb|]. inversion Ha; subst. cbn [app]. apply good_cons; auto. Qed.

Lemma good_tagok ois : good ois -> Forall tagok ois.
Proof.
  induction 1 as [|oi H|oi r H _ IH]; [constructor| |].
  - constructor; [|constructor]. destruct oi; cbn in *; tauto.
  - constructor; [|exact IH]. destruct oi; cbn in *; tauto.
Qed.

Lemma good_wf ois : good ois -> forallb wf_itemb (map to_item ois) = true.
Proof.
  induction 1 as [|oi H|oi r H _ IH]; [reflexivity| |]; cbn [map forallb].
  - destruct oi; cbn in *; [|contradiction]. destruct H as (_ & W & _). rewrite W. reflexivity.
  - rewrite IH, andb_true_r. destruct oi; cbn in *; tauto.
Qed.

Lemma good_okb ois : good ois -> items_okb (map to_item ois) = true.
Proof.
  induction 1 as [|oi H|oi r H _ IH]; [reflexivity| |].
  - destruct oi; cbn in *; [|contradiction]. tauto.
  - change (map to_item (oi :: r)) with ([to_item oi] ++ map to_item r). apply items_okb_app; [|exact IH].
    constructor; [apply o_ok_strong; exact H|constructor].
Qed.

Lemma NoDup_nodupb l : NoDup l -> nodupb l = true.
Proof.
  induction 1 as [|x l Hn _ IH]; [reflexivity|]. cbn [nodupb]. rewrite IH, andb_true_r. apply negb_true_iff.
  destruct (existsb (String.eqb x) l) eqn:E; [|reflexivity]. apply existsb_exists in E as (y & Hy & Ey).
  apply String.eqb_eq in Ey. subst y. contradiction.
Qed.

(* the file made of good items with pairwise distinct cleaned tag names is a well-formed fresh file *)
Theorem good_fresh ois : good ois -> NoDup (o_keys ois) -> wf_fresh_file (flat_map o_lines ois) = true.
Proof.
  intros G N. unfold wf_fresh_file. rewrite (parse_oitems ois (good_tagok ois G)). unfold wfb.
  rewrite (good_wf ois G), spair_keys_oitems, (NoDup_nodupb _ N), (good_okb ois G). reflexivity.
Qed.

(* ---------------------------------------------------------------- one body line, substituted, as an output item *)
Lemma subst_closed tb : forall l, closed_line l = true -> map (subst16 tb) l = l.
Proof.
  induction l as [|g l IH]; [reflexivity|]. cbn [closed_line forallb]. intros H. apply andb_prop in H as [Hg Hl].
  cbn [map]. rewrite (IH Hl). destruct g; [reflexivity|discriminate].
Qed.

Definition copy_item (tb : list (string * string)) (si : sitem) : oitem :=
  match si with
  | SPlain l => OPlain (render_line (map (subst16 tb) l))
  | SPair l => OPair (render_line (map (subst16 tb) l))
  end.
Definition s_line (si : sitem) : uline := match si with SPlain l => l | SPair l => l end.
Definition s_lines (si : sitem) : list uline := match si with SPlain l => [l] | SPair l => [l; l] end.

Lemma kpfx_is_tag k : kpfx k = is_tag k.
Proof. reflexivity. Qed.

Lemma copy_item_ok tb si :
  vals_ident tb = true -> forallb (closed_seg (map fst tb)) (s_line si) = true -> sitem_ok si = true ->
  (match si with SPair l => tag_lit l = true | SPlain _ => True end) ->
  o_ok (copy_item tb si).
Proof.
  intros Hv Hcl Hok Htag. destruct si as [l|l]; cbn [s_line sitem_ok copy_item o_ok] in *.
  - destruct (closed_line l) eqn:C.
    + rewrite (subst_closed tb l C). unfold closed_plain_ok in Hok.
      apply andb_prop in Hok as [Hok H4]. apply andb_prop in Hok as [Hok H3]. apply andb_prop in Hok as [H1 H2].
      apply negb_true_iff in H1. pose proof (canon_chunk _ H4). auto.
    + pose proof (sym_lits _ _ Hok) as L.
      assert (L1 : lits_sat (no_char LBR) l = true).
      { revert L. apply lits_sat_impl. intros s K. unfold plain_lit_ok in K. repeat (apply andb_prop in K as [K ?]). exact K. }
      assert (L2 : lits_sat (no_char CR) l = true).
      { revert L. apply lits_sat_impl. intros s K. unfold plain_lit_ok in K. apply andb_prop in K as [K _]. apply andb_prop in K as [K _]. apply andb_prop in K as [_ K]. exact K. }
      assert (L3 : lits_sat (no_char LF) l = true).
      { revert L. apply lits_sat_impl. intros s K. unfold plain_lit_ok in K. apply andb_prop in K as [K _]. apply andb_prop in K as [_ K]. exact K. }
      assert (L4 : lits_sat nobs l = true).
      { revert L. apply lits_sat_impl. intros s K. unfold plain_lit_ok in K. apply andb_prop in K as [_ K]. exact K. }
      set (s := render_line (map (subst16 tb) l)).
      assert (B : no_char LBR s = true) by (apply copy_no_char; try assumption; reflexivity).
      assert (N : nobs s = true) by (apply copy_no_char; try assumption; reflexivity).
      split; [rewrite is_tag_tab4; apply no_lbr_not_tag; exact B|]. split; [|split].
      * cbn [wf_itemb]. apply andb_true_intro. split.
        -- unfold vis. apply (forallb_impl (no_char LBR)); [intros x Hx; rewrite (no_lbr_not_tag x Hx); reflexivity|].
           apply no_char_split_lines. apply no_char_tab4; [reflexivity|exact B].
        -- rewrite kpfx_is_tag, (no_lbr_not_tag _ (kof_no_char LBR s N B)). reflexivity.
      * apply copy_no_char; try assumption; reflexivity.
      * apply canon_chunk. apply copy_canonical; assumption.
  - pose proof (sym_lits _ _ Hok) as L.
    assert (L1 : lits_sat (no_char TAB) l = true).
    { revert L. apply lits_sat_impl. intros s K. unfold pair_lit_ok in K. repeat (apply andb_prop in K as [K ?]). exact K. }
    assert (L2 : lits_sat (no_char CR) l = true).
    { revert L. apply lits_sat_impl. intros s K. unfold pair_lit_ok in K. apply andb_prop in K as [K _]. apply andb_prop in K as [K _]. apply andb_prop in K as [_ K]. exact K. }
    assert (L3 : lits_sat (no_char LF) l = true).
    { revert L. apply lits_sat_impl. intros s K. unfold pair_lit_ok in K. apply andb_prop in K as [K _]. apply andb_prop in K as [_ K]. exact K. }
    set (s := render_line (map (subst16 tb) l)).
    assert (T : tab4 s = s) by (apply tab4_no_tab; apply copy_no_char; try assumption; reflexivity).
    assert (I : is_tag s = true) by (apply copy_contains; exact Htag).
    rewrite T. split; [exact I|]. split; [|split].
    + cbn [wf_itemb]. rewrite T, I, !String.eqb_refl, (kpfx_of_tag s I). reflexivity.
    + apply copy_no_char; try assumption; reflexivity.
    + apply copy_canonical; assumption.
Qed.

Lemma copy_item_key tb l :
  vals_ident tb = true -> forallb (closed_seg (map fst tb)) l = true -> sym_line_ok pair_lit_ok l = true ->
  kof (render_line (map (subst16 tb) l)) = akey tb l.
Proof.
  intros Hv Hcl Hok. apply copy_kof; try assumption. pose proof (sym_lits _ _ Hok) as L. revert L. apply lits_sat_impl.
  intros s K. unfold pair_lit_ok in K. apply andb_prop in K as [_ K]. exact K.
Qed.

(* ---------------------------------------------------------------- shape of a body *)
Lemma opt_eqb_eq a b : opt_eqb a b = true -> a = b.
Proof. destruct a, b; cbn; intros H; try discriminate; [apply String.eqb_eq in H; subst|]; reflexivity. Qed.
Lemma seg_eqb_eq a b : seg_eqb a b = true -> a = b.
Proof.
  destruct a as [x|n d], b as [y|m e]; cbn; intros H; try discriminate.
  - apply String.eqb_eq in H. subst. reflexivity.
  - apply andb_prop in H as [H1 H2]. apply String.eqb_eq in H1. apply opt_eqb_eq in H2. subst. reflexivity.
Qed.
Lemma uline_eqb_eq : forall a b, uline_eqb a b = true -> a = b.
Proof.
  induction a as [|x a IH]; destruct b as [|y b]; cbn; intros H; try discriminate; [reflexivity|].
  apply andb_prop in H as [H1 H2]. apply seg_eqb_eq in H1. rewrite (IH b H2), H1. reflexivity.
Qed.

Lemma shape_spec : forall body sis, shape body = Some sis ->
  body = flat_map s_lines sis
  /\ Forall (fun si => match si with SPair l => tag_lit l = true | SPlain _ => True end) sis.
Proof.
  fix IH 1. intros body sis H. destruct body as [|l r]; cbn [shape] in H.
  - inversion H. split; [reflexivity|constructor].
  - destruct (tag_lit l) eqn:T.
    + destruct r as [|c r']; [discriminate|]. destruct (uline_eqb c l) eqn:E; [|discriminate].
      apply uline_eqb_eq in E. subst c. destruct (shape r') as [sis'|] eqn:S; [|discriminate]. inversion H. subst sis.
      destruct (IH r' sis' S) as [B F]. split; [cbn [flat_map s_lines app]; rewrite <- B; reflexivity|constructor; assumption].
    + destruct (shape r) as [sis'|] eqn:S; [|discriminate]. inversion H. subst sis.
      destruct (IH r sis' S) as [B F]. split; [cbn [flat_map s_lines app]; rewrite <- B; reflexivity|constructor; [exact I|assumption]].
Qed.

Lemma s_line_in si sis : In si sis -> In (s_line si) (flat_map s_lines sis).
Proof. intros H. apply in_flat_map. exists si. split; [exact H|]. destruct si; cbn; auto. Qed.

Lemma flat_map_flat_map {A B C} (f : B -> list C) (g : A -> list B) l :
  flat_map f (flat_map g l) = flat_map (fun x => flat_map f (g x)) l.
Proof. induction l as [|x l IH]; [reflexivity|]. cbn [flat_map]. rewrite flat_map_app, IH. reflexivity. Qed.

Lemma copy_lines tb : forall sis,
  map (fun l => render_line (map (subst16 tb) l)) (flat_map s_lines sis) = flat_map o_lines (map (copy_item tb) sis).
Proof. induction sis as [|si sis IH]; [reflexivity|]. destruct si; cbn [flat_map s_lines app map copy_item o_lines]; rewrite IH; reflexivity. Qed.

(* ---------------------------------------------------------------- one block *)
Section BlockItems.
  Context {A : Type}.
  Variables (tb : A -> nat -> list (string * string)) (keys : list string).
  Hypothesis Hkeys : forall x i, map fst (tb x i) = keys.

  Definition block_oitems (items : list A) (body : list uline) : list oitem :=
    match shape body with
    | Some sis => flat_map (fun ix => map (copy_item (tb (snd ix) (fst ix))) sis) (enumerate_from 0 items)
    | None => []
    end.

  Lemma block_lines items body : body_ok07 body = true ->
    flat_map o_lines (block_oitems items body) = ref_block tb items body.
  Proof.
    unfold body_ok07, block_oitems, ref_block. destruct (shape body) as [sis|] eqn:S; [|discriminate]. intros _.
    destruct (shape_spec body sis S) as [B _]. rewrite flat_map_flat_map. clear S. subst body.
    apply flat_map_ext. intros ix. symmetry. apply copy_lines.
  Qed.

  Lemma block_good_keys : forall items body,
    body_ok07 body = true -> forallb (body_line_ok keys) body = true ->
    (forall x i, In x items -> vals_ident (tb x i) = true) ->
    Forall o_ok (block_oitems items body) /\ o_keys (block_oitems items body) = block_keys tb items body.
  Proof.
    intros items body Hb Hg Hv. unfold body_ok07, block_oitems, block_keys in *.
    destruct (shape body) as [sis|] eqn:Sh; [|discriminate].
    destruct (shape_spec body sis Sh) as [B T].
    assert (CL : forall si, In si sis -> forall x i, forallb (closed_seg (map fst (tb x i))) (s_line si) = true).
    { intros si Hsi x i. rewrite Hkeys. rewrite forallb_forall in Hg.
      assert (Hin : In (s_line si) body) by (rewrite B; apply s_line_in; exact Hsi).
      specialize (Hg _ Hin). unfold body_line_ok in Hg. repeat (apply andb_prop in Hg as [Hg ?K]). exact K2. }
    assert (G : forall its k, (forall x, In x its -> In x items) ->
              Forall o_ok (flat_map (fun ix => map (copy_item (tb (snd ix) (fst ix))) sis) (enumerate_from k its))
              /\ o_keys (flat_map (fun ix => map (copy_item (tb (snd ix) (fst ix))) sis) (enumerate_from k its))
                 = flat_map (fun ix => map (akey (tb (snd ix) (fst ix))) (pair_lines sis)) (enumerate_from k its)).
    { induction its as [|x its IH]; intros k Hsub; [split; [constructor|reflexivity]|].
      destruct (IH (S k) (fun y Hy => Hsub y (or_intror Hy))) as [IH1 IH2].
      cbn [enumerate_from flat_map fst snd]. pose proof (Hv x k (Hsub x (or_introl eq_refl))) as Hvx. split.
      - apply Forall_app. split; [|exact IH1]. apply Forall_forall. intros oi Hoi. apply in_map_iff in Hoi as (si & E & Hsi). subst oi.
        rewrite forallb_forall in Hb. rewrite Forall_forall in T.
        apply copy_item_ok; [exact Hvx|apply CL; exact Hsi|apply Hb; exact Hsi|apply T; exact Hsi].
      - unfold o_keys in *. rewrite flat_map_app, IH2. f_equal.
        assert (Hsub' : forall si, In si sis -> In si sis) by auto. revert Hsub'. generalize sis at 1 3 4.
        induction sis0 as [|si sis0 IHs]; intros Hs; [reflexivity|].
        cbn [map flat_map]. rewrite (IHs (fun y Hy => Hs y (or_intror Hy))).
        assert (Hsi : In si sis) by (apply Hs; left; reflexivity).
        destruct si as [l|l]; cbn [copy_item pair_lines flat_map app map]; [reflexivity|].
        rewrite forallb_forall in Hb. pose proof (Hb _ Hsi) as Hok. cbn [sitem_ok] in Hok.
        rewrite (copy_item_key _ l Hvx (CL _ Hsi x k) Hok). reflexivity. }
    apply G. auto.
  Qed.
End BlockItems.

(* ---------------------------------------------------------------- the values a name puts into the tables *)
Lemma all_alnum_allc s : all_alnum s = allc CharClass.alnumc s.
Proof. induction s as [|c s IH]; [reflexivity|]. cbn [all_alnum allc]. rewrite IH. reflexivity. Qed.

Lemma name_ident s : name_ok s = true -> allc identc s = true.
Proof.
  unfold name_ok. intros H. apply andb_prop in H as [_ H]. rewrite all_alnum_allc in H.
  revert H. apply allc_impl. exact alnum_ident.
Qed.

Lemma snake_ident s : allc identc s = true -> allc identc (snake s) = true.
Proof. apply allc_snake; [reflexivity|exact lower_c_ident]. Qed.
Lemma camel_ident s : allc identc s = true -> allc identc (camel s) = true.
Proof. apply (allc_camel identc lower_c_ident). Qed.
Lemma letter_ident i : allc identc (letter i) = true.
Proof. apply (allc_impl CharClass.alnumc); [exact alnum_ident|apply allc_letter]. Qed.

Lemma family_ident a b c name : allc identc name = true -> vals_ident (family a b c name) = true.
Proof. intros H. unfold vals_ident, family. cbn [forallb snd]. rewrite H, (camel_ident _ H), (snake_ident _ H). reflexivity. Qed.

Lemma vals_ident_app a b : vals_ident (a ++ b) = vals_ident a && vals_ident b.
Proof. unfold vals_ident. apply forallb_app'. Qed.

Lemma counters_ident i : vals_ident (counters i) = true.
Proof. unfold vals_ident, counters. cbn [forallb snd]. rewrite dec_ident, letter_ident. reflexivity. Qed.

Lemma kind_table_ident k name i : name_ok name = true -> vals_ident (table_of_kind k name i) = true.
Proof.
  intros H. pose proof (name_ident _ H) as Hi.
  assert (E : vals_ident (elem_table name i) = true).
  { unfold elem_table. rewrite !vals_ident_app, !family_ident, counters_ident by exact Hi. reflexivity. }
  assert (P : vals_ident (proto_table name i) = true).
  { unfold proto_table. rewrite vals_ident_app, counters_ident, andb_true_r. unfold vals_ident. cbn [forallb snd].
    rewrite Hi, (camel_ident _ Hi). reflexivity. }
  destruct k; assumption.
Qed.

Lemma sig_event_ident e : name_ok e = true -> allc identc (sig_event_name e) = true.
Proof.
  intros H. unfold sig_event_name. destruct (TableDef.is_none e); [reflexivity|].
  destruct (String.eqb (TableDef.lower e) "any"); [reflexivity|apply name_ident; exact H].
Qed.

Lemma sig_table_ident ae i : name_ok (fst ae) = true -> name_ok (snd ae) = true -> vals_ident (sig_table ae i) = true.
Proof.
  intros Ha He. unfold sig_table. rewrite !vals_ident_app, counters_ident, andb_true_r.
  rewrite !family_ident; [reflexivity|exact (sig_event_ident _ He)|exact (name_ident _ Ha)].
Qed.

(* ---------------------------------------------------------------- the whole template *)
Fixpoint oitems (e : elements) (t : template16) : list oitem :=
  match t with
  | [] => []
  | Text l :: r =>
      let s := (l ++ nl_str)%string in
      if is_tag (tab4 s) then match r with Text _ :: r' => OPair s :: oitems e r' | _ => [] end
      else OPlain s :: oitems e r
  | Raw s :: r => OPlain s :: oitems e r
  | Block k _ _ body :: r => block_oitems (table_of_kind k) (items_of e k) body ++ oitems e r
  | SigBlock _ _ body :: r => block_oitems sig_table (el_sigs e) body ++ oitems e r
  | TransBlock ib ie body :: r => map OPlain (ref_item16 e (TransBlock ib ie body)) ++ oitems e r
  | EvBlock ib ie body :: r => map OPlain (ref_item16 e (EvBlock ib ie body)) ++ oitems e r
  | MsgBlock _ _ _ _ :: r => oitems e r
  | InitLine l :: r => map OPlain (ref_item16 e (InitLine l)) ++ oitems e r
  | TableLine pre ee :: r => map OPlain (ref_item16 e (TableLine pre ee)) ++ oitems e r
  | UserLine l :: r => OPlain (ref_line (el_user e) l) :: oitems e r
  end.

(* plain output lines as items *)
Lemma plain_items : forall ls, forallb chunk_plain_ok ls = true ->
  flat_map o_lines (map OPlain ls) = ls /\ Forall o_ok (map OPlain ls) /\ o_keys (map OPlain ls) = [].
Proof.
  induction ls as [|s ls IH]; intros H; [split; [reflexivity|split; [constructor|reflexivity]]|].
  cbn [forallb] in H. apply andb_prop in H as [Hs H]. destruct (IH H) as (I1 & I2 & I3).
  unfold chunk_plain_ok in Hs. apply andb_prop in Hs as [Hs P4]. apply andb_prop in Hs as [Hs P3]. apply andb_prop in Hs as [P1 P2].
  apply negb_true_iff in P1. split; [cbn [map flat_map o_lines app]; rewrite I1; reflexivity|]. split.
  - cbn [map]. constructor; [cbn; auto|exact I2].
  - cbn [map]. unfold o_keys in *. cbn [flat_map app]. exact I3.
Qed.

Lemma dyn_step e r ls (I : flat_map o_lines (oitems e r) = flat_map (ref_item16 e) r /\ good (oitems e r) /\ o_keys (oitems e r) = keys07 e r) :
  forallb chunk_plain_ok ls = true ->
  flat_map o_lines (map OPlain ls ++ oitems e r) = ls ++ flat_map (ref_item16 e) r
  /\ good (map OPlain ls ++ oitems e r) /\ o_keys (map OPlain ls ++ oitems e r) = keys07 e r.
Proof.
  intros H. destruct I as (I1 & I2 & I3). destruct (plain_items ls H) as (P1 & P2 & P3). split; [rewrite flat_map_app, P1, I1; reflexivity|]. split.
  - apply good_app; assumption.
  - unfold o_keys in *. rewrite flat_map_app, P3, I3. reflexivity.
Qed.

Definition names_fine (e : elements) : Prop := forall n, In n (all_names e) -> name_ok n = true.

Lemma items_names e k x : names_fine e -> In x (items_of e k) -> name_ok x = true.
Proof.
  intros H Hx. apply H. unfold all_names. destruct k; cbn [items_of] in Hx; repeat (apply in_or_app; first [left; exact Hx | right]); try exact Hx.
Qed.

Lemma sigs_names e ae : names_fine e -> In ae (el_sigs e) -> name_ok (fst ae) = true /\ name_ok (snd ae) = true.
Proof.
  intros H Hx. assert (I : forall n, In n [fst ae; snd ae] -> In n (all_names e)).
  { intros n Hn. unfold all_names. do 4 (apply in_or_app; right). apply in_or_app. left. apply in_flat_map. exists ae. auto. }
  split; apply H, I; cbn; auto.
Qed.

Theorem oitems_spec e : names_fine e -> forall t,
  texts_ok07 t = true -> user_lines_plain e t = true -> dyn_lines_plain e t = true -> forallb item16_ok t = true ->
  flat_map o_lines (oitems e t) = flat_map (ref_item16 e) t
  /\ good (oitems e t) /\ o_keys (oitems e t) = keys07 e t.
Proof.
  intros Hn. fix IH 1. intros t Ht Hu Hd Hg. destruct t as [|it r]; [split; [reflexivity|split; [constructor|reflexivity]]|].
  cbn [forallb] in Hg. apply andb_prop in Hg as [Hi Hg].
  unfold user_lines_plain in Hu. cbn [forallb] in Hu. apply andb_prop in Hu as [Hu1 Hu]. fold (user_lines_plain e r) in Hu.
  unfold dyn_lines_plain in Hd. cbn [forallb] in Hd. apply andb_prop in Hd as [Hd1 Hd]. fold (dyn_lines_plain e r) in Hd.
  destruct it as [l|s|k ib ie body|ib ie body|ib ie body|ib ie body|ib ie sfx body|il|ul|pre ee]; cbn [dyn_item] in Hd1;
    [| | | |exact (dyn_step e r _ (IH r Ht Hu Hd Hg) Hd1)|exact (dyn_step e r _ (IH r Ht Hu Hd Hg) Hd1)|discriminate
     |exact (dyn_step e r _ (IH r Ht Hu Hd Hg) Hd1)| |exact (dyn_step e r _ (IH r Ht Hu Hd Hg) Hd1)];
    cbn [texts_ok07 oitems keys07 flat_map ref_item16] in *.
  - destruct (is_tag (tab4 (l ++ nl_str))) eqn:T.
    + destruct r as [|[l'| | | | | | | | |] r']; try discriminate. apply andb_prop in Ht as [Ht Hr]. apply andb_prop in Ht as [El Hp].
      apply String.eqb_eq in El. subst l'. cbn [forallb] in Hg. apply andb_prop in Hg as [_ Hg].
      unfold user_lines_plain in Hu. cbn [forallb] in Hu. apply andb_prop in Hu as [_ Hu]. fold (user_lines_plain e r') in Hu.
      unfold dyn_lines_plain in Hd. cbn [forallb] in Hd. apply andb_prop in Hd as [_ Hd]. fold (dyn_lines_plain e r') in Hd.
      destruct (IH r' Hr Hu Hd Hg) as (I1 & I2 & I3). unfold closed_pair_ok in Hp.
      apply andb_prop in Hp as [Hp P4]. apply andb_prop in Hp as [Hp P3]. apply andb_prop in Hp as [P1 P2].
      split; [cbn [flat_map o_lines ref_item16 app]; rewrite I1; reflexivity|]. split.
      * apply good_cons; [cbn; auto|exact I2].
      * cbn [o_keys flat_map app]. fold (o_keys (oitems e r')). rewrite I3. reflexivity.
    + apply andb_prop in Ht as [Hp Hr]. destruct (IH r Hr Hu Hd Hg) as (I1 & I2 & I3). unfold closed_plain_ok in Hp.
      apply andb_prop in Hp as [Hp P4]. apply andb_prop in Hp as [Hp P3]. apply andb_prop in Hp as [_ P2]. pose proof (canon_chunk _ P4) as P5.
      split; [cbn [flat_map o_lines app]; rewrite I1; reflexivity|]. split.
      * apply good_cons; [cbn; auto|exact I2].
      * cbn [o_keys flat_map app]. exact I3.
  - apply andb_prop in Ht as [Ht Hr]. apply andb_prop in Ht as [Ht Pc]. apply andb_prop in Ht as [Ht P3]. apply andb_prop in Ht as [P1 P2].
    apply negb_true_iff in P1. destruct (IH r Hr Hu Hd Hg) as (I1 & I2 & I3).
    split; [cbn [flat_map o_lines app]; rewrite I1; reflexivity|]. split; [|cbn [o_keys flat_map app]; exact I3].
    destruct r as [|it' r'].
    + cbn [oitems]. apply good_last. cbn. auto.
    + pose proof (canon_chunk _ Pc). apply good_cons; [cbn; auto|exact I2].
  - apply andb_prop in Ht as [Hb Hr]. destruct (IH r Hr Hu Hd Hg) as (I1 & I2 & I3).
    cbn [item16_ok] in Hi. apply andb_prop in Hi as [_ Hbl].
    destruct (block_good_keys (table_of_kind k) (keys_of k) (keys_same k) (items_of e k) body Hb Hbl
               (fun x i Hx => kind_table_ident k x i (items_names e k x Hn Hx))) as [G K].
    split; [rewrite flat_map_app, (block_lines _ _ _ Hb), I1; reflexivity|]. split.
    * apply good_app; assumption.
    * unfold o_keys in *. rewrite flat_map_app, K, I3. reflexivity.
  - apply andb_prop in Ht as [Hb Hr]. destruct (IH r Hr Hu Hd Hg) as (I1 & I2 & I3).
    cbn [item16_ok] in Hi. apply andb_prop in Hi as [_ Hbl].
    destruct (block_good_keys sig_table sig_keys sig_keys_same (el_sigs e) body Hb Hbl
               (fun x i Hx => sig_table_ident x i (proj1 (sigs_names e x Hn Hx)) (proj2 (sigs_names e x Hn Hx)))) as [G K].
    split; [rewrite flat_map_app, (block_lines _ _ _ Hb), I1; reflexivity|]. split.
    * apply good_app; assumption.
    * unfold o_keys in *. rewrite flat_map_app, K, I3. reflexivity.
  - (* a line with user tags: a plain line of the output *)
    destruct (IH r Ht Hu Hd Hg) as (I1 & I2 & I3). apply andb_prop in Hu1 as [Hu1 _]. unfold closed_plain_ok in Hu1.
    apply andb_prop in Hu1 as [Hp P4]. apply andb_prop in Hp as [Hp P3]. apply andb_prop in Hp as [P1 P2]. apply negb_true_iff in P1. pose proof (canon_chunk _ P4).
    split; [cbn [flat_map o_lines app]; rewrite I1; reflexivity|]. split.
    * apply good_cons; [cbn; auto|exact I2].
    * cbn [o_keys flat_map app]. exact I3.
Qed.

(* the expanded file of a template of the two grammars, for element lists with admissible names and pairwise distinct
   cleaned tag names, is a well-formed fresh file *)
(* ... with transition blocks / per-event signature blocks / initial-state lines / the transition-table line, whose output lines under the
   element record are plain lines (dyn_lines_plain, computed) *)
Theorem fresh_of_template_x e t :
  names_fine e -> texts_ok07 t = true -> user_lines_plain e t = true -> dyn_lines_plain e t = true -> forallb item16_ok t = true ->
  NoDup (keys07 e t) -> wf_fresh_file (flat_map (ref_item16 e) t) = true.
Proof.
  intros Hn Ht Hu Hd Hg Hk. destruct (oitems_spec e Hn t Ht Hu Hd Hg) as (L & G & K).
  rewrite <- L. apply good_fresh; [exact G|rewrite K; exact Hk].
Qed.

Lemma inky_dyn e : forall t, inky t = true -> dyn_lines_plain e t = true.
Proof.
  unfold inky, dyn_lines_plain. induction t as [|it t IH]; [reflexivity|]. cbn [forallb]. intros H. apply andb_prop in H as [H1 H2].
  rewrite (IH H2), andb_true_r. destruct it; cbn [dyn_item]; first [reflexivity|discriminate].
Qed.

Theorem fresh_of_template e t :
  names_fine e -> in_grammar07 t = true -> user_lines_plain e t = true -> forallb item16_ok t = true -> NoDup (keys07 e t) ->
  wf_fresh_file (flat_map (ref_item16 e) t) = true.
Proof.
  intros Hn Ht Hu Hg Hk. unfold in_grammar07 in Ht. apply andb_prop in Ht as [Ht Hi].
  exact (fresh_of_template_x e t Hn Ht Hu (inky_dyn e t Hi) Hg Hk).
Qed.

(* ---------------------------------------------------------------- admissible names make the per-instance conditions of C16 true *)
Lemma vals_ident_no_lg tb : vals_ident tb = true -> forallb (fun kv : string * string => no_lg (snd kv)) tb = true.
Proof. unfold vals_ident. apply forallb_impl. intros kv H. apply ident_no_lg. exact H. Qed.

Lemma all_ws_app a b : all_ws (a ++ b)%string = all_ws a && all_ws b.
Proof. induction a as [|c a IH]; [reflexivity|]. cbn [append all_ws]. rewrite IH. apply andb_assoc. Qed.

Lemma ink_copy tb : forall l, has_ink l = true -> all_ws (render_body (map (subst16 tb) l)) = false.
Proof.
  induction l as [|g l IH]; [discriminate|]. cbn [has_ink existsb]. intros H. cbn [map render_body]. rewrite all_ws_app.
  apply orb_prop in H as [H|H].
  - destruct g as [s|n d]; [|discriminate]. cbn [subst16 render_seg]. apply negb_true_iff in H. rewrite H. reflexivity.
  - fold (has_ink l) in H. rewrite (IH H). apply andb_false_r.
Qed.

Lemma unmodelled_start_lt : forallb starts3 unmodelled_tags = true.
Proof. vm_compute. reflexivity. Qed.

Lemma tagfree_unmodelled s : tagfree s = true -> unmodelled s = false.
Proof.
  intros H. unfold unmodelled. pose proof unmodelled_start_lt as U. revert U. generalize unmodelled_tags.
  induction l as [|t l IH]; [reflexivity|]. cbn [forallb existsb]. intros U. apply andb_prop in U as [U1 U2].
  rewrite (tagfree_specific s t H), (tagfree_contains t s U1 H), (IH U2). reflexivity.
Qed.

Section BlockWf.
  Context {A : Type}.
  Variables (tb : A -> nat -> list (string * string)) (keys : list string).
  Hypothesis Hkeys : forall x i, map fst (tb x i) = keys.

  Lemma block_wf_names items body :
    forallb (body_line_ok keys) body = true -> forallb has_ink body = true ->
    (forall x i, In x items -> vals_ident (tb x i) = true) ->
    block_wf tb items body = true.
  Proof.
    intros Hb Hi Hv. unfold block_wf.
    assert (G : forall its k, (forall x, In x its -> In x items) ->
      forallb (fun ix => forallb (fun kv => no_lg (snd kv)) (tb (snd ix) (fst ix))
                         && forallb (fun l => let out := render_line (map (subst16 (tb (snd ix) (fst ix))) l) in
                                              negb (isspace out) && negb (unmodelled out)) body) (enumerate_from k its) = true).
    { induction its as [|x its IH]; intros k Hs; [reflexivity|]. cbn [enumerate_from forallb fst snd].
      apply andb_true_intro. split; [|exact (IH (S k) (fun y Hy => Hs y (or_intror Hy)))].
      pose proof (Hv x k (Hs x (or_introl eq_refl))) as Hx. pose proof (vals_ident_no_lg _ Hx) as Hl.
      apply andb_true_intro. split; [exact Hl|].
      clear IH. revert Hb Hi. induction body as [|l body IHb]; intros Hb Hi; [reflexivity|].
      cbn [forallb] in Hb, Hi. apply andb_prop in Hb as [B1 B2]. apply andb_prop in Hi as [I1 I2].
      cbn [forallb]. rewrite (IHb B2 I2), andb_true_r.
      unfold body_line_ok in B1. repeat (apply andb_prop in B1 as [B1 ?K]).
      assert (Tf : tagfree (render_line (map (subst16 (tb x k)) l)) = true).
      { apply copy_tagfree; [exact B1|rewrite Hkeys; exact K2|exact Hl]. }
      rewrite (tagfree_unmodelled _ Tf). cbn [negb]. rewrite andb_true_r. apply negb_true_iff.
      unfold isspace, render_line. rewrite all_ws_app, (ink_copy _ l I1). apply andb_false_r. }
    apply G. auto.
  Qed.
End BlockWf.

Theorem names_wf16 e t :
  names_fine e -> forallb item16_ok t = true -> inky t = true -> user_lines_plain e t = true -> wf_elements16 t e = true.
Proof.
  intros Hn Hg Hi Hu. unfold wf_elements16, inky, user_lines_plain in *. induction t as [|it t IH]; [reflexivity|].
  cbn [forallb] in *. apply andb_prop in Hg as [G1 G2]. apply andb_prop in Hi as [I1 I2]. apply andb_prop in Hu as [U1 U2]. rewrite (IH G2 I2 U2), andb_true_r.
  destruct it as [l|s|k ib ie body|ib ie body|ib ie body|ib ie body|ib ie sfx body|il|ul|pre ee]; cbn [item16_wf item16_ok] in *; try reflexivity; [| |discriminate|discriminate|discriminate|discriminate| |discriminate].
  - apply andb_prop in G1 as [_ G1]. apply (block_wf_names (table_of_kind k) (keys_of k) (keys_same k)); try assumption.
    intros x i Hx. apply kind_table_ident. exact (items_names e k x Hn Hx).
  - apply andb_prop in G1 as [_ G1]. apply (block_wf_names sig_table sig_keys sig_keys_same); try assumption.
    intros x i Hx. destruct (sigs_names e x Hn Hx). apply sig_table_ident; assumption.
  - apply andb_prop in U1 as [_ U1]. exact U1.
Qed.
