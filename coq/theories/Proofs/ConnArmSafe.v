(* C14, the __arm__ configuration (Model/ConnArm.v): safety on EVERY input, for every LargestMessageSize() the receiver may
   announce.  Invariant of the reachable states: the array keeps its FRAGMENT_BUF_SIZE bytes; while the exceed flag is set a
   message is being parsed over (required > 0) and nothing is copied; while it is clear the counted bytes are really in the
   array (count <= capacity, starting with the preamble) and either less than a header is buffered (required = 0) or a header
   whose message fits the largest message size (<= capacity), with required = message size - count. *)
From Coq Require Import String Ascii List Bool Arith NArith ZArith Lia.
From KV Require Import Lib.Str Lib.ByteSeq Gen.CxxConn Model.Conn Model.ConnArm
                       Proofs.ByteSeqProofs Proofs.ConnProofs Proofs.ConnSafe.
Import ListNotations.
Open Scope N_scope.
Open Scope list_scope.

Lemma cap_eq : cap = 512.
Proof. reflexivity. Qed.

Lemma w16_lt x : w16 x < 65536.
Proof. unfold w16, wrap. change (2 ^ arm_cnt_bits) with 65536. apply N.mod_lt. lia. Qed.

Lemma w16_small x : x < 65536 -> w16 x = x.
Proof. intros H. unfold w16, wrap. change (2 ^ arm_cnt_bits) with 65536. apply N.mod_small. exact H. Qed.

Lemma eff_largest_le lms : eff_largest lms <= cap.
Proof.
  unfold eff_largest. change arm_largest_capped with true. cbv iota.
  destruct (N.ltb_spec cap (wrap arm_largest_bits lms)); lia.
Qed.

Lemma len_take n (l : list byte) : n <= len l -> len (take n l) = n.
Proof. intros H. unfold take, len in *. rewrite firstn_length. lia. Qed.

Lemma len_drop n (l : list byte) : len (drop n l) = len l - n.
Proof. unfold drop, len. rewrite skipn_length. lia. Qed.

Lemma take_app_low n (a b : list byte) : n <= len a -> take n (a ++ b) = take n a.
Proof.
  intros H. unfold take, len in *. rewrite firstn_app.
  replace (N.to_nat n - length a)%nat with 0%nat by lia. cbn [firstn]. apply app_nil_r.
Qed.

Lemma take_take n m (l : list byte) : n <= m -> take n (take m l) = take n l.
Proof. intros H. unfold take. rewrite firstn_firstn. f_equal. lia. Qed.

Lemma slice_app2 (a b : list byte) : slice (len a) (len b) (a ++ b) = Some b.
Proof. rewrite <- (app_nil_r b) at 2. apply slice_app. Qed.

(* ---- write ---- *)
Lemma write_some (a : list byte) off b : off + len b <= len a ->
  write a off b = Some (take off a ++ b ++ drop (off + len b) a).
Proof. intros H. unfold write. apply N.leb_le in H. rewrite H. reflexivity. Qed.

Lemma write_inv (a : list byte) off b a' : write a off b = Some a' ->
  off + len b <= len a /\ a' = take off a ++ b ++ drop (off + len b) a.
Proof.
  unfold write. destruct (N.leb_spec (off + len b) (len a)); [| discriminate].
  intros E. injection E as <-. auto.
Qed.

Lemma write_len (a : list byte) off b a' : write a off b = Some a' -> len a' = len a.
Proof.
  intros H. destruct (write_inv _ _ _ _ H) as [Hl ->].
  rewrite !len_app, len_take, len_drop by lia. lia.
Qed.

Lemma write_take (a : list byte) off b a' : write a off b = Some a' -> take (off + len b) a' = take off a ++ b.
Proof.
  intros H. destruct (write_inv _ _ _ _ H) as [Hl ->].
  rewrite app_assoc.
  replace (off + len b) with (len (take off a ++ b)) at 1 by (rewrite len_app, len_take by lia; reflexivity).
  apply take_app_exact.
Qed.

Lemma write_take_low (a : list byte) off b a' n : write a off b = Some a' -> n <= off -> take n a' = take n a.
Proof.
  intros H Hn. destruct (write_inv _ _ _ _ H) as [Hl ->].
  rewrite take_app_low by (rewrite len_take by lia; lia). apply take_take. exact Hn.
Qed.

Lemma payload_size_take8 (a b : list byte) : take 8 a = take 8 b -> payload_size a = payload_size b.
Proof.
  intros H. rewrite !payload_size_eq.
  rewrite <- (firstn_skipn_firstn 4 4 a), <- (firstn_skipn_firstn 4 4 b).
  change (4 + 4)%nat with (N.to_nat 8). fold (take 8 a). fold (take 8 b). rewrite H. reflexivity.
Qed.

(* ---- PutIntoFragmentBuffer ---- *)
Lemma aput_exc st off n data : exc st = true ->
  aput st off n data = Some (mkA (arr st) (w16 (cnt st + n)) true (areq st)).
Proof. intros H. unfold aput. rewrite H. reflexivity. Qed.

Lemma aput_copy st off n data : exc st = false -> off + n <= len data -> cnt st + n <= len (arr st) ->
  exists bytes a', slice off n data = Some bytes /\ len bytes = n /\ write (arr st) (cnt st) bytes = Some a' /\
    aput st off n data = Some (mkA a' (w16 (cnt st + n)) false (areq st)).
Proof.
  intros He Hd Ha. destruct (slice_some off n data Hd) as (bytes & Hs & Hl).
  exists bytes, (take (cnt st) (arr st) ++ bytes ++ drop (cnt st + len bytes) (arr st)).
  repeat split; auto.
  - apply write_some. lia.
  - unfold aput. rewrite He, Hs, write_some by lia. reflexivity.
Qed.

Section ArmSafe.
  Variables p0 p1 : byte.
  Variable largest : N.
  Hypothesis Hlargest : largest <= cap.

  Notation starts := (starts_ok p0 p1).

  Definition ainv (st : astate) : Prop :=
    len (arr st) = cap /\ cnt st < 65536 /\ areq st < 4294967296 /\
    (exc st = true -> 0 < areq st) /\
    (exc st = false ->
       cnt st <= cap /\ starts (take (cnt st) (arr st)) /\
       ((areq st = 0 /\ cnt st < 8) \/
        (8 <= cnt st /\ oversize (payload_size (arr st)) = false /\
         8 + payload_size (arr st) <= largest /\ cnt st < 8 + payload_size (arr st) /\
         areq st = 8 + payload_size (arr st) - cnt st))).

  Definition aok (o : aoutcome) : Prop := exists st ds, o = ADone st ds /\ ainv st.

  Lemma aok_done st ds : ainv st -> aok (ADone st ds).
  Proof. intros H. exists st, ds. auto. Qed.

  Lemma aok_deliver m o : aok o -> aok (adeliver m o).
  Proof. intros (st & ds & -> & H). exists st, (m :: ds). auto. Qed.

  Lemma ainv_areset st : len (arr st) = cap -> ainv (areset st).
  Proof.
    intros H. unfold ainv, areset. cbn [arr cnt exc areq]. repeat split; try lia; try discriminate.
  Qed.

  Lemma ainv_init : ainv ainit.
  Proof.
    apply (ainv_areset ainit). unfold ainit, len. cbn [arr]. rewrite repeat_length. lia.
  Qed.

  (* an invariant state in which a message is being parsed over *)
  Lemma ainv_exc a c r : len a = cap -> c < 65536 -> 0 < r -> r < 4294967296 -> ainv (mkA a c true r).
  Proof. intros. unfold ainv. cbn [arr cnt exc areq]. repeat split; auto; discriminate. Qed.

  Lemma starts_assert a n : starts (take n a) -> 2 <= n -> n <= len a -> assert_ok p0 p1 a = true.
  Proof.
    intros Hs Hn Hl.
    destruct a as [| x [| y a']]; try (rewrite ?len_cons, ?len_nil in Hl; lia).
    unfold take in Hs. destruct (N.to_nat n) as [| [| k]] eqn:E; try lia.
    cbn [firstn starts_ok] in Hs. destruct Hs as [-> ->]. cbn [assert_ok]. rewrite !Ascii.eqb_refl. reflexivity.
  Qed.

  Section Handle.
    Variable rec : astate -> list byte -> aoutcome.

    Lemma aok_cont st parsed data :
      ainv st -> data <> [] -> 0 < parsed ->
      (forall st' d, ainv st' -> (length d < length data)%nat -> aok (rec st' d)) ->
      aok (acont rec st parsed data).
    Proof.
      intros Hi Hd Hp Hshort. unfold acont. destruct (parsed <? len data).
      - apply Hshort; [exact Hi | apply drop_shorter; assumption].
      - apply aok_done. exact Hi.
    Qed.

    Lemma handle_arm_safe st0 data :
      ainv st0 -> data <> [] -> len data + 65536 <= 4294967296 -> (cnt st0 = 0 -> starts data) ->
      (forall st' d, ainv st' -> (length d < length data)%nat -> aok (rec st' d)) ->
      (cnt st0 <> 0 -> forall st', ainv st' -> cnt st' = 0 -> aok (rec st' data)) ->
      aok (handle_arm p0 p1 largest rec st0 data).
    Proof.
      intros Hinv Hd H32 Hsd Hshort Hsame.
      pose proof (len_pos data Hd) as Hdpos. pose proof cap_eq as Hcap.
      pose proof Hinv as Hinv0.
      destruct Hinv as (Hlen & Hc16 & Hr32 & Hexc & Hnex).
      unfold handle_arm. rewrite size_of_header_eq.
      destruct ((0 <? cnt st0) || (len data <? 8)) eqn:Efrag.
      - (* HandleFragmentedData *)
        assert (cnt st0 = 0 -> len data < 8) as Hc0.
        { intros E. rewrite E in Efrag. cbn [orb] in Efrag. change (0 <? 0) with false in Efrag. cbn [orb] in Efrag.
          apply N.ltb_lt. exact Efrag. }
        unfold handle_fragmented_arm. cbv beta iota zeta.
        destruct ((cnt st0 =? 1) && negb (Ascii.eqb (hd0 data) p1)) eqn:Ec.
        { apply andb_true_iff in Ec. destruct Ec as [Ec1 _]. apply N.eqb_eq in Ec1.
          destruct (Ascii.eqb (hd0 data) p0).
          - apply Hsame; [lia | apply ainv_areset; exact Hlen | reflexivity].
          - apply aok_done, ainv_areset. exact Hlen. }
        assert (cnt st0 = 1 -> data <> [] -> hd0 data = p1) as Hone.
        { intros H1 _. apply N.eqb_eq in H1. rewrite H1 in Ec. cbn [andb] in Ec.
          apply negb_false_iff in Ec. apply Ascii.eqb_eq in Ec. exact Ec. }
        rewrite (w32_small (len data + cnt st0)) by lia.
        rewrite size_of_header_eq.
        set (total := len data + cnt st0).
        destruct (exc st0 || (cap <? total)) eqn:Eexc.
        + (* the exceed flag is (now) set: nothing is copied *)
          assert (exc st0 = false -> cap < total) as Hwhy.
          { intros E. rewrite E in Eexc. cbn [orb] in Eexc. apply N.ltb_lt. exact Eexc. }
          unfold set_exc. cbn [areq arr cnt exc].
          destruct (N.eqb_spec (areq st0) 0) as [Hr0 | Hr0].
          * (* required = 0: the flag was clear before, so a header fragment (1..7 bytes) is pending and total > capacity *)
            destruct (exc st0) eqn:E0; [specialize (Hexc eq_refl); lia |].
            destruct (Hnex eq_refl) as (Hcc & Hst & [[_ Hc8] | (Hc8 & _)]); [| lia].
            specialize (Hwhy eq_refl).
            assert (cnt st0 <> 0) as Hcn0 by (intros E; specialize (Hc0 E); unfold total in Hwhy; lia).
            assert (total <? 8 = false) as Ht8 by (apply N.ltb_ge; lia). rewrite Ht8.
            rewrite (sub32_small 8 (cnt st0)) by lia.
            rewrite aput_exc by reflexivity. cbn [arr cnt exc areq].
            set (st1 := mkA (arr st0) (w16 (cnt st0 + (8 - cnt st0))) true (areq st0)).
            destruct (oversize (payload_size (arr st0))) eqn:Eo.
            { apply (Hsame Hcn0); [apply ainv_areset; exact Hlen | reflexivity]. }
            apply oversize_false_iff in Eo.
            rewrite (w32_small (8 + payload_size (arr st0))) by lia.
            unfold set_exc. cbn [arr cnt exc areq orb].
            destruct (N.ltb_spec total (8 + payload_size (arr st0))) as [Hin | Hout].
            -- rewrite aput_exc by reflexivity. apply aok_done. unfold set_req. cbn [arr cnt exc areq].
               set (c2 := w16 (w16 (cnt st0 + (8 - cnt st0)) + sub32 (len data) (8 - cnt st0))).
               assert (c2 <= total) as Hc2.
               { unfold c2. rewrite (w16_small (cnt st0 + (8 - cnt st0))) by lia.
                 rewrite sub32_small by (unfold total in *; lia).
                 unfold w16, wrap. change (2 ^ arm_cnt_bits) with 65536.
                 etransitivity; [apply N.mod_le; lia |]. unfold total. lia. }
               rewrite sub32_small by lia.
               apply ainv_exc; [exact Hlen | apply w16_lt | lia | lia].
            -- rewrite aput_exc by reflexivity. cbn [exc arr cnt areq].
               rewrite (sub32_small (8 + payload_size (arr st0)) 8) by lia.
               rewrite (w32_small (8 - cnt st0 + (8 + payload_size (arr st0) - 8))) by lia.
               apply aok_cont; auto; [apply ainv_areset; exact Hlen | lia].
          * (* required > 0 *)
            destruct (N.ltb_spec (len data) (areq st0)) as [Hin | Hout].
            -- rewrite aput_exc by reflexivity. apply aok_done. unfold set_req. cbn [arr cnt exc areq].
               rewrite sub32_small by lia. apply ainv_exc; [exact Hlen | apply w16_lt | lia | lia].
            -- rewrite aput_exc by reflexivity. cbn [exc arr cnt areq].
               apply aok_cont; auto; [apply ainv_areset; exact Hlen | lia].
        + (* the flag stays clear: everything counted is in the array and total <= capacity *)
          apply orb_false_iff in Eexc. destruct Eexc as [E0 Ecap]. apply N.ltb_ge in Ecap.
          destruct (Hnex E0) as (Hcc & Hst & Hcases).
          assert (set_exc st0 false = st0) as Eset by (destruct st0; cbn in *; subst; reflexivity).
          rewrite Eset.
          assert (starts (take (cnt st0) (arr st0) ++ data)) as Hsbd.
          { apply starts_ok_app; auto.
            - intros E. apply Hsd. apply len_zero in E || idtac.
              destruct (N.eq_dec (cnt st0) 0) as [Ez | Ez]; [exact Ez |].
              exfalso. assert (len (take (cnt st0) (arr st0)) = cnt st0) as Hl by (apply len_take; lia).
              rewrite E, len_nil in Hl. lia.
            - intros H1 Hne. apply Hone; auto. rewrite len_take in H1 by lia. exact H1. }
          destruct Hcases as [[Hr0 Hc8] | (Hc8 & Hov & Hfit & Hlt & Hr)].
          * rewrite Hr0. change (0 =? 0) with true. cbv iota.
            destruct (N.ltb_spec total 8) as [Ht8 | Ht8].
            -- (* still less than a header *)
               destruct (aput_copy st0 0 (len data) data E0) as (bytes & a' & Hsl & Hlb & Hw & ->); [lia | unfold total in *; lia |].
               assert (bytes = data) as ->.
               { unfold slice in Hsl. cbn [N.add] in Hsl. rewrite N.leb_refl in Hsl. injection Hsl as <-.
                 rewrite drop_zero. apply take_all. }
               apply aok_done. unfold ainv. cbn [arr cnt exc areq].
               rewrite (w16_small (cnt st0 + len data)) by lia.
               rewrite (write_len _ _ _ _ Hw). unfold total in *. repeat split; try lia; try discriminate.
               rewrite (write_take _ _ _ _ Hw). exact Hsbd.
            -- (* the header completes in this data *)
               assert (cnt st0 <> 0) as Hcn0 by (intros E; specialize (Hc0 E); unfold total in *; lia).
               rewrite (sub32_small 8 (cnt st0)) by lia.
               destruct (aput_copy st0 0 (8 - cnt st0) data E0) as (h & a1 & Hsl & Hlh & Hw1 & ->);
                 [unfold total in *; lia | lia |].
               cbn [arr cnt exc areq].
               pose proof (write_len _ _ _ _ Hw1) as Hl1.
               rewrite (w16_small (cnt st0 + (8 - cnt st0))) by lia.
               replace (cnt st0 + (8 - cnt st0)) with 8 by lia.
               destruct (slice_split _ _ _ _ Hsl) as (pre & d2 & Hdata & Hpre & _).
               apply len_zero in Hpre. subst pre. cbn [app] in Hdata.
               assert (take 8 a1 = take (cnt st0) (arr st0) ++ h) as Ht1.
               { replace 8 with (cnt st0 + len h) by lia. apply (write_take _ _ _ _ Hw1). }
               destruct (oversize (payload_size a1)) eqn:Eo.
               { apply (Hsame Hcn0); [apply ainv_areset; cbn [arr]; lia | reflexivity]. }
               apply oversize_false_iff in Eo.
               rewrite (w32_small (8 + payload_size a1)) by lia.
               set (ms := 8 + payload_size a1).
               assert (len data = len h + len d2) as Hld by (rewrite Hdata, len_app; reflexivity).
               assert (starts ((take (cnt st0) (arr st0) ++ h) ++ d2)) as Hs2.
               { rewrite <- app_assoc, <- Hdata. exact Hsbd. }
               unfold set_exc. cbn [arr cnt exc areq orb].
               destruct (N.ltb_spec largest ms) as [Hbig | Hfits].
               ++ (* larger than the largest message: parsed over from here on *)
                  destruct (N.ltb_spec total ms) as [Hin | Hout].
                  ** rewrite aput_exc by reflexivity. apply aok_done. unfold set_req. cbn [arr cnt exc areq].
                     rewrite (sub32_small (len data) (8 - cnt st0)) by (unfold total in *; lia).
                     rewrite (w16_small (8 + (len data - (8 - cnt st0)))) by (unfold total in *; lia).
                     rewrite sub32_small by (unfold total in *; lia).
                     apply ainv_exc; [lia | unfold total in *; lia | unfold total in *; lia | unfold ms; lia].
                  ** rewrite aput_exc by reflexivity. cbn [exc arr cnt areq].
                     rewrite (sub32_small ms 8) by (unfold ms; lia).
                     rewrite (w32_small (8 - cnt st0 + (ms - 8))) by (unfold ms; lia).
                     apply aok_cont; auto; [apply ainv_areset; cbn [arr]; lia | lia].
               ++ destruct (N.ltb_spec total ms) as [Hin | Hout].
                  ** (* the message is not complete: buffer the rest of the data *)
                     rewrite (sub32_small (len data) (8 - cnt st0)) by (unfold total in *; lia).
                     destruct (aput_copy (mkA a1 8 false (areq st0)) (8 - cnt st0) (len data - (8 - cnt st0)) data eq_refl)
                       as (r & a2 & Hsl2 & Hlr & Hw2 & ->); [lia | cbn [cnt arr]; unfold total in *; lia |].
                     cbn [arr cnt exc areq] in *.
                     assert (r = d2) as ->.
                     { rewrite Hdata in Hsl2. rewrite <- Hlh in Hsl2.
                       replace (len (h ++ d2) - len h) with (len d2) in Hsl2 by (rewrite len_app; lia).
                       rewrite slice_app2 in Hsl2. injection Hsl2 as <-. reflexivity. }
                     apply aok_done. unfold set_req, ainv. cbn [arr cnt exc areq].
                     pose proof (write_len _ _ _ _ Hw2) as Hl2.
                     rewrite (w16_small (8 + (len data - (8 - cnt st0)))) by (unfold total in *; lia).
                     assert (payload_size a2 = payload_size a1) as Hps.
                     { apply payload_size_take8. apply (write_take_low _ _ _ _ 8 Hw2). lia. }
                     rewrite Hps. rewrite sub32_small by (unfold total, ms in *; lia).
                     unfold total, ms in *. repeat split; try lia; try discriminate.
                     --- replace (8 + (len data - (8 - cnt st0))) with (8 + len d2) by lia.
                         rewrite (write_take _ _ _ _ Hw2), Ht1. exact Hs2.
                     --- right. repeat split; try lia. apply oversize_false_iff. lia.
                  ** (* the message completes *)
                     rewrite (sub32_small ms 8) by (unfold ms; lia).
                     destruct (aput_copy (mkA a1 8 false (areq st0)) (8 - cnt st0) (ms - 8) data eq_refl)
                       as (r & a2 & Hsl2 & Hlr & Hw2 & ->); [unfold total, ms in *; lia | cbn [cnt arr]; unfold ms in *; lia |].
                     cbn [arr cnt exc areq] in *.
                     pose proof (write_len _ _ _ _ Hw2) as Hl2.
                     rewrite (w32_small (8 - cnt st0 + (ms - 8))) by (unfold ms; lia).
                     assert (starts (take (8 + len r) a2)) as Hs3.
                     { rewrite (write_take _ _ _ _ Hw2), Ht1.
                       destruct (slice_split _ _ _ _ Hsl2) as (pre & c3 & Hd3 & Hpre & _).
                       rewrite <- app_assoc. apply starts_ok_app; auto.
                       - intros E. exfalso. assert (len (take (cnt st0) (arr st0)) = cnt st0) as Hl by (apply len_take; lia).
                         rewrite E, len_nil in Hl. lia.
                       - intros H1 Hne. rewrite len_take in H1 by lia.
                         destruct h as [| z h']; [rewrite len_nil in Hlh; lia |].
                         cbn [app hd0 hd]. rewrite Hdata in Hone. cbn [app hd0 hd] in Hone. apply Hone; [exact H1 | discriminate]. }
                     rewrite (starts_assert a2 (8 + len r) Hs3) by (unfold ms in *; lia).
                     unfold deliver_from_buffer. cbn [arr].
                     assert (ms <=? len a2 = true) as Hms by (apply N.leb_le; unfold ms in *; lia). rewrite Hms.
                     apply aok_deliver. apply aok_cont; auto; [apply ainv_areset; cbn [arr]; lia | lia].
          * (* a header is buffered: required = message size - count > 0 *)
            apply oversize_false_iff in Hov.
            assert (areq st0 =? 0 = false) as Hr0 by (apply N.eqb_neq; lia). rewrite Hr0. cbv iota.
            destruct (N.ltb_spec (len data) (areq st0)) as [Hin | Hout].
            -- destruct (aput_copy st0 0 (len data) data E0) as (bytes & a' & Hsl & Hlb & Hw & ->); [lia | unfold total in *; lia |].
               assert (bytes = data) as ->.
               { unfold slice in Hsl. cbn [N.add] in Hsl. rewrite N.leb_refl in Hsl. injection Hsl as <-.
                 rewrite drop_zero. apply take_all. }
               apply aok_done. unfold set_req, ainv. cbn [arr cnt exc areq].
               rewrite (w16_small (cnt st0 + len data)) by lia.
               pose proof (write_len _ _ _ _ Hw) as Hl'.
               assert (payload_size a' = payload_size (arr st0)) as Hps.
               { apply payload_size_take8. apply (write_take_low _ _ _ _ 8 Hw). lia. }
               rewrite Hps. rewrite sub32_small by lia.
               unfold total in *. repeat split; try lia; try discriminate.
               ++ rewrite (write_take _ _ _ _ Hw). exact Hsbd.
               ++ right. repeat split; try lia. apply oversize_false_iff. lia.
            -- destruct (aput_copy st0 0 (areq st0) data E0) as (r & a' & Hsl & Hlr & Hw & ->); [lia | lia |].
               cbn [arr cnt exc areq].
               pose proof (write_len _ _ _ _ Hw) as Hl'.
               rewrite (w16_small (cnt st0 + areq st0)) by lia.
               assert (starts (take (cnt st0 + len r) a')) as Hs3.
               { rewrite (write_take _ _ _ _ Hw). apply starts_ok_app; auto.
                 - intros E. exfalso. assert (len (take (cnt st0) (arr st0)) = cnt st0) as Hl by (apply len_take; lia).
                   rewrite E, len_nil in Hl. lia.
                 - intros H1. rewrite len_take in H1 by lia. lia. }
               rewrite (starts_assert a' (cnt st0 + len r) Hs3) by lia.
               unfold deliver_from_buffer. cbn [arr].
               assert (cnt st0 + areq st0 <=? len a' = true) as Hms by (apply N.leb_le; lia). rewrite Hms.
               apply aok_deliver. apply aok_cont; auto; [apply ainv_areset; cbn [arr]; lia | lia].
      - (* HandleUnfragmentedData: nothing counted, at least a header in the data *)
        apply orb_false_iff in Efrag. destruct Efrag as [Ec0 Ed8]. apply N.ltb_ge in Ec0. apply N.ltb_ge in Ed8.
        assert (cnt st0 = 0) as Hc0 by lia.
        unfold handle_unfragmented_arm. cbv beta iota zeta. rewrite size_of_header_eq.
        apply N.ltb_ge in Ed8. rewrite Ed8. apply N.ltb_ge in Ed8.
        destruct (oversize (payload_size data)) eqn:Eo.
        { apply Hshort; [exact Hinv0 | apply drop_shorter; [lia | exact Hd]]. }
        apply oversize_false_iff in Eo.
        rewrite (w32_small (8 + payload_size data)) by lia.
        set (ms := 8 + payload_size data).
        destruct (N.ltb_spec (len data) ms) as [Hin | Hout].
        + destruct (exc st0 || (largest <? ms)) eqn:Eexc.
          * rewrite aput_exc by reflexivity. apply aok_done. unfold set_req, set_exc. cbn [arr cnt exc areq].
            rewrite sub32_small by (unfold ms; lia).
            apply ainv_exc; [exact Hlen | apply w16_lt | lia | unfold ms; lia].
          * apply orb_false_iff in Eexc. destruct Eexc as [E0 Efit]. apply N.ltb_ge in Efit.
            assert (set_exc st0 false = st0) as Eset by (destruct st0; cbn in *; subst; reflexivity).
            rewrite Eset.
            destruct (aput_copy st0 0 (len data) data E0) as (bytes & a' & Hsl & Hlb & Hw & ->); [lia | lia |].
            assert (bytes = data) as ->.
            { unfold slice in Hsl. cbn [N.add] in Hsl. rewrite N.leb_refl in Hsl. injection Hsl as <-.
              rewrite drop_zero. apply take_all. }
            apply aok_done. unfold set_req, ainv. cbn [arr cnt exc areq].
            rewrite Hc0 in *. cbn [N.add] in *.
            rewrite (w16_small (len data)) by lia.
            pose proof (write_len _ _ _ _ Hw) as Hl'.
            pose proof (write_take _ _ _ _ Hw) as Ht. cbn [N.add] in Ht. unfold take at 2 in Ht. cbn [N.to_nat firstn app] in Ht.
            assert (payload_size a' = payload_size data) as Hps.
            { apply payload_size_take8. rewrite <- (take_take 8 (len data) a') by lia. rewrite Ht. reflexivity. }
            rewrite Hps. rewrite sub32_small by (unfold ms; lia).
            repeat split; try lia; try discriminate.
            -- rewrite Ht. apply Hsd. reflexivity.
            -- right. unfold ms in *. repeat split; try lia. apply oversize_false_iff. lia.
        + apply aok_deliver. destruct (ms <? len data).
          * apply Hshort; [exact Hinv0 | apply drop_shorter; [unfold ms; lia | exact Hd]].
          * apply aok_done. exact Hinv0.
    Qed.
  End Handle.

  Definition apend (st : astate) : nat := if cnt st =? 0 then 0%nat else 1%nat.

  Lemma on_data_arm_safe : forall fuel st data,
    ainv st -> len data + 65536 <= 4294967296 -> (2 * length data + apend st < fuel)%nat ->
    aok (on_data_arm p0 p1 largest fuel st data).
  Proof.
    induction fuel as [| f IH]; intros st data Hinv H32 Hfuel; [lia |].
    cbn [on_data_arm]. cbv zeta.
    destruct data as [| x data'] eqn:Edata.
    - rewrite len_nil. change (0 =? 0) with true. cbv iota. apply aok_done. exact Hinv.
    - rewrite <- Edata in *. assert (data <> []) as Hd by (rewrite Edata; discriminate).
      pose proof (len_pos data Hd) as Hdpos.
      assert (len data =? 0 = false) as Hz by (apply N.eqb_neq; lia). rewrite Hz.
      assert (forall st' d, ainv st' -> (length d < length data)%nat -> aok (on_data_arm p0 p1 largest f st' d)) as Hshort.
      { intros st' d Hi Hl. apply IH; [exact Hi | unfold len in *; lia |]. unfold apend in *. destruct (cnt st' =? 0); destruct (cnt st =? 0); lia. }
      assert (cnt st <> 0 -> forall st', ainv st' -> cnt st' = 0 -> aok (on_data_arm p0 p1 largest f st' data)) as Hsame.
      { intros Hc st' Hi Hc'. apply IH; [exact Hi | exact H32 |]. unfold apend in *. rewrite Hc'. change (0 =? 0) with true. cbv iota.
        apply N.eqb_neq in Hc. rewrite Hc in Hfuel. lia. }
      destruct (N.eqb_spec (cnt st) 0) as [Hc0 | Hc0].
      + destruct (N.eqb_spec (len data) 1) as [H1 | H1].
        * destruct (Ascii.eqb (hd0 data) p0) eqn:Eh; [| apply aok_done; exact Hinv].
          apply (handle_arm_safe (on_data_arm p0 p1 largest f) st data Hinv Hd H32); [| exact Hshort | exact Hsame].
          intros _. rewrite Edata in *. destruct data' as [| y data'']; [| rewrite !len_cons in H1; lia].
          cbn [starts_ok hd0 hd] in *. apply Ascii.eqb_eq. exact Eh.
        * destruct (find_preamble p0 p1 data) as [i |] eqn:Efp; [| apply aok_done; exact Hinv].
          destruct (fp_spec p0 p1 data 0 i Efp) as (j & Hi & Hs & Hn).
          assert (drop i data = skipn j data) as Edrop.
          { unfold drop. rewrite Hi. cbn [N.add]. rewrite Nat2N.id. reflexivity. }
          rewrite Edrop.
          assert (length (skipn j data) <= length data)%nat as Hle by (rewrite skipn_length; lia).
          apply (handle_arm_safe (on_data_arm p0 p1 largest f) st (skipn j data) Hinv Hn).
          -- unfold len in *. lia.
          -- intros _. exact Hs.
          -- intros st' d Hi' Hl. apply Hshort; [exact Hi' | lia].
          -- intros Hb. congruence.
      + apply (handle_arm_safe (on_data_arm p0 p1 largest f) st data Hinv Hd H32); [| exact Hshort | exact Hsame].
        intros Hb. congruence.
  Qed.

  Definition achunk_ok (c : list byte) : bool := len c + 65536 <=? 4294967296.

  Lemma feed_arm_safe : forall chunks st, ainv st -> forallb achunk_ok chunks = true ->
    aok (feed_arm p0 p1 largest st chunks).
  Proof.
    induction chunks as [| c r IH]; intros st Hinv Hc.
    - cbn [feed_arm]. apply aok_done. exact Hinv.
    - cbn [forallb] in Hc. apply andb_true_iff in Hc. destruct Hc as [Hc Hr].
      unfold achunk_ok in Hc. apply N.leb_le in Hc. cbn [feed_arm].
      destruct (on_data_arm_safe (fuel_for c) st c Hinv Hc) as (st1 & ds1 & -> & Hinv1).
      { unfold fuel_for, apend. destruct (cnt st =? 0); lia. }
      destruct (IH st1 Hinv1 Hr) as (st2 & ds2 & -> & Hinv2).
      exists st2, (ds1 ++ ds2). auto.
  Qed.
End ArmSafe.

(* the model of the (repaired) __arm__ configuration is memory-safe and terminates on every input, whatever
   LargestMessageSize() the receiver announces *)
Theorem arm_safe_on_every_input p0 p1 lms chunks :
  forallb achunk_ok chunks = true ->
  exists st ds, feed_arm p0 p1 (eff_largest lms) ainit chunks = ADone st ds /\ ainv p0 p1 (eff_largest lms) st.
Proof.
  intros Hc. apply (feed_arm_safe p0 p1 (eff_largest lms) (eff_largest_le lms) chunks ainit); [apply ainv_init; apply eff_largest_le | exact Hc].
Qed.
