(* str.replace of a tag <<<k>>> acts segment-wise on a rendered template line (lines are rendered from a segment list:
   literal pieces (lit_ok: no "<<<", not beginning with '<') and tags). *)
From Coq Require Import String Ascii List Bool Arith Lia.
From KV Require Import Lib.Str Lib.StrOps Lib.ODict Model.Engine Model.EngineDomain Spec.RefExpand Proofs.StrProofs Proofs.EngineStr.
Import ListNotations.
Open Scope string_scope.
Open Scope list_scope.

Definition pat (k : string) : string := (OPEN3 ++ k ++ CLOSE3)%string.

Lemma no_lg_no_lt s : no_lg s = true -> no_char LT s = true.
Proof.
  induction s as [|c s IH]; [reflexivity|]. cbn [no_lg no_char]. intros H. apply andb_prop in H as [Hc Hs].
  unfold is_lg in Hc. apply negb_true_iff, orb_false_elim in Hc as [Hc _]. rewrite Hc, (IH Hs). reflexivity.
Qed.

Lemma no_char_app c a b : no_char c (a ++ b)%string = no_char c a && no_char c b.
Proof. induction a; cbn [append no_char]; [reflexivity|]. rewrite IHa. apply andb_assoc. Qed.

Lemma prefixb_lt_head k c s : Ascii.eqb c LT = false -> prefixb (pat k) (String c s) = false.
Proof.
  intros H. unfold pat, OPEN3. cbn [append prefixb]. rewrite Ascii.eqb_sym.
  replace (Ascii.eqb c "<"%char) with false by (symmetry; exact H). reflexivity.
Qed.

(* a stretch without '<' is copied *)
Lemma replace_go_nolt k v s r : no_char LT s = true ->
  replace_go (pat k) v 0 (s ++ r)%string = (s ++ replace_go (pat k) v 0 r)%string.
Proof.
  induction s as [|c s IH]; intros H; [reflexivity|].
  cbn [no_char] in H. apply andb_prop in H as [Hc Hs]. apply negb_true_iff in Hc.
  cbn [append replace_go]. rewrite (prefixb_lt_head k c _ Hc), (IH Hs). reflexivity.
Qed.

Lemma replace_go_skip p v : forall s r, replace_go p v (String.length s) (s ++ r)%string = replace_go p v 0 r.
Proof. induction s as [|a s IH]; intros r; [reflexivity|]. cbn [String.length append replace_go]. apply IH. Qed.

Lemma prefixb_app_self p r : prefixb p (p ++ r)%string = true.
Proof. induction p as [|c p IH]; [destruct r; reflexivity|]. cbn [append prefixb]. rewrite ascii_eqb_refl, IH. reflexivity. Qed.

(* the tag itself is replaced *)
Lemma replace_go_hit k v r : replace_go (pat k) v 0 (pat k ++ r)%string = (v ++ replace_go (pat k) v 0 r)%string.
Proof.
  pose proof (prefixb_app_self (pat k) r) as P.
  assert (E : exists c t, pat k = String c t) by (unfold pat, OPEN3; cbn [append]; eauto).
  destruct E as (c & t & E). rewrite E in *. cbn [append] in P. cbn [append replace_go]. rewrite P. f_equal.
  replace (String.length (String c t) - 1) with (String.length t) by (cbn [String.length]; lia). apply replace_go_skip.
Qed.

(* k followed by >>> against body followed by >>> *)
Lemma prefixb_body k : forall body r, no_lg k = true -> no_lg body = true ->
  prefixb (k ++ CLOSE3)%string (body ++ CLOSE3 ++ r)%string = String.eqb k body.
Proof.
  induction k as [|c k IH]; intros body r Hk Hb.
  - destruct body as [|d b]; [reflexivity|]. cbn [no_lg] in Hb. apply andb_prop in Hb as [Hd _].
    unfold is_lg in Hd. apply negb_true_iff, orb_false_elim in Hd as [_ Hd].
    unfold CLOSE3. cbn [append prefixb String.eqb]. rewrite Ascii.eqb_sym.
    replace (Ascii.eqb d ">"%char) with false by (symmetry; exact Hd). reflexivity.
  - cbn [no_lg] in Hk. apply andb_prop in Hk as [Hc Hk].
    destruct body as [|d b].
    + unfold is_lg in Hc. apply negb_true_iff, orb_false_elim in Hc as [_ Hc].
      unfold CLOSE3 at 2. cbn [append prefixb String.eqb].
      replace (Ascii.eqb c ">"%char) with false by (symmetry; exact Hc). reflexivity.
    + cbn [no_lg] in Hb. apply andb_prop in Hb as [_ Hb]. cbn [append prefixb String.eqb]. rewrite (IH b r Hk Hb). reflexivity.
Qed.

Lemma head_not_lt body r : no_lg body = true ->
  exists c t, (body ++ CLOSE3 ++ r)%string = String c t /\ Ascii.eqb c LT = false.
Proof.
  destruct body as [|d b]; intros H.
  - exists ">"%char, (">>" ++ r)%string. split; reflexivity.
  - cbn [no_lg] in H. apply andb_prop in H as [Hd _]. unfold is_lg in Hd. apply negb_true_iff, orb_false_elim in Hd as [Hd _].
    exists d, (b ++ CLOSE3 ++ r)%string. split; [reflexivity|assumption].
Qed.

Lemma replace_go_step p v c s : prefixb p (String c s) = false ->
  replace_go p v 0 (String c s) = String c (replace_go p v 0 s).
Proof. intros H. cbn [replace_go]. rewrite H. reflexivity. Qed.

(* another tag is copied *)
Lemma replace_go_miss k v body r : no_lg k = true -> no_lg body = true -> String.eqb k body = false ->
  replace_go (pat k) v 0 (pat body ++ r)%string = (pat body ++ replace_go (pat k) v 0 r)%string.
Proof.
  intros Hk Hb Hne.
  destruct (head_not_lt body r Hb) as (c & t & E & Hc).
  assert (P0 : prefixb (pat k) (pat body ++ r)%string = false).
  { unfold pat, OPEN3. rewrite !app_assoc_s. cbn [append prefixb]. rewrite !ascii_eqb_refl. cbn [andb].
    rewrite (prefixb_body k body r Hk Hb). exact Hne. }
  assert (P1 : forall x, prefixb (pat k) (String "<" (String "<" (String c x))) = false).
  { intros x. unfold pat, OPEN3. cbn [append prefixb]. rewrite !ascii_eqb_refl. cbn [andb].
    rewrite Ascii.eqb_sym. replace (Ascii.eqb c "<"%char) with false by (symmetry; exact Hc). reflexivity. }
  assert (P2 : forall x, prefixb (pat k) (String "<" (String c x)) = false).
  { intros x. unfold pat, OPEN3. cbn [append prefixb]. rewrite !ascii_eqb_refl. cbn [andb].
    rewrite Ascii.eqb_sym. replace (Ascii.eqb c "<"%char) with false by (symmetry; exact Hc). reflexivity. }
  assert (S : (pat body ++ r)%string = String "<" (String "<" (String "<" (String c t)))).
  { unfold pat, OPEN3. rewrite !app_assoc_s. cbn [append]. rewrite E. reflexivity. }
  rewrite S in P0. rewrite S. rewrite (replace_go_step _ _ _ _ P0), (replace_go_step _ _ _ _ (P1 t)), (replace_go_step _ _ _ _ (P2 t)).
  assert (T : String c t = ((body ++ CLOSE3) ++ r)%string) by (rewrite app_assoc_s; symmetry; exact E).
  rewrite T, replace_go_nolt.
  - unfold pat, OPEN3. rewrite !app_assoc_s. reflexivity.
  - rewrite no_char_app, (no_lg_no_lt body Hb). reflexivity.
Qed.

(* an occurrence of <<<k>>> begins only where exactly three '<' begin *)
Lemma prefix_pat_bad k t : no_lg k = true -> prefixb (pat k) t = true -> bad t = true.
Proof.
  intros Hk H. unfold pat, OPEN3 in H. destruct t as [|c1 [|c2 [|c3 t]]]; cbn [append prefixb] in H; try (rewrite ?andb_false_r in H; discriminate).
  apply andb_prop in H as [H1 H]. apply andb_prop in H as [H2 H]. apply andb_prop in H as [H3 H].
  apply Ascii.eqb_eq in H1, H2, H3. subst. unfold bad, OPEN3. cbn [prefixb]. rewrite !ascii_eqb_refl. cbn [andb].
  destruct t as [|c t]; [reflexivity|]. rewrite andb_true_r. apply negb_true_iff. apply Ascii.eqb_neq. intros E. subst c.
  destruct k as [|d k].
  - unfold CLOSE3 in H. cbn [append prefixb] in H. discriminate.
  - cbn [append prefixb] in H. apply andb_prop in H as [Hd _]. apply Ascii.eqb_eq in Hd. subst d.
    cbn [no_lg] in Hk. discriminate.
Qed.

(* a literal of the grammar is copied *)
Lemma replace_go_lit k v rest : no_lg k = true -> forall s, nobad s rest = true ->
  replace_go (pat k) v 0 (s ++ rest)%string = (s ++ replace_go (pat k) v 0 rest)%string.
Proof.
  intros Hk. induction s as [|c s IH]; intros H; [reflexivity|].
  cbn [nobad] in H. apply andb_prop in H as [Hb Hs]. apply negb_true_iff in Hb.
  change ((String c s ++ rest)%string) with (String c (s ++ rest)%string) in *.
  rewrite replace_go_step; [rewrite (IH Hs); reflexivity|].
  destruct (prefixb (pat k) (String c (s ++ rest))) eqn:E; [|reflexivity]. rewrite (prefix_pat_bad k _ Hk E) in Hb. discriminate.
Qed.

(* ---------------------------------------------------------------- on rendered lines *)
Lemma has_eq_app n d : has_char EQ (n ++ String EQ d)%string = true.
Proof. induction n as [|c n IH]; cbn [append has_char]; [rewrite ascii_eqb_refl; reflexivity|]. rewrite IH. apply orb_true_r. Qed.

Lemma eqb_has_eq k s : has_char EQ k = false -> has_char EQ s = true -> String.eqb k s = false.
Proof. intros Hk Hs. apply String.eqb_neq. intros E. subst. rewrite Hk in Hs. discriminate. Qed.

Lemma render_tag_dflt n d : render_seg (Tag n (Some d)) = pat (n ++ String EQ d).
Proof. unfold pat, OPEN3, CLOSE3. cbn [render_seg]. rewrite !app_assoc_s. reflexivity. Qed.

Lemma replace_render k v : no_lg k = true -> has_char EQ k = false ->
  forall l r, line_ok l = true -> okhead r = true ->
  replace_go (pat k) v 0 (render_body l ++ r)%string = (render_body (map (put k v) l) ++ replace_go (pat k) v 0 r)%string.
Proof.
  intros Hk He. induction l as [|g l IH]; intros r H Hr; [reflexivity|].
  cbn [line_ok forallb] in H. apply andb_prop in H as [Hg Hl]. fold (line_ok l) in Hl.
  cbn [render_body map]. rewrite !app_assoc_s.
  destruct g as [s|n [d|]]; cbn [seg_ok] in Hg.
  - cbn [put is_named render_seg].
    rewrite (replace_go_lit k v _ Hk s (nobad_lit _ (okhead_render l r Hl Hr) s (lit_ok_no3 s Hg))), (IH r Hl Hr). reflexivity.
  - apply andb_prop in Hg as [Hg Hd]. apply andb_prop in Hg as [Hn Hne].
    cbn [put is_named]. rewrite (render_tag_dflt n d).
    rewrite replace_go_miss; [rewrite (IH r Hl Hr); reflexivity|assumption| |].
    + rewrite no_lg_app. cbn [no_lg]. rewrite Hn, Hd. reflexivity.
    + apply eqb_has_eq; [assumption|apply has_eq_app].
  - apply andb_prop in Hg as [Hn Hne]. unfold put. cbn [is_named].
    change (render_seg (Tag n None)) with (pat n).
    destruct (String.eqb n k) eqn:E.
    + apply String.eqb_eq in E. subst n. cbn [render_seg]. rewrite replace_go_hit, (IH r Hl Hr). reflexivity.
    + rewrite replace_go_miss; [rewrite (IH r Hl Hr); reflexivity|assumption|assumption|].
      rewrite String.eqb_sym. exact E.
Qed.

Lemma pat_nonempty k : exists c t, pat k = String c t.
Proof. unfold pat, OPEN3. cbn [append]. eauto. Qed.

(* line.replace("<<<k>>>", v) on a rendered line of the syntax *)
Theorem replace_all_render k v l : no_lg k = true -> has_char EQ k = false -> line_ok l = true ->
  replace_all (pat k) v (render_line l) = render_line (map (put k v) l).
Proof.
  intros Hk He Hl. destruct (pat_nonempty k) as (c & t & E). unfold replace_all. rewrite E, <- E.
  unfold render_line. rewrite (replace_render k v Hk He l nl_str Hl okhead_nl).
  change nl_str with (nl_str ++ "")%string at 1. rewrite (replace_go_nolt k v nl_str "" eq_refl). reflexivity.
Qed.

Lemma put_ok k v l : no_lg v = true -> line_ok l = true -> line_ok (map (put k v) l) = true.
Proof.
  intros Hv. induction l as [|g l IH]; [reflexivity|]. cbn [line_ok forallb map]. intros H. apply andb_prop in H as [Hg Hl].
  fold (line_ok l) in Hl. fold (line_ok (map (put k v) l)). rewrite (IH Hl), andb_true_r.
  unfold put. destruct (is_named k g); [exact (no_lg_lit_ok v Hv)|exact Hg].
Qed.
