(* Shared definitions of the C20 proofs: what the reader is expected to see of each row the writer wrote. *)
From Coq Require Import String List Bool.
From KV Require Import Lib.Str Lib.ODict Gen.VppSrc Model.Vpp Model.VppWriter Spec.VppSpec.
Import ListNotations.
Open Scope string_scope.

(* VPPModelElement built by GetModelElement from a row *)
Definition velem_of (m : melem) : velem :=
  {| ve_id := me_id m; ve_type := me_type m; ve_parent := ostr (me_parent m); ve_name := ostr (me_name m);
     ve_blobstr := py_str_bytes (me_blob m) |}.

(* what Transition.Parse must find in the blob of a well-formed transition *)
Definition parsed (t : dtrans) : ptrans :=
  {| pt_id := t_id t; pt_name := ostr (t_name t); pt_to := Some (t_to t); pt_from := Some (t_from t);
     pt_guard := t_guard t; pt_act := t_effect t |}.

Definition parse_ok (D : diagram) : Prop :=
  (forall t, In t (transitions D) -> parse_transition (velem_of (melem_of_trans t)) = parsed t)
  /\ (forall g, In g (d_guards D) -> parse_guard (velem_of (melem_of_guard g)) = Some (g_text g)).
