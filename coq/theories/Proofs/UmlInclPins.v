(* C19, includes and forward declarations: the list of primitive types, the bodies of IsTypePrimitive / IsTypePointerOrRef /
   CleanModifiersFromType, the branch conditions and loops of the dependency functions (vppclassdiagram.Class, ClassDiagram) and of
   LanguageCPP's include / forward-declaration functions and helpers, the include sections of the C++ templates and the calls umlgen
   makes still have the shape Model/UmlIncl.v was written against (Gen/UmlInclSrc.v is regenerated on every run). *)
From Coq Require Import String Ascii List Bool.
From KV Require Import Lib.Str Gen.UmlInclSrc.
Import ListNotations.
Open Scope string_scope.

Definition includes_expected : Prop :=
  (primitives =
  ["bool"; "boolean"; "char"; "double"; "float"; "int"; "int16"; "int16_t"; "int32"; "int32_t"; "int64"; "int64_t"; "int8"; "int8_t"; "long"; "long int"; "ptrdiff_t"; "short int"; "signed char"; "size_t"; "std::string"; "std::wstring"; "string"; "uint16"; "uint16_t"; "uint32"; "uint32_t"; "uint64"; "uint64_t"; "uint8"; "uint8_t"; "unsigned char"; "unsigned int"; "unsigned long int"; "unsigned short int"; "void"; "wchar_t"; "wstring"])
  /\ (src_IsTypePrimitive = ("global PRIMITIVES" ++ bs [10] ++ "type = CleanModifiersFromType(type)" ++ bs [10] ++ "return type in PRIMITIVES"))
  /\ (src_IsTypePointerOrRef = "return type.find('*') > -1 or type.find('&') > -1")
  /\ (src_CleanModifiersFromType = "return type.replace('*', '').replace('&', '').replace(']', '').replace('[', '').replace('boolean', 'bool')")
  /\ (include_tests =
  [("Class.GetNotForwardDeclarableNonPrimitiveTypesLinkedToThis",
    ["for (id, inheritance) in self.parent_classDiagram.inheritence.items()"; "inheritance.CLASS_TO_ID.find(self.ID) > -1"; "not IsTypePrimitive(inheritance.CLASS_FROM)"; "for attr in self.ATTRIBUTES"; "not IsTypePrimitive(attr.TYPE)"; "not IsTypePointerOrRef(attr.TYPE_MODIFIER)"; "for oper in self.OPERATIONS"; "for params in oper.PARAMETERS"; "not IsTypePrimitive(type)"; "not IsTypePointerOrRef(modifier)"; "not IsTypePrimitive(oper.RETURN_TYPE)"; "not IsTypePointerOrRef(oper.RETURN_TYPE_MODIFIER)"; "for (id, assoc) in self.parent_classDiagram.associations.items()"; "assoc.CLASS_FROM_ID == self.ID"; "assoc.TYPE.lower().find('composition') > -1"; "not IsTypePrimitive(assoc.CLASS_TO)"]);
   ("Class.GetForwardDeclarableNonPrimitiveTypesLinkedToThis",
    ["for attr in self.ATTRIBUTES"; "not IsTypePrimitive(attr.TYPE)"; "IsTypePointerOrRef(attr.TYPE_MODIFIER)"; "for oper in self.OPERATIONS"; "for params in oper.PARAMETERS"; "not IsTypePrimitive(type)"; "IsTypePointerOrRef(modifier)"; "not IsTypePrimitive(oper.RETURN_TYPE)"; "IsTypePointerOrRef(oper.RETURN_TYPE_MODIFIER)"; "for (id, assoc) in self.parent_classDiagram.associations.items()"; "assoc.TYPE.lower().find('association') > -1"; "assoc.CLASS_FROM_ID == self.ID"; "not IsTypePrimitive(assoc.CLASS_TO)"; "assoc.CLASS_TO_ID == self.ID"; "not IsTypePrimitive(assoc.CLASS_FROM)"; "assoc.TYPE.lower().find('aggregation') > -1"; "assoc.CLASS_FROM_ID == self.ID"; "not IsTypePrimitive(assoc.CLASS_TO)"; "for i in filterValue"; "i in filterPtrOrRef"]);
   ("Class.DoAttributesAssociationsReturnTypesOrFunctionParametersRequireVector",
    ["for attr in self.ATTRIBUTES"; "not has_Vector and self.GetContainerMultiplicityType(attr.MULTIPLICITY).find('vector') > -1"; "not has_Vector"; "for attr in associations_as_attributes"; "not has_Vector and self.GetContainerMultiplicityType(attr.MULTIPLICITY).find('vector') > -1"; "not has_Vector"; "for oper in self.OPERATIONS"; "for param in oper.PARAMETERS"; "not has_Vector and self.GetContainerMultiplicityType(param['multiplicity']).find('vector') > -1"; "oper.RETURN_TYPE_MODIFIER.strip().find('[]') > -1"; "for (id, inheritance) in self.parent_classDiagram.inheritence.items()"; "inheritance.CLASS_TO_ID.find(self.ID) > -1"; "inheritance.IS_REALIZATION"; "realizeObj.PURE_VIRTUAL_INTERFACE"]);
   ("Class.GetAssociationsAsListOfAttributesPerVisibility",
    ["for (id, assoc) in self.parent_classDiagram.associations.items()"; "assoc.TYPE.lower().find('composition') > -1"; "assoc.CLASS_FROM_ID == self.ID"; "visibility.lower().strip() == assoc.CLASS_FROM_VISIBILITY.lower().strip() or visibility.lower().strip() == 'all'"; "not IsTypePrimitive(assoc.CLASS_TO)"; "not name"; "assoc.TYPE.lower().find('association') > -1"; "assoc.CLASS_FROM_ID == self.ID"; "visibility.lower().strip() == assoc.CLASS_FROM_VISIBILITY.lower().strip() or visibility.lower().strip() == 'all'"; "not IsTypePrimitive(assoc.CLASS_TO)"; "not name or is_composite"; "is_composite"; "assoc.CLASS_TO_ID == self.ID"; "visibility.lower().strip() == assoc.CLASS_TO_VISIBILITY.lower().strip() or visibility.lower().strip() == 'all'"; "not IsTypePrimitive(assoc.CLASS_FROM)"; "not name or is_composite"; "is_composite"; "assoc.TYPE.lower().find('aggregation') > -1"; "assoc.CLASS_FROM_ID == self.ID"; "visibility.lower().strip() == assoc.CLASS_FROM_VISIBILITY.lower().strip() or visibility.lower().strip() == 'all'"; "not IsTypePrimitive(assoc.CLASS_TO)"; "not name"]);
   ("ClassDiagram.GetNamespaceDependencies",
    ["for (class_uid, classobj) in self.classes.items()"; "not namespace in result"; "for s in set1"; "s.find(namespace) == -1"; "for s in set2"; "s.find(namespace) == -1"]);
   ("LanguageCPP.GetNotForwardDeclarableHeaderIncludes",
    ["isinstance(classObj, Class)"; "filter_out_type_not_in_model"; "include_vector_if_needed"; "classObj.DoAttributesAssociationsReturnTypesOrFunctionParametersRequireVector()"]);
   ("LanguageCPP.GetForwardDeclarableHeaderIncludes",
    ["isinstance(classObj, Class)"; "filter_out_type_not_in_model"]);
   ("LanguageCPP.GetForwardDeclarations",
    ["isinstance(classObj, Class)"; "for (_namespace, _classes) in namespace_to_classes.items()"; "for _class in _classes"; "result"]);
   ("_getNamespaceToClassesFromFullyQualifiedNames",
    ["for f in setOfClasses"; "is_file_include and classObj.NAMESPACE and f.startswith(classObj.NAMESPACE + '::')"; "is_file_include"; "ns not in namespace_to_class"]);
   ("_filterOutTypesNotInModel",
    ["for (ns, classes) in namespace_to_classes.items()"; "for c in classes"; "for (id, pc) in classDiagram.classes.items()"; "pc.NAME == c"; "len(new_classes) > 0"]);
   ("_getIncludeStringFromNamespaceToClassMap",
    ["for (path, classnames) in namespace_to_class.items()"; "for classname in classnames"; "not namespace_to_folders"])])
  /\ (include_sections =
  [("ClassTemplate.t", ["<<<NOT_FORWARD_DECLARABLE_HEADER_INCLUDES>>>"; "<<<FORWARD_DECLARATIONS>>>"]);
   ("ClassTemplate.tpp", ["<<<FORWARD_DECLARABLE_HEADER_INCLUDES>>>"]);
   ("EnumTemplate.t", []);
   ("InterfaceTemplate.t", ["<<<NOT_FORWARD_DECLARABLE_HEADER_INCLUDES>>>"; "<<<FORWARD_DECLARATIONS>>>"]);
   ("StructTemplate.t", ["<<<NOT_FORWARD_DECLARABLE_HEADER_INCLUDES>>>"; "<<<FORWARD_DECLARATIONS>>>"])])
  /\ (include_calls =
  ["self.language.GetForwardDeclarableHeaderIncludes(classobj, self.NAMESPACE_TO_GO_TO_OWN_FOLDER, True)"; "self.language.GetForwardDeclarations(classobj)"; "self.language.GetNotForwardDeclarableHeaderIncludes(classobj, self.NAMESPACE_TO_GO_TO_OWN_FOLDER, True, True)"]).

Lemma include_pins : includes_expected.
Proof. unfold includes_expected. repeat split; vm_compute; reflexivity. Qed.
