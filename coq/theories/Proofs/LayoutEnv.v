(* C12 -- the declarations emitted for a well-formed interface are laid out padding-free:
   build_env on the emitted declarations returns exactly the environment of the specification (env_exact). *)
From Coq Require Import String Ascii List Bool NArith ZArith Lia.
From KV Require Import Model.CValue Model.Layout Model.ProtoLang Spec.LayoutSpec Proofs.LayoutBasics.
Import ListNotations.
Open Scope list_scope.

Definition minfo (ms : list member) : sinfo := packed_info (map member_triple ms).

(* e knows every struct of reg, with the padding-free layout *)
Definition env_reg (e : env) (reg : list (string * list member)) : Prop :=
  forall sn ms, lookup sn reg = Some ms ->
    lookup sn e = Some (minfo ms) /\ prim_of_name sn = None /\ (0 < ms_size ms)%N.

Definition member_good (i : iface) (e : env) (m : member) : Prop :=
  match m with
  | MPrim _ p _ => in_keys i (prim_name p) = false
  | MStruct _ sn ms => lookup sn e = Some (minfo ms) /\ prim_of_name sn = None /\ (0 < ms_size ms)%N
  end.

Lemma minfo_size : forall ms, si_size (minfo ms) = ms_size ms.
Proof. intros. unfold minfo, packed_info. cbn [si_size]. apply triples_size. Qed.

Lemma good_ty : forall i e m, member_good i e m ->
  exists a, ty_size_align e (mem_ty m) = Some (m_size m, a)
            /\ (if cm_packed (declare_member i m) then 1%N else a) = 1%N.
Proof.
  intros i e m G. destruct m as [n p d | n sn ms]; cbn [member_good] in G.
  - exists (prim_align p). unfold ty_size_align. cbn [mem_ty]. rewrite prim_of_name_name.
    split; [reflexivity|]. unfold declare_member. cbn [cm_packed mem_ty]. rewrite G. reflexivity.
  - destruct G as [L [P _]]. exists 1%N. unfold ty_size_align. cbn [mem_ty]. rewrite P, L.
    split; [now rewrite minfo_size | now destruct (cm_packed _)].
Qed.

Lemma good_size_pos : forall i e m, member_good i e m -> (0 < m_size m)%N.
Proof.
  intros i e m G. destruct m as [n p d | n sn ms]; cbn [member_good] in G.
  - apply prim_size_pos.
  - rewrite m_size_struct. tauto.
Qed.

Lemma layout_members_good : forall i e ms off,
  Forall (member_good i e) ms ->
  layout_members e (map (declare_member i) ms) off 1
  = Some (packed_fields off (map member_triple ms), (off + ms_size ms)%N, 1%N).
Proof.
  intros i e ms. induction ms as [|m r IH]; intros off F.
  - cbn [map layout_members packed_fields]. unfold ms_size. cbn [map fold_right]. now rewrite N.add_0_r.
  - inversion F as [|? ? G Fr]; subst.
    destruct (good_ty i e m G) as [a [T A]].
    cbn [map layout_members].
    change (cm_ty (declare_member i m)) with (mem_ty m). rewrite T. rewrite A.
    rewrite roundup_1. change (N.max 1 1) with 1%N.
    rewrite (IH _ Fr).
    cbn [packed_fields]. unfold member_triple at 2.
    change (cm_name (declare_member i m)) with (mem_name m).
    rewrite ms_size_cons, N.add_assoc. reflexivity.
Qed.

Lemma layout_struct_good : forall i e n ms,
  ms <> [] -> Forall (member_good i e) ms ->
  layout_struct e {| cs_name := n; cs_members := map (declare_member i) ms |} = Some (minfo ms)
  /\ (0 < ms_size ms)%N.
Proof.
  intros i e n ms NE F.
  assert (P : (0 < ms_size ms)%N).
  { destruct ms as [|m r]; [congruence|]. inversion F; subst. rewrite ms_size_cons.
    pose proof (good_size_pos _ _ _ H1). lia. }
  split; [|exact P].
  unfold layout_struct. cbn [cs_members]. rewrite (layout_members_good _ _ _ _ F).
  rewrite N.add_0_l, roundup_1.
  destruct (N.eqb_spec (ms_size ms) 0) as [E|_]; [lia|].
  unfold minfo, packed_info. rewrite triples_size. reflexivity.
Qed.

Lemma good_of_ok : forall i e reg m,
  (forall p, in_keys i (prim_name p) = false) -> env_reg e reg ->
  member_ok reg m = true -> member_good i e m.
Proof.
  intros i e reg m NP ER OK. destruct m as [n p d | n sn ms]; cbn [member_good member_ok] in *.
  - apply NP.
  - destruct (lookup sn reg) as [ms'|] eqn:L; [|discriminate].
    apply members_eqb_eq in OK. subst ms'. now apply ER.
Qed.

Lemma goods_of_ok : forall i e reg ms,
  (forall p, in_keys i (prim_name p) = false) -> env_reg e reg ->
  forallb (member_ok reg) ms = true -> Forall (member_good i e) ms.
Proof.
  intros i e reg ms NP ER OK. apply Forall_forall. intros m HI.
  rewrite forallb_forall in OK. eapply good_of_ok; eauto.
Qed.

Lemma build_env_app : forall d1 d2 e,
  build_env e (d1 ++ d2) = match build_env e d1 with Some e1 => build_env e1 d2 | None => None end.
Proof.
  induction d1 as [|d r IH]; intros; cbn [app build_env]; [reflexivity|].
  destruct (lookup (cs_name d) e); [reflexivity|].
  destruct (prim_of_name (cs_name d)); [reflexivity|].
  destruct (layout_struct e d); [apply IH | reflexivity].
Qed.

Lemma env_reg_extend : forall e reg x, env_reg e reg -> env_reg (e ++ x) reg.
Proof.
  intros e reg x ER sn ms L. destruct (ER sn ms L) as [A B]. split; [|exact B].
  rewrite lookup_app, A. reflexivity.
Qed.

(* ---- structs, in registration order *)
Lemma build_env_structs : forall i ss reg e,
  (forall p, in_keys i (prim_name p) = false) ->
  structs_ok reg ss = true -> env_reg e reg ->
  (forall s, In s ss -> lookup (s_name s) e = None /\ prim_of_name (s_name s) = None) ->
  NoDup (map s_name ss) ->
  build_env e (map (struct_decl i) ss) = Some (e ++ map (fun s => (s_name s, struct_spec s)) ss)
  /\ env_reg (e ++ map (fun s => (s_name s, struct_spec s)) ss) (reg ++ map (fun s => (s_name s, s_members s)) ss).
Proof.
  intros i ss. induction ss as [|s r IH]; intros reg e NP OK ER FR ND.
  - cbn [map build_env]. rewrite !app_nil_r. auto.
  - cbn [structs_ok] in OK. apply andb_true_iff in OK. destruct OK as [OK OKr].
    apply andb_true_iff in OK. destruct OK as [NE MO].
    unfold members_ok in MO. apply andb_true_iff in MO. destruct MO as [MO _].
    destruct (FR s (or_introl eq_refl)) as [Ls Ps].
    assert (NE' : s_members s <> []) by (destruct (s_members s); [discriminate | congruence]).
    destruct (layout_struct_good i e (s_name s) (s_members s) NE' (goods_of_ok _ _ _ _ NP ER MO)) as [LS POS].
    inversion ND as [|? ? NI NDr]; subst.
    assert (ER' : env_reg (e ++ [(s_name s, struct_spec s)]) (reg ++ [(s_name s, s_members s)])).
    { intros sn ms L. rewrite lookup_app in L. destruct (lookup sn reg) as [ms0|] eqn:L0.
      - injection L as <-. destruct (ER sn ms0 L0) as [A B]. split; [|exact B]. now rewrite lookup_app, A.
      - cbn [lookup] in L. destruct (String.eqb sn (s_name s)) eqn:E; [|discriminate].
        injection L as <-. apply String.eqb_eq in E. subst sn.
        split; [|split; assumption]. rewrite lookup_app, Ls. cbn [lookup]. now rewrite String.eqb_refl. }
    assert (FR' : forall s', In s' r -> lookup (s_name s') (e ++ [(s_name s, struct_spec s)]) = None /\ prim_of_name (s_name s') = None).
    { intros s' HI. destruct (FR s' (or_intror HI)) as [A B]. split; [|exact B].
      rewrite lookup_app, A. cbn [lookup].
      destruct (String.eqb (s_name s') (s_name s)) eqn:E; [|reflexivity].
      apply String.eqb_eq in E. exfalso. apply NI. rewrite <- E. now apply in_map. }
    destruct (IH _ _ NP OKr ER' FR' NDr) as [B1 B2].
    cbn [map build_env]. change (cs_name (struct_decl i s)) with (s_name s). rewrite Ls, Ps.
    unfold struct_decl at 1. rewrite LS. change (minfo (s_members s)) with (struct_spec s).
    rewrite B1. rewrite <- !app_assoc in *. cbn [app] in *. split; [reflexivity | exact B2].
Qed.

(* ---- messages *)
Definition hdr_ok (e : env) : Prop := lookup hdr_name e = Some hdr_spec.

Lemma msg_layout : forall i e m,
  (forall p, in_keys i (prim_name p) = false) -> in_keys i hdr_name = true ->
  env_reg e (registry i) -> hdr_ok e ->
  forallb (member_ok (registry i)) (m_members m) = true ->
  layout_struct e (msg_decl i m) = Some (msg_spec m).
Proof.
  intros i e m NP HK ER HO MO.
  pose proof (goods_of_ok _ _ _ _ NP ER MO) as G.
  unfold layout_struct, msg_decl. cbn [cs_members layout_members cm_ty cm_packed cm_name].
  unfold ty_size_align. change (prim_of_name hdr_name) with (@None prim). rewrite HO, HK.
  cbn [negb]. change (si_align hdr_spec) with 1%N. change (si_size hdr_spec) with 8%N.
  rewrite roundup_1. change (N.max 1 1) with 1%N. rewrite (layout_members_good _ _ _ _ G).
  rewrite roundup_1.
  destruct (N.eqb_spec (0 + 8 + ms_size (m_members m)) 0) as [E|_]; [lia|].
  unfold msg_spec, packed_info. cbn [map snd fold_right packed_fields]. rewrite triples_size.
  unfold hdr_size. reflexivity.
Qed.

Lemma build_env_msgs : forall i l e,
  (forall p, in_keys i (prim_name p) = false) -> in_keys i hdr_name = true ->
  env_reg e (registry i) -> hdr_ok e ->
  (forall m, In m l -> forallb (member_ok (registry i)) (m_members m) = true) ->
  (forall m, In m l -> lookup (m_name m) e = None /\ prim_of_name (m_name m) = None) ->
  NoDup (map m_name l) ->
  build_env e (map (msg_decl i) l) = Some (e ++ map (fun m => (m_name m, msg_spec m)) l).
Proof.
  intros i l. induction l as [|m r IH]; intros e NP HK ER HO MO FR ND.
  - cbn [map build_env]. now rewrite app_nil_r.
  - destruct (FR m (or_introl eq_refl)) as [Lm Pm].
    inversion ND as [|? ? NI NDr]; subst.
    cbn [map build_env]. change (cs_name (msg_decl i m)) with (m_name m). rewrite Lm, Pm.
    rewrite (msg_layout i e m NP HK ER HO (MO m (or_introl eq_refl))).
    rewrite IH; try assumption.
    + rewrite <- app_assoc. reflexivity.
    + now apply env_reg_extend.
    + unfold hdr_ok in *. now rewrite lookup_app, HO.
    + intros m' HI. apply MO. now right.
    + intros m' HI. destruct (FR m' (or_intror HI)) as [A B]. split; [|exact B].
      rewrite lookup_app, A. cbn [lookup].
      destruct (String.eqb (m_name m') (m_name m)) eqn:E; [|reflexivity].
      apply String.eqb_eq in E. exfalso. apply NI. rewrite <- E. now apply in_map.
Qed.

(* ---- what wf_iface gives *)
Record wf_facts (i : iface) : Prop := {
  wf_pre : fits16 (i_preamble i) = true;
  wf_keys : NoDup (keys i);
  wf_noprim : forall n, In n (keys i) -> prim_of_name n = None;
  wf_structs : structs_ok [] (i_structs i) = true;
  wf_msgs : forall m, In m (i_msgs i) -> msg_ok i m = true
}.

Lemma wf_iface_facts : forall i, wf_iface i = true -> wf_facts i.
Proof.
  intros i H. unfold wf_iface in H.
  apply andb_true_iff in H. destruct H as [H H6].
  apply andb_true_iff in H. destruct H as [H H5].
  apply andb_true_iff in H. destruct H as [H H4].
  apply andb_true_iff in H. destruct H as [H H3].
  apply andb_true_iff in H. destruct H as [H1 H2].
  constructor; try assumption.
  - now apply nodupb_NoDup.
  - intros n HI. rewrite forallb_forall in H3. specialize (H3 n HI). now destruct (prim_of_name n).
  - intros m HI. rewrite forallb_forall in H5. now apply H5.
Qed.

Lemma wf_no_prim_key : forall i, wf_facts i -> forall p, in_keys i (prim_name p) = false.
Proof.
  intros i W p. destruct (in_keys i (prim_name p)) eqn:E; [|reflexivity].
  unfold in_keys in E. apply existsb_eqb_In in E. apply (wf_noprim i W) in E.
  rewrite prim_of_name_name in E. discriminate.
Qed.

Definition spec_env (i : iface) : env :=
  (hdr_name, hdr_spec) :: map (fun s => (s_name s, struct_spec s)) (i_structs i)
  ++ map (fun m => (m_name m, msg_spec m)) (i_msgs i).

Lemma hdr_layout : forall i, (forall p, in_keys i (prim_name p) = false) ->
  layout_struct [] (hdr_decl i) = Some hdr_spec.
Proof.
  intros i NP.
  pose (hm := map (fun f : string * prim => MPrim (fst f) (snd f) None) hdr_fields).
  assert (F : Forall (member_good i []) hm).
  { apply Forall_forall. intros m HI. unfold hm in HI. apply in_map_iff in HI. destruct HI as [f [<- _]]. apply NP. }
  assert (NE : hm <> []) by discriminate.
  destruct (layout_struct_good i [] hdr_name hm NE F) as [L _]. exact L.
Qed.

Lemma registry_env_reg : forall i e,
  env_reg e ([] ++ map (fun s => (s_name s, s_members s)) (i_structs i)) -> env_reg e (registry i).
Proof. intros i e H. exact H. Qed.

(* the environment g++ would compute, according to the model, IS the environment the specification demands *)
Theorem env_exact : forall i, wf_iface i = true ->
  build_env [] (cg_decls (emit i)) = Some (spec_env i).
Proof.
  intros i WF. pose proof (wf_iface_facts i WF) as W. pose proof (wf_no_prim_key i W) as NP.
  pose proof (wf_keys i W) as ND. unfold keys in ND.
  inversion ND as [|? ? NIh NDr]; subst.
  destruct (NoDup_app_parts _ _ _ NDr) as [NDs [NDm DJ]].
  unfold emit. cbn [cg_decls build_env].
  change (cs_name (hdr_decl i)) with hdr_name. cbn [lookup]. change (prim_of_name hdr_name) with (@None prim).
  rewrite (hdr_layout i NP). cbn [app].
  rewrite build_env_app.
  assert (ER0 : env_reg [(hdr_name, hdr_spec)] []) by (intros sn ms L; discriminate).
  assert (FRs : forall s, In s (i_structs i) -> lookup (s_name s) [(hdr_name, hdr_spec)] = None /\ prim_of_name (s_name s) = None).
  { intros s HI. split.
    - cbn [lookup]. destruct (String.eqb (s_name s) hdr_name) eqn:E; [|reflexivity].
      apply String.eqb_eq in E. exfalso. apply NIh. apply in_or_app. left. rewrite <- E. now apply in_map.
    - apply (wf_noprim i W). unfold keys. right. apply in_or_app. left. now apply in_map. }
  destruct (build_env_structs i (i_structs i) [] _ NP (wf_structs i W) ER0 FRs NDs) as [B1 B2].
  rewrite B1.
  assert (HK : in_keys i hdr_name = true) by (unfold in_keys, keys; cbn [existsb]; now rewrite String.eqb_refl).
  rewrite build_env_msgs; try assumption.
  - unfold spec_env. reflexivity.
  - unfold hdr_ok. cbn [app lookup]. now rewrite String.eqb_refl.
  - intros m HI. pose proof (wf_msgs i W m HI) as MO. unfold msg_ok in MO.
    apply andb_true_iff in MO. destruct MO as [MO _].
    apply andb_true_iff in MO. destruct MO as [MO _].
    apply andb_true_iff in MO. destruct MO as [_ MO].
    unfold members_ok in MO. apply andb_true_iff in MO. tauto.
  - intros m HI. split.
    + apply lookup_none_notin. cbn [app map fst]. rewrite map_map. cbn [fst].
      intros [E|HI']; [apply NIh; apply in_or_app; right; rewrite E; now apply in_map|].
      apply (DJ (m_name m)); [exact HI' | now apply in_map].
    + apply (wf_noprim i W). unfold keys. right. apply in_or_app. right. now apply in_map.
Qed.
