(* Facts about Lib/ByteSeq.v: lengths in N, take/drop/slice on concatenations, wrap-around arithmetic in range,
   the header layout constants of Gen/CxxConn.v, the header fields depend on the first 8 bytes only. *)
From Coq Require Import String Ascii List Bool Arith NArith ZArith Lia.
From KV Require Import Lib.Str Lib.ByteSeq Gen.CxxConn.
Import ListNotations.
Open Scope N_scope.
Open Scope list_scope.

Lemma len_nil : len [] = 0.
Proof. reflexivity. Qed.

Lemma len_app a b : len (a ++ b) = len a + len b.
Proof. unfold len. rewrite app_length. lia. Qed.

Lemma len_cons x a : len (x :: a) = 1 + len a.
Proof. unfold len. cbn [length]. lia. Qed.

Lemma len_zero a : len a = 0 -> a = [].
Proof. unfold len. destruct a; cbn [length]; [reflexivity | lia]. Qed.

Lemma len_pos a : a <> [] -> 0 < len a.
Proof. destruct a; [congruence | rewrite len_cons; lia]. Qed.

Lemma len_length a b : (length a < length b)%nat <-> len a < len b.
Proof. unfold len. lia. Qed.

Lemma take_app_exact a b : take (len a) (a ++ b) = a.
Proof.
  unfold take, len. rewrite Nat2N.id.
  rewrite firstn_app, Nat.sub_diag, firstn_all. cbn [firstn]. apply app_nil_r.
Qed.

Lemma take_all a : take (len a) a = a.
Proof. rewrite <- (app_nil_r a) at 2. apply take_app_exact. Qed.

Lemma drop_app_exact a b : drop (len a) (a ++ b) = b.
Proof.
  unfold drop, len. rewrite Nat2N.id.
  rewrite skipn_app, Nat.sub_diag, skipn_all. reflexivity.
Qed.

Lemma drop_zero a : drop 0 a = a.
Proof. reflexivity. Qed.

Lemma slice_app a b c : slice (len a) (len b) (a ++ b ++ c) = Some b.
Proof.
  unfold slice. rewrite !len_app.
  destruct (N.leb_spec (len a + len b) (len a + (len b + len c))); [| lia].
  rewrite drop_app_exact, take_app_exact. reflexivity.
Qed.

Lemma slice0_app b c : slice 0 (len b) (b ++ c) = Some b.
Proof. apply (slice_app [] b c). Qed.

(* two decompositions of the same list *)
Lemma app_split_le {A} (a b c d : list A) :
  a ++ b = c ++ d -> (length c <= length a)%nat -> exists e, a = c ++ e /\ d = e ++ b.
Proof.
  revert c. induction a as [| x a IH]; intros c H Hl.
  - destruct c; [| cbn in Hl; lia]. exists []. cbn in *. auto.
  - destruct c as [| y c].
    + exists (x :: a). cbn in *. auto.
    + cbn in H. injection H as -> H. cbn in Hl. destruct (IH c H) as [e [-> ->]]; [lia |].
      exists e. auto.
Qed.

Lemma app_split_ge {A} (a b c d : list A) :
  a ++ b = c ++ d -> (length a <= length c)%nat -> exists e, c = a ++ e /\ b = e ++ d.
Proof. intros H Hl. symmetry in H. apply (app_split_le c d a b H Hl). Qed.

(* ---- fixed-width arithmetic in range ---- *)
Lemma two32 : 2 ^ count_bits = 4294967296.
Proof. reflexivity. Qed.

Lemma w32_small x : x < 4294967296 -> w32 x = x.
Proof. intros H. unfold w32, wrap. rewrite two32. apply N.mod_small. exact H. Qed.

Lemma sub32_small a b : b <= a -> a < 4294967296 -> sub32 a b = a - b.
Proof.
  intros Hb Ha. unfold sub32, wrap_sub.
  change (2 ^ Z.of_N count_bits)%Z with 4294967296%Z.
  rewrite Z.mod_small by lia. lia.
Qed.

(* ---- the header layout (regenerated from MsgHeader.h on every run) ---- *)
Lemma size_of_header_eq : size_of_header = 8.
Proof. reflexivity. Qed.

Lemma payload_size_eq l : payload_size l = le_decode (firstn 4 (skipn 4 l)).
Proof. reflexivity. Qed.

Lemma type_id_eq l : type_id l = le_decode (firstn 2 (skipn 2 l)).
Proof. reflexivity. Qed.

Lemma firstn_skipn_firstn {A} (n m : nat) (l : list A) :
  firstn n (skipn m (firstn (m + n) l)) = firstn n (skipn m l).
Proof.
  revert l. induction m as [| m IH]; intros l.
  - cbn [skipn Nat.add]. rewrite firstn_firstn, Nat.min_id. reflexivity.
  - destruct l; [destruct n; reflexivity |]. cbn [Nat.add firstn skipn]. apply IH.
Qed.

Lemma header_prefix (a b c d : list byte) :
  a ++ b = c ++ d -> 8 <= len a -> 8 <= len c -> firstn 8 a = firstn 8 c.
Proof.
  intros H Ha Hc. unfold len in *.
  assert (firstn 8 (a ++ b) = firstn 8 a) as E1.
  { rewrite firstn_app. replace (8 - length a)%nat with 0%nat by lia. cbn [firstn]. apply app_nil_r. }
  assert (firstn 8 (c ++ d) = firstn 8 c) as E2.
  { rewrite firstn_app. replace (8 - length c)%nat with 0%nat by lia. cbn [firstn]. apply app_nil_r. }
  rewrite <- E1, <- E2, H. reflexivity.
Qed.

Lemma payload_size_prefix (a b c d : list byte) :
  a ++ b = c ++ d -> 8 <= len a -> 8 <= len c -> payload_size a = payload_size c.
Proof.
  intros H Ha Hc. rewrite !payload_size_eq.
  rewrite <- (firstn_skipn_firstn 4 4 a), <- (firstn_skipn_firstn 4 4 c).
  change (4 + 4)%nat with 8%nat. rewrite (header_prefix a b c d H Ha Hc). reflexivity.
Qed.

Lemma type_id_prefix (a b c d : list byte) :
  a ++ b = c ++ d -> 8 <= len a -> 8 <= len c -> type_id a = type_id c.
Proof.
  intros H Ha Hc. rewrite !type_id_eq.
  assert (forall l : list byte, firstn 2 (skipn 2 l) = firstn 2 (skipn 2 (firstn 8 l))) as E.
  { intros l. do 8 (destruct l as [| ? l]; try reflexivity). }
  rewrite (E a), (E c), (header_prefix a b c d H Ha Hc). reflexivity.
Qed.
