(* C16: structure of the per-element expansion (partial). *)
From Coq Require Import String Ascii List Bool Arith Lia.
From KV Require Import Lib.Str Lib.StrOps Lib.ODict Gen.Tags Gen.Pipeline Model.Engine Model.EngineSM Model.EngineDomain
                       Spec.RefExpand Proofs.EnginePipe.
From KV Require Export Proofs.Alpha.
Import ListNotations.
Open Scope string_scope.
Open Scope list_scope.

(* a per-element block body is expanded exactly once per element, in list order, the k-th element with index k and the
   k-th alphabet value *)
Lemma second_items_enum names : forall items k snippet,
  second_items names (alpha_at k) k items snippet
  = opt_concat (map (fun ix => second_lines names (snd ix) (alpha_at (fst ix)) (fst ix) snippet) (enumerate_from k items)).
Proof.
  induction items as [|name items IH]; intros k snippet; [reflexivity|].
  cbn [second_items enumerate_from map opt_concat fst snd].
  rewrite <- alpha_at_S, (IH (S k) snippet).
  destruct (second_lines names name (alpha_at k) k snippet); [|reflexivity].
  destruct (opt_concat _); reflexivity.
Qed.

Lemma sig_items_enum : forall sigs k snippet,
  sig_items (alpha_at k) k sigs snippet
  = flat_map (fun ix => map (sig_line (fst (snd (snd ix))) (sig_event (snd (snd (snd ix)))) (alpha_at (fst ix)) (fst ix)) snippet)
             (enumerate_from k sigs).
Proof.
  induction sigs as [|[key [a0 e0]] sigs IH]; intros k snippet; [reflexivity|].
  cbn [sig_items enumerate_from flat_map fst snd]. rewrite <- alpha_at_S, (IH (S k) snippet). reflexivity.
Qed.

(* blank-run collapse: once a blank line has been kept, further blank lines produce no text until a non-blank line *)
Definition blank (l : string) : bool := String.eqb (nospace l) nl_str.

Lemma fmn_blank_run : forall ls l rest, blank l = true -> forallb blank ls = true ->
  fmn_go false (nospace l) (ls ++ rest) = map (fun _ => EmptyString) ls ++ fmn_go false (nospace l) rest.
Proof.
  induction ls as [|x ls IH]; intros l rest Hl H; [reflexivity|].
  cbn [forallb] in H. apply andb_prop in H as [Hx H]. unfold blank in Hl, Hx. apply String.eqb_eq in Hl, Hx.
  cbn [app fmn_go map negb andb]. rewrite Hx, Hl. cbn [String.eqb]. rewrite !String.eqb_refl. cbn [andb].
  f_equal. rewrite <- Hl. apply IH; [unfold blank; rewrite Hl; apply String.eqb_refl|assumption].
Qed.

Lemma fmn_nonblank l last rest : blank l = false ->
  fmn_go false last (l :: rest) = l :: fmn_go false (nospace l) rest.
Proof.
  unfold blank. intros H. cbn [fmn_go negb andb].
  destruct (String.eqb (nospace l) last) eqn:E; [|reflexivity].
  apply String.eqb_eq in E. subst last. rewrite H. reflexivity.
Qed.

(* first filtering of lines that carry no first-filter tag: only the blank-run collapse acts *)
Lemma load_file_collapse : forall dict ls,
  dict_ok dict = true -> forallb load_inert ls = true -> load_file dict ls = Some (filter_multiple_newlines ls).
Proof.
  intros dict ls Hd Hl. unfold load_file.
  assert (E : existsb (fun l => hasSpecificTag l TAG_EXTENDS || hasSpecificTag l TAG_EXCLUDE) ls = false).
  { induction ls as [|l ls IH]; [reflexivity|]. cbn [forallb] in Hl. apply andb_prop in Hl as [H1 H2].
    cbn [existsb]. rewrite (IH H2), orb_false_r. unfold load_inert in H1.
    repeat (apply andb_prop in H1 as [H1 ?K]). apply negb_true_iff in H1, K1. rewrite H1, K1. reflexivity. }
  rewrite E. f_equal. f_equal.
  induction ls as [|l ls IH]; [reflexivity|]. cbn [forallb] in Hl. apply andb_prop in Hl as [H1 H2].
  cbn [flat_map]. rewrite (process_line_id dict l Hd H1), IH; [reflexivity|assumption|].
  cbn [existsb] in E. apply orb_false_elim in E as [_ E]. exact E.
Qed.
