(* C09 bridge: the text that the engine model's boost::sml table printer (Model/EngineSM.sml_print = smgen.innerexpand_sml) appends
   is the comment header followed by the text of the items of Model/SmlTT.gen_sml, one line per item, for every table of
   well-formed rows. *)
From Coq Require Import String Ascii List Bool Arith Lia.
From KV Require Import Lib.Str Lib.StrOps Lib.ODict Lib.TableDef Gen.SmlTmpl Model.TTable Model.SmlTT Model.Engine Model.EngineSM
                       Model.EngineDomain Model.EngineDomain16 Model.SmlRender Spec.RefExpand Spec.RefExpand16
                       Proofs.StrProofs Proofs.CleanProofs Proofs.EngineStr Proofs.EngineRepl Proofs.CharClass Proofs.TTableProofs Proofs.SmlProofs Proofs.EngineBlock Proofs.EngineTT.
Import ListNotations.
Open Scope string_scope.
Open Scope list_scope.

(* ---------------------------------------------------------------- rstrip *)
Lemma rstrip_nonempty f c b : f c = false -> forall a, rstrip_by f (a ++ String c b)%string <> EmptyString.
Proof.
  intros Hc. induction a as [|d a IH]; cbn [append rstrip_by].
  - destruct (rstrip_by f b); [rewrite Hc|]; discriminate.
  - destruct (rstrip_by f (a ++ String c b)) eqn:E; [contradiction|discriminate].
Qed.

Lemma rstrip_app f b : rstrip_by f b <> EmptyString -> forall a, rstrip_by f (a ++ b)%string = (a ++ rstrip_by f b)%string.
Proof.
  intros Hb. induction a as [|d a IH]; [reflexivity|]. cbn [append rstrip_by]. rewrite IH.
  destruct (a ++ rstrip_by f b)%string eqn:E; [|reflexivity].
  destruct a; cbn [append] in E; [contradiction|discriminate].
Qed.

Lemma rstrip_keep f c : f c = false -> forall a, rstrip_by f (a ++ String c "")%string = (a ++ String c "")%string.
Proof.
  intros Hc a. rewrite rstrip_app; [cbn [rstrip_by]; rewrite Hc; reflexivity|]. cbn [rstrip_by]. rewrite Hc. discriminate.
Qed.

(* ---------------------------------------------------------------- names of well-formed rows *)
Lemma camel_same s : camel_case_small s = camel_small s.
Proof. destruct s; reflexivity. Qed.

Lemma ident_ok_alnum s : ident_ok s = true -> allc alnumc s = true.
Proof.
  destruct s as [|c s]; [discriminate|]. unfold ident_ok. intros H. do 3 (apply andb_prop in H as [H _]). apply andb_prop in H as [Hc Hs].
  cbn [allc]. assert (E : forall x, all_alnum x = allc alnumc x) by (induction x as [|d x IH]; [reflexivity|]; cbn [all_alnum allc]; rewrite IH; reflexivity).
  rewrite <- E, Hs, andb_true_r. unfold alnumc. change (StrOps.is_upper c) with (TTable.is_upper c). rewrite Hc. reflexivity.
Qed.

(* a string that reads "none" in lower case has no character other than letters; what matters: none of the given character *)
Lemma lower_no_char c : lower_ascii c = c -> forall s t, TableDef.lower s = t -> no_char c t = true -> no_char c s = true.
Proof.
  intros Hc. induction s as [|d s IH]; intros t E H; [reflexivity|]. cbn [TableDef.lower] in E. subst t. cbn [no_char] in *.
  apply andb_prop in H as [H1 H2]. rewrite (IH _ eq_refl H2), andb_true_r.
  destruct (Ascii.eqb_spec d c) as [->|N]; [rewrite Hc, ascii_eqb_refl in H1; discriminate|reflexivity].
Qed.

Lemma opt_no_char c s : lower_ascii c = c -> alnumc c = false -> ident_or_none s = true -> no_char c s = true.
Proof.
  intros Hl Hc H. unfold ident_or_none in H. apply orb_prop in H as [H|H].
  - unfold is_none in H. apply orb_prop in H as [H|H].
    + apply String.eqb_eq in H. subst s. reflexivity.
    + apply String.eqb_eq in H. apply (lower_no_char c Hl s "none" H).
      cbn [no_char]. destruct (Ascii.eqb_spec "n"%char c) as [<-|_]; [discriminate Hc|]. destruct (Ascii.eqb_spec "o"%char c) as [<-|_]; [discriminate Hc|].
      destruct (Ascii.eqb_spec "e"%char c) as [<-|_]; [discriminate Hc|]. reflexivity.
  - exact (allc_no_char alnumc c s Hc (ident_ok_alnum s H)).
Qed.

Lemma no_char_camel c s : lower_ascii c = c -> alnumc c = false -> ident_or_none s = true -> no_char c (camel_small s) = true.
Proof.
  intros Hl Hc H. pose proof (opt_no_char c s Hl Hc H) as N. destruct s as [|d s]; [reflexivity|]. cbn [camel_small no_char] in *.
  apply andb_prop in N as [N1 N2]. rewrite N2, andb_true_r. apply negb_true_iff. apply Ascii.eqb_neq. intros E.
  apply negb_true_iff, Ascii.eqb_neq in N1.
  change (lower_ascii d) with (lower_c d) in E. unfold lower_c in E. destruct (StrOps.is_upper d) eqn:U; [|exact (N1 E)].
  assert (A : alnumc (lower_c d) = true) by (apply lower_c_alnum; unfold alnumc; rewrite U; reflexivity).
  unfold lower_c in A. rewrite U, E, Hc in A. discriminate.
Qed.

Lemma replace_nochar p v s c r : p = String c r -> no_char c s = true -> replace_all p v s = s.
Proof.
  intros -> H. apply replace_all_nomatch; [discriminate|]. induction s as [|d s IH]; [reflexivity|].
  cbn [no_char] in H. apply andb_prop in H as [H1 H2]. change (contains (String c r) (String d s)) with (prefixb (String c r) (String d s) || contains (String c r) s).
  rewrite (IH H2), orb_false_r. cbn [prefixb]. apply negb_true_iff in H1. rewrite Ascii.eqb_sym, H1. reflexivity.
Qed.

Lemma has_not_no c p : has_char c p = true -> no_char c p = false.
Proof.
  induction p as [|d p IH]; [discriminate|]. cbn [has_char no_char]. intros H. destruct (Ascii.eqb d c); [reflexivity|].
  cbn [orb negb andb] in *. exact (IH H).
Qed.

Lemma contains_char c p s : has_char c p = true -> no_char c s = true -> contains p s = false.
Proof.
  intros Hp Hs. destruct (contains p s) eqn:E; [|reflexivity]. apply contains_split in E as (a & b & ->).
  rewrite !no_char_app, (has_not_no c p Hp), andb_false_r in Hs. discriminate.
Qed.

Lemma lower_keeps_no_char c s : alnumc c = false -> no_char c s = true -> no_char c (TableDef.lower s) = true.
Proof.
  intros Hc. induction s as [|d x IH]; [reflexivity|]. cbn [no_char TableDef.lower]. intros N. apply andb_prop in N as [N1 N2].
  rewrite (IH N2), andb_true_r. apply negb_true_iff. apply Ascii.eqb_neq. intros E. apply negb_true_iff, Ascii.eqb_neq in N1.
  change (lower_ascii d) with (lower_c d) in E. unfold lower_c in E. destruct (StrOps.is_upper d) eqn:Ud; [|exact (N1 E)].
  assert (A : alnumc (lower_c d) = true) by (apply lower_c_alnum; unfold alnumc; rewrite Ud; reflexivity).
  unfold lower_c in A. rewrite Ud, E, Hc in A. discriminate.
Qed.

(* ---------------------------------------------------------------- column widths *)
Lemma maxlen_width (f : EngineSM.row -> string) (g : TableDef.row -> string) :
  (forall r, g (row_of r) = f r) -> forall tt, maxlen f tt = width g (table_of tt).
Proof.
  intros Hfg tt. unfold maxlen, width, table_of. generalize 0. induction tt as [|r tt IH]; intros acc; [reflexivity|].
  cbn [map fold_left]. rewrite Hfg, present_is_none. destruct (is_none (f r)); cbn [negb]; [apply IH|].
  rewrite <- IH. f_equal. destruct (Nat.ltb acc (String.length (f r))) eqn:E; [apply Nat.ltb_lt in E|apply Nat.ltb_ge in E]; lia.
Qed.

(* ---------------------------------------------------------------- one row *)
Definition row_body (ws : string) (t : table) (q : smlrow) : string :=
  ((if q_init q then ws ++ " *" else ws ++ ", ")
    ++ even_space ("state<" ++ q_src q ++ ">") (width r_src t + 9) ++ "+"
    ++ even_space ("event<" ++ q_ev q ++ ">") (width r_ev t + 9) ++ " "
    ++ even_space ("[" ++ q_guard q ++ "]") (width TableDef.r_guard t + 4) ++ " / "
    ++ even_space (q_act q) (width r_act t + 2)
    ++ match q_target q with Some tg => " = " ++ even_space ("state<" ++ tg ++ ">") 0 | None => "" end)%string.

Lemma row_text_same ws tt first r : row_ok (row_of r) = true ->
  sml_row_text ws tt first r = row_body ws (table_of tt) (sml_row first (row_of r)).
Proof.
  intros H. unfold row_ok in H. do 4 (apply andb_prop in H as [H ?K]). cbn [row_of r_src r_ev TableDef.r_next r_act TableDef.r_guard] in *.
  unfold sml_row_text, row_body, sml_row. cbn [q_init q_src q_ev q_guard q_act q_target row_of r_src r_ev TableDef.r_next r_act TableDef.r_guard].
  rewrite (maxlen_width r_state r_src (fun _ => eq_refl)), (maxlen_width r_event r_ev (fun _ => eq_refl)),
          (maxlen_width EngineSM.r_guard TableDef.r_guard (fun _ => eq_refl)), (maxlen_width r_action r_act (fun _ => eq_refl)).
  assert (E1 : forall v, tt_replace_none v = msm_name v) by (intros v; unfold tt_replace_none, msm_name; rewrite present_is_none; destruct (is_none v); reflexivity).
  rewrite !E1.
  assert (U : forall v, ident_or_none v = true -> replace_all "__" "" (camel_small v) = camel_small v)
    by (intros v Hv; apply (replace_nochar _ _ _ "_"%char "_" eq_refl); apply no_char_camel; [reflexivity|reflexivity|exact Hv]).
  assert (E2 : lite_guard_none (camel_case_small (EngineSM.r_guard r)) = guard_inst (EngineSM.r_guard r)).
  { unfold lite_guard_none, guard_inst. rewrite camel_same, (U _ K), present_is_none. destruct (is_none (camel_small (EngineSM.r_guard r))); reflexivity. }
  assert (E3 : lite_action_none (camel_case_small (r_action r)) = action_inst (r_action r)).
  { unfold lite_action_none, action_inst. rewrite camel_same, (U _ K0), present_is_none.
    assert (C : contains "::none<" (StrOps.lower (camel_small (r_action r))) = false).
    { rewrite lower_same. apply (contains_char ":"%char); [reflexivity|]. apply lower_keeps_no_char; [reflexivity|].
      apply no_char_camel; [reflexivity|reflexivity|exact K0]. }
    rewrite C, orb_false_r. destruct (is_none (camel_small (r_action r))); reflexivity. }
  rewrite E2, E3. do 9 f_equal.
  unfold target_of, next_absent. change sml_empty_next_is_absent with true. cbn iota. rewrite present_is_none.
  change (TableDef.r_next (row_of r)) with (EngineSM.r_next r). change (r_src (row_of r)) with (r_state r).
  destruct (is_none (EngineSM.r_next r)) eqn:Nn; cbn [negb]; [reflexivity|].
  unfold lite_next_none.
  assert (V : replace_all "msmf::" "" (replace_all "__" "" (EngineSM.r_next r)) = EngineSM.r_next r).
  { rewrite (replace_nochar "__" "" _ "_"%char "_" eq_refl (opt_no_char "_"%char _ eq_refl eq_refl K1)).
    apply replace_all_nomatch; [discriminate|]. apply (contains_char ":"%char); [reflexivity|]. exact (opt_no_char ":"%char _ eq_refl eq_refl K1). }
  rewrite V, present_is_none, Nn. reflexivity.
Qed.

(* ---------------------------------------------------------------- concatenation *)
Definition cat (l : list string) : string := String.concat "" l.

Lemma cat_cons x xs : cat (x :: xs) = (x ++ cat xs)%string.
Proof. unfold cat. destruct xs; cbn [String.concat]; [rewrite app_nil_r_s; reflexivity|reflexivity]. Qed.

Lemma cat_app a b : cat (a ++ b) = (cat a ++ cat b)%string.
Proof. induction a as [|x a IH]; [reflexivity|]. cbn [app]. rewrite !cat_cons, IH, app_assoc_s. reflexivity. Qed.

Lemma cat_flat_map {A} (f : smlitem -> string) (g : A -> list smlitem) l :
  cat (map f (flat_map g l)) = cat (map (fun x => cat (map f (g x))) l).
Proof. induction l as [|x l IH]; [reflexivity|]. cbn [flat_map map]. rewrite map_app, cat_app, cat_cons, IH. reflexivity. Qed.

(* ---------------------------------------------------------------- the hook rows of a state *)
Lemma hooks_chunk ws t s :
  (fst (sml_hooks_text ws s) ++ snd (sml_hooks_text ws s) ++ nl_str)%string = cat (map (item_text ws t) (hooks s)).
Proof.
  unfold sml_hooks_text, hooks. cbn [fst snd map item_text]. rewrite !cat_cons. unfold cat. cbn [String.concat].
  change sml_entry_suffix with "OnEntry"%string. change sml_exit_suffix with "OnExit"%string. rewrite !camel_same, !app_assoc_s, app_nil_r_s. reflexivity.
Qed.

Lemma hooks_chunk_rstrip ws s :
  rstrip_ws (fst (sml_hooks_text ws s) ++ snd (sml_hooks_text ws s)) = (fst (sml_hooks_text ws s) ++ snd (sml_hooks_text ws s))%string.
Proof.
  unfold sml_hooks_text. cbn [fst snd].
  set (a := (ws ++ ", state<" ++ s ++ "> + boost::sml::on_entry<_> / " ++ camel_case_small s ++ "OnEntry" ++ nl_str)%string).
  replace (a ++ ws ++ ", state<" ++ s ++ "> + boost::sml::on_exit<_> / " ++ camel_case_small s ++ "OnExit")%string
    with ((a ++ ws ++ ", state<" ++ s ++ "> + boost::sml::on_exit<_> / " ++ camel_case_small s ++ "OnExi") ++ "t")%string
    by (rewrite !app_assoc_s; reflexivity).
  apply (rstrip_keep is_ws "t"%char eq_refl).
Qed.

(* ---------------------------------------------------------------- the loop over the rows *)
Lemma row_body_nonempty ws t q : rstrip_ws (row_body ws t q) <> EmptyString.
Proof.
  unfold row_body. destruct (q_init q).
  - rewrite !app_assoc_s. change (ws ++ " *" ++ ?x)%string with (ws ++ String " " (String "*" x))%string.
    match goal with |- rstrip_ws (ws ++ String " " (String "*" ?x))%string <> _ =>
      change (ws ++ String " " (String "*" x))%string with (ws ++ String " " (String "*" x))%string;
      replace (ws ++ String " " (String "*" x))%string with ((ws ++ " ") ++ String "*" x)%string by (rewrite app_assoc_s; reflexivity) end.
    apply (rstrip_nonempty is_ws "*"%char _ eq_refl).
  - rewrite !app_assoc_s.
    match goal with |- rstrip_ws (ws ++ ", " ++ ?x)%string <> _ =>
      replace (ws ++ ", " ++ x)%string with (ws ++ String "," (" " ++ x))%string by reflexivity end.
    apply (rstrip_nonempty is_ws ","%char _ eq_refl).
Qed.

Definition srcs_of (rows : list EngineSM.row) : list string := map r_src (table_of rows).

Lemma rows_out_spec ws tt ee : forall rows first pending seenE seenS,
  forallb row_ok (table_of rows) = true ->
  (ee = true -> forall x, inb x seenE = TTable.mem x seenS) ->
  cat (fst (sml_rows_out ws tt ee first pending seenE rows))
  = ((match rows with [] => "" | _ => pending end) ++ cat (map (item_text ws (table_of tt)) (gen_rows ee first seenS (table_of rows))))%string
  /\ (ee = true -> forall x, inb x (snd (sml_rows_out ws tt ee first pending seenE rows)) = inb x seenE || TTable.mem x (srcs_of rows)).
Proof.
  induction rows as [|r rows IH]; intros first pending seenE seenS Hok Hinv.
  - cbn [sml_rows_out fst snd table_of map gen_rows]. split; [reflexivity|]. intros _ x. cbn. rewrite orb_false_r. reflexivity.
  - cbn [table_of map forallb] in Hok. apply andb_prop in Hok as [Hr Hok]. fold (table_of rows) in Hok.
    cbn [sml_rows_out table_of map gen_rows]. fold (table_of rows).
    set (hook := ee && negb (existsb (String.eqb (r_state r)) seenE)).
    assert (Hh : hook = ee && negb (TTable.mem (r_src (row_of r)) seenS)).
    { unfold hook. destruct ee; [|reflexivity]. cbn [andb]. f_equal. exact (Hinv eq_refl (r_state r)). }
    set (seenE' := if hook then seenE ++ [r_state r] else seenE).
    assert (Hinv' : ee = true -> forall x, inb x seenE' = TTable.mem x (r_src (row_of r) :: seenS)).
    { intros He x. unfold seenE'. cbn [TTable.mem]. change (r_src (row_of r)) with (r_state r).
      destruct hook eqn:Hk.
      - rewrite inb_app, (Hinv He x). unfold inb at 1. cbn [existsb]. rewrite orb_false_r, orb_comm. reflexivity.
      - rewrite (Hinv He x). subst ee. cbn [andb] in Hh. symmetry in Hh. apply negb_false_iff in Hh.
        destruct (String.eqb x (r_state r)) eqn:E; [|reflexivity]. apply String.eqb_eq in E. subst x. cbn [orb]. exact Hh. }
    destruct (IH false EmptyString seenE' (r_src (row_of r) :: seenS) Hok Hinv') as [I1 I2].
    destruct (sml_rows_out ws tt ee false "" seenE' rows) as [out seen''] eqn:Eo. cbn [fst snd] in *.
    split.
    + rewrite cat_cons, cat_app, I1. rewrite (row_text_same ws tt first r Hr).
      rewrite (rstrip_app is_ws _ (row_body_nonempty ws (table_of tt) (sml_row first (row_of r)))).
      rewrite cat_cons, map_app, cat_app.
      change (item_text ws (table_of tt) (IRow (sml_row first (row_of r)))) with (rstrip_ws (row_body ws (table_of tt) (sml_row first (row_of r))) ++ nl_str)%string.
      rewrite !app_assoc_s. f_equal. f_equal. f_equal.
      replace (match rows with [] => "" | _ :: _ => "" end)%string with ""%string by (destruct rows; reflexivity). cbn [append].
      f_equal. rewrite <- Hh. destruct hook; [|reflexivity].
      destruct (sml_hooks_text ws (r_state r)) as [a b] eqn:Eh. cbn [cat String.concat]. unfold cat at 1. cbn [String.concat].
      pose proof (hooks_chunk_rstrip ws (r_state r)) as R1. pose proof (hooks_chunk ws (table_of tt) (r_state r)) as R2.
      rewrite Eh in R1, R2. cbn [fst snd] in R1, R2. rewrite R1, app_assoc_s. exact R2.
    + intros He x. rewrite (I2 He x). unfold seenE', srcs_of. cbn [table_of map TTable.mem]. fold (table_of rows). change (r_src (row_of r)) with (r_state r).
      destruct hook eqn:Hk.
      * rewrite inb_app. unfold inb at 2. cbn [existsb]. rewrite orb_false_r, <- orb_assoc. reflexivity.
      * subst ee. cbn [andb] in Hh. symmetry in Hh. apply negb_false_iff in Hh. rewrite <- (Hinv eq_refl) in Hh. change (r_src (row_of r)) with (r_state r) in Hh.
        destruct (String.eqb x (r_state r)) eqn:E; [|reflexivity]. apply String.eqb_eq in E. subst x. rewrite Hh. reflexivity.
Qed.

(* ---------------------------------------------------------------- the trailing loop over the states *)
Notation tail_step := sml_tail_step.

Lemma tail_spec ws : forall L seen acc, NoDup L ->
  snd (fold_left (tail_step ws) L (seen, acc))
  = acc ++ map (fun s => (fst (sml_hooks_text ws s) ++ snd (sml_hooks_text ws s) ++ nl_str)%string) (filter (fun s => negb (inb s seen)) L).
Proof.
  induction L as [|s L IH]; intros seen acc N; [cbn; rewrite app_nil_r; reflexivity|].
  inversion N as [|? ? Hs N']; subst. cbn [fold_left filter]. unfold tail_step at 2. cbn [fst snd]. fold (inb s seen).
  destruct (inb s seen) eqn:I; cbn [negb]; [apply IH; exact N'|].
  destruct (sml_hooks_text ws s) as [a b] eqn:Eh. rewrite (IH _ _ N'). cbn [map]. rewrite Eh. cbn [fst snd]. rewrite <- app_assoc. cbn [app]. f_equal. f_equal. f_equal.
  apply filter_ext_in. intros x Hx. rewrite inb_app. unfold inb at 2. cbn [existsb]. rewrite orb_false_r.
  destruct (String.eqb x s) eqn:E; [apply String.eqb_eq in E; subst x; contradiction|rewrite orb_false_r; reflexivity].
Qed.

(* ---------------------------------------------------------------- the whole printer *)
Lemma sml_text_ne ws ee t : t <> [] -> sml_text ws ee t = (header_text ws t ++ cat (map (item_text ws t) (gen_sml ee t)))%string.
Proof. destruct t; [contradiction|reflexivity]. Qed.

Theorem sml_print_text ws ee tt : forallb row_ok (table_of tt) = true ->
  cat (sml_print (TTable.states (table_of tt)) tt ee ws) = sml_text ws ee (table_of tt).
Proof.
  intros Hok. destruct (list_eq_dec (list_eq_dec string_dec) tt []) as [->|Hne].
  - unfold sml_print, sml_text. cbn. destruct ee; reflexivity.
  - assert (Hne' : table_of tt <> []) by (destruct tt; [contradiction|discriminate]).
    rewrite (sml_text_ne ws ee _ Hne'). unfold sml_print.
    destruct (rows_out_spec ws tt ee tt true (sml_header ws tt) [] [] Hok (fun _ x => eq_refl)) as [R1 R2].
    destruct (sml_rows_out ws tt ee true (sml_header ws tt) [] tt) as [out seen] eqn:Eo. cbn [fst snd] in R1, R2.
    assert (R1' : cat out = (sml_header ws tt ++ cat (map (item_text ws (table_of tt)) (gen_rows ee true [] (table_of tt))))%string)
      by (rewrite R1; destruct tt; [contradiction|reflexivity]).
    rewrite cat_app, R1', app_assoc_s.
    assert (Hh : sml_header ws tt = header_text ws (table_of tt)).
    { unfold sml_header, header_text.
      rewrite (maxlen_width r_state r_src (fun _ => eq_refl)), (maxlen_width r_event r_ev (fun _ => eq_refl)),
              (maxlen_width EngineSM.r_guard TableDef.r_guard (fun _ => eq_refl)), (maxlen_width r_action r_act (fun _ => eq_refl)). reflexivity. }
    rewrite Hh. f_equal. unfold gen_sml. rewrite map_app, cat_app. f_equal.
    destruct ee; [|reflexivity]. change sml_hooks_for_all_states with true. cbn [andb].
    rewrite (tail_spec ws (TTable.states (table_of tt)) seen [] (NoDup_dedup _)). cbn [app]. rewrite cat_flat_map.
    assert (F : filter (fun s => negb (inb s seen)) (states (table_of tt)) = filter (fun s => negb (TTable.mem s (map r_src (table_of tt)))) (states (table_of tt))).
    { apply filter_ext. intros s. rewrite (R2 eq_refl s). reflexivity. }
    rewrite F. f_equal. apply map_ext. intros s. apply hooks_chunk.
Qed.

(* ---------------------------------------------------------------- as the engine's stage sees it *)
Theorem sml_stage_text (tt : list EngineSM.row) (structs protos msgs : list string) (m : smodel) (ee : bool) (ws : string) :
  tt_model tt structs protos msgs = Some m -> forallb row_ok (table_of tt) = true ->
  single_of m "innerexpand_sml" (if ee then "smmodel,True" else "smmodel,False") = Some (sml_print (sm_states m) (sm_rows m) ee)
  /\ cat (sml_print (sm_states m) (sm_rows m) ee ws) = sml_text ws ee (table_of tt).
Proof.
  intros Hm Hok. unfold tt_model in Hm. destruct (fold_left tps_step tt (Some [])) as [tps|]; [|discriminate]. inversion Hm. subst m. clear Hm.
  cbn [sm_states sm_rows]. split; [destruct ee; reflexivity|].
  assert (N : table_of (map norm_row tt) = table_of tt) by (unfold table_of; rewrite map_map; reflexivity).
  rewrite tt_states_first_appearance, <- N. apply sml_print_text. rewrite N. exact Hok.
Qed.

(* the single-tag stage on a template line that carries the tag: the line is replaced by the printed table *)
Lemma single_expand_hit tag f l : hasSpecificTag l tag = true -> single_expand tag f [l] = f (getWhitespace l).
Proof. intros H. unfold single_expand. cbn [flat_map]. rewrite H, app_nil_r. reflexivity. Qed.

From KV Require Import Spec.TableInterp Proofs.SmlSemProofs.
Theorem sml_sem_engine (tt : list EngineSM.row) (structs protos msgs : list string) (m : smodel) (ws : string) :
  tt_model tt structs protos msgs = Some m -> table_of tt <> [] -> forallb row_ok (table_of tt) = true -> sml_names_ok (table_of tt) = true ->
  String.concat "" (sml_print (sm_states m) (sm_rows m) true ws)
  = (header_text ws (table_of tt) ++ String.concat "" (map (item_text ws (table_of tt)) (gen_sml true (table_of tt))))%string
  /\ forall evs gv, sml_run (gen_sml true (table_of tt)) evs gv
                    = camel_steps (table_interp_quiet (table_of tt) evs (fun n g => gv n (camel_small g))).
Proof.
  intros Hm Hne Hok Hn. split.
  - destruct (sml_stage_text tt structs protos msgs m true ws Hm Hok) as [_ E]. unfold cat in E. rewrite E. apply sml_text_ne. exact Hne.
  - intros evs gv. apply sml_sem; assumption.
Qed.
