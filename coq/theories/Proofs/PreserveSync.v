(* C18: FileSync, bytes to bytes. *)
From Coq Require Import String Ascii List Bool Arith Lia.
From KV Require Import Lib.Str Lib.ODict Model.PreserveCore Model.Preserve Gen.Tags
                       Proofs.StrProofs Proofs.PreserveCoreProofs Proofs.PreserveStr Proofs.CleanProofs.
Import ListNotations.
Open Scope string_scope.
Open Scope list_scope.

Notation bitem_s := (@bitem string).
Notation bflatten_s := (@bflatten string).
Notation synced_s := (synced String.eqb kof).
Notation wf_bitem_s := (wf_bitem String.eqb kof sub_of kpfx).
Notation keys_pfx_s := (@keys_pfx string string kpfx).
Notation bodies_ok_s := (bodies_ok String.eqb kof kpfx).
Notation resync_s := (resync String.eqb kof).

(* a file as a list of text lines: every line canonical (the last one may lack its LF), no CR *)
Definition lines_okb (ls : list string) : bool := lines_shape ls && forallb (no_char CR) ls.

Lemma read_concat ls : lines_okb ls = true -> read_lines (concat_lines ls) = ls.
Proof.
  intros H. apply andb_prop in H as [H1 H2]. unfold read_lines.
  rewrite universal_newlines_nocr by (apply no_char_concat; assumption).
  apply split_concat. assumption.
Qed.

(* the tags collected from the source file A *)
Definition tags_of (a : string) : list (string * list string) := collect (read_lines a).

(* C18_shared_replaced + C18_rest_untouched: the new content of B is B with the body of every tag pair whose
   cleaned name is a tag of A replaced by A's body; every other line of B (text outside pairs, the tag lines
   themselves, bodies of pairs that exist only in B) is kept byte for byte, in order. *)
Theorem sync_bytes a (B : list bitem_s) :
  lines_okb (bflatten_s B) = true -> Forall (wf_bitem_s (tags_of a)) B ->
  file_sync a (concat_lines (bflatten_s B)) = concat_lines (synced_s (tags_of a) B).
Proof.
  intros Hl Hwf. assert (Hk : keys_pfx_s (tags_of a)) by (apply collect_keys_have_prefix). unfold file_sync. rewrite (read_concat _ Hl). f_equal. unfold emplace.
  apply (sync_spec String.eqb eqb_spec_str tab4 is_tag kof sub_of kpfx vis nl nl ""); assumption.
Qed.

(* C18_idempotent *)
Theorem sync_idempotent a (B : list bitem_s) :
  lines_okb (bflatten_s B) = true -> Forall (wf_bitem_s (tags_of a)) B ->
  bodies_ok_s (tags_of a) -> lines_okb (synced_s (tags_of a) B) = true ->
  let b1 := file_sync a (concat_lines (bflatten_s B)) in
  file_sync a b1 = b1.
Proof.
  intros Hl Hwf Hb Hl2 b1. unfold b1. rewrite (sync_bytes a B Hl Hwf).
  pose proof (bflatten_resync String.eqb kof (tags_of a) B) as E.
  rewrite <- E at 1.
  rewrite sync_bytes.
  - rewrite synced_resync. reflexivity.
  - rewrite E. assumption.
  - apply wf_resync; assumption.
Qed.

(* "touches nothing else", whole-file form: when no tag pair of B carries a name that A defines, B is written back
   byte for byte (whatever A contains besides). *)
Definition unshared (tg : list (string * list string)) (it : bitem_s) : Prop :=
  match it with BPlain _ => True | BBlock o _ _ => ODict.lookup String.eqb (kof o) tg = None end.

Lemma synced_unshared tg (B : list bitem_s) : Forall (unshared tg) B -> synced_s tg B = bflatten_s B.
Proof.
  unfold synced, bflatten. induction B as [|it B IH]; intros H; [reflexivity|].
  inversion H as [|x xs Hit HB]; subst. cbn [flat_map]. rewrite (IH HB).
  destruct it as [l|o b c]; [reflexivity|]. cbn [unshared] in Hit. rewrite Hit. reflexivity.
Qed.

Theorem sync_no_shared_identity a (B : list bitem_s) :
  lines_okb (bflatten_s B) = true -> Forall (wf_bitem_s (tags_of a)) B -> Forall (unshared (tags_of a)) B ->
  file_sync a (concat_lines (bflatten_s B)) = concat_lines (bflatten_s B).
Proof. intros Hl Hwf Hu. rewrite (sync_bytes a B Hl Hwf), (synced_unshared _ _ Hu). reflexivity. Qed.
