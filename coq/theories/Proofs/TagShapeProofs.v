(* C07: finite obligations over the shipped templates (regenerated from /repo on every run), uniqueness of instantiated
   tag names, and what well-formed USER tags buy: an unambiguous collection of the blocks. *)
From Coq Require Import String Ascii List Bool Arith Lia.
From KV Require Import Lib.Str Lib.ODict Model.PreserveCore Model.Preserve Model.TagShape
                       Gen.Tags Gen.Templates Gen.Vocab
                       Proofs.StrProofs Proofs.PreserveCoreProofs Proofs.PreserveStr.
Import ListNotations.
Open Scope string_scope.
Open Scope list_scope.

Definition vocab_of (set : string) : list string :=
  if String.eqb set "uml" || String.eqb set "uml_cs" then vocab_uml else vocab_sm.

Definition templates_tags_known : bool :=
  forallb (fun set => forallb (fun file => forallb (line_tags_known (vocab_of (fst set))) (snd file)) (snd set)) all_templates.

Definition templates_user_tags_ok : bool :=
  forallb (fun set => forallb (fun file => user_tags_ok (snd file)) (snd set)) all_templates.

Lemma templates_tags_known_holds : templates_tags_known = true.
Proof. vm_compute. reflexivity. Qed.

Lemma templates_user_tags_ok_holds : templates_user_tags_ok = true.
Proof. vm_compute. reflexivity. Qed.

Lemma templates_tags_known_spec set file l :
  In set all_templates -> In file (snd set) -> In l (snd file) ->
  exists ts, tags_of l = Some ts /\
             forall t, In t ts -> mem_str (head_of t) (vocab_of (fst set)) = true \/ has_default t = true.
Proof.
  intros Hs Hf Hl. pose proof templates_tags_known_holds as H. unfold templates_tags_known in H.
  rewrite forallb_forall in H. specialize (H set Hs). rewrite forallb_forall in H. specialize (H file Hf).
  rewrite forallb_forall in H. specialize (H l Hl). unfold line_tags_known in H.
  destruct (tags_of l) as [ts|]; [|discriminate]. exists ts. split; [reflexivity|].
  intros t Ht. rewrite forallb_forall in H. specialize (H t Ht). apply orb_prop in H. exact H.
Qed.

Lemma templates_user_tags_ok_spec set file :
  In set all_templates -> In file (snd set) ->
  exists ks, user_pairs (snd file) = Some ks /\ NoDup ks.
Proof.
  intros Hs Hf. pose proof templates_user_tags_ok_holds as H. unfold templates_user_tags_ok in H.
  rewrite forallb_forall in H. specialize (H set Hs). rewrite forallb_forall in H. specialize (H file Hf).
  unfold user_tags_ok in H. destruct (user_pairs (snd file)) as [ks|]; [|discriminate].
  exists ks. split; [reflexivity|]. apply nodupb_NoDup. exact H.
Qed.

(* ---------------------------------------------------------------- instantiated tag names *)
Lemma append_inj_l (p a b : string) : (p ++ a)%string = (p ++ b)%string -> a = b.
Proof. induction p as [|c p IH]; simpl; intros H; [assumption|]. inversion H. auto. Qed.

Lemma length_append_s (a b : string) : String.length (a ++ b)%string = String.length a + String.length b.
Proof. induction a; simpl; [reflexivity|]. rewrite IHa. reflexivity. Qed.

Lemma append_inj_r_s (a b s : string) : (a ++ s)%string = (b ++ s)%string -> a = b.
Proof.
  revert b. induction a as [|x a IH]; intros b E.
  - destruct b as [|y b]; [reflexivity|].
    apply (f_equal String.length) in E. simpl in E. rewrite length_append_s in E. lia.
  - destruct b as [|y b].
    + apply (f_equal String.length) in E. simpl in E. rewrite length_append_s in E. lia.
    + simpl in E. inversion E. f_equal. apply IH. assumption.
Qed.

(* a tag template  pre <<<NAME>>> suf  expanded once per element of a duplicate-free list gives pairwise distinct names *)
Theorem instances_unique (pre suf : string) (elems : list string) :
  NoDup elems -> NoDup (map (fun e => (pre ++ e ++ suf)%string) elems).
Proof.
  intros H. induction H as [|e l Hn Hd IH]; [constructor|]. simpl. constructor; [|exact IH].
  intros Hin. apply in_map_iff in Hin as [e' [E He']].
  apply append_inj_l in E. apply append_inj_r_s in E. subst e'. contradiction.
Qed.

(* two-name templates  pre <<<A>>> mid <<<B>>> suf : distinct whenever the separator does not occur in the names *)
Fixpoint split_at (c : ascii) (s : string) : option (string * string) :=
  match s with
  | EmptyString => None
  | String x r => if Ascii.eqb x c then Some (EmptyString, r)
                  else match split_at c r with Some (a, b) => Some (String x a, b) | None => None end
  end.

Lemma split_at_app c a b : no_char c a = true -> split_at c (a ++ String c b)%string = Some (a, b).
Proof.
  induction a as [|x a IH]; simpl; intros H.
  - rewrite ascii_eqb_refl. reflexivity.
  - apply andb_prop in H as [H1 H2]. apply negb_true_iff in H1. rewrite H1. rewrite IH by assumption. reflexivity.
Qed.

Theorem pair_instances_injective (c : ascii) (a1 b1 a2 b2 : string) :
  no_char c a1 = true -> no_char c a2 = true ->
  (a1 ++ String c b1)%string = (a2 ++ String c b2)%string -> a1 = a2 /\ b1 = b2.
Proof.
  intros H1 H2 E. pose proof (split_at_app c a1 b1 H1) as S1. rewrite E in S1.
  rewrite (split_at_app c a2 b2 H2) in S1. inversion S1. auto.
Qed.

(* ---------------------------------------------------------------- what well-formed tags buy *)
(* For a generated file whose USER tags are well formed, the next regeneration collects, for every tag name, exactly the
   block the user placed under that tag -- in order, nothing attributed to another tag. *)
Theorem collect_unambiguous (u : string -> list string) its :
  wfb its = true -> items_okb its = true -> (forall k, block_ok (u k) = true) ->
  collect (read_lines (on_disk u its)) = map (fun k => (k, map tab4 (u k))) (pair_keys kof its).
Proof.
  intros Hwf Hok Hu. rewrite (read_on_disk u its Hok Hu).
  destruct (user_ok_blocks u Hu) as [Huo _]. unfold collect.
  rewrite (collect_file_disk String.eqb eqb_spec_str tab4 is_tag kof kpfx vis (fun k => map tab4 (u k)) its ""
             (wfb_wf its Hwf) Huo).
  reflexivity.
Qed.
