(* The whole code model: preserve_usercode_in_files treats every file on its own (C04), LostCode
   pseudo-files are keyed next to their file (C03), unreadable files are dropped from the output (C03). *)
From Coq Require Import String Ascii List Bool Arith Lia.
From KV Require Import Lib.Str Lib.ODict Model.PreserveCore Model.Preserve Gen.Tags.
Import ListNotations.
Open Scope string_scope.
Open Scope list_scope.

Notation slookup := (lookup String.eqb).
Notation supsert := (upsert String.eqb).

Lemma lookup_upsert {V} k k' (v : V) m :
  slookup k (supsert k' v m) = if String.eqb k k' then Some v else slookup k m.
Proof.
  induction m as [|[k2 v2] m IH]; simpl.
  - destruct (String.eqb k k'); reflexivity.
  - destruct (String.eqb k' k2) eqn:E; simpl.
    + apply String.eqb_eq in E. subst k2. destruct (String.eqb k k'); reflexivity.
    + destruct (String.eqb k k2) eqn:E2.
      * apply String.eqb_eq in E2. subst k2. rewrite String.eqb_sym in E. rewrite E. reflexivity.
      * exact IH.
Qed.

Lemma keys_upsert {V} k (v : V) m : In k (keys m) -> keys (supsert k v m) = keys m.
Proof.
  induction m as [|[k2 v2] m IH]; simpl; [contradiction|].
  destruct (String.eqb k k2) eqn:E; simpl; [reflexivity|].
  intros [H|H]; [subst; rewrite String.eqb_refl in E; discriminate|]. f_equal. apply IH. assumption.
Qed.

Lemma keys_upsert_new {V} k (v : V) m : ~ In k (keys m) -> keys (supsert k v m) = keys m ++ [k].
Proof.
  induction m as [|[k2 v2] m IH]; simpl; intros H; [reflexivity|].
  destruct (String.eqb k k2) eqn:E; simpl.
  - apply String.eqb_eq in E. subst. exfalso. apply H. left; reflexivity.
  - f_equal. apply IH. intros Hin. apply H. right; assumption.
Qed.

Lemma lookup_remove_other k k' (m : cmodel) : k <> k' -> slookup k (remove_key k' m) = slookup k m.
Proof.
  intros Hne. induction m as [|[k2 v2] m IH]; simpl; [reflexivity|].
  destruct (String.eqb k' k2) eqn:E.
  - apply String.eqb_eq in E. subst k2.
    destruct (String.eqb k k') eqn:E2; [apply String.eqb_eq in E2; contradiction|reflexivity].
  - simpl. destruct (String.eqb k k2); [reflexivity|exact IH].
Qed.

Lemma lookup_remove_same k (m : cmodel) : NoDup (keys m) -> slookup k (remove_key k m) = None.
Proof.
  induction m as [|[k2 v2] m IH]; simpl; intros Hnd; [reflexivity|].
  inversion Hnd as [|? ? Hnotin Hnd']; subst.
  destruct (String.eqb k k2) eqn:E.
  - apply String.eqb_eq in E. subst k2.
    clear IH Hnd Hnd'. induction m as [|[k3 v3] m IHm]; simpl; [reflexivity|].
    destruct (String.eqb k k3) eqn:E3.
    + apply String.eqb_eq in E3. subst. exfalso. apply Hnotin. left; reflexivity.
    + apply IHm. intros Hin. apply Hnotin. right; assumption.
  - simpl. rewrite E. apply IH. assumption.
Qed.

Lemma keys_remove_sub k (m : cmodel) x : In x (keys (remove_key k m)) -> In x (keys m).
Proof.
  induction m as [|[k2 v2] m IH]; simpl; [tauto|].
  destruct (String.eqb k k2); simpl; [tauto|]. intros [H|H]; [left; assumption|right; apply IH; assumption].
Qed.

Lemma NoDup_remove k (m : cmodel) : NoDup (keys m) -> NoDup (keys (remove_key k m)).
Proof.
  induction m as [|[k2 v2] m IH]; simpl; intros H; [constructor|].
  inversion H as [|? ? Hn Hd]; subst. destruct (String.eqb k k2); [assumption|].
  simpl. constructor; [|apply IH; assumption]. intros Hin. apply Hn. eapply keys_remove_sub; eassumption.
Qed.

Lemma NoDup_snoc (l : list string) k : NoDup l -> ~ In k l -> NoDup (l ++ [k]).
Proof.
  induction l as [|x l IH]; simpl; intros Hnd Hn; [constructor; [tauto|constructor]|].
  inversion Hnd as [|? ? Hx Hd]; subst. constructor.
  - rewrite in_app_iff. simpl. intros [H|[H|[]]]; [contradiction|subst; apply Hn; left; reflexivity].
  - apply IH; [assumption|]. intros H. apply Hn. right; assumption.
Qed.

Lemma NoDup_upsert {V} k (v : V) m : NoDup (keys m) -> NoDup (keys (supsert k v m)).
Proof.
  intros H. destruct (in_dec string_dec k (keys m)) as [Hin|Hn].
  - rewrite keys_upsert by assumption. assumption.
  - rewrite keys_upsert_new by assumption. apply NoDup_snoc; assumption.
Qed.

(* ---------------------------------------------------------------- one step touches only its own two keys *)
Definition lost_name (fn : string) : string := (fn ++ lost_suffix)%string.

Lemma length_append (a b : string) : String.length (a ++ b)%string = String.length a + String.length b.
Proof. induction a; simpl; [reflexivity|]. rewrite IHa. reflexivity. Qed.

Lemma lost_suffix_nonempty : String.length lost_suffix > 0.
Proof. vm_compute. lia. Qed.

Lemma lost_name_neq fn : fn <> lost_name fn.
Proof.
  intros E. apply (f_equal String.length) in E. unfold lost_name in E. rewrite length_append in E.
  pose proof lost_suffix_nonempty. lia.
Qed.

Lemma append_inj_r (a b s : string) : (a ++ s)%string = (b ++ s)%string -> a = b.
Proof.
  revert b. induction a as [|x a IH]; intros b E.
  - destruct b as [|y b]; [reflexivity|].
    apply (f_equal String.length) in E. simpl in E. rewrite length_append in E. lia.
  - destruct b as [|y b].
    + apply (f_equal String.length) in E. simpl in E. rewrite length_append in E. lia.
    + simpl in E. inversion E. f_equal. apply IH. assumption.
Qed.

Lemma lost_name_inj a b : lost_name a = lost_name b -> a = b.
Proof. apply append_inj_r. Qed.

Notation step := preserve_file_step.

Lemma step_frame outdir old m fn k : k <> fn -> k <> lost_name fn ->
  slookup k (step outdir old m fn) = slookup k m.
Proof.
  intros H1 H2. unfold preserve_file_step. destruct (old fn) as [| |c].
  - reflexivity.
  - apply lookup_remove_other. assumption.
  - destruct (preserve1 _ _ _) as [out lost]. destruct lost as [|l lost].
    + rewrite lookup_upsert. apply String.eqb_neq in H1. rewrite H1. reflexivity.
    + rewrite !lookup_upsert. apply String.eqb_neq in H1, H2. fold (lost_name fn). rewrite H1, H2. reflexivity.
Qed.

Lemma step_NoDup outdir old m fn : NoDup (keys m) -> NoDup (keys (step outdir old m fn)).
Proof.
  intros H. unfold preserve_file_step. destruct (old fn) as [| |c].
  - assumption.
  - apply NoDup_remove; assumption.
  - destruct (preserve1 _ _ _) as [out lost]. destruct lost; repeat apply NoDup_upsert; assumption.
Qed.

(* what the step leaves under the file's own name / under its LostCode name *)
Definition file_out (outdir : string) (old : string -> old_state) (fn : string) (cur : option (list string))
  : option (list string) :=
  match old fn with
  | Missing => cur
  | Unreadable => None
  | Readable c =>
      Some (fst (preserve1 (join outdir fn) (match cur with Some l => l | None => [] end) (read_lines c)))
  end.

Definition lost_out (outdir : string) (old : string -> old_state) (fn : string) (cur : option (list string))
  (before : option (list string)) : option (list string) :=
  match old fn with
  | Readable c =>
      match snd (preserve1 (join outdir fn) (match cur with Some l => l | None => [] end) (read_lines c)) with
      | [] => before
      | l => Some l
      end
  | _ => before
  end.

Lemma step_self outdir old m fn : NoDup (keys m) ->
  slookup fn (step outdir old m fn) = file_out outdir old fn (slookup fn m).
Proof.
  intros Hnd. unfold preserve_file_step, file_out. destruct (old fn) as [| |c].
  - reflexivity.
  - apply lookup_remove_same. assumption.
  - destruct (preserve1 _ _ _) as [out lost] eqn:E. simpl. destruct lost as [|l lost].
    + rewrite lookup_upsert, String.eqb_refl. reflexivity.
    + rewrite !lookup_upsert. fold (lost_name fn).
      pose proof (lost_name_neq fn) as Hne. apply String.eqb_neq in Hne. rewrite Hne, String.eqb_refl. reflexivity.
Qed.

Lemma step_lost outdir old m fn :
  slookup (lost_name fn) (step outdir old m fn)
  = lost_out outdir old fn (slookup fn m) (slookup (lost_name fn) m).
Proof.
  unfold preserve_file_step, lost_out. destruct (old fn) as [| |c].
  - reflexivity.
  - apply lookup_remove_other. intros E. symmetry in E. apply lost_name_neq in E. assumption.
  - destruct (preserve1 _ _ _) as [out lost] eqn:E. simpl. destruct lost as [|l lost].
    + rewrite lookup_upsert.
      destruct (String.eqb (lost_name fn) fn) eqn:E2; [|reflexivity].
      apply String.eqb_eq in E2. symmetry in E2. apply lost_name_neq in E2. contradiction.
    + rewrite lookup_upsert. fold (lost_name fn). rewrite String.eqb_refl. reflexivity.
Qed.

(* ---------------------------------------------------------------- the fold *)
Lemma fold_frame outdir old l : forall m k,
  (forall x, In x l -> k <> x /\ k <> lost_name x) ->
  slookup k (fold_left (step outdir old) l m) = slookup k m.
Proof.
  induction l as [|x l IH]; intros m k H; [reflexivity|]. simpl.
  rewrite IH by (intros y Hy; apply H; right; assumption).
  destruct (H x (or_introl eq_refl)). apply step_frame; assumption.
Qed.

Lemma fold_NoDup outdir old l : forall m, NoDup (keys m) -> NoDup (keys (fold_left (step outdir old) l m)).
Proof. induction l as [|x l IH]; intros m H; [assumption|]. simpl. apply IH. apply step_NoDup. assumption. Qed.

Definition names_ok (names : list string) : Prop :=
  NoDup names /\ forall a b, In a names -> In b names -> a <> lost_name b.

Lemma lookup_not_key {V} k (m : list (string * V)) : ~ In k (keys m) -> slookup k m = None.
Proof.
  induction m as [|[k2 v2] m IH]; simpl; intros H; [reflexivity|].
  destruct (String.eqb k k2) eqn:E.
  - apply String.eqb_eq in E. subst. exfalso. apply H. left; reflexivity.
  - apply IH. intros Hin. apply H. right; assumption.
Qed.

(* C04 core: in the code model after preserve_usercode_in_files, the entry of file [fn] and its LostCode
   pseudo-file are functions of that file's fresh lines and of that file's old content ONLY. *)
Theorem preserve_files_file outdir old (fresh : cmodel) fn :
  names_ok (keys fresh) -> In fn (keys fresh) ->
  slookup fn (preserve_files outdir old fresh) = file_out outdir old fn (slookup fn fresh)
  /\ slookup (lost_name fn) (preserve_files outdir old fresh) = lost_out outdir old fn (slookup fn fresh) None.
Proof.
  intros [Hnd Hl] Hin. unfold preserve_files.
  apply in_split in Hin as [a [b Hab]].
  assert (Hfr : forall x, In x (a ++ b) -> (fn <> x /\ fn <> lost_name x) /\ (lost_name fn <> x /\ lost_name fn <> lost_name x)).
  { intros x Hx. assert (Hxin : In x (keys fresh)).
    { rewrite Hab. apply in_app_iff. apply in_app_iff in Hx. simpl. tauto. }
    assert (Hfn : In fn (keys fresh)) by (rewrite Hab; apply in_app_iff; right; left; reflexivity).
    assert (Hne : fn <> x).
    { rewrite Hab in Hnd. apply NoDup_remove_2 in Hnd. intros E. subst x. contradiction. }
    repeat split.
    - assumption.
    - apply Hl; assumption.
    - intros E. symmetry in E. revert E. apply Hl; assumption.
    - intros E. apply lost_name_inj in E. contradiction. }
  rewrite Hab. rewrite fold_left_app. simpl.
  set (m1 := fold_left (step outdir old) a fresh).
  assert (Hnd1 : NoDup (keys m1)) by (apply fold_NoDup; assumption).
  assert (H1 : slookup fn m1 = slookup fn fresh).
  { apply fold_frame. intros x Hx. apply (Hfr x). apply in_app_iff. left; assumption. }
  assert (H2 : slookup (lost_name fn) m1 = None).
  { unfold m1. rewrite fold_frame.
    - apply lookup_not_key. intros Hk. revert Hk. intros Hk.
      assert (Hfn : In fn (keys fresh)) by (rewrite Hab; apply in_app_iff; right; left; reflexivity).
      exact (Hl _ _ Hk Hfn eq_refl).
    - intros x Hx. apply (Hfr x). apply in_app_iff. left; assumption. }
  split.
  - rewrite fold_frame by (intros x Hx; apply (Hfr x); apply in_app_iff; right; assumption).
    rewrite step_self by assumption. rewrite H1. reflexivity.
  - rewrite fold_frame by (intros x Hx; apply (Hfr x); apply in_app_iff; right; assumption).
    rewrite step_lost. rewrite H1, H2. reflexivity.
Qed.

(* nothing else appears in the code model *)
Theorem preserve_files_other outdir old (fresh : cmodel) k :
  ~ In k (keys fresh) -> (forall fn, In fn (keys fresh) -> k <> lost_name fn) ->
  slookup k (preserve_files outdir old fresh) = None.
Proof.
  intros H1 H2. unfold preserve_files. rewrite fold_frame.
  - apply lookup_not_key. assumption.
  - intros x Hx. split; [intros E; subst; contradiction|apply H2; assumption].
Qed.

(* createoutput writes exactly the code model (TAB filter applied) and returns its keys *)
Lemma createoutput_lookup (m : cmodel) k :
  slookup k (fst (createoutput m)) = option_map (fun ls => concat_lines (map tab4 ls)) (slookup k m).
Proof.
  unfold createoutput. simpl. induction m as [|[k2 v2] m IH]; simpl; [reflexivity|].
  destruct (String.eqb k k2); [reflexivity|exact IH].
Qed.

Lemma createoutput_returns (m : cmodel) : snd (createoutput m) = keys m /\ keys (fst (createoutput m)) = keys m.
Proof. unfold createoutput, keys. simpl. split; [reflexivity|]. rewrite map_map. reflexivity. Qed.

(* the LostCode pseudo-file is written next to the file it came from, for every spelling of outdir *)
Lemma append_assoc (a b c : string) : ((a ++ b) ++ c)%string = (a ++ (b ++ c))%string.
Proof. induction a; simpl; congruence. Qed.

Lemma prefixb_append p a b : a <> EmptyString -> prefixb p a = true -> prefixb p (a ++ b)%string = true.
Proof.
  revert a. induction p as [|x p IH]; intros a Hne H; [reflexivity|].
  destruct a as [|y a]; [contradiction|]. simpl in *. apply andb_prop in H as [H1 H2]. rewrite H1. simpl.
  destruct p as [|x2 p2]; [reflexivity|]. apply IH; [|assumption]. destruct a; [simpl in H2; discriminate|discriminate].
Qed.

Lemma join_lost outdir fn : prefixb "/" fn = false -> fn <> EmptyString ->
  join outdir (lost_name fn) = (join outdir fn ++ lost_suffix)%string.
Proof.
  intros Hrel Hne. unfold join, lost_name. destruct outdir as [|c o]; [reflexivity|].
  rewrite Hrel.
  assert (Hp : prefixb "/" (fn ++ lost_suffix)%string = false).
  { destruct fn as [|y fn]; [contradiction|]. simpl in *. exact Hrel. }
  rewrite Hp. destruct (last_is _ _); rewrite ?append_assoc; reflexivity.
Qed.
