(* C19 for the C# back end: the file set of the C# generator (one .cs file per element, then the project files) is the
   expected one (files_all = expected_files_cs); the C++ template directory has no project template (files_all = files_of). *)
From Coq Require Import String Ascii List Bool Arith Lia.
From KV Require Import Lib.Str Lib.ODict Model.Vpp Gen.UmlSrc Model.Uml Model.UmlCs Spec.UmlSpec Proofs.UmlProofs Proofs.UmlFiles.
Import ListNotations.
Open Scope string_scope.

(* ---------------------------------------------------------------- output file names: the .cs templates *)

(* the shared dict_to_replace_filenames (.ty -> .py, .t -> .h, .hpp -> .cpp) leaves  name.cs  alone *)
Lemma out_name_cs (k : kind) (tag tmpl name : string) :
  nth_error filename_dicts (kind_index k) = Some [(tag, ""); (".ty", ".py"); (".t", ".h"); (".hpp", ".cpp")] ->
  tmpl = tag ++ ".cs" -> tag <> "" -> repl_from tag name 0 (tag ++ ".cs") = name ++ ".cs" ->
  no_char "." name = true -> out_name k name tmpl = name ++ ".cs".
Proof.
  intros Hd -> Ht Hr H. unfold out_name. rewrite Hd. cbn [fold_left fst snd]. unfold replace_all at 4.
  destruct tag; [congruence|]. rewrite Hr. unfold replace_all. cbv beta iota.
  rewrite !(repl_skip_dot _ _ name) by exact H. f_equal.
Qed.

Ltac templ_cs :=
  match goal with |- context [templates_of template_files_cs ?k] =>
    let v := eval vm_compute in (templates_of template_files_cs k) in change (templates_of template_files_cs k) with v end.

(* TARGET 1 *)
Lemma class_files_spec_cs nsf c : path_ok c = true -> class_files template_files_cs nsf c = spec_files_cs nsf c.
Proof.
  intros H. assert (Hd : no_char "." (c_name c) = true).
  { unfold path_ok, name_ok in H. repeat (apply andb_true_iff in H; destruct H as [H ?]). exact H. }
  unfold class_files, spec_files_cs, spec_exts_cs, kind_of.
  destruct (c_enum c), (c_struct c), (c_autogen c), (c_pure c); cbn [negb andb orb]; templ_cs; cbn [map];
    try reflexivity;
    try (rewrite (out_name_cs KClass "ClassTemplate" _ (c_name c)), placed_spec;
         [reflexivity|exact H|vm_compute; reflexivity|reflexivity|discriminate|vm_compute; reflexivity|exact Hd]);
    try (rewrite (out_name_cs KInterface "InterfaceTemplate" _ (c_name c)), placed_spec;
         [reflexivity|exact H|vm_compute; reflexivity|reflexivity|discriminate|vm_compute; reflexivity|exact Hd]);
    try (rewrite (out_name_cs KEnum "EnumTemplate" _ (c_name c)), placed_spec;
         [reflexivity|exact H|vm_compute; reflexivity|reflexivity|discriminate|vm_compute; reflexivity|exact Hd]);
    try (rewrite (out_name_cs KStruct "StructTemplate" _ (c_name c)), placed_spec;
         [reflexivity|exact H|vm_compute; reflexivity|reflexivity|discriminate|vm_compute; reflexivity|exact Hd]).
Qed.
Print Assumptions class_files_spec_cs.

(* ---------------------------------------------------------------- each namespace once *)

Lemma filter_filter_and {A} (p q : A -> bool) l : filter p (filter q l) = filter (fun y => q y && p y) l.
Proof.
  induction l as [|x l IH]; [reflexivity|]. cbn [filter]. destruct (q x); cbn [andb filter]; rewrite IH; reflexivity.
Qed.

Lemma filter_ext_all {A} (p q : A -> bool) l : (forall y, p y = q y) -> filter p l = filter q l.
Proof. intros H. induction l as [|x l IH]; [reflexivity|]. cbn [filter]. rewrite H, IH. reflexivity. Qed.

Lemma filter_true {A} (l : list A) : filter (fun _ => true) l = l.
Proof. induction l as [|x l IH]; [reflexivity|]. cbn [filter]. rewrite IH. reflexivity. Qed.

Lemma first_occ_filter : forall l seen,
  first_occ l seen = filter (fun y => negb (existsb (String.eqb y) seen)) (dedup l).
Proof.
  induction l as [|x r IH]; intros seen; [reflexivity|].
  cbn [first_occ dedup filter]. destruct (existsb (String.eqb x) seen) eqn:E; cbn [negb].
  - rewrite IH, filter_filter_and. apply filter_ext_all. intros y.
    destruct (String.eqb x y) eqn:Exy; [|reflexivity].
    apply String.eqb_eq in Exy. subst y. rewrite E. reflexivity.
  - rewrite IH, filter_filter_and. f_equal. apply filter_ext_all. intros y.
    cbn [existsb]. rewrite (String.eqb_sym y x). destruct (String.eqb x y); reflexivity.
Qed.

(* TARGET 2 *)
Lemma first_occ_dedup : forall l, first_occ l [] = dedup l.
Proof. intros l. rewrite first_occ_filter. cbn [existsb negb]. apply filter_true. Qed.
Print Assumptions first_occ_dedup.

(* ---------------------------------------------------------------- the project files *)

Lemma templates_by_project_cs : templates_by "Project" template_files_cs = ["Project.csproj"].
Proof. vm_compute. reflexivity. Qed.

Lemma templates_by_project_cpp : templates_by "Project" template_files = [].
Proof. vm_compute. reflexivity. Qed.

(* str.replace only scans the template name: the namespace may be anything *)
Lemma project_name ns : replace_all "Project" ns "Project.csproj" = ns ++ ".csproj".
Proof. unfold replace_all. cbn. reflexivity. Qed.

Lemma prefixb_slash_app ns s : ns <> "" -> prefixb "/" (ns ++ s) = prefixb "/" ns.
Proof. destruct ns as [|a r]; [congruence|]. intros _. cbn [append prefixb]. rewrite !andb_true_r. reflexivity. Qed.

Lemma folder_chain_empty : folder_chain "" = "".
Proof. reflexivity. Qed.

Lemma placed_project nsf ns : proj_ok nsf ns = true ->
  placed nsf ns (ns ++ ".csproj") = spec_folder nsf ns ++ ns ++ ".csproj".
Proof.
  unfold proj_ok, placed, spec_folder. intros H. apply andb_true_iff in H. destruct H as [Hp Hs].
  apply negb_true_iff in Hp. rewrite ns_path_chain.
  destruct (nsf && negb (folder_chain ns =? "")) eqn:E; [|reflexivity].
  apply andb_true_iff in E. destruct E as [En Ec]. subst nsf. cbn [negb orb] in Hs. apply negb_true_iff in Hs.
  unfold path_join. unfold last_is_slash in Hs. rewrite Hs.
  assert (Hne : ns <> "").
  { intros ->. rewrite folder_chain_empty in Ec. discriminate. }
  rewrite (prefixb_slash_app ns ".csproj" Hne), Hp.
  destruct (folder_chain ns) as [|a0 ar] eqn:Ef; [discriminate|].
  rewrite VppStr.sapp_assoc. reflexivity.
Qed.

Lemma flat_map_single {A B} (g : A -> B) l : flat_map (fun x => [g x]) l = map g l.
Proof. induction l as [|x l IH]; [reflexivity|]. cbn [flat_map map app]. rewrite IH. reflexivity. Qed.

Lemma flat_map_nil {A B} (l : list A) : flat_map (fun _ : A => @nil B) l = [].
Proof. induction l as [|x l IH]; [reflexivity|]. cbn [flat_map app]. exact IH. Qed.

Lemma project_files_spec nsf dname d :
  forallb (proj_ok nsf) (if nsf then dedup (map c_ns (classes d)) else [if String.eqb dname "" then "Project" else dname]) = true ->
  project_files template_files_cs nsf dname d = spec_projects nsf dname d.
Proof.
  intros H. unfold project_files, spec_projects, project_names. rewrite templates_by_project_cs. cbn [map].
  rewrite flat_map_single. destruct nsf.
  - rewrite first_occ_dedup. apply map_ext_in. intros ns Hin. rewrite forallb_forall in H.
    rewrite project_name. apply placed_project. apply H. exact Hin.
  - cbn [map]. rewrite project_name. reflexivity.
Qed.

(* ---------------------------------------------------------------- the code model *)

Lemma files_fold_cs nsf cs : forall acc, (forall c, In c cs -> path_ok c = true) ->
  NoDup (map fst acc ++ flat_map (spec_files_cs nsf) cs)%list ->
  fold_left (fun acc c => fold_left (fun acc f => upsert String.eqb f (c_id c) acc) (class_files template_files_cs nsf c) acc) cs acc
  = (acc ++ flat_map (fun c => map (fun f => (f, c_id c)) (spec_files_cs nsf c)) cs)%list.
Proof.
  induction cs as [|c cs IH]; intros acc Hok H; [cbn; rewrite app_nil_r; reflexivity|].
  cbn [fold_left flat_map] in *. rewrite class_files_spec_cs by (apply Hok; left; reflexivity).
  rewrite inner_fold.
  - rewrite IH.
    + rewrite <- app_assoc. reflexivity.
    + intros c' Hc'. apply Hok. right. exact Hc'.
    + rewrite map_app, map_map. cbn [fst]. rewrite map_id, <- app_assoc. exact H.
  - rewrite app_assoc in H. apply NoDup_app_l in H. exact H.
Qed.

Lemma map_fst_tagged nsf cs :
  map fst (flat_map (fun c => map (fun f => (f, c_id c)) (spec_files_cs nsf c)) cs) = flat_map (spec_files_cs nsf) cs.
Proof.
  induction cs as [|c cs IH]; [reflexivity|]. cbn [flat_map]. rewrite map_app, IH, map_map. cbn [fst]. rewrite map_id. reflexivity.
Qed.

Lemma files_of_expected_cs nsf d : forallb path_ok (classes d) = true -> nodupb (flat_map (spec_files_cs nsf) (classes d)) = true ->
  files_of template_files_cs nsf d = flat_map (fun c => map (fun f => (f, c_id c)) (spec_files_cs nsf c)) (classes d).
Proof.
  unfold files_of. intros H1 H2.
  rewrite files_fold_cs; [reflexivity| |cbn [map app]; apply nodupb_NoDup; exact H2].
  intros c Hc. rewrite forallb_forall in H1. apply H1. exact Hc.
Qed.

(* TARGET 3 *)
Theorem files_all_expected_cs nsf dname d : files_hyp_cs nsf dname d = true ->
  files_all template_files_cs nsf dname d = expected_files_cs nsf dname d.
Proof.
  unfold files_hyp_cs. intros H. apply andb_true_iff in H. destruct H as [H H3]. apply andb_true_iff in H. destruct H as [H1 H2].
  apply nodupb_NoDup in H3.
  unfold files_all, expected_files_cs. rewrite (project_files_spec nsf dname d H2).
  rewrite files_of_expected_cs.
  - apply inner_fold. rewrite map_fst_tagged. exact H3.
  - exact H1.
  - (* the class part of the path list has no duplicates either *)
    apply NoDup_app_l in H3. clear - H3.
    induction (flat_map (spec_files_cs nsf) (classes d)) as [|x l IH]; [reflexivity|].
    inversion H3 as [|? ? Hx Hr]; subst. cbn [nodupb]. rewrite (IH Hr), andb_true_r. apply negb_true_iff.
    destruct (existsb (String.eqb x) l) eqn:E; [|reflexivity]. exfalso. apply Hx.
    apply existsb_exists in E. destruct E as (y & Hy & Exy). apply String.eqb_eq in Exy. subst y. exact Hy.
Qed.
Print Assumptions files_all_expected_cs.

(* TARGET 4: no project template in the C++ template directory *)
Lemma files_all_cpp nsf dname d : files_all template_files nsf dname d = files_of template_files nsf d.
Proof.
  unfold files_all, project_files. rewrite templates_by_project_cpp. cbn [map]. rewrite flat_map_nil. reflexivity.
Qed.
Print Assumptions files_all_cpp.

(* TARGET 5 *)
Lemma spec_exts_cs_meaning c : c_autogen c = false -> c_enum c && c_struct c = false -> spec_exts_cs c = [".cs"].
Proof. unfold spec_exts_cs. intros -> H. destruct (c_enum c), (c_struct c); try discriminate; reflexivity. Qed.
Print Assumptions spec_exts_cs_meaning.

(* TARGET 6 *)
Example files_cs_nonvacuous :
  files_hyp_cs true "D" ok_diagram = true /\ files_hyp_cs false "D" ok_diagram = true
  /\ map fst (expected_files_cs true "D" ok_diagram) = ["N/CImpl.cs"; "N/ILoop.cs"; "N/IBase.cs"; "N/N.csproj"].
Proof. vm_compute. repeat split; reflexivity. Qed.
Print Assumptions files_cs_nonvacuous.

(* ---------------------------------------------------------------- how much of files_hyp_cs is needed

   files_hyp_cs is strong enough (TARGET 3 holds as stated) but two of its parts are implied or unused:
   - proj_ok false ns is not needed at all: without namespace folders the project file is not moved (placed false = identity);
   - the  last_is_slash  half of proj_ok true ns follows from path_ok of the class the namespace comes from.
   What is needed beyond path_ok and the distinctness of the paths is ONLY: with namespace folders, no namespace starts with
   a slash (prefix_needed below: else os.path.join drops the folder). *)

Definition files_hyp_cs_min (nsf : bool) (dname : string) (d : cdiagram) : bool :=
  forallb path_ok (classes d)
  && (negb nsf || forallb (fun c => negb (prefixb "/" (c_ns c))) (classes d))
  && nodupb (flat_map (spec_files_cs nsf) (classes d) ++ spec_projects nsf dname d).

Lemma dedup_In x l : In x (dedup l) -> In x l.
Proof.
  induction l as [|y l IH]; [intros []|]. cbn [dedup In]. intros [->|H]; [left; reflexivity|].
  right. apply IH. apply filter_In in H. exact (proj1 H).
Qed.

Lemma In_dedup x l : In x l -> In x (dedup l).
Proof.
  induction l as [|y l IH]; [intros []|]. cbn [dedup In]. intros H.
  destruct (String.eqb y x) eqn:E; [left; apply String.eqb_eq; exact E|]. right.
  destruct H as [->|H]; [rewrite String.eqb_refl in E; discriminate|].
  apply filter_In. split; [exact (IH H)|rewrite E; reflexivity].
Qed.

Lemma files_hyp_cs_min_proj nsf dname d : files_hyp_cs_min nsf dname d = true ->
  nsf = true -> forallb (proj_ok true) (dedup (map c_ns (classes d))) = true.
Proof.
  unfold files_hyp_cs_min. intros H ->. apply andb_true_iff in H. destruct H as [H _]. apply andb_true_iff in H. destruct H as [H1 H2].
  cbn [negb orb] in H2. rewrite forallb_forall in H1, H2. apply forallb_forall. intros ns Hin.
  apply dedup_In, in_map_iff in Hin. destruct Hin as (c & <- & Hc).
  unfold proj_ok. rewrite (H2 c Hc). cbn [negb orb andb].
  specialize (H1 c Hc). unfold path_ok in H1. apply andb_true_iff in H1. exact (proj2 H1).
Qed.

Lemma files_hyp_cs_weaken nsf dname d : files_hyp_cs nsf dname d = true -> files_hyp_cs_min nsf dname d = true.
Proof.
  unfold files_hyp_cs, files_hyp_cs_min. intros H. apply andb_true_iff in H. destruct H as [H H3]. apply andb_true_iff in H. destruct H as [H1 H2].
  rewrite H1, H3, andb_true_r. cbn [andb]. destruct nsf; [|reflexivity]. cbn [negb orb].
  apply forallb_forall. intros c Hc. rewrite forallb_forall in H2.
  assert (Hin : In (c_ns c) (dedup (map c_ns (classes d)))) by (apply In_dedup, in_map; exact Hc).
  specialize (H2 _ Hin). unfold proj_ok in H2. apply andb_true_iff in H2. exact (proj1 H2).
Qed.

(* the sharpened form of TARGET 3 *)
Theorem files_all_expected_cs_min nsf dname d : files_hyp_cs_min nsf dname d = true ->
  files_all template_files_cs nsf dname d = expected_files_cs nsf dname d.
Proof.
  intros H. destruct nsf.
  - apply files_all_expected_cs. pose proof (files_hyp_cs_min_proj true dname d H eq_refl) as Hp.
    unfold files_hyp_cs_min in H. unfold files_hyp_cs.
    apply andb_true_iff in H. destruct H as [H H3]. apply andb_true_iff in H. destruct H as [H1 _].
    rewrite H1, Hp, H3. reflexivity.
  - (* no namespace folders: the name of the diagram may be anything *)
    unfold files_hyp_cs_min in H. apply andb_true_iff in H. destruct H as [H H3]. apply andb_true_iff in H. destruct H as [H1 _].
    apply nodupb_NoDup in H3.
    assert (Hpf : project_files template_files_cs false dname d = spec_projects false dname d).
    { unfold project_files, spec_projects, project_names. rewrite templates_by_project_cs. cbn [map flat_map app].
      rewrite project_name. reflexivity. }
    unfold files_all, expected_files_cs. rewrite Hpf. rewrite files_of_expected_cs.
    + apply inner_fold. rewrite map_fst_tagged. exact H3.
    + exact H1.
    + apply NoDup_app_l in H3. clear - H3.
      induction (flat_map (spec_files_cs false) (classes d)) as [|x l IH]; [reflexivity|].
      inversion H3 as [|? ? Hx Hr]; subst. cbn [nodupb]. rewrite (IH Hr), andb_true_r. apply negb_true_iff.
      destruct (existsb (String.eqb x) l) eqn:E; [|reflexivity]. exfalso. apply Hx.
      apply existsb_exists in E. destruct E as (y & Hy & Exy). apply String.eqb_eq in Exy. subst y. exact Hy.
Qed.
Print Assumptions files_all_expected_cs_min.

(* the remaining conjunct cannot be dropped: a namespace with a leading slash (all classes path_ok, all paths distinct) *)
Definition slash_diagram : cdiagram :=
  {| classes := [{| c_id := "K1"; c_name := "K"; c_ns := "/x"; c_enum := false; c_struct := false; c_autogen := false;
                    c_pure := false; c_ops := [] |}];
     inhs := [] |}.

Example prefix_needed :
  forallb path_ok (classes slash_diagram) = true
  /\ nodupb (flat_map (spec_files_cs true) (classes slash_diagram) ++ spec_projects true "D" slash_diagram) = true
  /\ files_all template_files_cs true "D" slash_diagram = [("/x/K.cs", "K1"); ("/x.csproj", "")]
  /\ expected_files_cs true "D" slash_diagram = [("/x/K.cs", "K1"); ("/x//x.csproj", "")].
Proof. vm_compute. repeat split; reflexivity. Qed.
Print Assumptions prefix_needed.
