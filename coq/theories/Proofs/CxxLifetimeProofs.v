(* C15 -- object lifetime: the derived destructor that calls shutdown() first is safe under every schedule; the one that
   does not has a hazard witness. *)
From Coq Require Import String List Bool Arith NArith Lia.
From KV Require Import Model.CxxSyncIR Model.CxxQueue Model.CxxLifetime Gen.CxxSync Proofs.CxxQueueProofs.
Import ListNotations.
Open Scope list_scope.

Lemma lreach_base : forall cs m sc l, lreach cs m sc l -> reach m sc (base l).
Proof.
  intros cs m sc l R. induction R as [|l t l' R IH H]; [apply reach_init|].
  destruct t as [|w|p]; cbn [lstep] in H.
  - destruct (own l); try discriminate;
      try (inversion H; subst l'; exact IH);
      destruct (step TDestroy (base l)) eqn:E; try discriminate; inversion H; subst l'; cbn; eapply reach_step; eauto.
  - destruct (step (TWorker w) (base l)) eqn:E; [|discriminate]. inversion H; subst l'. cbn. eapply reach_step; eauto.
  - destruct (own l); try discriminate. destruct (step (TProd p) (base l)) eqn:E; [|discriminate].
    inversion H; subst l'. cbn. eapply reach_step; eauto.
Qed.

Lemma all_done_no_handling : forall l, all_done l = true -> existsb handling l = false.
Proof.
  induction l as [|x l IH]; cbn; intros H; [reflexivity|]. apply andb_prop in H as [H1 H2].
  destruct x; try discriminate. cbn. apply IH. exact H2.
Qed.

(* the invariant of the shutdown-first protocol *)
Definition LInv (l : lst) : Prop :=
  hazard l = false /\
  match own l with
  | OAlive | OShut1 => part l = PartAlive
  | OTear => part l = PartAlive /\ d (base l) = DJoined
  | OMembers => part l = PartDying /\ d (base l) = DJoined
  | OShut2 => False                       (* with a leading shutdown() the base destructor only ever repeats it *)
  | OAgain1 | OAgain2 | ODone => part l = PartDead /\ d (base l) = DJoined
  end.

Lemma shutdown_done_iff : forall s, shutdown_done s = true <-> d s = DJoined.
Proof. intros s. unfold shutdown_done. destruct (d s); split; intros; try discriminate; reflexivity. Qed.

Lemma linv_step : forall m sc l t l', lreach true m sc l -> LInv l -> lstep true t l = Some l' -> LInv l'.
Proof.
  intros m sc l t l' R [Hh Ho] H. pose proof (lreach_base _ _ _ _ R) as RB.
  assert (J : d (base l) = DJoined -> all_done (workers (base l)) = true /\ forall t, step t (base l) = None)
    by (intros Hd; eapply joined_final; eauto).
  destruct t as [|w|p]; cbn [lstep] in H.
  - destruct (own l) eqn:EO.
    + inversion H; subst l'. split; cbn; auto.
    + destruct (step TDestroy (base l)) as [b|] eqn:E; [|discriminate]. inversion H; subst l'. split; [exact Hh|].
      cbn [own part base]. destruct (shutdown_done b) eqn:SD; [|exact Ho]. split; [exact Ho|apply shutdown_done_iff; exact SD].
    + destruct Ho as [Hp Hd]. destruct (J Hd) as [A _]. inversion H; subst l'. split; cbn.
      * rewrite Hh, (all_done_no_handling _ A). reflexivity.
      * auto.
    + destruct Ho as [Hp Hd]. destruct (J Hd) as [A _]. inversion H; subst l'. split; cbn [hazard own part base].
      * rewrite Hh, (all_done_no_handling _ A). reflexivity.
      * rewrite (proj2 (shutdown_done_iff _) Hd). auto.
    + destruct Ho.
    + inversion H; subst l'. split; cbn; auto.
    + inversion H; subst l'. split; cbn; auto.
    + discriminate.
  - destruct (step (TWorker w) (base l)) eqn:E; [|discriminate]. inversion H; subst l'.
    unfold LInv. cbn [own part hazard base]. destruct (own l) eqn:EO.
    1,2: split; [rewrite Hh, Ho; cbn; rewrite andb_false_r; reflexivity|exact Ho].
    3: destruct Ho.
    all: exfalso; destruct Ho as [_ Hd]; destruct (J Hd) as [_ N]; rewrite N in E; discriminate.
  - destruct (own l) eqn:EO; try discriminate. destruct (step (TProd p) (base l)) eqn:E; [|discriminate].
    inversion H; subst l'. split; cbn; rewrite ?EO; auto.
Qed.

Lemma linv_reach : forall m sc l, lreach true m sc l -> LInv l.
Proof.
  intros m sc l R. induction R as [|l t l' R IH H]; [split; reflexivity|]. eapply linv_step; eauto.
Qed.

Lemma lifetime_safe_with_shutdown : forall m sc l, lreach true m sc l ->
  hazard l = false /\
  (part l <> PartAlive ->
     all_done (workers (base l)) = true /\ (forall w, lstep true (TWorker w) l = None) /\ (forall w, is_vcall (base l) w = false)).
Proof.
  intros m sc l R. destruct (linv_reach _ _ _ R) as [Hh Ho]. split; [exact Hh|]. intros Hp.
  assert (Hd : d (base l) = DJoined) by (destruct (own l); try tauto; congruence).
  destruct (joined_final m sc (base l) (lreach_base _ _ _ _ R) Hd) as [A N]. split; [exact A|]. split.
  - intros w. cbn [lstep]. rewrite N. reflexivity.
  - intros w. unfold is_vcall. destruct (nth_error (workers (base l)) w) as [pc|] eqn:W; [|reflexivity].
    rewrite (all_done_nth _ _ _ A W). reflexivity.
Qed.

(* ---- without the leading shutdown(): the hazard (known finding K-C15-2) as executions of the same LTS *)
Definition haz_sc : list (list N) := [[1%N]].
(* the worker has taken item 1; the owner begins the derived teardown; the worker performs the virtual call *)
Definition haz_sched_vcall : list tid := [TProd 0; TWorker 0; TWorker 0; TDestroy; TDestroy; TWorker 0].
(* the worker is inside the derived handler when the owner begins the derived teardown *)
Definition haz_sched_running : list tid := [TProd 0; TWorker 0; TWorker 0; TWorker 0; TDestroy; TDestroy].

Lemma lrun_reach : forall cs m sc s l, lreach cs m sc l -> lreach cs m sc (lrun cs s l).
Proof.
  intros cs m sc s. induction s as [|t r IH]; intros l R; cbn; auto.
  destruct (lstep cs t l) eqn:E; [apply IH; eapply lreach_step; eauto|apply IH; exact R].
Qed.

Lemma lifetime_refuted_without_shutdown :
  exists m sc l, lreach false m sc l /\ hazard l = true /\ part l = PartDying /\ is_vcall (base l) 0 = false
                 /\ nth_error (workers (base l)) 0 = Some (WHandling 1%N).
Proof.
  exists 1, haz_sc, (lrun false haz_sched_vcall (linit 1 haz_sc)).
  split; [apply lrun_reach; apply lreach_init|]. vm_compute. auto.
Qed.

Lemma lifetime_refuted_handler_running :
  hazard (lrun false haz_sched_running (linit 1 haz_sc)) = true /\ hazard (lrun true haz_sched_running (linit 1 haz_sc)) = false
  /\ hazard (lrun true haz_sched_vcall (linit 1 haz_sc)) = false.
Proof. vm_compute. auto. Qed.
