(* String-level lemmas about the template engine model: tag scanning and replacement on rendered template lines. *)
From Coq Require Import String Ascii List Bool Arith Lia.
From KV Require Import Lib.Str Lib.StrOps Lib.ODict Gen.Tags Model.Engine Model.EngineDomain Spec.RefExpand Proofs.StrProofs.
Import ListNotations.
Open Scope string_scope.
Open Scope list_scope.

Lemma app_assoc_s (a b c : string) : ((a ++ b) ++ c = a ++ (b ++ c))%string.
Proof. induction a; simpl; congruence. Qed.

Lemma app_nil_r_s (a : string) : (a ++ "")%string = a.
Proof. induction a; simpl; congruence. Qed.

Lemma length_app_s (a b : string) : String.length (a ++ b)%string = String.length a + String.length b.
Proof. induction a; simpl; congruence. Qed.

Lemma no_lg_app a b : no_lg (a ++ b)%string = no_lg a && no_lg b.
Proof. induction a; simpl; [reflexivity|]. rewrite IHa. apply andb_assoc. Qed.

(* ---------------------------------------------------------------- span_nolg / match_tag on a tag *)
Lemma span_nolg_body body r :
  no_lg body = true -> prefixb CLOSE3 r = true -> span_nolg (body ++ r)%string = (body, r).
Proof.
  induction body as [|c b IH]; intros Hb Hr.
  - cbn [append]. destruct r as [|c r]; [discriminate|]. unfold CLOSE3 in Hr. cbn [prefixb] in Hr.
    apply andb_prop in Hr as [Hc _]. apply Ascii.eqb_eq in Hc. subst c. reflexivity.
  - cbn [no_lg] in Hb. apply andb_prop in Hb as [Hc Hb]. apply negb_true_iff in Hc.
    cbn [append span_nolg]. rewrite Hc, (IH Hb Hr). reflexivity.
Qed.

Lemma match_tag_tag body r :
  no_lg body = true -> match_tag (OPEN3 ++ body ++ CLOSE3 ++ r)%string = Some (body, r).
Proof.
  intros Hb. unfold match_tag. change (prefixb OPEN3 (OPEN3 ++ body ++ CLOSE3 ++ r)%string) with true. cbn iota.
  change (drop 3 (OPEN3 ++ body ++ CLOSE3 ++ r)%string) with (body ++ CLOSE3 ++ r)%string.
  rewrite (span_nolg_body body (CLOSE3 ++ r)%string Hb eq_refl). reflexivity.
Qed.

Lemma match_tag_nolt c s : Ascii.eqb c LT = false -> match_tag (String c s) = None.
Proof.
  intros H. unfold match_tag, OPEN3. cbn [prefixb]. rewrite Ascii.eqb_sym.
  replace (Ascii.eqb c "<"%char) with false by (symmetry; exact H). reflexivity.
Qed.

(* ---------------------------------------------------------------- sub_go *)
Lemma sub_go_skip d : forall s r, sub_go d (String.length s) (s ++ r)%string = sub_go d 0 r.
Proof. induction s as [|a s IH]; intros r; [reflexivity|]. cbn [String.length append sub_go]. apply IH. Qed.

Lemma sub_go_lit d s r : no_lg s = true -> sub_go d 0 (s ++ r)%string = (s ++ sub_go d 0 r)%string.
Proof.
  induction s as [|c s IH]; intros H; [reflexivity|].
  simpl in H. apply andb_prop in H as [Hc Hs]. unfold is_lg in Hc. apply negb_true_iff, orb_false_elim in Hc as [Hc _].
  change ((String c s ++ r)%string) with (String c (s ++ r)%string).
  cbn [sub_go]. rewrite (match_tag_nolt c _ Hc). rewrite IH by assumption. reflexivity.
Qed.

Lemma sub_go_tag d body r :
  no_lg body = true ->
  sub_go d 0 (OPEN3 ++ body ++ CLOSE3 ++ r)%string = (replace_one d body ++ sub_go d 0 r)%string.
Proof.
  intros Hb. pose proof (match_tag_tag body r Hb) as M.
  change ((OPEN3 ++ body ++ CLOSE3 ++ r)%string) with (String LT (String LT (String LT (body ++ CLOSE3 ++ r))))%string in *.
  cbn [sub_go]. rewrite M. f_equal.
  pose proof (sub_go_skip d (String LT (String LT (body ++ CLOSE3)))%string r) as HS.
  cbn [String.length append] in HS. rewrite length_app_s, app_assoc_s in HS.
  replace (String.length body + 5) with (S (S (String.length body + String.length CLOSE3))) by (simpl; lia).
  exact HS.
Qed.

Lemma sub_go_notag d s : findall s = [] -> sub_go d 0 s = s.
Proof.
  induction s as [|c s IH]; intros H; [reflexivity|].
  cbn [findall] in H. cbn [sub_go]. destruct (match_tag (String c s)) as [[b r]|]; [discriminate|].
  rewrite IH by assumption. reflexivity.
Qed.

(* ---------------------------------------------------------------- split1 on name=default *)
Lemma split1_none n : has_char EQ n = false -> split1 EQ n = (n, None).
Proof.
  induction n as [|c n IH]; intros H; [reflexivity|].
  cbn [has_char] in H. apply orb_false_elim in H as [Hc Hn]. cbn [split1]. rewrite Hc, (IH Hn). reflexivity.
Qed.

Lemma split1_some n d : has_char EQ n = false -> split1 EQ (n ++ String EQ d)%string = (n, Some d).
Proof.
  induction n as [|c n IH]; intros H.
  - cbn [append split1]. rewrite ascii_eqb_refl. reflexivity.
  - cbn [has_char] in H. apply orb_false_elim in H as [Hc Hn]. cbn [append split1]. rewrite Hc, (IH Hn). reflexivity.
Qed.

(* ---------------------------------------------------------------- C17_usertag at the string level *)
Lemma replace_one_seg (a : assign) n dflt :
  seg_ok (Tag n dflt) = true ->
  exists body, render_seg (Tag n dflt) = (OPEN3 ++ body ++ CLOSE3)%string /\ no_lg body = true
               /\ replace_one a body = render_seg (subst_seg a (Tag n dflt)).
Proof.
  intros H. destruct dflt as [d|]; simpl in H.
  - apply andb_prop in H as [H Hd]. apply andb_prop in H as [Hn He]. apply negb_true_iff in He.
    exists (n ++ String EQ d)%string. split; [|split].
    + simpl. rewrite !app_assoc_s. reflexivity.
    + rewrite no_lg_app. simpl. rewrite Hn, Hd. reflexivity.
    + unfold replace_one. rewrite (split1_some n d He). simpl. unfold value_of.
      destruct (lookup String.eqb n a); reflexivity.
  - apply andb_prop in H as [Hn He]. apply negb_true_iff in He.
    exists n. split; [|split]; [reflexivity|assumption|].
    unfold replace_one. rewrite (split1_none n He). simpl. unfold value_of.
    destruct (lookup String.eqb n a); reflexivity.
Qed.

Lemma sub_go_render (a : assign) l r :
  line_ok l = true -> sub_go a 0 (render_body l ++ r)%string = (render_body (subst a l) ++ sub_go a 0 r)%string.
Proof.
  induction l as [|g l IH]; intros H; [reflexivity|].
  simpl in H. apply andb_prop in H as [Hg Hl].
  cbn [render_body subst map]. rewrite !app_assoc_s.
  destruct g as [s|n dflt].
  - simpl in Hg. cbn [render_seg subst_seg]. rewrite (sub_go_lit a s _ Hg). rewrite (IH Hl). reflexivity.
  - destruct (replace_one_seg a n dflt Hg) as (body & E & Hb & R).
    rewrite E, !app_assoc_s. rewrite (sub_go_tag a body _ Hb). rewrite R, (IH Hl). reflexivity.
Qed.

(* every line of the syntax: replaceUserTags replaces each tag on its own *)
Lemma replaceUserTags_render (a : assign) l :
  line_ok l = true -> replaceUserTags (render_line l) a = ref_line a l.
Proof.
  intros H. unfold replaceUserTags, render_line, ref_line, render_line. rewrite (sub_go_render a l nl_str H). reflexivity.
Qed.

(* ---------------------------------------------------------------- replace_all *)
Lemma replace_go_nomatch p v : p <> EmptyString ->
  forall s, contains p s = false -> replace_go p v 0 s = s.
Proof.
  intros Hp. induction s as [|c s IH]; intros H; [reflexivity|].
  change (contains p (String c s)) with (prefixb p (String c s) || contains p s) in H.
  apply orb_false_elim in H as [H1 H2]. cbn [replace_go]. rewrite H1, (IH H2). reflexivity.
Qed.

Lemma replace_all_nomatch p v s : p <> EmptyString -> contains p s = false -> replace_all p v s = s.
Proof.
  intros Hp H. unfold replace_all. destruct p; [contradiction|]. apply replace_go_nomatch; [discriminate|assumption].
Qed.
