(* String-level lemmas about the template engine model: tag scanning and replacement on rendered template lines. *)
From Coq Require Import String Ascii List Bool Arith Lia.
From KV Require Import Lib.Str Lib.StrOps Lib.ODict Gen.Tags Model.Engine Model.EngineDomain Spec.RefExpand Proofs.StrProofs.
Import ListNotations.
Open Scope string_scope.
Open Scope list_scope.

Lemma app_assoc_s (a b c : string) : ((a ++ b) ++ c = a ++ (b ++ c))%string.
Proof. induction a; simpl; congruence. Qed.

Lemma app_nil_r_s (a : string) : (a ++ "")%string = a.
Proof. induction a; simpl; congruence. Qed.

Lemma length_app_s (a b : string) : String.length (a ++ b)%string = String.length a + String.length b.
Proof. induction a; simpl; congruence. Qed.

Lemma no_lg_app a b : no_lg (a ++ b)%string = no_lg a && no_lg b.
Proof. induction a; simpl; [reflexivity|]. rewrite IHa. apply andb_assoc. Qed.

(* ---------------------------------------------------------------- span_nolg / match_tag on a tag *)
Lemma span_nolg_body body r :
  no_lg body = true -> prefixb CLOSE3 r = true -> span_nolg (body ++ r)%string = (body, r).
Proof.
  induction body as [|c b IH]; intros Hb Hr.
  - cbn [append]. destruct r as [|c r]; [discriminate|]. unfold CLOSE3 in Hr. cbn [prefixb] in Hr.
    apply andb_prop in Hr as [Hc _]. apply Ascii.eqb_eq in Hc. subst c. reflexivity.
  - cbn [no_lg] in Hb. apply andb_prop in Hb as [Hc Hb]. apply negb_true_iff in Hc.
    cbn [append span_nolg]. rewrite Hc, (IH Hb Hr). reflexivity.
Qed.

Lemma match_tag_tag body r :
  no_lg body = true -> match_tag (OPEN3 ++ body ++ CLOSE3 ++ r)%string = Some (body, r).
Proof.
  intros Hb. unfold match_tag. change (prefixb OPEN3 (OPEN3 ++ body ++ CLOSE3 ++ r)%string) with true. cbn iota.
  change (drop 3 (OPEN3 ++ body ++ CLOSE3 ++ r)%string) with (body ++ CLOSE3 ++ r)%string.
  rewrite (span_nolg_body body (CLOSE3 ++ r)%string Hb eq_refl). reflexivity.
Qed.

Lemma match_tag_nolt c s : Ascii.eqb c LT = false -> match_tag (String c s) = None.
Proof.
  intros H. unfold match_tag, OPEN3. cbn [prefixb]. rewrite Ascii.eqb_sym.
  replace (Ascii.eqb c "<"%char) with false by (symmetry; exact H). reflexivity.
Qed.

(* ---------------------------------------------------------------- sub_go *)
Lemma sub_go_skip d : forall s r, sub_go d (String.length s) (s ++ r)%string = sub_go d 0 r.
Proof. induction s as [|a s IH]; intros r; [reflexivity|]. cbn [String.length append sub_go]. apply IH. Qed.

(* ---------------------------------------------------------------- literal text with '<' in it
   A position of the text is "bad" when exactly three '<' begin there: only there can tag_pattern match and only there can an
   occurrence of <<<k>>> begin.  Literals of the grammar (lit_ok) have no bad position, whatever follows them, provided what
   follows is empty, begins with another character than '<', or is itself a bad position (a tag). *)
Definition bad (t : string) : bool := prefixb OPEN3 t && negb (prefixb "<<<<" t).
Definition okhead (t : string) : bool := negb (starts_lt t) || bad t.
Fixpoint nobad (s rest : string) : bool :=
  match s with EmptyString => true | String c s' => negb (bad (s ++ rest)%string) && nobad s' rest end.

Lemma eqb_lt_char c : Ascii.eqb "<"%char c = true -> c = "<"%char.
Proof. intros H. apply Ascii.eqb_eq in H. symmetry. exact H. Qed.

Lemma match_tag_notbad t : bad t = false -> match_tag t = None.
Proof.
  unfold bad, match_tag. destruct (prefixb OPEN3 t) eqn:P; [|reflexivity]. cbn [andb]. intros H. apply negb_false_iff in H.
  destruct t as [|c1 [|c2 [|c3 [|c4 t]]]]; cbn [prefixb] in H; try (repeat rewrite andb_false_r in H; discriminate).
  repeat (apply andb_prop in H as [?H H]).
  repeat match goal with K : Ascii.eqb "<"%char _ = true |- _ => apply eqb_lt_char in K; subst end.
  reflexivity.
Qed.

Lemma no3_tail c s : no3 (String c s) = true -> no3 s = true.
Proof. cbn [no3]. intros H. apply andb_prop in H as [_ H]. exact H. Qed.

Ltac lt_case x :=
  let N := fresh "N" in
  destruct (Ascii.eqb_spec x "<"%char) as [->|N];
  [|assert (Ascii.eqb x "<"%char = false) by (apply Ascii.eqb_neq; exact N);
    assert (Ascii.eqb "<"%char x = false) by (rewrite Ascii.eqb_sym; assumption)].
Ltac lt_simpl :=
  change LT with "<"%char in *; unfold okhead, bad, OPEN3 in *; cbn [append prefixb starts_lt no3] in *;
  repeat match goal with
         | K : Ascii.eqb _ _ = false |- _ => rewrite K in *
         end;
  rewrite ?ascii_eqb_refl in *; cbn [andb orb negb] in *.

Lemma nobad_lit rest : okhead rest = true -> forall s, no3 s = true -> nobad s rest = true.
Proof.
  intros Hr. induction s as [|c s IH]; intros H; [reflexivity|].
  cbn [nobad]. rewrite (IH (no3_tail c s H)), andb_true_r. apply negb_true_iff. clear IH.
  lt_case c; [|lt_simpl; reflexivity].
  destruct s as [|c2 s].
  - destruct rest as [|r1 [|r2 [|r3 rest]]]; try reflexivity.
    + lt_case r1; lt_simpl; try reflexivity; try discriminate.
    + lt_case r1; lt_case r2; lt_simpl; try reflexivity; try discriminate.
    + lt_case r1; lt_case r2; lt_case r3; lt_simpl; try reflexivity; try discriminate.
  - lt_case c2; [|lt_simpl; reflexivity].
    destruct s as [|c3 s].
    + destruct rest as [|r1 [|r2 rest]]; try reflexivity.
      * lt_case r1; lt_simpl; try reflexivity; try discriminate.
      * lt_case r1; lt_case r2; lt_simpl; try reflexivity; try discriminate.
    + lt_case c3; lt_simpl; try reflexivity; try discriminate.
Qed.

Lemma lit_ok_no3 s : lit_ok s = true -> no3 s = true.
Proof. unfold lit_ok. intros H. apply andb_prop in H as [_ H]. exact H. Qed.

Lemma okhead_lit s r : lit_ok s = true -> okhead r = true -> okhead (s ++ r)%string = true.
Proof.
  intros Hs Hr. destruct s as [|c s]; [exact Hr|]. unfold lit_ok in Hs. apply andb_prop in Hs as [Hs _].
  unfold okhead. cbn [append starts_lt] in *. rewrite Hs. reflexivity.
Qed.

Lemma okhead_tag body r : no_lg body = true -> okhead (OPEN3 ++ body ++ CLOSE3 ++ r)%string = true.
Proof.
  intros Hb. unfold okhead, bad, OPEN3. cbn [append starts_lt prefixb]. rewrite !ascii_eqb_refl. cbn [andb negb orb].
  destruct body as [|c b].
  - reflexivity.
  - cbn [no_lg] in Hb. apply andb_prop in Hb as [Hc _]. unfold is_lg in Hc. apply negb_true_iff, orb_false_elim in Hc as [Hc _].
    cbn [append prefixb]. rewrite Ascii.eqb_sym. replace (Ascii.eqb c "<"%char) with false by (symmetry; exact Hc). reflexivity.
Qed.

Lemma okhead_nl : okhead nl_str = true.
Proof. reflexivity. Qed.

Lemma no_lg_lit_ok v : no_lg v = true -> lit_ok v = true.
Proof.
  intros H. unfold lit_ok. apply andb_true_intro. split.
  - destruct v as [|c v]; [reflexivity|]. cbn [no_lg] in H. apply andb_prop in H as [Hc _]. unfold is_lg in Hc.
    apply negb_true_iff, orb_false_elim in Hc as [Hc _]. cbn [starts_lt]. rewrite Hc. reflexivity.
  - induction v as [|c v IH]; [reflexivity|]. cbn [no_lg] in H. apply andb_prop in H as [Hc Hv]. cbn [no3]. rewrite (IH Hv), andb_true_r.
    unfold is_lg in Hc. apply negb_true_iff, orb_false_elim in Hc as [Hc _]. unfold OPEN3. cbn [prefixb]. rewrite Ascii.eqb_sym.
    replace (Ascii.eqb c "<"%char) with false by (symmetry; exact Hc). reflexivity.
Qed.

(* literals are closed under concatenation *)
Lemma no3_app a b : no3 a = true -> lit_ok b = true -> no3 (a ++ b)%string = true.
Proof.
  intros Ha Hb. assert (K : nobad a b = true) by (apply nobad_lit; [|exact Ha]; destruct b as [|c b]; [reflexivity|]; unfold lit_ok in Hb; apply andb_prop in Hb as [Hb _]; unfold okhead; cbn [starts_lt] in *; rewrite Hb; reflexivity).
  induction a as [|c a IH]; [exact (lit_ok_no3 b Hb)|].
  cbn [nobad] in K. apply andb_prop in K as [_ K]. cbn [append no3]. rewrite (IH (no3_tail c a Ha) K), andb_true_r.
  (* OPEN3 prefix of (c a ++ b): a prefix inside a, or reaching b, which does not begin with '<' *)
  cbn [no3] in Ha. apply andb_prop in Ha as [Hp _]. apply negb_true_iff in Hp. apply negb_true_iff.
  assert (Hd : starts_lt b = false) by (unfold lit_ok in Hb; apply andb_prop in Hb as [Hb _]; apply negb_true_iff in Hb; exact Hb).
  clear IH K Hb.
  lt_case c; [|lt_simpl; reflexivity].
  destruct a as [|c2 a].
  - destruct b as [|d b]; [reflexivity|]. lt_case d; lt_simpl; try reflexivity; try discriminate.
  - lt_case c2; [|lt_simpl; reflexivity].
    destruct a as [|c3 a].
    + destruct b as [|d b]; [reflexivity|]. lt_case d; lt_simpl; try reflexivity; try discriminate.
    + lt_case c3; lt_simpl; try reflexivity; try discriminate.
Qed.

Lemma lit_ok_app a b : lit_ok a = true -> lit_ok b = true -> lit_ok (a ++ b)%string = true.
Proof.
  intros Ha Hb. destruct a as [|c a]; [exact Hb|]. unfold lit_ok. rewrite (no3_app _ b (lit_ok_no3 _ Ha) Hb), andb_true_r.
  unfold lit_ok in Ha. apply andb_prop in Ha as [Ha _]. exact Ha.
Qed.

(* a text without "<<<" has no tag *)
Lemma no3_findall s : no3 s = true -> findall s = [].
Proof.
  induction s as [|c s IH]; [reflexivity|]. intros H. cbn [no3] in H. apply andb_prop in H as [Hp Hs]. apply negb_true_iff in Hp.
  cbn [findall]. unfold match_tag. rewrite Hp. exact (IH Hs).
Qed.

Lemma prefixb_trans a : forall b c, prefixb a b = true -> prefixb b c = true -> prefixb a c = true.
Proof.
  induction a as [|x a IH]; intros b c H K; [destruct c; reflexivity|].
  destruct b as [|y b]; [discriminate|]. destruct c as [|z c]; [discriminate|]. cbn [prefixb] in *.
  apply andb_prop in H as [H1 H2]. apply andb_prop in K as [K1 K2]. apply Ascii.eqb_eq in H1, K1. subst.
  rewrite ascii_eqb_refl. cbn [andb]. exact (IH b c H2 K2).
Qed.

Lemma prefixb_trans3 p s : prefixb OPEN3 p = true -> prefixb p s = true -> prefixb OPEN3 s = true.
Proof. apply prefixb_trans. Qed.

Lemma no3_contains p s : prefixb OPEN3 p = true -> no3 s = true -> contains p s = false.
Proof.
  intros Hp. induction s as [|c s IH]; intros H.
  - cbn [contains]. destruct p as [|a p]; [discriminate|]. reflexivity.
  - cbn [no3] in H. apply andb_prop in H as [H1 H2]. apply negb_true_iff in H1.
    change (contains p (String c s)) with (prefixb p (String c s) || contains p s). rewrite (IH H2), orb_false_r.
    destruct (prefixb p (String c s)) eqn:E; [|reflexivity]. rewrite (prefixb_trans3 p _ Hp E) in H1. discriminate.
Qed.

Lemma sub_go_lit d rest : forall s, nobad s rest = true -> sub_go d 0 (s ++ rest)%string = (s ++ sub_go d 0 rest)%string.
Proof.
  induction s as [|c s IH]; intros H; [reflexivity|].
  cbn [nobad] in H. apply andb_prop in H as [Hb Hs]. apply negb_true_iff in Hb.
  change ((String c s ++ rest)%string) with (String c (s ++ rest)%string) in *.
  cbn [sub_go]. rewrite (match_tag_notbad _ Hb). rewrite IH by assumption. reflexivity.
Qed.

Lemma sub_go_tag d body r :
  no_lg body = true ->
  sub_go d 0 (OPEN3 ++ body ++ CLOSE3 ++ r)%string = (replace_one d body ++ sub_go d 0 r)%string.
Proof.
  intros Hb. pose proof (match_tag_tag body r Hb) as M.
  change ((OPEN3 ++ body ++ CLOSE3 ++ r)%string) with (String LT (String LT (String LT (body ++ CLOSE3 ++ r))))%string in *.
  cbn [sub_go]. rewrite M. f_equal.
  pose proof (sub_go_skip d (String LT (String LT (body ++ CLOSE3)))%string r) as HS.
  cbn [String.length append] in HS. rewrite length_app_s, app_assoc_s in HS.
  replace (String.length body + 5) with (S (S (String.length body + String.length CLOSE3))) by (simpl; lia).
  exact HS.
Qed.

Lemma sub_go_notag d s : findall s = [] -> sub_go d 0 s = s.
Proof.
  induction s as [|c s IH]; intros H; [reflexivity|].
  cbn [findall] in H. cbn [sub_go]. destruct (match_tag (String c s)) as [[b r]|]; [discriminate|].
  rewrite IH by assumption. reflexivity.
Qed.

(* ---------------------------------------------------------------- split1 on name=default *)
Lemma split1_none n : has_char EQ n = false -> split1 EQ n = (n, None).
Proof.
  induction n as [|c n IH]; intros H; [reflexivity|].
  cbn [has_char] in H. apply orb_false_elim in H as [Hc Hn]. cbn [split1]. rewrite Hc, (IH Hn). reflexivity.
Qed.

Lemma split1_some n d : has_char EQ n = false -> split1 EQ (n ++ String EQ d)%string = (n, Some d).
Proof.
  induction n as [|c n IH]; intros H.
  - cbn [append split1]. rewrite ascii_eqb_refl. reflexivity.
  - cbn [has_char] in H. apply orb_false_elim in H as [Hc Hn]. cbn [append split1]. rewrite Hc, (IH Hn). reflexivity.
Qed.

(* ---------------------------------------------------------------- C17_usertag at the string level *)
Lemma replace_one_seg (a : assign) n dflt :
  seg_ok (Tag n dflt) = true ->
  exists body, render_seg (Tag n dflt) = (OPEN3 ++ body ++ CLOSE3)%string /\ no_lg body = true
               /\ replace_one a body = render_seg (subst_seg a (Tag n dflt)).
Proof.
  intros H. destruct dflt as [d|]; simpl in H.
  - apply andb_prop in H as [H Hd]. apply andb_prop in H as [Hn He]. apply negb_true_iff in He.
    exists (n ++ String EQ d)%string. split; [|split].
    + simpl. rewrite !app_assoc_s. reflexivity.
    + rewrite no_lg_app. simpl. rewrite Hn, Hd. reflexivity.
    + unfold replace_one. rewrite (split1_some n d He). simpl. unfold value_of.
      destruct (lookup String.eqb n a); reflexivity.
  - apply andb_prop in H as [Hn He]. apply negb_true_iff in He.
    exists n. split; [|split]; [reflexivity|assumption|].
    unfold replace_one. rewrite (split1_none n He). simpl. unfold value_of.
    destruct (lookup String.eqb n a); reflexivity.
Qed.

Lemma okhead_render l r : line_ok l = true -> okhead r = true -> okhead (render_body l ++ r)%string = true.
Proof.
  induction l as [|g l IH]; intros H Hr; [exact Hr|].
  simpl in H. apply andb_prop in H as [Hg Hl]. cbn [render_body]. rewrite app_assoc_s.
  destruct g as [s|n dflt].
  - cbn [render_seg]. apply okhead_lit; [exact Hg|exact (IH Hl Hr)].
  - assert (E : exists body, render_seg (Tag n dflt) = (OPEN3 ++ body ++ CLOSE3)%string /\ no_lg body = true).
    { destruct dflt as [d|]; simpl in Hg.
      - apply andb_prop in Hg as [Hg Hd]. apply andb_prop in Hg as [Hn _]. exists (n ++ String EQ d)%string. split.
        + simpl. rewrite !app_assoc_s. reflexivity.
        + rewrite no_lg_app. simpl. rewrite Hn, Hd. reflexivity.
      - apply andb_prop in Hg as [Hn _]. exists n. split; [reflexivity|exact Hn]. }
    destruct E as (body & E & Hb). rewrite E, !app_assoc_s. apply okhead_tag. exact Hb.
Qed.

Lemma sub_go_render (a : assign) l r :
  line_ok l = true -> okhead r = true ->
  sub_go a 0 (render_body l ++ r)%string = (render_body (subst a l) ++ sub_go a 0 r)%string.
Proof.
  induction l as [|g l IH]; intros H Hr; [reflexivity|].
  simpl in H. apply andb_prop in H as [Hg Hl].
  cbn [render_body subst map]. rewrite !app_assoc_s.
  destruct g as [s|n dflt].
  - simpl in Hg. cbn [render_seg subst_seg].
    rewrite (sub_go_lit a _ s (nobad_lit _ (okhead_render l r Hl Hr) s (lit_ok_no3 s Hg))). rewrite (IH Hl Hr). reflexivity.
  - destruct (replace_one_seg a n dflt Hg) as (body & E & Hb & R).
    rewrite E, !app_assoc_s. rewrite (sub_go_tag a body _ Hb). rewrite R, (IH Hl Hr). reflexivity.
Qed.

(* every line of the syntax: replaceUserTags replaces each tag on its own *)
Lemma replaceUserTags_render (a : assign) l :
  line_ok l = true -> replaceUserTags (render_line l) a = ref_line a l.
Proof.
  intros H. unfold replaceUserTags, render_line, ref_line, render_line. rewrite (sub_go_render a l nl_str H okhead_nl). reflexivity.
Qed.

(* ---------------------------------------------------------------- replace_all *)
Lemma replace_go_nomatch p v : p <> EmptyString ->
  forall s, contains p s = false -> replace_go p v 0 s = s.
Proof.
  intros Hp. induction s as [|c s IH]; intros H; [reflexivity|].
  change (contains p (String c s)) with (prefixb p (String c s) || contains p s) in H.
  apply orb_false_elim in H as [H1 H2]. cbn [replace_go]. rewrite H1, (IH H2). reflexivity.
Qed.

Lemma replace_all_nomatch p v s : p <> EmptyString -> contains p s = false -> replace_all p v s = s.
Proof.
  intros Hp H. unfold replace_all. destruct p; [contradiction|]. apply replace_go_nomatch; [discriminate|assumption].
Qed.
