(* C17: the user-tag phase (do_user_tags scanner) on templates of the grammar. *)
From Coq Require Import String Ascii List Bool Arith Lia.
From KV Require Import Lib.Str Lib.StrOps Lib.ODict Gen.Tags Gen.Pipeline Model.Engine Model.EngineSM Model.EngineDomain
                       Spec.RefExpand Proofs.StrProofs Proofs.EngineStr.
Import ListNotations.
Open Scope string_scope.
Open Scope list_scope.

Lemma constants_ok_true : constants_ok = true.
Proof. vm_compute. reflexivity. Qed.

Lemma hasSpecific_hasTag s t : hasSpecificTag s t = true -> hasTag s = true.
Proof. unfold hasSpecificTag. intros H. apply andb_prop in H. tauto. Qed.

Lemma hasTag_false_findall s : hasTag s = false -> findall s = [].
Proof. unfold hasTag. destruct (findall s); [reflexivity|discriminate]. Qed.

Lemma mem_assigned (a : assign) t : mem String.eqb t a = assigned a t.
Proof. reflexivity. Qed.

(* the text the user-tag phase leaves for a line of the syntax *)
Lemma plain_text (a : assign) l :
  line_ok l = true -> (if hasTag (render_line l) then replaceUserTags (render_line l) a else render_line l) = ref_line a l.
Proof.
  intros H. destruct (hasTag (render_line l)) eqn:E.
  - apply replaceUserTags_render; assumption.
  - rewrite <- (replaceUserTags_render a l H). unfold replaceUserTags.
    symmetry. apply sub_go_notag. apply hasTag_false_findall. assumption.
Qed.

Lemma ut_plain_parts s :
  ut_plain s = true ->
  hasSpecificTag s TAG_IF = false /\ hasSpecificTag s TAG_ELSEIF = false /\ hasSpecificTag s TAG_ELSE = false
  /\ hasSpecificTag s TAG_ENDIF = false /\ hasSpecificTag s TAG_FOR_BEGIN = false.
Proof.
  unfold ut_plain. cbn [forallb]. intros H.
  repeat (apply andb_prop in H as [?H H]). repeat split; apply negb_true_iff; assumption.
Qed.

Section Scan.
  Variables (a : assign) (dflts : usertags).

  (* a plain line outside an IF block *)
  Lemma step_plain_outside st l :
    plain_line_ok l = true -> is_processing_if st = false ->
    ut_step a dflts st (render_line l)
    = ({| is_processing_if := false; can_process_else := can_process_else st; can_append_line := true |}, [ref_line a l]).
  Proof.
    intros H Hst. unfold plain_line_ok in H. apply andb_prop in H as [H Hp]. apply andb_prop in H as [Hl _].
    destruct (ut_plain_parts _ Hp) as (Hif & _ & _ & _ & Hfor).
    unfold ut_step. rewrite Hst, Hif, Hfor. cbn [negb andb].
    pose proof (plain_text a l Hl) as PT.
    destruct (hasTag (render_line l)); cbn [andb]; rewrite <- PT; reflexivity.
  Qed.

  (* a plain line inside an IF block *)
  Lemma step_plain_inside st l :
    plain_line_ok l = true -> is_processing_if st = true ->
    ut_step a dflts st (render_line l) = (st, if can_append_line st then [ref_line a l] else []).
  Proof.
    intros H Hst. unfold plain_line_ok in H. apply andb_prop in H as [H Hp]. apply andb_prop in H as [Hl _].
    destruct (ut_plain_parts _ Hp) as (_ & Helif & Helse & Hendif & _).
    unfold ut_step. rewrite Hst, Helif, Helse, Hendif. cbn [negb andb].
    rewrite <- (replaceUserTags_render a l Hl). reflexivity.
  Qed.

  Lemma scan_body_inside : forall body st rest,
    forallb plain_line_ok body = true -> is_processing_if st = true ->
    ut_scan a dflts st (map render_line body ++ rest)
    = (if can_append_line st then map (ref_line a) body else []) ++ ut_scan a dflts st rest.
  Proof.
    induction body as [|l body IH]; intros st rest H Hst.
    - destruct (can_append_line st); reflexivity.
    - cbn [forallb] in H. apply andb_prop in H as [Hl Hb].
      cbn [map app ut_scan]. rewrite (step_plain_inside st l Hl Hst). rewrite (IH st rest Hb Hst).
      destruct (can_append_line st); reflexivity.
  Qed.

  Lemma scan_body_outside : forall body rest,
    forallb plain_line_ok body = true ->
    ut_scan a dflts ut_init (map render_line body ++ rest) = map (ref_line a) body ++ ut_scan a dflts ut_init rest.
  Proof.
    induction body as [|l body IH]; intros rest H; [reflexivity|].
    cbn [forallb] in H. apply andb_prop in H as [Hl Hb].
    cbn [map app ut_scan]. rewrite (step_plain_outside ut_init l Hl eq_refl). cbn [can_process_else ut_init].
    change {| is_processing_if := false; can_process_else := true; can_append_line := true |} with ut_init.
    rewrite (IH rest Hb). reflexivity.
  Qed.

  Definition inif (cpe ca : bool) : utst := {| is_processing_if := true; can_process_else := cpe; can_append_line := ca |}.

  Lemma else_facts : hasSpecificTag render_else TAG_ELSEIF = false /\ hasSpecificTag render_else TAG_ELSE = true
                     /\ hasSpecificTag render_else TAG_ENDIF = false.
  Proof. vm_compute. auto. Qed.
  Lemma endif_facts : hasSpecificTag render_endif TAG_ELSEIF = false /\ hasSpecificTag render_endif TAG_ELSE = false
                      /\ hasSpecificTag render_endif TAG_ENDIF = true.
  Proof. vm_compute. auto. Qed.

  Lemma step_else cpe ca : ut_step a dflts (inif cpe ca) render_else = (inif cpe cpe, []).
  Proof.
    destruct else_facts as (E1 & E2 & E3). unfold ut_step. cbn [is_processing_if inif].
    rewrite E1, E2, E3. reflexivity.
  Qed.

  Lemma step_endif cpe ca : ut_step a dflts (inif cpe ca) render_endif = (ut_init, []).
  Proof.
    destruct endif_facts as (E1 & E2 & E3). unfold ut_step. cbn [is_processing_if inif].
    rewrite E1, E2, E3. reflexivity.
  Qed.

  Lemma step_elseif cpe ca t :
    elseif_line_ok (render_elseif t) t = true ->
    ut_step a dflts (inif cpe ca) (render_elseif t) = (inif (negb (assigned a t) && cpe) (assigned a t), []).
  Proof.
    unfold elseif_line_ok. intros H. apply andb_prop in H as [H Ht]. apply andb_prop in H as [H1 H2].
    apply negb_true_iff in H2. apply String.eqb_eq in Ht.
    unfold ut_step. cbn [is_processing_if inif]. rewrite H1, H2, Ht. cbn [negb andb].
    rewrite mem_assigned. destruct (hasSpecificTag (render_elseif t) TAG_ELSE); reflexivity.
  Qed.

  Lemma step_if t :
    if_line_ok (render_if t) t = true ->
    ut_step a dflts ut_init (render_if t) = (inif (negb (assigned a t)) (assigned a t), []).
  Proof.
    unfold if_line_ok. intros H. apply andb_prop in H as [H Ht]. apply andb_prop in H as [H1 H2].
    apply negb_true_iff in H2. apply String.eqb_eq in Ht.
    unfold ut_step. cbn [is_processing_if ut_init]. rewrite H1, H2, (hasSpecific_hasTag _ _ H1), Ht. cbn [negb andb].
    rewrite mem_assigned. cbn [can_process_else]. rewrite andb_true_r. reflexivity.
  Qed.

  Definition else_part (els : option (list uline)) : list string :=
    match els with Some ls => render_else :: map render_line ls | None => [] end.
  Definition else_lines (els : option (list uline)) : list string :=
    match els with Some ls => map (ref_line a) ls | None => [] end.
  Definition br_lines (b : string * list uline) : list string :=
    if assigned a (fst b) then map (ref_line a) (snd b) else [].

  Lemma scan_else els cpe ca rest :
    match els with Some ls => forallb plain_line_ok ls | None => true end = true ->
    ut_scan a dflts (inif cpe ca) (else_part els ++ [render_endif] ++ rest)
    = (if cpe then else_lines els else []) ++ ut_scan a dflts ut_init rest.
  Proof.
    intros H. destruct els as [ls|]; cbn [else_part else_lines].
    - cbn [app ut_scan]. rewrite step_else. cbn [app].
      rewrite (scan_body_inside ls (inif cpe cpe) _ H eq_refl). cbn [can_append_line inif].
      cbn [app ut_scan]. rewrite step_endif. cbn [app]. destruct cpe; reflexivity.
    - cbn [app ut_scan]. rewrite step_endif. cbn [app]. destruct cpe; reflexivity.
  Qed.

  Lemma scan_elifs : forall elifs els cpe ca rest,
    forallb (branch_ok render_elseif elseif_line_ok) elifs = true ->
    match els with Some ls => forallb plain_line_ok ls | None => true end = true ->
    ut_scan a dflts (inif cpe ca) (flat_map (render_branch render_elseif) elifs ++ else_part els ++ [render_endif] ++ rest)
    = flat_map br_lines elifs
      ++ (if cpe && negb (existsb (fun b => assigned a (fst b)) elifs) then else_lines els else [])
      ++ ut_scan a dflts ut_init rest.
  Proof.
    induction elifs as [|b elifs IH]; intros els cpe ca rest Hb He.
    - cbn [flat_map app existsb negb]. rewrite andb_true_r. apply scan_else. assumption.
    - cbn [forallb] in Hb. apply andb_prop in Hb as [Hb1 Hb]. unfold branch_ok in Hb1.
      apply andb_prop in Hb1 as [Hb1 Hbody]. apply andb_prop in Hb1 as [_ Hline].
      cbn [flat_map]. unfold render_branch at 1. rewrite <- !app_assoc. cbn [app ut_scan].
      rewrite (step_elseif cpe ca (fst b) Hline). cbn [app].
      rewrite (scan_body_inside (snd b) (inif _ _) _ Hbody eq_refl). cbn [can_append_line inif].
      rewrite (IH els _ _ rest Hb He). cbn [existsb]. rewrite <- ?app_assoc.
      replace (negb (assigned a (fst b)) && cpe && negb (existsb (fun b0 => assigned a (fst b0)) elifs))
         with (cpe && negb (assigned a (fst b) || existsb (fun b0 => assigned a (fst b0)) elifs))
         by (destruct (assigned a (fst b)), cpe, (existsb (fun b0 => assigned a (fst b0)) elifs); reflexivity).
      reflexivity.
  Qed.

  (* C17_if at the level of the scanner: one IF block *)
  Lemma scan_cond b elifs els rest :
    item_ok (Cond b elifs els) = true ->
    ut_scan a dflts ut_init (render_item (Cond b elifs els) ++ rest)
    = ref_cond a (b :: elifs) els ++ ut_scan a dflts ut_init rest.
  Proof.
    intros H. cbn [item_ok] in H. apply andb_prop in H as [H He]. apply andb_prop in H as [Hb Helifs].
    unfold branch_ok in Hb. apply andb_prop in Hb as [Hb Hbody]. apply andb_prop in Hb as [_ Hline].
    cbn [render_item]. unfold render_branch at 1. rewrite <- !app_assoc. cbn [app ut_scan].
    rewrite (step_if (fst b) Hline). cbn [app].
    rewrite (scan_body_inside (snd b) (inif _ _) _ Hbody eq_refl). cbn [can_append_line inif].
    change (match els with Some ls => render_else :: map render_line ls | None => [] end) with (else_part els).
    rewrite (scan_elifs elifs els _ _ rest Helifs He).
    unfold ref_cond. cbn [flat_map existsb]. rewrite <- ?app_assoc.
    replace (negb (assigned a (fst b)) && negb (existsb (fun b0 => assigned a (fst b0)) elifs))
       with (negb (assigned a (fst b) || existsb (fun b0 => assigned a (fst b0)) elifs))
       by (destruct (assigned a (fst b)), (existsb (fun b0 => assigned a (fst b0)) elifs); reflexivity).
    unfold else_lines, br_lines.
    destruct (assigned a (fst b) || existsb (fun b0 => assigned a (fst b0)) elifs); reflexivity.
  Qed.

  Lemma for_end_plain : plain_line_ok [Tag "FOR_END" None] = true.
  Proof. vm_compute. reflexivity. Qed.

  Lemma for_end_text : assigned a "FOR_END" = false -> ref_line a [Tag "FOR_END" None] = render_for_end.
  Proof.
    unfold assigned, ref_line, subst. cbn [map subst_seg]. destruct (value_of a "FOR_END"); [discriminate|]. reflexivity.
  Qed.

  Lemma list_eqb_eq : forall x y, list_eqb x y = true -> x = y.
  Proof.
    induction x as [|u x IH]; destruct y as [|v y]; cbn [list_eqb]; intros H; try discriminate; [reflexivity|].
    apply andb_prop in H as [H1 H2]. apply String.eqb_eq in H1. subst. f_equal. apply IH. assumption.
  Qed.

  (* the text the user-tag phase leaves for an item *)
  Definition ut_item (it : item) : list string :=
    match it with
    | Plain l => [ref_line a l]
    | Cond b elifs els => ref_cond a (b :: elifs) els
    | For h body => render_for_value (hdr_value a h) :: map (ref_line a) body ++ [render_for_end]
    end.

  Lemma scan_for h body rest :
    item_ok (For h body) = true -> item_wf a dflts (For h body) = true -> assigned a "FOR_END" = false ->
    ut_scan a dflts ut_init (render_item (For h body) ++ rest) = ut_item (For h body) ++ ut_scan a dflts ut_init rest.
  Proof.
    intros H W Hfe. cbn [item_ok] in H. repeat (apply andb_prop in H as [H ?Hx]).
    unfold for_hdr_line_ok in Hx1. apply andb_prop in Hx1 as [Hf Hi]. apply negb_true_iff in Hi.
    cbn [item_wf] in W. repeat (apply andb_prop in W as [W ?Wx]).
    apply String.eqb_eq in Wx5.
    cbn [render_item ut_item]. rewrite <- ?app_assoc. cbn [app ut_scan].
    unfold ut_step at 1. cbn [is_processing_if ut_init]. rewrite Hf, Hi, (hasSpecific_hasTag _ _ Hf). cbn [negb andb can_process_else ut_init].
    change {| is_processing_if := false; can_process_else := true; can_append_line := true |} with ut_init.
    rewrite Wx5. cbn [app]. f_equal.
    rewrite <- !app_assoc. rewrite (scan_body_outside body _ Hx0). f_equal.
    change render_for_end with (render_line [Tag "FOR_END" None]) at 1.
    cbn [app ut_scan]. rewrite (step_plain_outside ut_init _ for_end_plain eq_refl). cbn [can_process_else ut_init app].
    change {| is_processing_if := false; can_process_else := true; can_append_line := true |} with ut_init.
    rewrite (for_end_text Hfe). reflexivity.
  Qed.

  (* the whole file *)
  Lemma scan_template : forall t,
    forallb item_ok t = true -> forallb (item_wf a dflts) t = true -> assigned a "FOR_END" = false ->
    ut_scan a dflts ut_init (render t) = flat_map ut_item t.
  Proof.
    induction t as [|it t IH]; intros H W Hfe; [reflexivity|].
    cbn [forallb] in H, W. apply andb_prop in H as [Hi H]. apply andb_prop in W as [Wi W].
    unfold render. cbn [flat_map]. fold (render t).
    destruct it as [l|b elifs els|h body].
    - cbn [render_item app ut_scan]. cbn [item_ok] in Hi. rewrite (step_plain_outside ut_init l Hi eq_refl).
      cbn [can_process_else ut_init].
      change {| is_processing_if := false; can_process_else := true; can_append_line := true |} with ut_init.
      rewrite (IH H W Hfe). reflexivity.
    - rewrite (scan_cond b elifs els _ Hi). rewrite (IH H W Hfe). reflexivity.
    - rewrite (scan_for h body _ Hi Wi Hfe). rewrite (IH H W Hfe). reflexivity.
  Qed.
End Scan.
