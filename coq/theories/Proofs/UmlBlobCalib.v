(* C19 adaptor: calibration of the assumed class-diagram writer and of the reader model on the shipped project
   (Gen/UmlBlobShipped.v is regenerated from kojen/test/blob.xml on every run). *)
From Coq Require Import String Ascii List Bool Arith.
From KV Require Import Lib.Str Model.Vpp Model.Uml Model.UmlBlob Model.UmlWriter Gen.UmlBlobShipped Proofs.UmlBlobDefs Proofs.UmlBlobStruct Proofs.UmlBlobText.
Import ListNotations.
Open Scope string_scope.

Definition all_nodes (W : wdiagram) : list wnode :=
  (map (fun se => we_node (snd se)) (wd_drawn W) ++ map we_node (wd_referenced W))%list.

(* both shipped class diagrams: printing the structured blobs read off the project reproduces every stored row byte for byte
   (chosts compares the rows), between the rows of the other diagrams *)
Lemma calib_cwriter : forallb (chosts shipped_cdb) shipped_W = true /\ map wd_name shipped_W = ["ProtocolStack"; "TestClassDiagram"].
Proof. split; vm_compute; reflexivity. Qed.

(* the reader model loads both diagrams; the same from the whole project and from the project holding only the diagram's rows *)
Lemma calib_creader :
  map (fun W => match adaptor shipped_cdb (wd_name W) with Some c => (List.length (classes c), List.length (inhs c)) | None => (0, 0) end) shipped_W
  = [(10, 7); (20, 7)]
  /\ forallb (fun W => match adaptor shipped_cdb (wd_name W), adaptor (encode_cdiagram W) (wd_name W) with
                       | Some a, Some b => Nat.eqb (List.length (classes a)) (List.length (classes b)) | _, _ => false end) shipped_W = true.
Proof. split; vm_compute; reflexivity. Qed.

(* how much of the shipped project lies in the domain of the text-level theorem (no free text with braces / separators) *)
Lemma calib_domain :
  map (fun W => (List.length (all_nodes W), List.length (filter (fun n => wf_node n && nb_node n && no_char SQ (print_node n)) (all_nodes W)))) shipped_W
  = [(39, 38); (49, 40)].
Proof. vm_compute. reflexivity. Qed.
