(* C19 adaptor: calibration of the assumed class-diagram writer and of the reader model on the shipped project
   (Gen/UmlBlobShipped.v is regenerated from kojen/test/blob.xml on every run). *)
From Coq Require Import String Ascii List Bool Arith.
From KV Require Import Lib.Str Model.Vpp Model.Uml Model.UmlBlob Model.UmlWriter Gen.UmlBlobShipped Proofs.UmlBlobDefs Proofs.UmlBlobStruct Proofs.UmlBlobText.
Import ListNotations.
Open Scope string_scope.

Definition all_nodes (W : wdiagram) : list wnode :=
  (map (fun se => we_node (snd se)) (wd_drawn W) ++ map we_node (wd_referenced W))%list.

(* both shipped class diagrams: printing the structured blobs read off the project reproduces every stored row byte for byte
   (chosts compares the rows), between the rows of the other diagrams *)
Lemma calib_cwriter : forallb (chosts shipped_cdb) shipped_W = true /\ map wd_name shipped_W = ["ProtocolStack"; "TestClassDiagram"].
Proof. split; vm_compute; reflexivity. Qed.

(* the reader model loads both diagrams; the same from the whole project and from the project holding only the diagram's rows *)
Lemma calib_creader :
  map (fun W => match adaptor shipped_cdb (wd_name W) with Some c => (List.length (classes c), List.length (inhs c)) | None => (0, 0) end) shipped_W
  = [(10, 7); (20, 7)]
  /\ forallb (fun W => match adaptor shipped_cdb (wd_name W), adaptor (encode_cdiagram W) (wd_name W) with
                       | Some a, Some b => Nat.eqb (List.length (classes a)) (List.length (classes b)) | _, _ => false end) shipped_W = true.
Proof. split; vm_compute; reflexivity. Qed.

(* how much of the shipped project lies in the domain of the text-level theorem: ALL of it (free text such as HTML / CSS
   documentation since the reader is quote-aware: K-C19-6; element names with a colon -- the association
   Const: This should appear in constructor -- since it cuts the header at the colons outside quotes: K-C19-7). *)
Definition in_text_domain (n : wnode) : bool := wf_node n && nbq_node n && quote_ok (print_node n).
Definition in_text_domain_c (n : wnode) : bool := wf_top n && nbq_node n && quote_ok (print_node n).
Lemma calib_domain :
  map (fun W => (List.length (all_nodes W), List.length (filter in_text_domain_c (all_nodes W)), List.length (filter in_text_domain (all_nodes W)))) shipped_W
  = [(39, 39, 39); (49, 49, 49)]
  /\ flat_map (fun W => map (fun n => (node_id n, node_name n)) (filter (fun n => negb (no_char ":" (name_text (node_name n)))) (all_nodes W))) shipped_W
     = [("OUDfaI6GAqAA8xe8", Some "Const: This should appear in constructor")].
Proof. split; vm_compute; reflexivity. Qed.

(* without free text (no brace, no apostrophe anywhere: the domain before the reader was made quote-aware) 38 and 41 of them *)
Lemma calib_domain_before :
  map (fun W => List.length (filter (fun n => wf_node n && nb_node n && no_char SQ (print_node n)) (all_nodes W))) shipped_W = [38; 41].
Proof. vm_compute. reflexivity. Qed.

(* on every shipped element in the domain the reader model returns the dictionary the theorem states (a computed instance) *)
Fixpoint pv_eqb (a b : UmlBlob.pv) {struct a} : bool :=
  match a, b with
  | PStr x, PStr y => String.eqb x y
  | PDict l, PDict m =>
      (fix go (l : list (string * UmlBlob.pv)) (m : list (string * UmlBlob.pv)) {struct l} : bool :=
         match l, m with
         | [], [] => true
         | (k, v) :: r, (k', v') :: r' => String.eqb k k' && pv_eqb v v' && go r r'
         | _, _ => false
         end) l m
  | _, _ => false
  end.
Lemma calib_parse :
  forallb (fun W => forallb (fun n => match parse_blob (py_str_bytes (print_node n)) with Some v => pv_eqb v (top_pv_c n) | None => false end)
                            (filter in_text_domain_c (all_nodes W))) shipped_W = true.
Proof. vm_compute. reflexivity. Qed.
