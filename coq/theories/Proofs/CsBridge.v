(* C10 bridge: the reference expansion (= the engine's output, C16) of the transition block of the SHIPPED C# template is one class
   text per state class of Model/CsSM.v, in it one Trigger<e> override per listed handler, whose PER_GUARDTRANSITION lines read,
   one by one, as the tokens cs_handler t s e.  The block's shape is computed from Gen/Templates.v. *)
From Coq Require Import String Ascii List Bool Arith Lia.
From KV Require Import Lib.Str Lib.StrOps Lib.ODict Lib.TableDef Gen.Tags Gen.Templates Gen.CsTmpl Model.TTable Model.CsShape Model.CsSM
                       Model.Engine Model.EngineSM Model.EngineDomain Model.EngineDomain16 Model.Parse16 Spec.RefExpand Spec.RefExpand16
                       Model.PyRender Model.CsRender Proofs.EngineStr Proofs.PyBridge.
Import ListNotations.
Open Scope string_scope.
Open Scope list_scope.

Lemma cs_block16_shape : cs_block16 = [TransBlock "    " "    " cs_tbody].
Proof. vm_compute. reflexivity. Qed.

Lemma cs_block16_checked : cs_block16_opt = Some cs_block16.
Proof. vm_compute. reflexivity. Qed.

Lemma cs_block16_in_grammar : in_grammar16 cs_block16 = true.
Proof. vm_compute. reflexivity. Qed.

Definition RC (s : string) (a : ctok) : Prop := cs_reads "X" s a = true.

Lemma Forall2_flat_map_c {A} (f : A -> list string) (g : A -> list ctok) l :
  (forall x, Forall2 RC (f x) (g x)) -> Forall2 RC (flat_map f l) (flat_map g l).
Proof. intros H. induction l as [|x l IH]; [constructor|]. cbn [flat_map]. apply Forall2_app; [apply H|exact IH]. Qed.

Ltac tok_eq :=
  unfold RC, cs_reads; apply String.eqb_eq; unfold tok_text; cbn; repeat rewrite app_assoc_s; cbn [append]; reflexivity.

Lemma cs_row_reads e (r : TableDef.row) : Forall2 RC (flat_map (ref_gline e (trans_table r)) cs_gbody) (cs_row r).
Proof.
  unfold trans_table, cs_row, cs_pgt, cs_gbody. cbn [flat_map cs_inst]. unfold opt.
  destruct (is_none (r_act r)), (is_none (TableDef.r_guard r)), (is_none (TableDef.r_next r));
    cbn; repeat (constructor; [tok_eq|]); constructor.
Qed.

(* the lines of the PER_GUARDTRANSITION block of Trigger<e> in class s read as the model's tokens, for EVERY table *)
Theorem cs_handler_reads (t : table) s e : Forall2 RC (cs_handler_text t s e) (cs_handler t s e).
Proof. unfold cs_handler_text, cs_handler. apply Forall2_flat_map_c. intros r. apply cs_row_reads. Qed.

Lemma Forall2_cs_reads_all ss ts : Forall2 RC ss ts -> cs_reads_all "X" ss ts = true.
Proof. induction 1 as [|s a ss ts H _ IH]; [reflexivity|]. cbn [cs_reads_all]. unfold RC in H. rewrite H, IH. reflexivity. Qed.

Theorem cs_handler_reads_b (t : table) s e : cs_reads_all "X" (cs_handler_text t s e) (cs_handler t s e) = true.
Proof. apply Forall2_cs_reads_all, cs_handler_reads. Qed.

(* the whole block: one class text per state class, one method per listed handler *)
Lemma flat_map_TLine s evs ls : flat_map (ref_titem s evs) (map TLine ls) = sub_lines (state_table s) ls.
Proof. induction ls as [|l ls IH]; [reflexivity|]. cbn [map flat_map ref_titem app]. unfold sub_lines in *. cbn [map]. rewrite IH. reflexivity. Qed.

Lemma flat_map_ELine e trs ls : flat_map (ref_eitem e trs) (map ELine ls) = sub_lines (event_table e) ls.
Proof. induction ls as [|l ls IH]; [reflexivity|]. cbn [map flat_map ref_eitem app]. unfold sub_lines in *. cbn [map]. rewrite IH. reflexivity. Qed.

Theorem cs_ref_structure (t : table) : ref_trans (tps_of t) cs_tbody = flat_map (cs_class_text t) (cs_classes t).
Proof.
  unfold ref_trans, tps_of, cs_classes. rewrite flat_map_map. apply flat_map_ext. intros s. cbn [fst snd].
  unfold cs_tbody, cs_class_text. rewrite !flat_map_app, flat_map_TLine, flat_map_TLine. f_equal. f_equal.
  cbn [flat_map ref_titem]. rewrite app_nil_r, flat_map_map. unfold cs_handlers. apply flat_map_ext. intros e. cbn [fst snd].
  unfold cs_method_text. rewrite !flat_map_app, !flat_map_ELine. f_equal. f_equal.
  cbn [flat_map ref_eitem]. rewrite app_nil_r, flat_map_map. reflexivity.
Qed.

(* ---------------------------------------------------------------- the engine *)
From KV Require Import Gen.Pipeline Proofs.EngineWhole16 Proofs.CsProofs Spec.TableInterp.

Lemma cs_explicit_in_grammar : in_grammar16 [TransBlock "    " "    " cs_tbody] = true.
Proof. rewrite <- cs_block16_shape. exact cs_block16_in_grammar. Qed.

(* For EVERY table whose rows are well formed: the file the engine's pipeline writes from the shipped block is the class texts, one
   per state class, each with one Trigger<e> override per listed handler *)
Theorem cs_engine_block tt structs protos msgs m dict :
  tt_model tt structs protos msgs = Some m -> dict_ok dict = true -> forallb row_ok (table_of tt) = true ->
  engine16 m dict cs_block16 = Some (concat_lines (map tab4 (flat_map (cs_class_text (table_of tt)) (cs_classes (table_of tt))))).
Proof.
  intros Hm Hd Hw. rewrite cs_block16_shape.
  rewrite (engine_lines_gen _ tt structs protos msgs m dict cs_explicit_in_grammar); [| |exact Hm|exact Hd].
  - cbn [flat_map ref_item16 el_tps elements_of]. rewrite app_nil_r, cs_ref_structure. reflexivity.
  - unfold wf16_rows, wf_elements16. cbn [forallb item16_wf el_tps elements_of]. rewrite (tps_wf_table _ Hw). reflexivity.
Qed.

(* C10_handlers about what the engine writes *)
Theorem cs_handlers_engine tt structs protos msgs m dict :
  tt_model tt structs protos msgs = Some m -> dict_ok dict = true -> forallb row_ok (table_of tt) = true ->
  engine16 m dict cs_block16 = Some (concat_lines (map tab4 (flat_map (cs_class_text (table_of tt)) (cs_classes (table_of tt)))))
  /\ forall s e gv n,
       cs_reads_all "X" (cs_handler_text (table_of tt) s e) (cs_handler (table_of tt) s e) = true
       /\ (String.eqb s "" = false ->
           exists prog, parse_braces (cs_handler (table_of tt) s e) = Some prog /\
            cs_out (exec_cs gv e prog (mkCs s s n true false)) =
            let '(tr, c, n') := step_rows_quiet gv n s e (rows_for (table_of tt) s e) in (tr, mkCs c c n' true false)).
Proof.
  intros Hm Hd Hw. split; [exact (cs_engine_block tt structs protos msgs m dict Hm Hd Hw)|].
  intros s e gv n. split; [apply cs_handler_reads_b|intro Hs; apply cs_handler_sem; exact Hs].
Qed.

(* ---------------------------------------------------------------- the whole shipped file *)
From KV Require Import Proofs.EngineTps Proofs.Shipped16.

Lemma cs_file16_checked : shipped16 dict0 cs_file = Some (render16 cs_file16, cs_file16).
Proof. vm_compute. reflexivity. Qed.

Lemma cs_file16_block : nth_error cs_file16 45 = Some (TransBlock "    " "    " cs_tbody).
Proof. vm_compute. reflexivity. Qed.

(* For EVERY table, interface and assignment of user tags admitted for the file: what smgen.Generate's pipeline writes from the WHOLE
   shipped TEMPLATEInternals.cs is the reference expansion of the file read into the template syntax; its 46th item is the transition
   block, whose expansion is the class texts of cs_engine_block / C10_handlers_engine. *)
Lemma cs_file16_opt_eq : cs_file16_opt = Some cs_file16.
Proof. vm_compute. reflexivity. Qed.

Theorem cs_file_engine (tt : list EngineSM.row) (structs protos msgs : list string) (m : smodel) (a : usertags) :
  tt_model tt structs protos msgs = Some m -> cs_file_wf tt structs protos msgs a = true ->
  generate_file m dict0 a cs_file = Some (cs_file_ref tt structs protos msgs a)
  /\ nth_error cs_file16 45 = Some (TransBlock "    " "    " cs_tbody)
  /\ ref_item16 (with_user a (elements_of (table_of tt) structs protos msgs)) (TransBlock "    " "    " cs_tbody)
     = flat_map (cs_class_text (table_of tt)) (cs_classes (table_of tt)).
Proof.
  intros Hm Hw. split; [|split; [exact cs_file16_block|]].
  - unfold cs_file_ref. unfold cs_file_wf in Hw. rewrite cs_file16_opt_eq in Hw.
    rewrite <- (model_elements_full tt structs protos msgs m Hm). rewrite <- (model_elements_full tt structs protos msgs m Hm) in Hw.
    exact (shipped_output_user cs_file (render16 cs_file16) cs_file16 cs_file16_checked m a Hw).
  - cbn [ref_item16 el_tps with_user elements_of]. apply cs_ref_structure.
Qed.
