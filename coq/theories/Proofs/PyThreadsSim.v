(* C11 -- the simulation lemma: from a described state satisfying the invariant, every step of every thread leads to a
   described state satisfying the invariant; the rank decreases unless the step is an idle turn of the worker's loop. *)
From Coq Require Import String List Bool Arith NArith Lia.
From KV Require Import Model.PySyncIR Model.PyThreads Model.PyMachine Gen.PySync Spec.PyThreadsSpec Proofs.PyThreadsInv.
Import ListNotations.
Open Scope list_scope.

(* what one step from a described state yields *)
Definition SimRes (c : config) (a : astate) (t : nat) (s' : state) (l : label) : Prop :=
  exists a', s' = conc c a' /\ AInv c a' /\
    (arank c a' < arank c a \/
     (arank c a' = arank c a /\ idle_step (conc c a) t l /\ queue (a_sh a) = [] /\
      exists w', a' = mkA (a_sh a) (a_m a) w' (a_p a) (a_done a) /\
                 ((a_w a = W0 /\ w' = W1 /\ mnum (a_m a) < 11) \/ (a_w a = W1 /\ w' = W0)))) /\
    (t <> 1 -> a_w a' = a_w a /\ log (a_sh a') = log (a_sh a) /\ a_done a' = a_done a).

Lemma prefix_refl : forall {A} (l : list A), prefix l l.
Proof. intros. exists []. rewrite app_nil_r. reflexivity. Qed.
Lemma prefix_app_r : forall {A} (a b x : list A), prefix a b -> prefix a (b ++ x).
Proof. intros A a b x [r ->]. exists (r ++ x). rewrite app_assoc. reflexivity. Qed.

Lemma put_unf : forall (q : list ev) e n, S (length q + n) = length (q ++ [e]) + n.
Proof. intros. rewrite app_length. cbn. lia. Qed.
Lemma put_fifo : forall (a b c q : list ev) (pu : list (nat * ev)) t e, a ++ b ++ c ++ q = map snd pu ->
  a ++ b ++ c ++ q ++ [e] = map snd (pu ++ [(t, e)]).
Proof. intros. rewrite map_app, <- H. cbn. rewrite <- !app_assoc. reflexivity. Qed.
Lemma puts_by_put_same : forall t (pu : list (nat * ev)) e r x, puts_by t pu ++ e :: r = x -> puts_by t (pu ++ [(t, e)]) ++ r = x.
Proof. intros. rewrite puts_by_app, puts_by_one, Nat.eqb_refl, <- app_assoc. exact H. Qed.
Lemma puts_by_put_other : forall t u (pu : list (nat * ev)) e r x, u <> t -> puts_by t pu ++ r = x -> puts_by t (pu ++ [(u, e)]) ++ r = x.
Proof. intros. rewrite puts_by_app, puts_by_one. destruct (Nat.eqb_spec u t); [contradiction|]. rewrite app_nil_r. exact H0. Qed.
Lemma wr_put : forall w q e, wr w (q ++ [e]) <= wr w q.
Proof. destruct w, q; cbn; lia. Qed.
Lemma qsum_put : forall q e, qsum (q ++ [e]) = qsum q + qw e.
Proof. intros. rewrite qsum_app. cbn. lia. Qed.
Ltac dinv H := destruct H as [Hfl Hst Hin Hsc Hsr Hunf Hfifo Hlog Hw0 Hquiet Hw7 Hjoin Hpre Hdr Hom How Hop Hnp Htok].
Ltac flds := cbn [a_sh a_m a_w a_p a_done flags queue unfinished started inited stop_called stop_returned puts pre_stop log
                  mnum flags_of winfl_n wbegun wheld wopen wpend mpend set_flags set_queue set_log ph_pend fst snd] in *.
Ltac imp := intros; try lia; try congruence;
  match goal with
  | H : _ -> ?G |- ?G => apply H; lia
  | H : ?w = W7 -> _ , Hx : ?w = W7 |- _ => specialize (H Hx); lia
  | H : ?P -> _ = W7 |- _ => let X := fresh in assert (X : P) by lia; specialize (H X); discriminate
  | |- prefix ?a ?a => apply prefix_refl
  | |- prefix _ (_ ++ _) => apply prefix_app_r; imp
  end.
Ltac w0 := match goal with H : _ -> ?w = W0 |- _ => let E := fresh in assert (E : w = W0) by (apply H; lia); subst w end.
Ltac tk :=
  let x := fresh "x" in
  intros x;
  match goal with H : forall y : N, tokens y _ _ = _ |- _ => specialize (H x) end;
  unfold tokens, ppend in *; flds;
  try match goal with
      | Hp : nth_error ?ps ?i = Some ?p |- context [sumf ?f (upd ?i ?new ?ps)] =>
          let S := fresh "S" in pose proof (sumf_upd f i new ps p Hp) as S; cbn beta in S; cbn [fst snd ph_pend] in S
      end;
  repeat first [rewrite ecnt_app in * | rewrite ecnt_cons in * | rewrite ecnt_nil in * | rewrite map_app in * | rewrite cnt_app in *];
  cbn [map cnt] in *; lia.
Ltac fin := constructor; unfold sh_put in *; flds; try reflexivity; try assumption; try imp; try tk.
Ltac rk := unfold arank; flds; cbn [mrank wr ph_rank]; try lia.

Lemma sim_main : forall c a s' l, AInv c a -> step the_prog true 0 (conc c a) = Some (s', l) -> SimRes c a 0 s' l.
Proof.
  intros c [[fl q u st ini sc sr pu pre lg] m w ps dn] s' l HI H.
  unfold step in H. cbn [conc tmain tworker tprods sh a_sh a_m a_w a_p] in H.
  destruct (exec _ _ _ _ _ _) as [[[th x] l']|] eqn:E; [|discriminate]. inversion H; subst s' l'; clear H.
  dinv HI. flds. subst fl st ini sc sr u lg.
  destruct m; flds.
  - (* M0 *) cbn in E. inversion E; subst th x l; clear E. w0.
    eexists (mkA _ M1 _ _ dn). split; [reflexivity|]. split; [|split]; [fin|left; rk|intros _; flds; auto].
  - (* M1 *) cbn in E. inversion E; subst th x l; clear E. w0.
    eexists (mkA _ M2 _ _ dn). split; [reflexivity|]. split; [|split]; [fin|left; rk|intros _; flds; auto].
  - (* M2 *) cbn in E. inversion E; subst th x l; clear E. w0.
    destruct Hquiet as (-> & -> & -> & _); [lia|].
    eexists (mkA _ M3 _ _ []). split; [reflexivity|]. split; [|split]; [fin|left; rk|intros _; flds; auto].
    intros; auto.
  - (* M3 *) cbn in E. inversion E; subst th x l; clear E. w0.
    eexists (mkA _ M4 _ _ dn). split; [reflexivity|]. split; [|split]; [fin|left; rk|intros _; flds; auto].
  - (* M4 *) cbn in E. inversion E; subst th x l; clear E. w0.
    eexists (mkA _ M5 _ _ dn). split; [reflexivity|]. split; [|split]; [fin|left; rk|intros _; flds; auto].
  - (* M5 *) cbn in E. rewrite drop_try_calls in E by reflexivity. inversion E; subst th x l; clear E.
    eexists (mkA _ (MT TIdle (mscript c)) _ _ dn). split; [reflexivity|]. split; [|split]; [fin|left; rk|intros _; flds; auto].
  - (* MT *)
    apply exec_trig in E; [|reflexivity|flds; apply (lookup_rt (MT ph r)); cbn; lia].
    destruct ph as [|e|e]; [destruct r as [|e r]|..].
    + (* StopCall *) cbn in E. inversion E; subst th x l; clear E.
      eexists (mkA _ MS1 _ _ dn). split; [reflexivity|]. split; [|split]; [fin|left; rk|intros _; flds; auto].
    + (* Call *) destruct E as (-> & -> & ->).
      eexists (mkA _ (MT (TRead e) r) _ _ dn). split; [reflexivity|]. split; [|split]; [fin|left; rk; unfold costs, cost; cbn [fold_right]; lia|intros _; flds; auto].
    + (* read *) destruct E as (-> & -> & ->).
      eexists (mkA _ (MT (TPut e) r) _ _ dn). split; [reflexivity|]. split; [|split]; [fin|left; rk|intros _; flds; auto].
    + (* put *) destruct E as (-> & -> & ->).
      eexists (mkA _ (MT TIdle r) _ _ dn). split; [reflexivity|]. split; [|split]; [fin|left; rk|intros _; flds; auto].
      * apply put_unf.
      * apply put_fifo; assumption.
      * apply puts_by_put_same; assumption.
      * apply puts_by_put_other; [lia|assumption].
      * intros i p Hp. apply puts_by_put_other; [lia|auto].
      * pose proof (wr_put w q e). rewrite qsum_put. lia.
  - (* MS1 *) cbn in E. inversion E; subst th x l; clear E.
    eexists (mkA _ MS2 _ _ dn). split; [reflexivity|]. split; [|split]; [fin|left; rk|intros _; flds; auto].
  - (* MS2 *) cbn in E. inversion E; subst th x l; clear E.
    eexists (mkA _ MS3 _ _ dn). split; [reflexivity|]. split; [|split]; [fin|left; rk|intros _; flds; auto].
  - (* MS3: Queue.join() *) cbn in E. destruct (length q + winfl_n w) eqn:U; [|discriminate]. inversion E; subst th x l; clear E.
    eexists (mkA _ MS4 _ _ dn). split; [reflexivity|]. split; [|split]; [fin|left; rk|intros _; flds; auto].
    intros _. destruct q; [|discriminate]. destruct Hpre as [x Hx]; [lia|].
    assert (wbegun w = [] /\ wheld w = []) as [B1 B2] by (destruct w; cbn in U; try discriminate; auto).
    rewrite B1, B2, Hx, map_app in Hfifo. cbn in Hfifo. rewrite app_nil_r in Hfifo. exists (map snd x). exact Hfifo.
  - (* MS4 *) cbn in E. inversion E; subst th x l; clear E.
    eexists (mkA _ MS5 _ _ dn). split; [reflexivity|]. split; [|split]; [fin|left; rk|intros _; flds; auto].
  - (* MS5: Thread.join() *) cbn in E.
    destruct (finished (wthread w)) eqn:F; [|discriminate]. cbn in E. inversion E; subst th x l; clear E.
    assert (w = W7) as -> by (destruct w as [| | |? [] []| |]; cbn in F; try discriminate; reflexivity).
    eexists (mkA _ MS6 _ _ dn). split; [reflexivity|]. split; [|split]; [fin|left; rk|intros _; flds; auto].
  - (* MS6 *) cbn in E. inversion E; subst th x l; clear E.
    eexists (mkA _ MS7 _ _ dn). split; [reflexivity|]. split; [|split]; [fin|left; rk|intros _; flds; auto].
  - (* MS7 *) cbn in E. discriminate.
Qed.

Lemma lookup_kr' : forall m, 2 <= mnum m -> lookup "keepRunning" (flags_of m) = Some (Nat.ltb (mnum m) 11).
Proof. exact lookup_kr. Qed.

Lemma sim_worker : forall c a s' l, AInv c a -> step the_prog true 1 (conc c a) = Some (s', l) -> SimRes c a 1 s' l.
Proof.
  intros c [[fl q u st ini sc sr pu pre lg] m w ps dn] s' l HI H.
  unfold step in H. cbn [conc tmain tworker tprods sh a_sh a_m a_w a_p started] in H.
  destruct st eqn:ST; [|discriminate].
  destruct (exec _ _ _ _ _ _) as [[[th x] l']|] eqn:E; [|discriminate]. inversion H; subst s' l'; clear H.
  dinv HI. flds. subst fl ini sc sr u lg. assert (Hm5 : 5 <= mnum m) by (apply Nat.leb_le; auto).
  destruct w as [| |e|e ph r| |]; flds.
  - (* W0: loop head *) cbn in E. rewrite lookup_kr' in E by lia. destruct (Nat.ltb_spec (mnum m) 11) as [Hm|Hm].
    + inversion E; subst th x l; clear E.
      eexists (mkA _ m W1 _ dn). split; [reflexivity|]. split; [|split]; [fin| |intros; lia].
      * intros Hq. destruct Hquiet as (? & ? & ? & ?); auto.
      * destruct q.
        -- right. split; [rk|]. split; [split; [reflexivity|]; split; [reflexivity|]; right; do 3 eexists; split; reflexivity|].
           split; [reflexivity|]. eexists. split; [reflexivity|]. left. auto.
        -- left. rk.
    + inversion E; subst th x l; clear E.
      eexists (mkA _ m W7 _ dn). split; [reflexivity|]. split; [|split]; [fin|left; rk|intros; lia].
  - (* W1: get *) cbn in E. destruct q as [|e q].
    + cbn in E. inversion E; subst th x l; clear E.
      eexists (mkA _ m W0 _ dn). split; [reflexivity|]. split; [|split]; [fin| |intros; lia].
      * intros Hq. destruct Hquiet as (? & ? & ? & ?); auto.
      * right. split; [rk|]. split; [split; [reflexivity|]; split; [reflexivity|]; left; reflexivity|].
        split; [reflexivity|]. eexists. split; [reflexivity|]. right. auto.
    + inversion E; subst th x l; clear E.
      assert (6 <= mnum m) by (destruct (Nat.lt_ge_cases (mnum m) 6) as [Hq|]; [destruct Hquiet as (? & ? & ? & ?); [auto|discriminate]|auto]).
      eexists (mkA _ m (W2 e) _ dn). split; [reflexivity|]. split; [|split]; [fin|left; rk; unfold qsum, qw; cbn [fold_right]; lia|intros; lia].
  - (* W2: process *) cbn in E. rewrite drop_try_calls in E by reflexivity. inversion E; subst th x l; clear E.
    assert (6 <= mnum m) by (destruct (Nat.lt_ge_cases (mnum m) 6) as [Hq|]; [destruct Hquiet as (? & ? & ? & [?|?]); [auto|discriminate..]|auto]).
    eexists (mkA _ m (W3 e TIdle (ev_children e)) _ dn). split; [reflexivity|]. split; [|split]; [fin|left; rk; rewrite pcost_children; lia|intros; lia].
    + rewrite app_nil_r. reflexivity.
    + rewrite flat_map_app. cbn [flat_map]. rewrite !app_nil_r in *. rewrite How. reflexivity.
  - (* W3: inside process(e) *)
    assert (H6 : 6 <= mnum m) by (destruct (Nat.lt_ge_cases (mnum m) 6) as [Hq|]; [destruct Hquiet as (? & ? & ? & [?|?]); [auto|discriminate..]|auto]).
    apply exec_trig in E; [|reflexivity|flds; apply lookup_rt; lia].
    destruct ph as [|e'|e']; [destruct r as [|e' r]|..].
    + (* process(e) returns *) cbn in E. inversion E; subst th x l; clear E.
      eexists (mkA _ m W6 _ (dn ++ [e])). split; [reflexivity|]. split; [|split]; [fin|left; rk|intros; lia].
      * rewrite <- Hfifo. cbn. rewrite <- app_assoc. reflexivity.
      * rewrite plog_app, <- !app_assoc. cbn. reflexivity.
      * rewrite !app_nil_r in *. exact How.
    + (* Call *) destruct E as (-> & -> & ->).
      eexists (mkA _ m (W3 e (TRead e') r) _ dn). split; [reflexivity|]. split; [|split]; [fin|left; rk; unfold costs, cost; cbn [fold_right]; lia|intros; lia].
    + (* read *) destruct E as (-> & -> & ->).
      eexists (mkA _ m (W3 e (TPut e') r) _ dn). split; [reflexivity|]. split; [|split]; [fin|left; rk|intros; lia].
    + (* put *) destruct E as (-> & -> & ->).
      eexists (mkA _ m (W3 e TIdle r) _ dn). split; [reflexivity|]. split; [|split]; [fin|left; rk|intros; lia].
      * apply put_unf.
      * apply put_fifo; assumption.
      * apply puts_by_put_other; [lia|assumption].
      * apply puts_by_put_same; assumption.
      * intros i p Hp. apply puts_by_put_other; [lia|auto].
      * rewrite qsum_put. lia.
  - (* W6: task_done *) cbn in E. rewrite Nat.add_comm in E. cbn in E. inversion E; subst th x l; clear E.
    eexists (mkA _ m W0 _ dn). split; [reflexivity|]. split; [|split]; [fin|left; rk|intros; lia].
    intros Hq. destruct Hquiet as (_ & _ & _ & [?|?]); [lia|discriminate..].
  - (* W7 *) cbn in E. discriminate.
Qed.

Lemma sim_prod : forall c a i s' l, AInv c a -> step the_prog true (S (S i)) (conc c a) = Some (s', l) -> SimRes c a (S (S i)) s' l.
Proof.
  intros c [[fl q u st ini sc sr pu pre lg] m w ps dn] i s' l HI H.
  unfold step in H. cbn [conc tmain tworker tprods sh a_sh a_m a_w a_p inited] in H.
  destruct ini eqn:INI; [|discriminate].
  rewrite nth_error_map in H. destruct (nth_error ps i) as [[ph r]|] eqn:Hp; [|discriminate]. cbn [option_map] in H.
  destruct (exec _ _ _ _ _ _) as [[[th x] l']|] eqn:E; [|discriminate]. inversion H; subst s' l'; clear H.
  dinv HI. flds. subst fl st sc sr u lg. assert (H6 : 6 <= mnum m) by (apply Nat.leb_le; auto).
  unfold pthread in E. cbn [fst snd] in E.
  apply exec_trig in E; [|reflexivity|flds; apply lookup_rt; lia].
  assert (Hi : i < length ps) by (apply nth_error_Some; congruence).
  destruct ph as [|e|e]; [destruct r as [|e r]|..].
  - cbn in E. discriminate.
  - (* Call *) destruct E as (-> & -> & ->).
    eexists (mkA _ m w (upd i (TRead e, r) ps) dn). split; [unfold conc; cbn [a_sh a_m a_w a_p]; rewrite <- map_upd; reflexivity|].
    split; [|split]; [fin| |intros _; flds; auto].
    + intros j p Hj. destruct (Nat.eq_dec j i) as [->|Hne].
      * rewrite nth_upd_same in Hj by lia. inversion Hj; subst p. exact (Hop i _ Hp).
      * rewrite nth_upd_other in Hj by auto. apply Hop; auto.
    + rewrite length_upd. assumption.
    + left. unfold arank; flds. pose proof (sum_upd prank i (TRead e, r) ps _ Hp) as S1. unfold prank in S1. cbn [fst snd ph_rank] in S1.
      unfold costs, cost in S1. cbn [fold_right] in S1. unfold prank. lia.
  - (* read *) destruct E as (-> & -> & ->).
    eexists (mkA _ m w (upd i (TPut e, r) ps) dn). split; [unfold conc; cbn [a_sh a_m a_w a_p]; rewrite <- map_upd; reflexivity|].
    split; [|split]; [fin| |intros _; flds; auto].
    + intros j p Hj. destruct (Nat.eq_dec j i) as [->|Hne].
      * rewrite nth_upd_same in Hj by lia. inversion Hj; subst p. exact (Hop i _ Hp).
      * rewrite nth_upd_other in Hj by auto. apply Hop; auto.
    + rewrite length_upd. assumption.
    + left. unfold arank; flds. pose proof (sum_upd prank i (TPut e, r) ps _ Hp) as S1. unfold prank in S1. cbn [fst snd ph_rank] in S1. unfold prank. lia.
  - (* put *) destruct E as (-> & -> & ->).
    eexists (mkA _ m w (upd i (TIdle, r) ps) dn). split; [unfold conc; cbn [a_sh a_m a_w a_p]; rewrite <- map_upd; reflexivity|].
    split; [|split]; [fin| |intros _; flds; auto].
    + apply put_unf.
    + apply put_fifo; assumption.
    + apply puts_by_put_other; [lia|assumption].
    + apply puts_by_put_other; [lia|assumption].
    + intros j p Hj. destruct (Nat.eq_dec j i) as [->|Hne].
      * rewrite nth_upd_same in Hj by lia. inversion Hj; subst p. cbn [fst snd ph_pend]. apply puts_by_put_same. exact (Hop i _ Hp).
      * rewrite nth_upd_other in Hj by auto. apply puts_by_put_other; [lia|]. apply Hop; auto.
    + rewrite length_upd. assumption.
    + left. unfold arank, sh_put; flds. pose proof (sum_upd prank i (TIdle, r) ps _ Hp) as S1. unfold prank in S1. cbn [fst snd ph_rank] in S1.
      pose proof (wr_put w q e). rewrite qsum_put. unfold prank. lia.
Qed.
