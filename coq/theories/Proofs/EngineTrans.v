(* C16: the nested per-state / per-event / per-transition blocks of the engine equal the reference (ref_trans). *)
From Coq Require Import String Ascii List Bool Arith Lia.
From KV Require Import Lib.Str Lib.StrOps Lib.ODict Gen.Tags Gen.Pipeline Model.Engine Model.EngineSM Model.EngineDomain
                       Model.EngineDomain16 Spec.RefExpand Spec.RefExpand16
                       Proofs.StrProofs Proofs.EngineStr Proofs.EngineRepl Proofs.EngineC17 Proofs.EnginePipe Proofs.EngineC16
                       Proofs.EngineBlock Proofs.TagFree.
Import ListNotations.
Open Scope string_scope.
Open Scope list_scope.

Lemma tagstr_pat n : tagstr n = pat n.
Proof. reflexivity. Qed.

(* ---------------------------------------------------------------- name chains on lines *)
Lemma filterStateName_chain ls s : filterStateName ls s = map (chain (state_table s)) ls.
Proof. reflexivity. Qed.
Lemma filterEventName_chain ls ev : filterEventName ls ev = map (chain (event_table ev)) ls.
Proof. reflexivity. Qed.

Lemma chain_notags : forall kvs s, forallb (fun kv => negb (contains (pat (fst kv)) s)) kvs = true -> chain kvs s = s.
Proof.
  induction kvs as [|[k v] kvs IH]; intros s H; [reflexivity|]. cbn [forallb fst] in H. apply andb_prop in H as [H1 H2].
  apply negb_true_iff in H1. unfold chain. cbn [fold_left fst snd]. rewrite replace_all_nomatch; [exact (IH s H2)| |exact H1].
  destruct (pat_nonempty k) as (c & t & E). rewrite E. discriminate.
Qed.

Lemma no_tags_chain keys tb s : map fst tb = keys -> no_tags_of keys s = true -> chain tb s = s.
Proof.
  intros E H. apply chain_notags. subst keys. unfold no_tags_of in H. rewrite forallb_forall in *. intros kv Hkv.
  apply (H (fst kv)). apply in_map. exact Hkv.
Qed.

Lemma family_keys a b c v : map fst (family a b c v) = [a; b; c].
Proof. reflexivity. Qed.

Lemma family_kv_ok a b c v : no_lg v = true -> no_lg (camel v) = true -> no_lg (snake v) = true ->
  forallb (fun k => no_lg k && negb (has_char EQ k)) [a; b; c] = true -> forallb kv_ok (family a b c v) = true.
Proof.
  intros H1 H2 H3 Hk. cbn [forallb] in Hk. repeat (apply andb_prop in Hk as [?K Hk]). unfold family, kv_ok. cbn [forallb fst snd].
  apply andb_prop in K as [Ka Ka']. apply andb_prop in K0 as [Kb Kb']. apply andb_prop in K1 as [Kc Kc'].
  rewrite Ka, Ka', Kb, Kb', Kc, Kc', H1, H2, H3. reflexivity.
Qed.

(* a table whose values carry no '<' '>' *)
Definition vals_nolg (tb : list (string * string)) : bool := forallb (fun kv => no_lg (snd kv)) tb.

Lemma state_table_kv s : vals_nolg (state_table s) = true -> forallb kv_ok (state_table s) = true.
Proof.
  unfold vals_nolg, state_table, family. cbn [forallb snd]. intros H. repeat (apply andb_prop in H as [?H H]).
  unfold kv_ok. cbn [fst snd]. rewrite H0, H1, H2. reflexivity.
Qed.
Lemma event_table_kv s : vals_nolg (event_table s) = true -> forallb kv_ok (event_table s) = true.
Proof.
  unfold vals_nolg, event_table, family. cbn [forallb snd]. intros H. repeat (apply andb_prop in H as [?H H]).
  unfold kv_ok. cbn [fst snd]. rewrite H0, H1, H2. reflexivity.
Qed.

(* all tags of the line are defined by the table: the substituted line is tag-free *)
Lemma closed_subst_tagfree tb l : line_ok l = true -> forallb (closed_seg (map fst tb)) l = true -> vals_nolg tb = true ->
  tagfree (render_line (map (subst16 tb) l)) = true.
Proof. intros. apply copy_tagfree; assumption. Qed.

(* ---------------------------------------------------------------- filling in the names of a transition *)
Lemma trans_key_shape tr kv : trans_wf tr = true -> In kv tr -> exists n, In n cond_names /\ fst kv = tagstr n /\ no_lg (snd kv) = true.
Proof.
  unfold trans_wf. intros H Hin. rewrite forallb_forall in H. specialize (H kv Hin). apply andb_prop in H as [H1 H2].
  apply existsb_exists in H1 as (n & Hn & E). apply String.eqb_eq in E. eauto.
Qed.

Lemma tsub_tagfree : forall tr s, trans_wf tr = true -> tagfree s = true -> trans_subst tr s = s.
Proof.
  induction tr as [|kv tr IH]; intros s Hw Hs; [reflexivity|].
  destruct (trans_key_shape _ kv Hw (or_introl eq_refl)) as (n & _ & E & _).
  assert (Hw' : trans_wf tr = true) by (unfold trans_wf in *; cbn [forallb] in Hw; apply andb_prop in Hw; tauto).
  unfold trans_subst. cbn [fold_left]. rewrite (tagfree_specific s _ Hs).
  rewrite replace_all_nomatch; [exact (IH s Hw' Hs)| |].
  - rewrite E. discriminate.
  - rewrite E. apply tagfree_contains; [reflexivity|exact Hs].
Qed.

Lemma tail_tagfree s : tagfree s = true -> trans_tail s = [s].
Proof.
  intros H. unfold trans_tail.
  assert (E : existsb (hasSpecificTag s) cond_tags = false).
  { induction cond_tags as [|t l IH]; [reflexivity|]. cbn [existsb]. rewrite (tagfree_specific s t H), IH. reflexivity. }
  rewrite E.
  assert (D : forallb (fun tg => negb (contains tg s)) drop_tags = true).
  { assert (S : forallb starts3 drop_tags = true) by (vm_compute; reflexivity). revert S. generalize drop_tags.
    induction l as [|t l IH]; [reflexivity|]. cbn [forallb]. intros S. apply andb_prop in S as [S1 S2].
    rewrite (tagfree_contains t s S1 H), (IH S2). reflexivity. }
  rewrite D. reflexivity.
Qed.

(* ---------------------------------------------------------------- a line with exactly one tag *)
Definition fill (v : string) (l : uline) : uline := map (fun g => if is_tagseg g then Lit v else g) l.

Section OneTag.
  Variables (l : uline) (n : string) (d : option string).
  Hypothesis Ht : the_tag l = Some (n, d).

  Lemma only_tag g : In g l -> is_tagseg g = true -> g = Tag n d.
  Proof.
    intros Hin Hg. unfold the_tag in Ht. assert (I : In g (filter is_tagseg l)) by (apply filter_In; auto).
    destruct (filter is_tagseg l) as [|x r]; [discriminate|]. destruct x as [s|n' d']; [discriminate|].
    destruct r as [|y r']; [|discriminate]. inversion Ht. subst n' d'.
    destruct I as [I|I]; [symmetry; exact I|contradiction].
  Qed.

  Lemma map_on_tag (f h : seg -> seg) : (forall s, f (Lit s) = h (Lit s)) -> f (Tag n d) = h (Tag n d) -> map f l = map h l.
  Proof.
    intros Hl Htg. apply map_ext_in. intros g Hin. destruct g as [s|n' d']; [apply Hl|].
    rewrite (only_tag (Tag n' d') Hin eq_refl). exact Htg.
  Qed.

  Lemma subst_any_hit tr v : lookup String.eqb (tagstr n) tr = Some v -> map (subst_any tr) l = fill v l.
  Proof. intros E. unfold fill. apply map_on_tag; [reflexivity|]. cbn [subst_any is_tagseg]. rewrite E. reflexivity. Qed.

  Lemma subst_any_miss tr : lookup String.eqb (tagstr n) tr = None -> map (subst_any tr) l = l.
  Proof. intros E. rewrite <- (map_id l) at 2. apply map_on_tag; [reflexivity|]. cbn [subst_any]. rewrite E. reflexivity. Qed.

  Lemma put_drop v : map (put n v) (drop_default l) = fill v l.
  Proof.
    unfold drop_default, fill. rewrite map_map. apply map_on_tag; [reflexivity|]. unfold put. cbn [is_named is_tagseg]. rewrite String.eqb_refl. reflexivity.
  Qed.

  Lemma subst16_miss tb : lookup String.eqb n tb = None -> map (subst16 tb) l = l.
  Proof.
    intros E. rewrite <- (map_id l) at 2. apply map_on_tag; [reflexivity|]. destruct d; cbn [subst16]; [reflexivity|rewrite E; reflexivity].
  Qed.

  Lemma find_tag : List.find is_tagseg l = Some (Tag n d).
  Proof.
    unfold the_tag in Ht. clear -Ht. induction l as [|g r IH]; [discriminate|]. cbn [filter List.find] in *.
    destruct (is_tagseg g) eqn:G.
    - destruct g as [s|m dd]; [discriminate|]. destruct (filter is_tagseg r); [inversion Ht; reflexivity|discriminate].
    - apply IH. exact Ht.
  Qed.

  Lemma fill_ok v : line_ok l = true -> no_lg v = true -> line_ok (fill v l) = true /\ forallb (fun g => negb (is_tagseg g)) (fill v l) = true.
  Proof.
    intros Hl Hv. unfold fill. clear Ht. induction l as [|g r IH]; [split; reflexivity|].
    cbn [line_ok forallb map] in *. apply andb_prop in Hl as [Hg Hr]. destruct (IH Hr) as [I1 I2].
    fold (line_ok (map (fun g0 => if is_tagseg g0 then Lit v else g0) r)). rewrite I1, I2.
    destruct g as [s|m dd]; cbn [is_tagseg seg_ok negb] in *; rewrite ?Hg, ?(no_lg_lit_ok v Hv); split; reflexivity.
  Qed.
End OneTag.

Lemma lits_tagfree : forall l, line_ok l = true -> forallb (fun g => negb (is_tagseg g)) l = true -> tagfree (render_line l) = true.
Proof.
  intros l Hl Hn. unfold tagfree, render_line. apply no3_app; [apply lit_ok_no3|reflexivity].
  induction l as [|g r IH]; [reflexivity|]. cbn [line_ok forallb] in *. apply andb_prop in Hl as [Hg Hr]. apply andb_prop in Hn as [N1 N2].
  cbn [render_body]. apply lit_ok_app; [|exact (IH Hr N2)]. destruct g; [exact Hg|discriminate].
Qed.

Lemma find_none_lits : forall l : uline, forallb (fun g => negb (is_tagseg g)) l = true -> List.find is_tagseg l = None.
Proof. induction l as [|g r IH]; [reflexivity|]. cbn [forallb List.find]. intros H. apply andb_prop in H as [H1 H2]. apply negb_true_iff in H1. rewrite H1. exact (IH H2). Qed.

Lemma tagstr_inj a b : tagstr a = tagstr b -> a = b.
Proof.
  unfold tagstr. intros H. cbn [append] in H. inversion H as [E]. clear H. revert b E.
  induction a as [|c a IH]; destruct b as [|e b]; cbn [append]; intros E; try reflexivity.
  - apply (f_equal String.length) in E. cbn [String.length] in E. rewrite length_app_s in E. cbn in E. lia.
  - apply (f_equal String.length) in E. cbn [String.length] in E. rewrite length_app_s in E. cbn in E. lia.
  - inversion E. f_equal. apply IH. assumption.
Qed.

Lemma cond_names_ok : forallb (fun k => no_lg k && negb (has_char EQ k)) cond_names = true.
Proof. vm_compute. reflexivity. Qed.

Lemma trans_subst_cons k v tr s :
  trans_subst ((k, v) :: tr) s = trans_subst tr (replace_all k v (if hasSpecificTag s k then removeDefault s else s)).
Proof. reflexivity. Qed.

(* the engine's loop over the transition's (tag, name) pairs on a line with one conditional tag *)
Lemma tsub_cond l n d : the_tag l = Some (n, d) -> line_ok l = true -> cond_line_ok l = true ->
  forall tr, trans_wf tr = true -> trans_subst tr (render_line l) = render_line (map (subst_any tr) l).
Proof.
  intros Ht Hl Hc. unfold cond_line_ok in Hc. rewrite Ht in Hc.
  repeat (apply andb_prop in Hc as [Hc ?C]). rename Hc into C7.
  apply String.eqb_eq in C2.
  assert (Nn : no_lg n = true /\ has_char EQ n = false).
  { pose proof cond_names_ok as K. rewrite forallb_forall in K. apply existsb_exists in C7 as (k & Hk & E). apply String.eqb_eq in E. subst k.
    specialize (K n Hk). apply andb_prop in K as [K1 K2]. apply negb_true_iff in K2. auto. }
  destruct Nn as [Nn Ne].
  induction tr as [|kv tr IH]; intros Hw.
  - rewrite (subst_any_miss l n d Ht []); reflexivity.
  - destruct (trans_key_shape _ kv Hw (or_introl eq_refl)) as (n' & Hn' & E & Hv). destruct kv as [k v]. cbn [fst snd] in *. subst k.
    assert (Hw' : trans_wf tr = true) by (unfold trans_wf in *; cbn [forallb] in Hw; apply andb_prop in Hw; tauto).
    rewrite trans_subst_cons.
    destruct (String.eqb n' n) eqn:En.
    + apply String.eqb_eq in En. subst n'. rewrite C3, C2.
      assert (Ld : line_ok (drop_default l) = true).
      { clear -Hl. unfold drop_default. induction l as [|g r IH]; [reflexivity|]. cbn [line_ok forallb map] in *. apply andb_prop in Hl as [Hg Hr].
        fold (line_ok (map (fun g0 => match g0 with Tag n0 _ => Tag n0 None | _ => g0 end) r)). rewrite (IH Hr), andb_true_r.
        destruct g as [s|m [x|]]; cbn [seg_ok] in *; [exact Hg| |exact Hg]. apply andb_prop in Hg as [Hg _]. exact Hg. }
      pose proof (replace_all_render n v _ Nn Ne Ld) as R. change (pat n) with (tagstr n) in R. rewrite R, (put_drop l n d Ht v).
      destruct (fill_ok l v Hl Hv) as [F1 F2].
      rewrite (tsub_tagfree tr _ Hw' (lits_tagfree _ F1 F2)).
      rewrite (subst_any_hit l n d Ht ((tagstr n, v) :: tr) v); [reflexivity|]. cbn [lookup]. rewrite String.eqb_refl. reflexivity.
    + rewrite forallb_forall in C4. specialize (C4 n' Hn'). rewrite En in C4. cbn [orb] in C4. apply andb_prop in C4 as [K1 K2].
      apply negb_true_iff in K1, K2. rewrite K1. rewrite replace_all_nomatch; [|discriminate|exact K2].
      rewrite (IH Hw'). f_equal. apply (map_on_tag l n d Ht); [reflexivity|]. cbn [subst_any lookup].
      destruct (String.eqb (tagstr n) (tagstr n')) eqn:E2; [|reflexivity].
      apply String.eqb_eq, tagstr_inj in E2. subst n'. rewrite String.eqb_refl in En. discriminate.
Qed.

(* ---------------------------------------------------------------- one line of a per-transition block *)
Lemma closed_subst_lits tb : forall l, forallb (closed_seg (map fst tb)) l = true ->
  forallb (fun g => negb (is_tagseg g)) (map (subst16 tb) l) = true.
Proof.
  induction l as [|g r IH]; [reflexivity|]. cbn [forallb map]. intros H. apply andb_prop in H as [Hg Hr]. rewrite (IH Hr), andb_true_r.
  destruct g as [s|n [d|]]; cbn [closed_seg] in Hg; [reflexivity|discriminate|]. cbn [subst16].
  destruct (lookup String.eqb n tb) eqn:E; [reflexivity|]. exfalso. clear -Hg E.
  induction tb as [|[k v] tb IH]; [discriminate|]. cbn [map existsb fst lookup] in *. destruct (String.eqb n k); [discriminate|]. apply IH; assumption.
Qed.

Lemma subst_any_lits tr : forall l : uline, forallb (fun g => negb (is_tagseg g)) l = true -> map (subst_any tr) l = l.
Proof. induction l as [|g r IH]; [reflexivity|]. cbn [forallb map]. intros H. apply andb_prop in H as [H1 H2]. rewrite (IH H2). destruct g; [reflexivity|discriminate]. Qed.

Lemma cond_not_event : forallb (fun n => negb (existsb (String.eqb n) event_keys)) cond_names = true.
Proof. vm_compute. reflexivity. Qed.

Lemma lookup_not_in n : forall tb : list (string * string), existsb (String.eqb n) (map fst tb) = false -> lookup String.eqb n tb = None.
Proof. induction tb as [|[k v] tb IH]; [reflexivity|]. cbn [map existsb fst lookup]. intros H. apply orb_false_elim in H as [H1 H2]. rewrite H1. exact (IH H2). Qed.

Lemma no_tags_of_app a b s : no_tags_of (a ++ b) s = no_tags_of a s && no_tags_of b s.
Proof. unfold no_tags_of. apply forallb_app'. Qed.

Section Gline.
  Variables (ev : string) (tr : list (string * string)).
  Hypothesis Hev : vals_nolg (event_table ev) = true.
  Hypothesis Htr : trans_wf tr = true.

  Lemma gline_is_ref l : gline_ok l = true ->
    trans_line tr (chain (event_table ev) (render_line l)) = ref_gline ev tr l.
  Proof.
    intros H. unfold gline_ok in H. apply andb_prop in H as [H Hk]. repeat (apply andb_prop in H as [H ?G]). rename H into Hl.
    unfold trans_line, ref_gline.
    destruct (forallb (closed_seg event_keys) l) eqn:Gev.
    - (* only event tags *)
      rewrite (chain_render _ l (event_table_kv ev Hev) Hl).
      set (l1 := map (subst16 (event_table ev)) l).
      assert (L1 : forallb (fun g => negb (is_tagseg g)) l1 = true) by (apply closed_subst_lits; exact Gev).
      assert (T1 : tagfree (render_line l1) = true) by (apply closed_subst_tagfree; assumption).
      rewrite (tsub_tagfree tr _ Htr T1), (tail_tagfree _ T1), (subst_any_lits tr l1 L1), (find_none_lits l1 L1). reflexivity.
    - (* one conditional tag *)
      cbn [orb] in Hk. pose proof Hk as Hc. unfold cond_line_ok in Hk. destruct (the_tag l) as [[n d]|] eqn:Ht; [|discriminate].
      repeat (apply andb_prop in Hk as [Hk ?C]). rewrite no_tags_of_app in C5. apply andb_prop in C5 as [_ C5].
      rewrite (no_tags_chain event_keys (event_table ev) _ eq_refl C5).
      rewrite (tsub_cond l n d Ht Hl Hc tr Htr).
      assert (Ne : lookup String.eqb n (event_table ev) = None).
      { apply lookup_not_in. pose proof cond_not_event as K. rewrite forallb_forall in K.
        apply existsb_exists in Hk as (k & Hk1 & E). apply String.eqb_eq in E. subst k. specialize (K n Hk1). apply negb_true_iff in K. exact K. }
      rewrite (subst16_miss l n d Ht _ Ne).
      destruct (lookup String.eqb (tagstr n) tr) as [v|] eqn:E.
      + rewrite (subst_any_hit l n d Ht tr v E).
        assert (Hv : no_lg v = true).
        { clear -Htr E. induction tr as [|[k x] r IH]; [discriminate|]. unfold trans_wf in Htr. cbn [forallb lookup fst snd] in *.
          apply andb_prop in Htr as [H1 H2]. destruct (String.eqb (tagstr n) k); [inversion E; subst; apply andb_prop in H1; tauto|exact (IH H2 E)]. }
        destruct (fill_ok l v Hl Hv) as [F1 F2].
        rewrite (tail_tagfree _ (lits_tagfree _ F1 F2)), (find_none_lits _ F2). reflexivity.
      + rewrite (subst_any_miss l n d Ht tr E). apply list_eqb_eq in C1. rewrite C1. unfold spec_absent. rewrite (find_tag l n d Ht). reflexivity.
  Qed.
End Gline.

(* ---------------------------------------------------------------- the per-transition block inside a per-event block *)
Lemma opt_concat_somes {A} (f : A -> option (list string)) (g : A -> list string) : forall l,
  (forall x, In x l -> f x = Some (g x)) -> opt_concat (map f l) = Some (flat_map g l).
Proof.
  induction l as [|x l IH]; intros H; [reflexivity|]. cbn [map opt_concat flat_map]. rewrite (H x (or_introl eq_refl)).
  rewrite (IH (fun y Hy => H y (or_intror Hy))). reflexivity.
Qed.

Lemma not_be2_not_be tags s : not_be2 tags s = not_be (fst tags) (snd tags) s.
Proof. reflexivity. Qed.

Lemma tagfree_not_be b e s : tagfree s = true -> not_be b e s = true.
Proof. intros H. unfold not_be. rewrite !(tagfree_specific s _ H). reflexivity. Qed.

Lemma inner_pair_facts tags bl el : inner_pair_ok tags bl el = true ->
  hasSpecificTag bl (fst tags) = true /\ hasSpecificTag bl (snd tags) = false /\ hasDefault bl = false
  /\ hasSpecificTag el (fst tags) = false /\ hasSpecificTag el (snd tags) = true.
Proof.
  unfold inner_pair_ok. intros H. apply andb_prop in H as [H E2]. apply andb_prop in H as [H E1]. apply andb_prop in H as [H B3].
  apply andb_prop in H as [B1 B2]. apply negb_true_iff in B2, B3, E1. auto.
Qed.

Lemma flat_map_ext_In {A B} (f g : A -> list B) : forall l, (forall x, In x l -> f x = g x) -> flat_map f l = flat_map g l.
Proof. induction l as [|x l IH]; intros H; [reflexivity|]. cbn [flat_map]. rewrite (H x (or_introl eq_refl)), (IH (fun y Hy => H y (or_intror Hy))). reflexivity. Qed.

Lemma flat_map_map {A B C} (f : B -> list C) (g : A -> B) l : flat_map f (map g l) = flat_map (fun x => f (g x)) l.
Proof. induction l as [|x l IH]; [reflexivity|]. cbn [map flat_map]. rewrite IH. reflexivity. Qed.

Section PerEvent.
  Variables (ev : string) (trs : list (list (string * string))).
  Hypothesis Hev : vals_nolg (event_table ev) = true.
  Hypothesis Htrs : forallb trans_wf trs = true.

  Notation CH := (chain (event_table ev)).

  Lemma guard_block gb : forallb gline_ok gb = true ->
    guard_expansion trs (map CH (map render_line gb)) None = Some (flat_map (fun tr => flat_map (ref_gline ev tr) gb) trs).
  Proof.
    intros Hg. unfold guard_expansion. f_equal. apply flat_map_ext_In. intros tr Htr.
    rewrite forallb_forall in Htrs. rewrite map_map, flat_map_map. apply flat_map_ext_In. intros l Hl.
    rewrite forallb_forall in Hg. exact (gline_is_ref ev tr Hev (Htrs tr Htr) l (Hg l Hl)).
  Qed.

  (* the lines of a per-event block body after the event's names have been filled in are not begin / end of a per-transition
     block, except the delimiters themselves *)
  Lemma gline_not_be l : gline_ok l = true -> not_be (fst pgt_tags) (snd pgt_tags) (CH (render_line l)) = true.
  Proof.
    intros H. unfold gline_ok in H. apply andb_prop in H as [H Hk]. repeat (apply andb_prop in H as [H ?G]). rename H into Hl.
    destruct (forallb (closed_seg event_keys) l) eqn:Gev.
    - rewrite (chain_render _ l (event_table_kv ev Hev) Hl). apply tagfree_not_be. apply closed_subst_tagfree; assumption.
    - cbn [orb] in Hk. unfold cond_line_ok in Hk. destruct (the_tag l) as [[n d]|]; [|discriminate].
      repeat (apply andb_prop in Hk as [Hk ?C]). rewrite no_tags_of_app in C5. apply andb_prop in C5 as [_ C5].
      rewrite (no_tags_chain event_keys (event_table ev) _ eq_refl C5). exact C.
  Qed.

  Lemma pet_body : forall body, forallb eitem_ok body = true ->
    pair_go (fst pgt_tags) (snd pgt_tags) (guard_expansion trs) false [] None (map CH (flat_map render_eitem body))
    = Some (flat_map (ref_eitem ev trs) body).
  Proof.
    induction body as [|x body IH]; intros H; [reflexivity|]. cbn [forallb] in H. apply andb_prop in H as [Hx H].
    cbn [flat_map]. rewrite map_app. destruct x as [l|ib ie gb]; cbn [eitem_ok render_eitem ref_eitem] in *.
    - repeat (apply andb_prop in Hx as [Hx ?E]). rename Hx into Hl.
      cbn [map]. rewrite (chain_render _ l (event_table_kv ev Hev) Hl).
      assert (T : tagfree (render_line (map (subst16 (event_table ev)) l)) = true) by (apply closed_subst_tagfree; assumption).
      rewrite (pb_pre _ _ _ [_] _ None); [|cbn [forallb]; rewrite (tagfree_not_be _ _ _ T); reflexivity].
      rewrite (IH H). reflexivity.
    - do 7 (apply andb_prop in Hx as [Hx ?E]). rename Hx into Hp.
      rewrite no_tags_of_app in E1, E0. apply andb_prop in E1 as [_ E1]. apply andb_prop in E0 as [_ E0].
      destruct (inner_pair_facts _ _ _ Hp) as (B1 & B2 & B3 & F1 & F2).
      cbn [map app]. rewrite map_app. cbn [map].
      rewrite (no_tags_chain event_keys (event_table ev) _ eq_refl E1), (no_tags_chain event_keys (event_table ev) _ eq_refl E0).
      rewrite <- app_assoc. cbn [app].
      assert (NB : forallb (not_be (fst pgt_tags) (snd pgt_tags)) (map CH (map render_line gb)) = true).
      { clear -E Hev. induction gb as [|l gb IHg]; [reflexivity|]. cbn [forallb map] in *. apply andb_prop in E as [E1 E2].
        rewrite (gline_not_be l E1), (IHg E2). reflexivity. }
      pose proof (pair_block (fst pgt_tags) (snd pgt_tags) (guard_expansion trs) [] _ _ _ (map CH (flat_map render_eitem body)) eq_refl NB B1 B2 B3 F1 F2) as PB.
      cbn [app] in PB. rewrite PB, (guard_block gb E), (IH H). reflexivity.
  Qed.

  Lemma inner_tpg_is_ref body : forallb eitem_ok body = true ->
    inner_tpg (flat_map render_eitem body) ev trs = Some (flat_map (ref_eitem ev trs) body).
  Proof. intros H. unfold inner_tpg, pair_expand. rewrite filterEventName_chain. exact (pet_body body H). Qed.
End PerEvent.

(* ---------------------------------------------------------------- the per-event blocks inside a per-state block *)
Lemma eitem_lines_facts x : eitem_ok x = true ->
  forallb (fun ln => no_tags_of state_keys ln && not_be (fst pet_tags) (snd pet_tags) ln) (render_eitem x) = true.
Proof.
  destruct x as [l|ib ie gb]; cbn [eitem_ok render_eitem]; intros H.
  - do 4 (apply andb_prop in H as [H ?E]). cbn [forallb]. rewrite E. rewrite <- not_be2_not_be, E0. reflexivity.
  - do 7 (apply andb_prop in H as [H ?E]). rewrite no_tags_of_app in E1, E0. apply andb_prop in E1 as [E1 _]. apply andb_prop in E0 as [E0 _].
    cbn [forallb]. rewrite E1, <- not_be2_not_be, E3. cbn [andb]. rewrite forallb_app'. cbn [forallb]. rewrite E0, <- not_be2_not_be, E2. cbn [andb]. rewrite andb_true_r.
    clear -E. induction gb as [|l gb IH]; [reflexivity|]. cbn [forallb map] in *. apply andb_prop in E as [G1 G2]. rewrite (IH G2), andb_true_r.
    unfold gline_ok in G1. apply andb_prop in G1 as [G1 _]. do 3 (apply andb_prop in G1 as [G1 ?K]). rewrite K, <- not_be2_not_be, K0. reflexivity.
Qed.

Lemma eitems_lines_facts : forall eb, forallb eitem_ok eb = true ->
  forallb (fun ln => no_tags_of state_keys ln && not_be (fst pet_tags) (snd pet_tags) ln) (flat_map render_eitem eb) = true.
Proof.
  induction eb as [|x eb IH]; [reflexivity|]. cbn [forallb flat_map]. intros H. apply andb_prop in H as [H1 H2].
  rewrite forallb_app', (eitem_lines_facts x H1), (IH H2). reflexivity.
Qed.

Section PerState.
  Variables (s : string) (evs : list (string * list (list (string * string)))).
  Hypothesis Hs : vals_nolg (state_table s) = true.
  Hypothesis Hevs : forallb (fun et => vals_nolg (event_table (fst et)) && forallb trans_wf (snd et)) evs = true.

  Notation CS := (chain (state_table s)).

  Lemma state_chain_id : forall lines, forallb (no_tags_of state_keys) lines = true -> map CS lines = lines.
  Proof.
    induction lines as [|ln r IH]; [reflexivity|]. cbn [forallb map]. intros H. apply andb_prop in H as [H1 H2].
    rewrite (no_tags_chain state_keys (state_table s) ln eq_refl H1), (IH H2). reflexivity.
  Qed.

  Lemma event_block eb : forallb eitem_ok eb = true ->
    event_expansion evs (flat_map render_eitem eb) None
    = Some (flat_map (fun et => flat_map (ref_eitem (fst et) (snd et)) eb) evs).
  Proof.
    intros H. unfold event_expansion. apply opt_concat_somes. intros et Het. rewrite forallb_forall in Hevs.
    specialize (Hevs et Het). apply andb_prop in Hevs as [H1 H2]. exact (inner_tpg_is_ref (fst et) (snd et) H1 H2 eb H).
  Qed.

  Lemma pst_body : forall body, forallb titem_ok body = true ->
    pair_go (fst pet_tags) (snd pet_tags) (event_expansion evs) false [] None (map CS (flat_map render_titem body))
    = Some (flat_map (ref_titem s evs) body).
  Proof.
    induction body as [|x body IH]; intros H; [reflexivity|]. cbn [forallb] in H. apply andb_prop in H as [Hx H].
    cbn [flat_map]. rewrite map_app. destruct x as [l|ib ie eb]; cbn [titem_ok render_titem ref_titem] in *.
    - do 2 (apply andb_prop in Hx as [Hx ?E]). rename Hx into Hl.
      cbn [map]. rewrite (chain_render _ l (state_table_kv s Hs) Hl).
      assert (T : tagfree (render_line (map (subst16 (state_table s)) l)) = true) by (apply closed_subst_tagfree; assumption).
      rewrite (pb_pre _ _ _ [_] _ None); [|cbn [forallb]; rewrite (tagfree_not_be _ _ _ T); reflexivity].
      rewrite (IH H). reflexivity.
    - do 5 (apply andb_prop in Hx as [Hx ?E]). rename Hx into Hp.
      destruct (inner_pair_facts _ _ _ Hp) as (B1 & B2 & B3 & F1 & F2).
      pose proof (eitems_lines_facts eb E) as LF.
      assert (L1 : forallb (no_tags_of state_keys) (flat_map render_eitem eb) = true).
      { revert LF. apply forallb_impl. intros ln K. apply andb_prop in K. tauto. }
      assert (L2 : forallb (not_be (fst pet_tags) (snd pet_tags)) (flat_map render_eitem eb) = true).
      { revert LF. apply forallb_impl. intros ln K. apply andb_prop in K. tauto. }
      cbn [map app]. rewrite map_app. cbn [map].
      rewrite (no_tags_chain state_keys (state_table s) _ eq_refl E1), (no_tags_chain state_keys (state_table s) _ eq_refl E0), (state_chain_id _ L1).
      rewrite <- app_assoc. cbn [app].
      pose proof (pair_block (fst pet_tags) (snd pet_tags) (event_expansion evs) [] _ _ _ (map CS (flat_map render_titem body)) eq_refl L2 B1 B2 B3 F1 F2) as PB.
      cbn [app] in PB. rewrite PB, (event_block eb E), (IH H). reflexivity.
  Qed.
End PerState.

(* innerexpand_transitionsperstate on the body of a per-state-transition block *)
Theorem inner_tps_is_ref tps body : forallb titem_ok body = true -> tps_wf tps = true ->
  inner_tps tps (flat_map render_titem body) None = Some (ref_trans tps body).
Proof.
  intros Hb Hw. unfold inner_tps, ref_trans. apply opt_concat_somes. intros se Hse.
  unfold tps_wf in Hw. rewrite forallb_forall in Hw. specialize (Hw se Hse). apply andb_prop in Hw as [H1 H2].
  unfold pair_expand. rewrite filterStateName_chain. exact (pst_body (fst se) (snd se) H1 H2 body Hb).
Qed.

(* ---------------------------------------------------------------- the expansion carries no tag; the template lines are inert *)
Lemma forallb_flat_map {A} (P : string -> bool) (f : A -> list string) : forall l,
  (forall x, In x l -> forallb P (f x) = true) -> forallb P (flat_map f l) = true.
Proof.
  induction l as [|x l IH]; intros H; [reflexivity|]. cbn [flat_map]. rewrite forallb_app', (H x (or_introl eq_refl)), (IH (fun y Hy => H y (or_intror Hy))). reflexivity.
Qed.

Lemma ref_gline_tagfree ev tr l : vals_nolg (event_table ev) = true -> trans_wf tr = true -> gline_ok l = true ->
  forallb tagfree (ref_gline ev tr l) = true.
Proof.
  intros Hev Htr H. unfold gline_ok in H. apply andb_prop in H as [H Hk]. repeat (apply andb_prop in H as [H ?G]). rename H into Hl.
  unfold ref_gline. destruct (forallb (closed_seg event_keys) l) eqn:Gev.
  - set (l1 := map (subst16 (event_table ev)) l).
    assert (L1 : forallb (fun g => negb (is_tagseg g)) l1 = true) by (apply closed_subst_lits; exact Gev).
    rewrite (subst_any_lits tr l1 L1), (find_none_lits l1 L1). cbn [forallb]. rewrite andb_true_r. apply closed_subst_tagfree; assumption.
  - cbn [orb] in Hk. unfold cond_line_ok in Hk. destruct (the_tag l) as [[n d]|] eqn:Ht; [|discriminate].
    repeat (apply andb_prop in Hk as [Hk ?C]).
    assert (Ne : lookup String.eqb n (event_table ev) = None).
    { apply lookup_not_in. pose proof cond_not_event as K. rewrite forallb_forall in K.
      apply existsb_exists in Hk as (k & Hk1 & E). apply String.eqb_eq in E. subst k. specialize (K n Hk1). apply negb_true_iff in K. exact K. }
    rewrite (subst16_miss l n d Ht _ Ne).
    destruct (lookup String.eqb (tagstr n) tr) as [v|] eqn:E.
    + rewrite (subst_any_hit l n d Ht tr v E).
      assert (Hv : no_lg v = true).
      { clear -Htr E. induction tr as [|[k x] r IH]; [discriminate|]. unfold trans_wf in Htr. cbn [forallb lookup fst snd] in *.
        apply andb_prop in Htr as [H1 H2]. destruct (String.eqb (tagstr n) k); [inversion E; subst; apply andb_prop in H1; tauto|exact (IH H2 E)]. }
      destruct (fill_ok l v Hl Hv) as [F1 F2]. rewrite (find_none_lits _ F2). cbn [forallb]. rewrite (lits_tagfree _ F1 F2). reflexivity.
    + rewrite (subst_any_miss l n d Ht tr E). unfold spec_absent in C0. rewrite (find_tag l n d Ht) in *. exact C0.
Qed.

Lemma ref_trans_tagfree tps body : forallb titem_ok body = true -> tps_wf tps = true -> forallb tagfree (ref_trans tps body) = true.
Proof.
  intros Hb Hw. unfold ref_trans. apply forallb_flat_map. intros se Hse.
  unfold tps_wf in Hw. rewrite forallb_forall in Hw. specialize (Hw se Hse). apply andb_prop in Hw as [Hs Hevs].
  apply forallb_flat_map. intros x Hx. rewrite forallb_forall in Hb. specialize (Hb x Hx).
  destruct x as [l|ib ie eb]; cbn [titem_ok ref_titem] in *.
  - do 2 (apply andb_prop in Hb as [Hb ?E]). cbn [forallb]. rewrite andb_true_r. apply closed_subst_tagfree; assumption.
  - do 5 (apply andb_prop in Hb as [Hb ?E]). apply forallb_flat_map. intros et Het. rewrite forallb_forall in Hevs.
    specialize (Hevs et Het). apply andb_prop in Hevs as [Hev Htrs].
    apply forallb_flat_map. intros y Hy. rewrite forallb_forall in E. specialize (E y Hy).
    destruct y as [l|ib' ie' gb]; cbn [eitem_ok ref_eitem] in *.
    + do 4 (apply andb_prop in E as [E ?K]). cbn [forallb]. rewrite andb_true_r. apply closed_subst_tagfree; assumption.
    + do 7 (apply andb_prop in E as [E ?K]). apply forallb_flat_map. intros tr Htr. rewrite forallb_forall in Htrs.
      apply forallb_flat_map. intros l Hl. rewrite forallb_forall in K. apply ref_gline_tagfree; [exact Hev|exact (Htrs tr Htr)|exact (K l Hl)].
Qed.

(* every template line inside a nested block loads unchanged and is inert for the top-level expander stages *)
Lemma trans_lines_inert : forall body, forallb titem_ok body = true -> forallb inert (flat_map render_titem body) = true.
Proof.
  intros body Hb. apply forallb_flat_map. intros x Hx. rewrite forallb_forall in Hb. specialize (Hb x Hx).
  destruct x as [l|ib ie eb]; cbn [titem_ok render_titem] in *.
  - do 2 (apply andb_prop in Hb as [Hb ?E]). cbn [forallb]. rewrite E. reflexivity.
  - do 5 (apply andb_prop in Hb as [Hb ?E]). cbn [forallb]. rewrite E3. cbn [andb]. rewrite forallb_app'. cbn [forallb]. rewrite E2, !andb_true_r.
    apply forallb_flat_map. intros y Hy. rewrite forallb_forall in E. specialize (E y Hy).
    destruct y as [l|ib' ie' gb]; cbn [eitem_ok render_eitem] in *.
    + do 4 (apply andb_prop in E as [E ?K]). cbn [forallb]. rewrite K1. reflexivity.
    + do 7 (apply andb_prop in E as [E ?K]). cbn [forallb]. rewrite K5. cbn [andb]. rewrite forallb_app'. cbn [forallb]. rewrite K4, !andb_true_r.
      clear -K. induction gb as [|l gb IH]; [reflexivity|]. cbn [forallb map] in *. apply andb_prop in K as [G1 G2]. rewrite (IH G2), andb_true_r.
      unfold gline_ok in G1. apply andb_prop in G1 as [G1 _]. do 3 (apply andb_prop in G1 as [G1 ?J]). exact J1.
Qed.
