(* C16: the nested per-state / per-event / per-transition blocks of the engine equal the reference (ref_trans). *)
From Coq Require Import String Ascii List Bool Arith Lia.
From KV Require Import Lib.Str Lib.StrOps Lib.ODict Gen.Tags Gen.Pipeline Model.Engine Model.EngineSM Model.EngineDomain
                       Model.EngineDomain16 Spec.RefExpand Spec.RefExpand16
                       Proofs.StrProofs Proofs.EngineStr Proofs.EngineRepl Proofs.EngineC17 Proofs.EnginePipe Proofs.EngineC16
                       Proofs.EngineBlock Proofs.TagFree.
Import ListNotations.
Open Scope string_scope.
Open Scope list_scope.

Lemma tagstr_pat n : tagstr n = pat n.
Proof. reflexivity. Qed.

(* ---------------------------------------------------------------- name chains on lines *)
Lemma filterStateName_chain ls s : filterStateName ls s = map (chain (state_table s)) ls.
Proof. reflexivity. Qed.
Lemma filterEventName_chain ls ev : filterEventName ls ev = map (chain (event_table ev)) ls.
Proof. reflexivity. Qed.

Lemma chain_notags : forall kvs s, forallb (fun kv => negb (contains (pat (fst kv)) s)) kvs = true -> chain kvs s = s.
Proof.
  induction kvs as [|[k v] kvs IH]; intros s H; [reflexivity|]. cbn [forallb fst] in H. apply andb_prop in H as [H1 H2].
  apply negb_true_iff in H1. unfold chain. cbn [fold_left fst snd]. rewrite replace_all_nomatch; [exact (IH s H2)| |exact H1].
  destruct (pat_nonempty k) as (c & t & E). rewrite E. discriminate.
Qed.

Lemma no_tags_chain keys tb s : map fst tb = keys -> no_tags_of keys s = true -> chain tb s = s.
Proof.
  intros E H. apply chain_notags. subst keys. unfold no_tags_of in H. rewrite forallb_forall in *. intros kv Hkv.
  apply (H (fst kv)). apply in_map. exact Hkv.
Qed.

Lemma family_keys a b c v : map fst (family a b c v) = [a; b; c].
Proof. reflexivity. Qed.

Lemma family_kv_ok a b c v : no_lg v = true -> no_lg (camel v) = true -> no_lg (snake v) = true ->
  forallb (fun k => no_lg k && negb (has_char EQ k)) [a; b; c] = true -> forallb kv_ok (family a b c v) = true.
Proof.
  intros H1 H2 H3 Hk. cbn [forallb] in Hk. repeat (apply andb_prop in Hk as [?K Hk]). unfold family, kv_ok. cbn [forallb fst snd].
  apply andb_prop in K as [Ka Ka']. apply andb_prop in K0 as [Kb Kb']. apply andb_prop in K1 as [Kc Kc'].
  rewrite Ka, Ka', Kb, Kb', Kc, Kc', H1, H2, H3. reflexivity.
Qed.

(* a table whose values carry no '<' '>' *)
Definition vals_nolg (tb : list (string * string)) : bool := forallb (fun kv => no_lg (snd kv)) tb.

Lemma state_table_kv s : vals_nolg (state_table s) = true -> forallb kv_ok (state_table s) = true.
Proof.
  unfold vals_nolg, state_table, family. cbn [forallb snd]. intros H. repeat (apply andb_prop in H as [?H H]).
  unfold kv_ok. cbn [fst snd]. rewrite H0, H1, H2. reflexivity.
Qed.
Lemma event_table_kv s : vals_nolg (event_table s) = true -> forallb kv_ok (event_table s) = true.
Proof.
  unfold vals_nolg, event_table, family. cbn [forallb snd]. intros H. repeat (apply andb_prop in H as [?H H]).
  unfold kv_ok. cbn [fst snd]. rewrite H0, H1, H2. reflexivity.
Qed.

(* all tags of the line are defined by the table: the substituted line is tag-free *)
Lemma closed_subst_tagfree tb l : line_ok l = true -> forallb (closed_seg (map fst tb)) l = true -> vals_nolg tb = true ->
  tagfree (render_line (map (subst16 tb) l)) = true.
Proof. intros. apply copy_tagfree; assumption. Qed.

(* ---------------------------------------------------------------- filling in the names of a transition *)
Lemma trans_key_shape tr kv : trans_wf tr = true -> In kv tr -> exists n, In n cond_names /\ fst kv = tagstr n /\ no_lg (snd kv) = true.
Proof.
  unfold trans_wf. intros H Hin. rewrite forallb_forall in H. specialize (H kv Hin). apply andb_prop in H as [H1 H2].
  apply existsb_exists in H1 as (n & Hn & E). apply String.eqb_eq in E. eauto.
Qed.

Lemma tsub_tagfree : forall tr s, trans_wf tr = true -> tagfree s = true -> trans_subst tr s = s.
Proof.
  induction tr as [|kv tr IH]; intros s Hw Hs; [reflexivity|].
  destruct (trans_key_shape _ kv Hw (or_introl eq_refl)) as (n & _ & E & _).
  assert (Hw' : trans_wf tr = true) by (unfold trans_wf in *; cbn [forallb] in Hw; apply andb_prop in Hw; tauto).
  unfold trans_subst. cbn [fold_left]. rewrite (tagfree_specific s _ Hs).
  rewrite replace_all_nomatch; [exact (IH s Hw' Hs)| |].
  - rewrite E. discriminate.
  - rewrite E. apply tagfree_contains; [reflexivity|exact Hs].
Qed.

Lemma tail_tagfree s : tagfree s = true -> trans_tail s = [s].
Proof.
  intros H. unfold trans_tail.
  assert (E : existsb (hasSpecificTag s) cond_tags = false).
  { induction cond_tags as [|t l IH]; [reflexivity|]. cbn [existsb]. rewrite (tagfree_specific s t H), IH. reflexivity. }
  rewrite E.
  assert (D : forallb (fun tg => negb (contains tg s)) drop_tags = true).
  { assert (S : forallb starts_lt drop_tags = true) by (vm_compute; reflexivity). revert S. generalize drop_tags.
    induction l as [|t l IH]; [reflexivity|]. cbn [forallb]. intros S. apply andb_prop in S as [S1 S2].
    rewrite (tagfree_contains t s S1 H), (IH S2). reflexivity. }
  rewrite D. reflexivity.
Qed.

(* ---------------------------------------------------------------- a line with exactly one tag *)
Definition fill (v : string) (l : uline) : uline := map (fun g => if is_tagseg g then Lit v else g) l.

Section OneTag.
  Variables (l : uline) (n : string) (d : option string).
  Hypothesis Ht : the_tag l = Some (n, d).

  Lemma only_tag g : In g l -> is_tagseg g = true -> g = Tag n d.
  Proof.
    intros Hin Hg. unfold the_tag in Ht. assert (I : In g (filter is_tagseg l)) by (apply filter_In; auto).
    destruct (filter is_tagseg l) as [|x r]; [discriminate|]. destruct x as [s|n' d']; [discriminate|].
    destruct r as [|y r']; [|discriminate]. inversion Ht. subst n' d'.
    destruct I as [I|I]; [symmetry; exact I|contradiction].
  Qed.

  Lemma map_on_tag (f h : seg -> seg) : (forall s, f (Lit s) = h (Lit s)) -> f (Tag n d) = h (Tag n d) -> map f l = map h l.
  Proof.
    intros Hl Htg. apply map_ext_in. intros g Hin. destruct g as [s|n' d']; [apply Hl|].
    rewrite (only_tag (Tag n' d') Hin eq_refl). exact Htg.
  Qed.

  Lemma subst_any_hit tr v : lookup String.eqb (tagstr n) tr = Some v -> map (subst_any tr) l = fill v l.
  Proof. intros E. unfold fill. apply map_on_tag; [reflexivity|]. cbn [subst_any is_tagseg]. rewrite E. reflexivity. Qed.

  Lemma subst_any_miss tr : lookup String.eqb (tagstr n) tr = None -> map (subst_any tr) l = l.
  Proof. intros E. rewrite <- (map_id l) at 2. apply map_on_tag; [reflexivity|]. cbn [subst_any]. rewrite E. reflexivity. Qed.

  Lemma put_drop v : map (put n v) (drop_default l) = fill v l.
  Proof.
    unfold drop_default, fill. rewrite map_map. apply map_on_tag; [reflexivity|]. unfold put. cbn [is_named is_tagseg]. rewrite String.eqb_refl. reflexivity.
  Qed.

  Lemma subst16_miss tb : lookup String.eqb n tb = None -> map (subst16 tb) l = l.
  Proof.
    intros E. rewrite <- (map_id l) at 2. apply map_on_tag; [reflexivity|]. destruct d; cbn [subst16]; [reflexivity|rewrite E; reflexivity].
  Qed.

  Lemma find_tag : List.find is_tagseg l = Some (Tag n d).
  Proof.
    unfold the_tag in Ht. clear -Ht. induction l as [|g r IH]; [discriminate|]. cbn [filter List.find] in *.
    destruct (is_tagseg g) eqn:G.
    - destruct g as [s|m dd]; [discriminate|]. destruct (filter is_tagseg r); [inversion Ht; reflexivity|discriminate].
    - apply IH. exact Ht.
  Qed.

  Lemma fill_ok v : line_ok l = true -> no_lg v = true -> line_ok (fill v l) = true /\ forallb (fun g => negb (is_tagseg g)) (fill v l) = true.
  Proof.
    intros Hl Hv. unfold fill. clear Ht. induction l as [|g r IH]; [split; reflexivity|].
    cbn [line_ok forallb map] in *. apply andb_prop in Hl as [Hg Hr]. destruct (IH Hr) as [I1 I2].
    fold (line_ok (map (fun g0 => if is_tagseg g0 then Lit v else g0) r)). rewrite I1, I2.
    destruct g as [s|m dd]; cbn [is_tagseg seg_ok negb] in *; rewrite ?Hg, ?Hv; split; reflexivity.
  Qed.
End OneTag.

Lemma lits_tagfree : forall l, line_ok l = true -> forallb (fun g => negb (is_tagseg g)) l = true -> tagfree (render_line l) = true.
Proof.
  intros l Hl Hn. unfold tagfree, render_line. rewrite no_char_app. cbn [nl_str no_char]. rewrite andb_true_r.
  induction l as [|g r IH]; [reflexivity|]. cbn [line_ok forallb] in *. apply andb_prop in Hl as [Hg Hr]. apply andb_prop in Hn as [N1 N2].
  cbn [render_body]. rewrite no_char_app, (IH Hr N2), andb_true_r. destruct g; [|discriminate]. apply no_lg_no_lt. exact Hg.
Qed.

Lemma find_none_lits : forall l : uline, forallb (fun g => negb (is_tagseg g)) l = true -> List.find is_tagseg l = None.
Proof. induction l as [|g r IH]; [reflexivity|]. cbn [forallb List.find]. intros H. apply andb_prop in H as [H1 H2]. apply negb_true_iff in H1. rewrite H1. exact (IH H2). Qed.

Lemma tagstr_inj a b : tagstr a = tagstr b -> a = b.
Proof.
  unfold tagstr. intros H. cbn [append] in H. inversion H as [E]. clear H. revert b E.
  induction a as [|c a IH]; destruct b as [|e b]; cbn [append]; intros E; try reflexivity.
  - apply (f_equal String.length) in E. cbn [String.length] in E. rewrite length_app_s in E. cbn in E. lia.
  - apply (f_equal String.length) in E. cbn [String.length] in E. rewrite length_app_s in E. cbn in E. lia.
  - inversion E. f_equal. apply IH. assumption.
Qed.

Lemma cond_names_ok : forallb (fun k => no_lg k && negb (has_char EQ k)) cond_names = true.
Proof. vm_compute. reflexivity. Qed.

Lemma trans_subst_cons k v tr s :
  trans_subst ((k, v) :: tr) s = trans_subst tr (replace_all k v (if hasSpecificTag s k then removeDefault s else s)).
Proof. reflexivity. Qed.

(* the engine's loop over the transition's (tag, name) pairs on a line with one conditional tag *)
Lemma tsub_cond l n d : the_tag l = Some (n, d) -> line_ok l = true -> cond_line_ok l = true ->
  forall tr, trans_wf tr = true -> trans_subst tr (render_line l) = render_line (map (subst_any tr) l).
Proof.
  intros Ht Hl Hc. unfold cond_line_ok in Hc. rewrite Ht in Hc.
  repeat (apply andb_prop in Hc as [Hc ?C]). rename Hc into C7.
  apply String.eqb_eq in C2.
  assert (Nn : no_lg n = true /\ has_char EQ n = false).
  { pose proof cond_names_ok as K. rewrite forallb_forall in K. apply existsb_exists in C7 as (k & Hk & E). apply String.eqb_eq in E. subst k.
    specialize (K n Hk). apply andb_prop in K as [K1 K2]. apply negb_true_iff in K2. auto. }
  destruct Nn as [Nn Ne].
  induction tr as [|kv tr IH]; intros Hw.
  - rewrite (subst_any_miss l n d Ht []); reflexivity.
  - destruct (trans_key_shape _ kv Hw (or_introl eq_refl)) as (n' & Hn' & E & Hv). destruct kv as [k v]. cbn [fst snd] in *. subst k.
    assert (Hw' : trans_wf tr = true) by (unfold trans_wf in *; cbn [forallb] in Hw; apply andb_prop in Hw; tauto).
    rewrite trans_subst_cons.
    destruct (String.eqb n' n) eqn:En.
    + apply String.eqb_eq in En. subst n'. rewrite C3, C2.
      assert (Ld : line_ok (drop_default l) = true).
      { clear -Hl. unfold drop_default. induction l as [|g r IH]; [reflexivity|]. cbn [line_ok forallb map] in *. apply andb_prop in Hl as [Hg Hr].
        fold (line_ok (map (fun g0 => match g0 with Tag n0 _ => Tag n0 None | _ => g0 end) r)). rewrite (IH Hr), andb_true_r.
        destruct g as [s|m [x|]]; cbn [seg_ok] in *; [exact Hg| |exact Hg]. apply andb_prop in Hg as [Hg _]. exact Hg. }
      pose proof (replace_all_render n v _ Nn Ne Ld) as R. change (pat n) with (tagstr n) in R. rewrite R, (put_drop l n d Ht v).
      destruct (fill_ok l v Hl Hv) as [F1 F2].
      rewrite (tsub_tagfree tr _ Hw' (lits_tagfree _ F1 F2)).
      rewrite (subst_any_hit l n d Ht ((tagstr n, v) :: tr) v); [reflexivity|]. cbn [lookup]. rewrite String.eqb_refl. reflexivity.
    + rewrite forallb_forall in C4. specialize (C4 n' Hn'). rewrite En in C4. cbn [orb] in C4. apply andb_prop in C4 as [K1 K2].
      apply negb_true_iff in K1, K2. rewrite K1. rewrite replace_all_nomatch; [|discriminate|exact K2].
      rewrite (IH Hw'). f_equal. apply (map_on_tag l n d Ht); [reflexivity|]. cbn [subst_any lookup].
      destruct (String.eqb (tagstr n) (tagstr n')) eqn:E2; [|reflexivity].
      apply String.eqb_eq, tagstr_inj in E2. subst n'. rewrite String.eqb_refl in En. discriminate.
Qed.

(* ---------------------------------------------------------------- one line of a per-transition block *)
Lemma closed_subst_lits tb : forall l, forallb (closed_seg (map fst tb)) l = true ->
  forallb (fun g => negb (is_tagseg g)) (map (subst16 tb) l) = true.
Proof.
  induction l as [|g r IH]; [reflexivity|]. cbn [forallb map]. intros H. apply andb_prop in H as [Hg Hr]. rewrite (IH Hr), andb_true_r.
  destruct g as [s|n [d|]]; cbn [closed_seg] in Hg; [reflexivity|discriminate|]. cbn [subst16].
  destruct (lookup String.eqb n tb) eqn:E; [reflexivity|]. exfalso. clear -Hg E.
  induction tb as [|[k v] tb IH]; [discriminate|]. cbn [map existsb fst lookup] in *. destruct (String.eqb n k); [discriminate|]. apply IH; assumption.
Qed.

Lemma subst_any_lits tr : forall l : uline, forallb (fun g => negb (is_tagseg g)) l = true -> map (subst_any tr) l = l.
Proof. induction l as [|g r IH]; [reflexivity|]. cbn [forallb map]. intros H. apply andb_prop in H as [H1 H2]. rewrite (IH H2). destruct g; [reflexivity|discriminate]. Qed.

Lemma cond_not_event : forallb (fun n => negb (existsb (String.eqb n) event_keys)) cond_names = true.
Proof. vm_compute. reflexivity. Qed.

Lemma lookup_not_in n : forall tb : list (string * string), existsb (String.eqb n) (map fst tb) = false -> lookup String.eqb n tb = None.
Proof. induction tb as [|[k v] tb IH]; [reflexivity|]. cbn [map existsb fst lookup]. intros H. apply orb_false_elim in H as [H1 H2]. rewrite H1. exact (IH H2). Qed.

Lemma no_tags_of_app a b s : no_tags_of (a ++ b) s = no_tags_of a s && no_tags_of b s.
Proof. unfold no_tags_of. apply forallb_app'. Qed.

Section Gline.
  Variables (ev : string) (tr : list (string * string)).
  Hypothesis Hev : vals_nolg (event_table ev) = true.
  Hypothesis Htr : trans_wf tr = true.

  Lemma gline_is_ref l : gline_ok l = true ->
    trans_line tr (chain (event_table ev) (render_line l)) = ref_gline ev tr l.
  Proof.
    intros H. unfold gline_ok in H. apply andb_prop in H as [H Hk]. repeat (apply andb_prop in H as [H ?G]). rename H into Hl.
    unfold trans_line, ref_gline.
    destruct (forallb (closed_seg event_keys) l) eqn:Gev.
    - (* only event tags *)
      rewrite (chain_render _ l (event_table_kv ev Hev) Hl).
      set (l1 := map (subst16 (event_table ev)) l).
      assert (L1 : forallb (fun g => negb (is_tagseg g)) l1 = true) by (apply closed_subst_lits; exact Gev).
      assert (T1 : tagfree (render_line l1) = true) by (apply closed_subst_tagfree; assumption).
      rewrite (tsub_tagfree tr _ Htr T1), (tail_tagfree _ T1), (subst_any_lits tr l1 L1), (find_none_lits l1 L1). reflexivity.
    - (* one conditional tag *)
      cbn [orb] in Hk. pose proof Hk as Hc. unfold cond_line_ok in Hk. destruct (the_tag l) as [[n d]|] eqn:Ht; [|discriminate].
      repeat (apply andb_prop in Hk as [Hk ?C]). rewrite no_tags_of_app in C5. apply andb_prop in C5 as [_ C5].
      rewrite (no_tags_chain event_keys (event_table ev) _ eq_refl C5).
      rewrite (tsub_cond l n d Ht Hl Hc tr Htr).
      assert (Ne : lookup String.eqb n (event_table ev) = None).
      { apply lookup_not_in. pose proof cond_not_event as K. rewrite forallb_forall in K.
        apply existsb_exists in Hk as (k & Hk1 & E). apply String.eqb_eq in E. subst k. specialize (K n Hk1). apply negb_true_iff in K. exact K. }
      rewrite (subst16_miss l n d Ht _ Ne).
      destruct (lookup String.eqb (tagstr n) tr) as [v|] eqn:E.
      + rewrite (subst_any_hit l n d Ht tr v E).
        assert (Hv : no_lg v = true).
        { clear -Htr E. induction tr as [|[k x] r IH]; [discriminate|]. unfold trans_wf in Htr. cbn [forallb lookup fst snd] in *.
          apply andb_prop in Htr as [H1 H2]. destruct (String.eqb (tagstr n) k); [inversion E; subst; apply andb_prop in H1; tauto|exact (IH H2 E)]. }
        destruct (fill_ok l v Hl Hv) as [F1 F2].
        rewrite (tail_tagfree _ (lits_tagfree _ F1 F2)), (find_none_lits _ F2). reflexivity.
      + rewrite (subst_any_miss l n d Ht tr E). apply list_eqb_eq in C1. rewrite C1. unfold spec_absent. rewrite (find_tag l n d Ht). reflexivity.
  Qed.
End Gline.
