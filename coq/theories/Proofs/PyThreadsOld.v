(* C11 -- executions of the LTS: run_sched only visits reachable states; concrete scenarios used by the non-vacuity
   examples; and the two defects of the ORIGINAL skeleton (old_prog, before the `fix:` commits) as executions of the
   same LTS -- kept as regression examples, replayed on the real code by corpus/C11. *)
From Coq Require Import String List Bool Arith NArith Lia.
From KV Require Import Model.PySyncIR Model.PyThreads Model.PyMachine Gen.PySync Spec.PyThreadsSpec.
Import ListNotations.
Open Scope list_scope.

Lemma run_sched_reach : forall P c sc s, reach P c s -> reach P c (fst (run_sched P (threaded c) sc s)).
Proof.
  intros P c sc. induction sc as [|t r IH]; intros s R; cbn; auto.
  destruct (step P (threaded c) t s) as [[s' l]|] eqn:E.
  - specialize (IH s' (reach_step P c s t s' l R E)). destruct (run_sched P (threaded c) r s'). exact IH.
  - specialize (IH s R). destruct (run_sched P (threaded c) r s). exact IH.
Qed.

(* scenario: main triggers event 1 (whose callback triggers event 3) and calls stop(); producer 0 triggers event 2 *)
Definition ex_cfg : config := mkConfig true [Ev 1 [Ev 3 []]] [[Ev 2 []]].
Definition ex_sched_mid : list nat := repeat 0 12 ++ repeat 2 3.          (* stop() called, events 1 and 2 queued *)
Definition ex_sched_full : list nat := ex_sched_mid ++ repeat 1 40 ++ repeat 0 2 ++ repeat 1 3 ++ repeat 0 3.
Definition ex_mid : state := fst (run_model ex_cfg ex_sched_mid).
Definition ex_final : state := fst (run_model ex_cfg ex_sched_full).

Lemma ex_mid_reach : reach the_prog ex_cfg ex_mid.
Proof. apply run_sched_reach. apply reach_init. Qed.
Lemma ex_final_reach : reach the_prog ex_cfg ex_final.
Proof. apply run_sched_reach. apply reach_init. Qed.

Lemma ex_mid_facts : wf_config ex_cfg = true /\ stop_called (sh ex_mid) = true /\ stop_returned (sh ex_mid) = false
  /\ map ev_id (queue (sh ex_mid)) = [1%N; 2%N].
Proof. vm_compute. auto. Qed.

Lemma ex_final_facts : stop_returned (sh ex_final) = true /\ map (fun te => ev_id (snd te)) (pre_stop (sh ex_final)) = [1%N]
  /\ map ev_id (begun (log (sh ex_final))) = [1%N; 2%N; 3%N] /\ all_finished ex_final = true.
Proof. vm_compute. auto. Qed.

(* "Trigger from inside a callback while stop() is in progress": stop() has just been called (queue: 1, 2; main is about to
   read the flags and join the queue), the worker has entered process(1) and is about to call Trigger for event 3 from
   inside the callback *)
Definition ex_cb : state := fst (run_model ex_cfg (repeat 0 10 ++ repeat 2 3 ++ repeat 1 3)).
Lemma ex_cb_reach : reach the_prog ex_cfg ex_cb.
Proof. apply run_sched_reach. apply reach_init. Qed.
Lemma ex_cb_facts :
  stop_called (sh ex_cb) = true /\ stop_returned (sh ex_cb) = false /\
  hd_error (cont (tworker ex_cb)) = Some (KCall (Ev 3 [])) /\ log (sh ex_cb) = [LBegin 1 (Ev 1 [Ev 3 []])] /\
  (* a producer can step in between the operations of the callback ... *)
  enabled_set the_prog true ex_cb = [0; 1] /\
  (* ... and the event triggered during stop() is processed before stop() returns *)
  map ev_id (begun (log (sh ex_final))) = [1%N; 2%N; 3%N] /\ stop_returned (sh ex_final) = true.
Proof. vm_compute. auto 10. Qed.

(* ---- the original skeleton: stop() cleared the flag BEFORE Queue.join() *)
Definition old_cfg : config := mkConfig true [Ev 1 []; Ev 2 []] [].
Definition old_deadlock_sched : list nat := repeat 0 14 ++ repeat 1 3.

(* main: 2x Trigger, stop() before the worker ran: the worker sees the flag cleared and leaves, Queue.join() never returns *)
Lemma old_skeleton_stop_deadlocks :
  let s := fst (run_sched old_prog true old_deadlock_sched (init_state old_prog old_cfg)) in
  stop_called (sh s) = true /\ stop_returned (sh s) = false /\ enabled_set old_prog true s = [] /\ finished (tmain s) = false.
Proof. vm_compute. auto. Qed.

Definition old_cfg2 : config := mkConfig true [] [[Ev 1 []; Ev 2 []]].
Definition old_overlap_sched : list nat := repeat 0 5 ++ repeat 2 3 ++ repeat 1 3 ++ repeat 0 3 ++ repeat 2 4.

(* a producer triggering while stop() is in progress processes on its own thread, while the worker is inside process() *)
Lemma old_skeleton_processes_on_producer :
  let s := fst (run_sched old_prog true old_overlap_sched (init_state old_prog old_cfg2)) in
  log (sh s) = [LBegin 1 (Ev 1 []); LBegin 2 (Ev 2 []); LEnd 2 (Ev 2 [])].
Proof. vm_compute. auto. Qed.
