(* C19 adaptor: the stack machine of ParseBLOB_Recursive (with its string state: braces inside a "quoted text" belong to
   the outside text) run over the printed text of a forest of brace trees is the structural reading [sem] of that forest. *)
From Coq Require Import String Ascii List Bool Arith Lia.
From KV Require Import Lib.Str Lib.ODict Model.Vpp Model.Uml Model.UmlBlob Proofs.UmlBlobDefs.
Import ListNotations.
Open Scope string_scope.

(* ---------------------------------------------------------------- strings *)

Lemma sapp_assoc : forall a b c : string, (a ++ b) ++ c = a ++ (b ++ c).
Proof.
  induction a as [|x a IHa]; intros b c; cbn [append]; [reflexivity|].
  rewrite IHa. reflexivity.
Qed.

Lemma sapp_nil_r : forall a : string, a ++ "" = a.
Proof.
  induction a as [|x a IHa]; cbn [append]; [reflexivity|].
  rewrite IHa. reflexivity.
Qed.

(* ---------------------------------------------------------------- strong induction on brace trees *)

Lemma bt_ind2 (P : bt -> Prop) :
  (forall s, P (BText s)) -> (forall l, Forall P l -> P (BBlock l)) -> forall t, P t.
Proof.
  intros HT HB. fix IH 1. intros [s|l].
  - apply HT.
  - apply HB.
    exact ((fix go (l : list bt) : Forall P l :=
              match l with
              | [] => Forall_nil P
              | x :: r => Forall_cons x (IH x) (go r)
              end) l).
Qed.

(* ---------------------------------------------------------------- the inner fixes are the list versions *)

Lemma go_print : forall l : list bt,
  (fix go (l : list bt) : string := match l with [] => "" | x :: r => bt_print x ++ go r end) l = bts_print l.
Proof.
  induction l as [|x r IHr]; [reflexivity|].
  cbn [bts_print]. rewrite <- IHr. reflexivity.
Qed.

Lemma bt_print_block : forall l, bt_print (BBlock l) = "{" ++ bts_print l ++ "}".
Proof. intros l. cbn [bt_print]. rewrite go_print. reflexivity. Qed.

Lemma go_frame : forall (l : list bt) (acc : option frame),
  (fix go (l : list bt) (acc : option frame) : option frame :=
     match l with [] => acc | x :: r => go r (bt_frame x acc) end) l acc = bts_frame l acc.
Proof.
  induction l as [|x r IHr]; intros acc; [reflexivity|].
  cbn [bts_frame]. exact (IHr (bt_frame x acc)).
Qed.

Lemma bt_frame_block : forall l f0,
  bt_frame (BBlock l) (Some f0) =
  match bts_frame l (Some frame0) with
  | None => None
  | Some fr => match finalize fr with Some v => Some (add_child (resume f0) v) | None => None end
  end.
Proof. intros l f0. cbn [bt_frame]. rewrite go_frame. reflexivity. Qed.

Lemma go_scan : forall (l : list bt) (acc : option qst),
  (fix go (l : list bt) (acc : option qst) : option qst :=
     match l with [] => acc | x :: r => go r (bt_scan x acc) end) l acc = bts_scan l acc.
Proof.
  induction l as [|x r IHr]; intros acc; [reflexivity|].
  cbn [bts_scan]. exact (IHr (bt_scan x acc)).
Qed.

Lemma bt_scan_block : forall l q,
  bt_scan (BBlock l) (Some q) =
  if q_in q then None
  else match bts_scan l (Some qst0) with
       | Some q' => if q_in q' then None else Some qst0
       | None => None
       end.
Proof. intros l q. cbn [bt_scan]. rewrite go_scan. reflexivity. Qed.

(* ---------------------------------------------------------------- None propagation *)

Lemma bt_frame_None : forall t, bt_frame t None = None.
Proof. intros [s|l]; reflexivity. Qed.

Lemma bts_frame_None : forall l, bts_frame l None = None.
Proof.
  induction l as [|x r IHr]; [reflexivity|].
  cbn [bts_frame]. rewrite bt_frame_None. exact IHr.
Qed.

Lemma bt_scan_None : forall t, bt_scan t None = None.
Proof. intros [s|l]; reflexivity. Qed.

Lemma bts_scan_None : forall l, bts_scan l None = None.
Proof.
  induction l as [|x r IHr]; [reflexivity|].
  cbn [bts_scan]. rewrite bt_scan_None. exact IHr.
Qed.

(* ---------------------------------------------------------------- the string state *)

Lemma scan_app : forall a b q, scan q (a ++ b) = scan (scan q a) b.
Proof.
  induction a as [|c a IHa]; intros b q; cbn [append scan]; [reflexivity|].
  apply IHa.
Qed.

Lemma free_of_app : forall bad a b q,
  free_of bad q (a ++ b) = free_of bad q a && free_of bad (scan q a) b.
Proof.
  intros bad. induction a as [|c a IHa]; intros b q; cbn [append free_of scan]; [reflexivity|].
  cbv zeta. rewrite IHa. rewrite andb_assoc. reflexivity.
Qed.

Lemma feed_st : forall s f, f_st (feed s f) = scan (f_st f) s.
Proof.
  induction s as [|c s IHs]; intros f; cbn [feed scan]; [reflexivity|].
  rewrite IHs. reflexivity.
Qed.

Lemma feed_children : forall s f, f_children (feed s f) = f_children f.
Proof.
  induction s as [|c s IHs]; intros f; cbn [feed]; [reflexivity|].
  rewrite IHs. reflexivity.
Qed.

Lemma feed_out : forall s f, f_out (feed s f) = srev_onto s (f_out f).
Proof.
  induction s as [|c s IHs]; intros f; cbn [feed srev_onto]; [reflexivity|].
  rewrite IHs. reflexivity.
Qed.

(* an opening brace outside a quoted text leaves the scanner in its initial state *)
Lemma qstep_open : forall q, q_in q = false -> qstep q "{" = qst0.
Proof. intros [i e] H. cbn in H. subst i. reflexivity. Qed.

(* a closing brace does not enter a quoted text *)
Lemma qstep_close_in : forall q, q_in (qstep q "}") = q_in q.
Proof. intros [i e]. reflexivity. Qed.

(* ---------------------------------------------------------------- (a) texts *)

Lemma parse_run_text : forall s rest cur st,
  free_of ["{"; "}"]%char (f_st cur) s = true -> parse_run (s ++ rest) cur st = parse_run rest (feed s cur) st.
Proof.
  induction s as [|c s IHs]; intros rest cur st H.
  - reflexivity.
  - cbn [free_of] in H. cbv zeta in H.
    apply andb_true_iff in H. destruct H as [H Hs].
    cbn [append parse_run feed]. cbv zeta.
    destruct (q_in (qstep (f_st cur) c)) eqn:Hin.
    + apply IHs. exact Hs.
    + cbn [orb existsb] in H. rewrite orb_false_r in H.
      apply negb_true_iff in H. apply orb_false_iff in H. destruct H as [Ho Hc].
      rewrite Ho, Hc.
      apply IHs. exact Hs.
Qed.

(* ---------------------------------------------------------------- (b), (c) trees and forests *)

Definition tree_spec (t : bt) : Prop :=
  forall cur q', bt_scan t (Some (f_st cur)) = Some q' ->
    (forall rest st,
       parse_run (bt_print t ++ rest) cur st =
       match bt_frame t (Some cur) with Some cur' => parse_run rest cur' st | None => None end)
    /\ (forall cur', bt_frame t (Some cur) = Some cur' -> f_st cur' = q').

Lemma parse_run_list_of : forall l, Forall tree_spec l ->
  forall cur q', bts_scan l (Some (f_st cur)) = Some q' ->
    (forall rest st,
       parse_run (bts_print l ++ rest) cur st =
       match bts_frame l (Some cur) with Some cur' => parse_run rest cur' st | None => None end)
    /\ (forall cur', bts_frame l (Some cur) = Some cur' -> f_st cur' = q').
Proof.
  induction 1 as [|x r Hx Hr IHr]; intros cur q' Hok.
  - cbn [bts_scan] in Hok. injection Hok as Hok. split.
    + intros rest st. reflexivity.
    + intros cur' E. cbn [bts_frame] in E. injection E as E. subst cur'. exact Hok.
  - cbn [bts_scan] in Hok.
    destruct (bt_scan x (Some (f_st cur))) as [q1|] eqn:Hx1;
      [|rewrite bts_scan_None in Hok; discriminate Hok].
    destruct (Hx cur q1 Hx1) as [Hrun Hst].
    cbn [bts_print bts_frame].
    destruct (bt_frame x (Some cur)) as [cur1|].
    + specialize (Hst cur1 eq_refl). rewrite <- Hst in Hok.
      destruct (IHr cur1 q' Hok) as [Hrun' Hst'].
      split.
      * intros rest st. rewrite sapp_assoc, Hrun. apply Hrun'.
      * exact Hst'.
    + split.
      * intros rest st. rewrite sapp_assoc, Hrun. rewrite bts_frame_None. reflexivity.
      * intros cur' E. rewrite bts_frame_None in E. discriminate E.
Qed.

Lemma parse_run_tree : forall t, tree_spec t.
Proof.
  induction t as [s|l Hl] using bt_ind2; unfold tree_spec; intros cur q' Hok.
  - cbn [bt_scan] in Hok.
    destruct (free_of ["{"; "}"]%char (f_st cur) s) eqn:Hfree; [|discriminate Hok].
    injection Hok as Hok. split.
    + intros rest st. cbn [bt_print bt_frame]. apply parse_run_text. exact Hfree.
    + intros cur' E. cbn [bt_frame] in E. injection E as E. subst cur'.
      rewrite feed_st. exact Hok.
  - rewrite bt_scan_block in Hok.
    destruct (q_in (f_st cur)) eqn:Hq; [discriminate Hok|].
    destruct (bts_scan l (Some qst0)) as [qi|] eqn:Hinner; [|discriminate Hok].
    destruct (q_in qi) eqn:Hqi; [discriminate Hok|].
    injection Hok as Hok. subst q'.
    destruct (parse_run_list_of l Hl frame0 qi Hinner) as [Hrun Hst].
    rewrite bt_frame_block.
    split.
    + intros rest st.
      rewrite bt_print_block.
      change ("{" ++ bts_print l ++ "}") with (String "{" (bts_print l ++ "}")).
      cbn [append]. rewrite sapp_assoc.
      cbn [parse_run]. cbv zeta.
      rewrite (qstep_open _ Hq).
      change (q_in qst0) with false.
      change (Ascii.eqb "{" "{") with true. cbv iota.
      rewrite Hrun.
      destruct (bts_frame l (Some frame0)) as [fr|]; [|reflexivity].
      specialize (Hst fr eq_refl).
      change ("}" ++ rest) with (String "}" rest).
      cbn [parse_run]. cbv zeta.
      rewrite qstep_close_in, Hst, Hqi.
      change (Ascii.eqb "}" "{") with false.
      change (Ascii.eqb "}" "}") with true. cbv iota.
      unfold bind.
      destruct (finalize fr) as [v|]; reflexivity.
    + intros cur' E.
      destruct (bts_frame l (Some frame0)) as [fr|]; [|discriminate E].
      destruct (finalize fr) as [v|]; [|discriminate E].
      injection E as E. subst cur'. reflexivity.
Qed.

Lemma parse_run_list : forall l cur q', bts_scan l (Some (f_st cur)) = Some q' ->
  (forall rest st,
     parse_run (bts_print l ++ rest) cur st =
     match bts_frame l (Some cur) with Some cur' => parse_run rest cur' st | None => None end)
  /\ (forall cur', bts_frame l (Some cur) = Some cur' -> f_st cur' = q').
Proof.
  intros l. apply parse_run_list_of.
  apply Forall_forall. intros t _. apply parse_run_tree.
Qed.

(* ---------------------------------------------------------------- main *)

Lemma parse_blob_sem : forall l : list bt, bts_ok l = true -> parse_blob (bts_print l) = sem l.
Proof.
  intros l Hok. unfold bts_ok in Hok. unfold parse_blob, sem.
  destruct (bts_scan l (Some qst0)) as [q'|] eqn:Hscan; [|discriminate Hok].
  destruct (parse_run_list l frame0 q' Hscan) as [Hrun _].
  rewrite <- (sapp_nil_r (bts_print l)).
  rewrite Hrun.
  destruct (bts_frame l (Some frame0)) as [fr|]; reflexivity.
Qed.

Print Assumptions parse_blob_sem.
