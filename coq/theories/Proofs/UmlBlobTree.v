(* C19 adaptor: the stack machine of ParseBLOB_Recursive run over the printed text of a forest of brace trees is the
   structural reading [sem] of that forest. *)
From Coq Require Import String Ascii List Bool Arith Lia.
From KV Require Import Lib.Str Lib.ODict Model.Vpp Model.Uml Model.UmlBlob Proofs.UmlBlobDefs.
Import ListNotations.
Open Scope string_scope.

(* ---------------------------------------------------------------- strings *)

Lemma sapp_assoc : forall a b c : string, (a ++ b) ++ c = a ++ (b ++ c).
Proof.
  induction a as [|x a IHa]; intros b c; cbn [append]; [reflexivity|].
  rewrite IHa. reflexivity.
Qed.

Lemma sapp_nil_r : forall a : string, a ++ "" = a.
Proof.
  induction a as [|x a IHa]; cbn [append]; [reflexivity|].
  rewrite IHa. reflexivity.
Qed.

(* ---------------------------------------------------------------- strong induction on brace trees *)

Lemma bt_ind2 (P : bt -> Prop) :
  (forall s, P (BText s)) -> (forall l, Forall P l -> P (BBlock l)) -> forall t, P t.
Proof.
  intros HT HB. fix IH 1. intros [s|l].
  - apply HT.
  - apply HB.
    exact ((fix go (l : list bt) : Forall P l :=
              match l with
              | [] => Forall_nil P
              | x :: r => Forall_cons x (IH x) (go r)
              end) l).
Qed.

(* ---------------------------------------------------------------- the inner fixes are the list versions *)

Lemma go_print : forall l : list bt,
  (fix go (l : list bt) : string := match l with [] => "" | x :: r => bt_print x ++ go r end) l = bts_print l.
Proof.
  induction l as [|x r IHr]; [reflexivity|].
  cbn [bts_print]. rewrite <- IHr. reflexivity.
Qed.

Lemma bt_print_block : forall l, bt_print (BBlock l) = "{" ++ bts_print l ++ "}".
Proof. intros l. cbn [bt_print]. rewrite go_print. reflexivity. Qed.

Lemma go_frame : forall (l : list bt) (acc : option frame),
  (fix go (l : list bt) (acc : option frame) : option frame :=
     match l with [] => acc | x :: r => go r (bt_frame x acc) end) l acc = bts_frame l acc.
Proof.
  induction l as [|x r IHr]; intros acc; [reflexivity|].
  cbn [bts_frame]. exact (IHr (bt_frame x acc)).
Qed.

Lemma bt_frame_block : forall l f0,
  bt_frame (BBlock l) (Some f0) =
  match bts_frame l (Some frame0) with
  | None => None
  | Some fr => match finalize fr with Some v => Some (add_child f0 v) | None => None end
  end.
Proof. intros l f0. cbn [bt_frame]. rewrite go_frame. reflexivity. Qed.

Lemma go_ok : forall l : list bt,
  (fix go (l : list bt) : bool := match l with [] => true | x :: r => bt_ok x && go r end) l = bts_ok l.
Proof.
  induction l as [|x r IHr]; [reflexivity|].
  cbn [bts_ok]. rewrite <- IHr. reflexivity.
Qed.

Lemma bt_ok_block : forall l, bt_ok (BBlock l) = bts_ok l.
Proof. intros l. cbn [bt_ok]. rewrite go_ok. reflexivity. Qed.

(* ---------------------------------------------------------------- None propagation *)

Lemma bt_frame_None : forall t, bt_frame t None = None.
Proof. intros [s|l]; reflexivity. Qed.

Lemma bts_frame_None : forall l, bts_frame l None = None.
Proof.
  induction l as [|x r IHr]; [reflexivity|].
  cbn [bts_frame]. rewrite bt_frame_None. exact IHr.
Qed.

(* ---------------------------------------------------------------- (a) texts *)

Lemma parse_run_text : forall s rest cur st,
  nobrace s = true -> parse_run (s ++ rest) cur st = parse_run rest (feed s cur) st.
Proof.
  induction s as [|c s IHs]; intros rest cur st H.
  - reflexivity.
  - cbn [nobrace] in H.
    apply andb_true_iff in H. destruct H as [H Hs].
    apply andb_true_iff in H. destruct H as [Ho Hc].
    apply negb_true_iff in Ho. apply negb_true_iff in Hc.
    cbn [append parse_run feed]. rewrite Ho, Hc.
    apply IHs. exact Hs.
Qed.

(* ---------------------------------------------------------------- (b), (c) trees and forests *)

Definition tree_spec (t : bt) : Prop :=
  bt_ok t = true -> forall rest cur st,
    parse_run (bt_print t ++ rest) cur st =
    match bt_frame t (Some cur) with Some cur' => parse_run rest cur' st | None => None end.

Lemma parse_run_list_of : forall l, Forall tree_spec l ->
  bts_ok l = true -> forall rest cur st,
    parse_run (bts_print l ++ rest) cur st =
    match bts_frame l (Some cur) with Some cur' => parse_run rest cur' st | None => None end.
Proof.
  induction 1 as [|x r Hx Hr IHr]; intros Hok rest cur st.
  - reflexivity.
  - cbn [bts_ok] in Hok. apply andb_true_iff in Hok. destruct Hok as [Hokx Hokr].
    cbn [bts_print bts_frame]. rewrite sapp_assoc.
    rewrite (Hx Hokx).
    destruct (bt_frame x (Some cur)) as [cur'|].
    + apply IHr. exact Hokr.
    + rewrite bts_frame_None. reflexivity.
Qed.

Lemma parse_run_tree : forall t, tree_spec t.
Proof.
  induction t as [s|l Hl] using bt_ind2; unfold tree_spec; intros Hok rest cur st.
  - cbn [bt_ok] in Hok. cbn [bt_print bt_frame].
    apply parse_run_text. exact Hok.
  - rewrite bt_ok_block in Hok.
    rewrite bt_print_block, bt_frame_block.
    change ("{" ++ bts_print l ++ "}") with (String "{" (bts_print l ++ "}")).
    cbn [append]. rewrite sapp_assoc.
    cbn [parse_run].
    change (Ascii.eqb "{" "{") with true. cbv iota.
    rewrite (parse_run_list_of l Hl Hok).
    destruct (bts_frame l (Some frame0)) as [fr|]; [|reflexivity].
    change ("}" ++ rest) with (String "}" rest).
    cbn [parse_run].
    change (Ascii.eqb "}" "{") with false.
    change (Ascii.eqb "}" "}") with true. cbv iota.
    unfold bind.
    destruct (finalize fr) as [v|]; reflexivity.
Qed.

Lemma parse_run_list : forall l, bts_ok l = true -> forall rest cur st,
  parse_run (bts_print l ++ rest) cur st =
  match bts_frame l (Some cur) with Some cur' => parse_run rest cur' st | None => None end.
Proof.
  intros l. apply parse_run_list_of.
  apply Forall_forall. intros t _. apply parse_run_tree.
Qed.

(* ---------------------------------------------------------------- main *)

Lemma parse_blob_sem : forall l : list bt, bts_ok l = true -> parse_blob (bts_print l) = sem l.
Proof.
  intros l Hok. unfold parse_blob, sem.
  rewrite <- (sapp_nil_r (bts_print l)).
  rewrite (parse_run_list l Hok).
  destruct (bts_frame l (Some frame0)) as [fr|]; reflexivity.
Qed.

Print Assumptions parse_blob_sem.
