(* C11 -- reachable states are described states; the theorems of Props/C11.v. *)
From Coq Require Import String List Bool Arith NArith Lia.
From KV Require Import Model.PySyncIR Model.PyThreads Model.PyMachine Gen.PySync Spec.PyThreadsSpec
                       Proofs.PyThreadsInv Proofs.PyThreadsSim.
Import ListNotations.
Open Scope list_scope.

Definition ainit (c : config) : astate :=
  mkA init_shared M0 W0 (map (fun sc => (TIdle, sc)) (pscripts c)) [].

Lemma init_conc : forall c, init_state the_prog c = conc c (ainit c).
Proof.
  intros c. unfold init_state, conc, ainit. cbn [a_sh a_m a_w a_p]. f_equal.
  rewrite map_map. apply map_ext. intros sc. unfold pthread. cbn. rewrite app_nil_r. reflexivity.
Qed.

Lemma sumf_init : forall x l, sumf (fun p => ecnt x (ppend p)) (map (fun sc : list ev => (TIdle, sc)) l) = cnt x (flat_map evs_ids l).
Proof.
  intros x l. induction l as [|sc l IH]; [reflexivity|]. unfold sumf in *. cbn [map fold_right flat_map]. rewrite IH, cnt_app. reflexivity.
Qed.

Lemma init_tok : forall c x, tokens x c (ainit c) = cnt x (all_ids c).
Proof.
  intros c x. unfold tokens, ainit, all_ids. cbn [a_done a_w a_m a_p a_sh wbegun wpend wheld mpend queue init_shared map cnt].
  rewrite sumf_init, cnt_app, !ecnt_nil. unfold ecnt. lia.
Qed.

Lemma init_inv : forall c, AInv c (ainit c).
Proof.
  intros c. constructor; try exact (init_tok c); cbn; auto; try lia; try (intros; lia).
  - discriminate.
  - intros i p H. rewrite nth_error_map in H. destruct (nth_error (pscripts c) i) eqn:E; [|discriminate].
    cbn in H. inversion H; subst p. cbn. symmetry. apply nth_error_nth. exact E.
  - apply map_length.
Qed.

Lemma sim : forall c a t s' l, threaded c = true -> AInv c a ->
  step the_prog (threaded c) t (conc c a) = Some (s', l) -> SimRes c a t s' l.
Proof.
  intros c a t s' l Ht HI H. rewrite Ht in H. destruct t as [|[|i]].
  - apply sim_main; assumption.
  - apply sim_worker; assumption.
  - apply sim_prod; assumption.
Qed.

Lemma reach_described : forall c s, threaded c = true -> reach the_prog c s -> exists a, s = conc c a /\ AInv c a.
Proof.
  intros c s Ht R. induction R as [|s t s' l R IH H].
  - exists (ainit c). split; [apply init_conc|apply init_inv].
  - destruct IH as (a & -> & HI). destruct (sim c a t s' l Ht HI H) as (a' & E & HI' & _). exists a'. auto.
Qed.

Lemma begun_app : forall a b, begun (a ++ b) = begun a ++ begun b.
Proof. intros. unfold begun. apply flat_map_app. Qed.
Lemma begun_plog : forall d, begun (plog d) = d.
Proof. induction d; cbn; auto. f_equal. exact IHd. Qed.
Lemma begun_wopen : forall w, begun (wopen w) = wbegun w.
Proof. destruct w; reflexivity. Qed.

(* ---- safety *)
Lemma exactly_once : forall c s, wf_config c = true -> reach the_prog c s ->
  exists infl, length infl <= 1 /\ begun (log (sh s)) ++ infl ++ queue (sh s) = map snd (puts (sh s)).
Proof.
  intros c s Hw R. unfold wf_config in Hw. apply andb_prop in Hw as [Ht _].
  destruct (reach_described c s Ht R) as (a & -> & HI). destruct HI.
  exists (wheld (a_w a)). split; [destruct (a_w a); cbn; lia|].
  cbn [conc sh]. rewrite i_log, begun_app, begun_plog, begun_wopen, <- app_assoc. exact i_fifo.
Qed.

Lemma per_producer_order : forall c s, wf_config c = true -> reach the_prog c s ->
  prefix (begun (log (sh s))) (map snd (puts (sh s))) /\
  prefix (puts_by 0 (puts (sh s))) (mscript c) /\
  (forall i sc, nth_error (pscripts c) i = Some sc -> prefix (puts_by (2 + i) (puts (sh s))) sc) /\
  prefix (puts_by 1 (puts (sh s))) (flat_map ev_children (begun (log (sh s)))).
Proof.
  intros c s Hw R. unfold wf_config in Hw. apply andb_prop in Hw as [Ht _].
  destruct (reach_described c s Ht R) as (a & -> & HI). destruct HI. cbn [conc sh].
  assert (B : begun (log (a_sh a)) = a_done a ++ wbegun (a_w a)) by (rewrite i_log, begun_app, begun_plog, begun_wopen; reflexivity).
  rewrite B. repeat split.
  - exists (wheld (a_w a) ++ queue (a_sh a)). rewrite <- i_fifo, <- app_assoc. reflexivity.
  - eexists. symmetry. exact i_ordm.
  - intros i sc Hi. assert (Hl : i < length (a_p a)) by (rewrite i_np; apply nth_error_Some; congruence).
    destruct (nth_error (a_p a) i) as [p|] eqn:Ep; [|apply nth_error_None in Ep; lia].
    exists (ph_pend (fst p) (snd p)). rewrite (i_ordp i p Ep). symmetry. apply nth_error_nth. exact Hi.
  - eexists. symmetry. exact i_ordw.
Qed.

Lemma run_to_completion : forall c s, wf_config c = true -> reach the_prog c s ->
  exists d o, log (sh s) = plog d ++ o /\ (o = [] \/ exists e, o = [LBegin 1 e]).
Proof.
  intros c s Hw R. unfold wf_config in Hw. apply andb_prop in Hw as [Ht _].
  destruct (reach_described c s Ht R) as (a & -> & HI). destruct HI.
  exists (a_done a), (wopen (a_w a)). split; [exact i_log|]. destruct (a_w a); cbn; eauto.
Qed.

(* ---- stop() *)
Lemma mnum_13 : forall m, Nat.leb 13 (mnum m) = true -> m = MS7.
Proof. destruct m; cbn; intros; try discriminate; reflexivity. Qed.

Lemma after_stop_frozen : forall c a s', threaded c = true -> AInv c a -> a_w a = W7 ->
  reach_from the_prog c (conc c a) s' -> log (sh s') = log (a_sh a) /\ finished (tworker s') = true.
Proof.
  intros c a s' Ht HI HW R.
  assert (G : exists a', s' = conc c a' /\ AInv c a' /\ a_w a' = W7 /\ log (a_sh a') = log (a_sh a)).
  { induction R as [|s1 t s2 l R IH H].
    - exists a. auto.
    - destruct IH as (a1 & -> & HI1 & HW1 & HL1).
      destruct (Nat.eq_dec t 1) as [->|Hne].
      + exfalso. rewrite Ht in H. unfold step in H. cbn [conc tworker sh] in H. rewrite HW1 in H.
        destruct (started (a_sh a1)); cbn in H; discriminate.
      + destruct (sim c a1 t s2 l Ht HI1 H) as (a2 & -> & HI2 & _ & K). destruct (K Hne) as (K1 & K2 & _).
        exists a2. split; [reflexivity|]. split; [exact HI2|]. split; congruence. }
  destruct G as (a' & -> & _ & HW' & HL'). cbn [conc sh tworker]. rewrite HW'. auto.
Qed.

Lemma In_plog : forall e d, In e d -> In (LBegin 1 e) (plog d) /\ In (LEnd 1 e) (plog d).
Proof. intros e d H. unfold plog. split; apply in_flat_map; exists e; cbn; auto. Qed.

Lemma stop_post : forall c s, wf_config c = true -> reach the_prog c s -> stop_returned (sh s) = true ->
  finished (tworker s) = true /\
  (forall te, In te (pre_stop (sh s)) -> In (LBegin 1 (snd te)) (log (sh s)) /\ In (LEnd 1 (snd te)) (log (sh s))) /\
  (forall s', reach_from the_prog c s s' -> log (sh s') = log (sh s) /\ finished (tworker s') = true).
Proof.
  intros c s Hw R SR. unfold wf_config in Hw. apply andb_prop in Hw as [Ht _].
  destruct (reach_described c s Ht R) as (a & -> & HI). pose proof HI as HI0. destruct HI. cbn [conc sh tworker] in *.
  rewrite i_sr in SR. apply mnum_13 in SR. rewrite SR in *. cbn [mnum] in *.
  assert (HW : a_w a = W7) by (apply i_joined; lia). rewrite HW in *. cbn [wopen] in *.
  split; [reflexivity|]. split.
  - intros te Hin. destruct i_drained as [y Hy]; [lia|]. rewrite i_log, app_nil_r. apply In_plog.
    rewrite Hy. apply in_or_app. left. apply in_map. exact Hin.
  - intros s' R'. apply (after_stop_frozen c a s' Ht HI0 HW). exact R'.
Qed.

(* ---- liveness of stop(): no deadlock, rank, idle turns do not block *)
Lemma worker_enabled : forall c a, AInv c a -> 5 <= mnum (a_m a) -> a_w a <> W7 ->
  exists s' l, step the_prog true 1 (conc c a) = Some (s', l).
Proof.
  intros c [[fl q u st ini sc sr pu pre lg] m w ps dn] HI H5 HW. destruct HI. flds. subst.
  unfold step. cbn [conc sh started tworker a_sh a_m a_w a_p].
  rewrite (proj2 (Nat.leb_le 5 (mnum m)) H5).
  destruct w as [| |e|e ph r| |]; try congruence.
  - cbn. rewrite lookup_kr' by lia. destruct (Nat.ltb (mnum m) 11); cbn; eauto.
  - cbn. destruct q; cbn; eauto.
  - cbn. eauto.
  - assert (Hrt : lookup rt (flags_of m) = Some true) by (apply lookup_rt; lia).
    destruct ph as [|e'|e']; [destruct r as [|e' r]|..]; cbn; rewrite ?Hrt; cbn; eauto.
  - cbn. rewrite Nat.add_comm. cbn. eauto.
Qed.

Lemma main_enabled_early : forall c a, AInv c a -> 7 <= mnum (a_m a) < 11 -> queue (a_sh a) = [] ->
  (a_w a = W0 \/ a_w a = W1) -> exists s' l, step the_prog true 0 (conc c a) = Some (s', l).
Proof.
  intros c [[fl q u st ini sc sr pu pre lg] m w ps dn] HI H7 HQ HW. destruct HI. flds. subst.
  unfold step. cbn [conc sh tmain tworker a_sh a_m a_w a_p].
  assert (winfl_n w = 0) as -> by (destruct HW; subst; reflexivity).
  destruct m; cbn in H7; try lia; cbn; eauto.
Qed.

Lemma stop_progress : forall c s, wf_config c = true -> reach the_prog c s ->
  stop_called (sh s) = true -> stop_returned (sh s) = false ->
  (exists t s' l, (t = 0 \/ t = 1) /\ step the_prog (threaded c) t s = Some (s', l)) /\
  (forall t s' l, step the_prog (threaded c) t s = Some (s', l) ->
     rank s' < rank s \/ (rank s' = rank s /\ idle_step s t l)) /\
  (forall s' l, step the_prog (threaded c) 1 s = Some (s', l) -> rank s' = rank s ->
     (exists s'' l', step the_prog (threaded c) 0 s = Some (s'', l')) \/
     (exists s'' l', step the_prog (threaded c) 1 s' = Some (s'', l') /\ rank s'' < rank s')).
Proof.
  intros c s Hw R SC SR. unfold wf_config in Hw. apply andb_prop in Hw as [Ht _].
  destruct (reach_described c s Ht R) as (a & -> & HI). pose proof HI as HI0. destruct HI. cbn [conc sh] in SC, SR.
  rewrite i_sc in SC. rewrite i_sr in SR. apply Nat.leb_le in SC. apply Nat.leb_gt in SR. rewrite Ht.
  split; [|split].
  - (* no deadlock *)
    clear HI0. destruct a as [[fl q u st ini sc sr pu pre lg] m w ps dn]. flds. subst fl st ini sc sr.
    assert (HI0 : AInv c (mkA (mkShared (flags_of m) q u (Nat.leb 5 (mnum m)) (Nat.leb 6 (mnum m)) (Nat.leb 7 (mnum m))
                                      (Nat.leb 13 (mnum m)) pu pre lg) m w ps dn)) by (constructor; flds; auto).
    destruct m; cbn [mnum] in *; try lia.
    + exists 0. unfold step. cbn. eauto.
    + exists 0. unfold step. cbn. eauto.
    + (* Queue.join() *) destruct u eqn:U.
      * exists 0. unfold step. cbn. eauto.
      * assert (w <> W7) by (intros X; apply i_w7 in X; lia).
        destruct (worker_enabled _ _ HI0) as (s' & l & E); [cbn; lia|assumption|]. exists 1. eauto.
    + exists 0. unfold step. cbn. eauto.
    + (* Thread.join() *) destruct w eqn:EW.
      6: { exists 0. unfold step. cbn. eauto. }
      all: destruct (worker_enabled _ _ HI0) as (s' & l & E); [cbn; lia|cbn; discriminate|]; exists 1; eauto.
    + exists 0. unfold step. cbn. eauto.
  - (* rank *)
    intros t s' l H. rewrite <- Ht in H. destruct (sim c a t s' l Ht HI0 H) as (a' & -> & _ & D & _).
    rewrite !rank_conc. destruct D as [D|(D & I & _)]; auto.
  - (* an idle turn does not block *)
    intros s' l H EQ. rewrite <- Ht in H. destruct (sim c a 1 s' l Ht HI0 H) as (a' & -> & HI' & D & _).
    rewrite !rank_conc in EQ. destruct D as [D|(_ & _ & HQ & w' & -> & HWW)]; [lia|].
    destruct (Nat.lt_ge_cases (mnum (a_m a)) 11) as [L|G].
    + left. apply main_enabled_early; auto. destruct HWW as [(? & _)|(? & _)]; auto.
    + right. destruct HWW as [(_ & _ & ?)|(HW1 & ->)]; [lia|].
      assert (EM : a_m a = MS5).
      { destruct (a_m a) eqn:EM; cbn [mnum] in *; try lia; auto; exfalso;
          (assert (X : a_w a = W7) by (apply i_joined; lia)); congruence. }
      destruct a as [sh0 m0 w0 ps0 dn0]. cbn [a_sh a_m a_w a_p a_done] in *. subst m0 w0.
      unfold step. cbn [conc sh tworker tmain a_sh a_m a_w a_p]. rewrite i_started. cbn. rewrite i_flags. cbn.
      eexists _, _. split; [reflexivity|].
      change (rank (conc c (mkA sh0 MS5 W7 ps0 dn0)) < rank (conc c (mkA sh0 MS5 W0 ps0 dn0))).
      rewrite !rank_conc. unfold arank. cbn. lia.
Qed.

(* ---- no thread ever reaches one of the error situations that the LTS models as "cannot move" *)
Lemma prod_enabled : forall c a i p, AInv c a -> 6 <= mnum (a_m a) -> nth_error (a_p a) i = Some p ->
  finished (pthread p) = true \/ exists s' l, step the_prog true (S (S i)) (conc c a) = Some (s', l).
Proof.
  intros c [[fl q u st ini sc sr pu pre lg] m w ps dn] i [ph r] HI H6 Hp. destruct HI. flds. subst.
  unfold step. cbn [conc sh inited tprods a_sh a_m a_w a_p].
  rewrite (proj2 (Nat.leb_le 6 (mnum m)) H6). rewrite nth_error_map, Hp. cbn [option_map].
  assert (Hrt : lookup rt (flags_of m) = Some true) by (apply lookup_rt; lia).
  destruct ph as [|e|e]; [destruct r as [|e r]|..]; cbn; rewrite ?Hrt; cbn; eauto.
Qed.

Lemma main_enabled_before_stop : forall c a, AInv c a -> mnum (a_m a) < 7 ->
  exists s' l, step the_prog true 0 (conc c a) = Some (s', l).
Proof.
  intros c [[fl q u st ini sc sr pu pre lg] m w ps dn] HI H7. destruct HI. flds. subst.
  unfold step. cbn [conc sh tmain tworker a_sh a_m a_w a_p].
  destruct m; cbn [mnum] in H7; try lia; try (cbn; eauto; fail).
  assert (Hrt : lookup rt (flags_of (MT ph r)) = Some true) by (apply lookup_rt; cbn; lia).
  destruct ph as [|e|e]; [destruct r as [|e r]|..]; cbn; eauto.
Qed.

Lemma no_thread_error : forall c s, wf_config c = true -> reach the_prog c s ->
  (stop_called (sh s) = false -> exists s' l, step the_prog (threaded c) 0 s = Some (s', l)) /\
  (started (sh s) = true -> finished (tworker s) = true \/ exists s' l, step the_prog (threaded c) 1 s = Some (s', l)) /\
  (inited (sh s) = true -> forall i t, nth_error (tprods s) i = Some t ->
     finished t = true \/ exists s' l, step the_prog (threaded c) (S (S i)) s = Some (s', l)).
Proof.
  intros c s Hw R. unfold wf_config in Hw. apply andb_prop in Hw as [Ht _]. rewrite Ht.
  destruct (reach_described c s Ht R) as (a & -> & HI). pose proof HI as HI0. destruct HI. cbn [conc sh tworker tprods].
  split; [|split].
  - intros SC. rewrite i_sc in SC. apply Nat.leb_gt in SC. apply main_enabled_before_stop; auto.
  - intros ST. rewrite i_started in ST. apply Nat.leb_le in ST.
    destruct (a_w a) eqn:EW; try (right; apply worker_enabled; auto; rewrite EW; discriminate). left. reflexivity.
  - intros IN i t Hi. rewrite i_inited in IN. apply Nat.leb_le in IN. rewrite nth_error_map in Hi.
    destruct (nth_error (a_p a) i) as [p|] eqn:Hp; [|discriminate]. cbn in Hi. inversion Hi; subst t.
    eapply prod_enabled; eauto.
Qed.

(* ---- identities: with pairwise distinct event identities no identity is processed twice *)
Lemma nodupN_cnt : forall l, nodupN l = true -> forall x, cnt x l <= 1.
Proof.
  induction l as [|y r IH]; cbn; intros H x; [lia|]. apply andb_prop in H as [H1 H2]. specialize (IH H2 x).
  destruct (N.eqb_spec x y) as [->|]; [|lia].
  assert (cnt y r = 0); [|lia]. clear IH H2. induction r as [|z r IH]; [reflexivity|]. cbn in H1. apply negb_true_iff in H1.
  apply orb_false_iff in H1 as [A B]. cbn. rewrite A. apply IH. apply negb_true_iff. exact B.
Qed.

Lemma In_cnt : forall x l, In x l -> 1 <= cnt x l.
Proof.
  induction l as [|z r IH]; intros Hin; [destruct Hin|]. cbn. destruct Hin as [->|Hin]; [rewrite N.eqb_refl; lia|]. specialize (IH Hin). lia.
Qed.
Lemma cnt_In : forall x l, 1 <= cnt x l -> In x l.
Proof.
  induction l as [|z r IH]; cbn; intros P; [lia|]. destruct (N.eqb_spec x z) as [->|]; [left; reflexivity|right; apply IH; lia].
Qed.

Lemma cnt_NoDup : forall l, (forall x, cnt x l <= 1) -> NoDup l.
Proof.
  induction l as [|y r IH]; intros H; constructor.
  - intros Hin. specialize (H y). cbn in H. rewrite N.eqb_refl in H. pose proof (In_cnt _ _ Hin). lia.
  - apply IH. intros x. specialize (H x). cbn in H. lia.
Qed.

Lemma at_most_once_ids : forall c s, wf_config c = true -> reach the_prog c s ->
  NoDup (map ev_id (begun (log (sh s)))) /\ forall e, In e (begun (log (sh s))) -> In (ev_id e) (all_ids c).
Proof.
  intros c s Hw R. unfold wf_config in Hw. apply andb_prop in Hw as [Ht Hn].
  destruct (reach_described c s Ht R) as (a & -> & HI). destruct HI. cbn [conc sh].
  rewrite i_log, begun_app, begun_plog, begun_wopen.
  assert (B : forall x, cnt x (map ev_id (a_done a ++ wbegun (a_w a))) <= cnt x (all_ids c)).
  { intros x. rewrite <- (i_tok x). unfold tokens. rewrite map_app, cnt_app. lia. }
  split.
  - apply cnt_NoDup. intros x. specialize (B x). pose proof (nodupN_cnt _ Hn x). lia.
  - intros e Hin. specialize (B (ev_id e)). apply (in_map ev_id) in Hin. apply In_cnt in Hin. apply cnt_In. lia.
Qed.

(* ---- every queued event is on its way: general progress of the worker *)
Lemma processing_progress : forall c s, wf_config c = true -> reach the_prog c s ->
  (forall t s' l, step the_prog (threaded c) t s = Some (s', l) -> rank s' < rank s \/ (rank s' = rank s /\ idle_step s t l)) /\
  (queue (sh s) <> [] -> started (sh s) = true -> finished (tworker s) = false ->
   exists s' l, step the_prog (threaded c) 1 s = Some (s', l) /\ rank s' < rank s).
Proof.
  intros c s Hw R. pose proof Hw as Hw0. unfold wf_config in Hw. apply andb_prop in Hw as [Ht _].
  assert (P1 : forall t s' l, step the_prog (threaded c) t s = Some (s', l) -> rank s' < rank s \/ (rank s' = rank s /\ idle_step s t l)).
  { destruct (reach_described c s Ht R) as (a & -> & HI). intros t s' l H.
    destruct (sim c a t s' l Ht HI H) as (a' & -> & _ & D & _). rewrite !rank_conc. destruct D as [D|(D & I & _)]; auto. }
  split; [exact P1|]. intros Q ST F.
  destruct (no_thread_error c s Hw0 R) as (_ & W & _). destruct (W ST) as [F'|(s' & l & H)]; [congruence|].
  exists s', l. split; [exact H|]. destruct (P1 _ _ _ H) as [D|(_ & (_ & Q' & _))]; [exact D|congruence].
Qed.
