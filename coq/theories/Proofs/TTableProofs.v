(* Facts about the first-appearance lists of Model/TTable.v. *)
From Coq Require Import String Ascii List Bool Arith Lia.
From KV Require Import Lib.TableDef Gen.TTModelSrc Model.TTable.
Import ListNotations.
Open Scope string_scope.

Lemma In_filter_neq : forall x y l, In x (filter (fun z => negb (String.eqb z y)) l) <-> In x l /\ x <> y.
Proof.
  intros. rewrite filter_In. split; intros [H1 H2]; split; auto.
  - intro E. subst. rewrite String.eqb_refl in H2. discriminate.
  - apply negb_true_iff. apply String.eqb_neq. assumption.
Qed.

Lemma In_dedup : forall x l, In x (dedup l) <-> In x l.
Proof.
  induction l as [|y l IH]; [tauto|]. cbn [dedup In]. rewrite In_filter_neq, IH.
  destruct (string_dec y x); [subst; tauto|]. split; [tauto|]. intros [H|H]; [congruence|]. right. split; auto.
Qed.

Lemma NoDup_filter : forall {A} (f : A -> bool) l, NoDup l -> NoDup (filter f l).
Proof.
  induction l as [|x l IH]; intro H; [constructor|]. inversion H; subst. cbn [filter].
  destruct (f x); auto. constructor; auto. intro Hin. apply filter_In in Hin as [Hin _]. contradiction.
Qed.

Lemma NoDup_dedup : forall l, NoDup (dedup l).
Proof.
  induction l as [|x l IH]; [constructor|]. cbn [dedup]. constructor.
  - intro H. apply In_filter_neq in H as [_ H]. congruence.
  - apply NoDup_filter. exact IH.
Qed.

(* What smgen's table model does NOW (Gen/TTModelSrc.v is regenerated from its source on every run): this
   equation stops compiling if transitionsperstate stops listing the states without outgoing rows -- and with it every
   proof of C08, C09 and C10 that uses it (the signature key, which C08 does not depend on: Proofs/TTableSigProofs.v). *)
Lemma tps_states_all : forall t,
  tps_states t = (src_states t ++ filter (fun s => negb (mem s (src_states t))) (states t))%list.
Proof. reflexivity. Qed.

Lemma tt_model_insertion_ordered : tt_containers_insertion_ordered = true.
Proof. reflexivity. Qed.
