(* Lemmas about Lib/Str.v used by the preservation theorems. *)
From Coq Require Import String Ascii List Bool Arith Lia.
From KV Require Import Lib.Str.
Import ListNotations.
Open Scope string_scope.

Lemma ascii_eqb_refl c : Ascii.eqb c c = true.
Proof. apply Ascii.eqb_eq; reflexivity. Qed.

(* ---------------------------------------------------------------- tab4 *)
Lemma tab4_idem s : tab4 (tab4 s) = tab4 s.
Proof.
  induction s as [|c s IH]; simpl; [reflexivity|].
  destruct (Ascii.eqb c TAB) eqn:E; simpl.
  - rewrite IH. reflexivity.
  - rewrite E, IH. reflexivity.
Qed.

Lemma tab4_no_tab s : no_char TAB s = true -> tab4 s = s.
Proof.
  induction s as [|c s IH]; simpl; [reflexivity|].
  destruct (Ascii.eqb c TAB); simpl; [discriminate|]. intros H; rewrite IH by assumption. reflexivity.
Qed.

(* a pattern none of whose characters is TAB or SP *)
Fixpoint tabfree (p : string) : bool :=
  match p with
  | EmptyString => true
  | String a p' => negb (Ascii.eqb a TAB) && negb (Ascii.eqb a SP) && tabfree p'
  end.

Lemma prefixb_tab4 p : tabfree p = true -> forall s, prefixb p (tab4 s) = prefixb p s.
Proof.
  induction p as [|a p IH]; intros Hp s; [destruct s; reflexivity|].
  simpl in Hp. apply andb_prop in Hp as [Hp1 Hp]. apply andb_prop in Hp1 as [Ht Hs].
  destruct s as [|b s]; [reflexivity|]. simpl.
  destruct (Ascii.eqb b TAB) eqn:E.
  - apply Ascii.eqb_eq in E. subst b. simpl.
    apply negb_true_iff in Ht, Hs. rewrite Hs, Ht. reflexivity.
  - simpl. rewrite IH by assumption. reflexivity.
Qed.

Lemma contains_tab4 p : tabfree p = true -> p <> EmptyString ->
  forall s, contains p (tab4 s) = contains p s.
Proof.
  intros Hp Hne s. induction s as [|b s IH].
  - reflexivity.
  - change (contains p (String b s)) with (prefixb p (String b s) || contains p s).
    rewrite <- (prefixb_tab4 p Hp (String b s)).
    simpl tab4. destruct (Ascii.eqb b TAB) eqn:E.
    + destruct p as [|a p']; [contradiction|].
      simpl in Hp. apply andb_prop in Hp as [Hp1 Hp2]. apply andb_prop in Hp1 as [Ht Hs].
      apply negb_true_iff in Hs.
      assert (F : forall r, prefixb (String a p') (String SP r) = false).
      { intros r. simpl. rewrite Hs. reflexivity. }
      cbn [contains]. rewrite !F. simpl orb. exact IH.
    + cbn [contains]. rewrite IH. reflexivity.
Qed.

(* ---------------------------------------------------------------- lines *)
Lemma canonical_nonempty s : canonical s = true -> s <> EmptyString.
Proof. destruct s; simpl; [discriminate|intros _; discriminate]. Qed.

Lemma split_lines_canonical_app l s : canonical l = true -> split_lines (l ++ s) = l :: split_lines s.
Proof.
  induction l as [|c l IH]; simpl; [discriminate|].
  destruct l as [|d l'].
  - intros H. simpl. rewrite H. reflexivity.
  - intros H. apply andb_prop in H as [H1 H2]. apply negb_true_iff in H1.
    change ((String d l' ++ s)%string) with (String d l' ++ s)%string.
    rewrite H1. rewrite (IH H2). reflexivity.
Qed.

Lemma split_lines_nolf l : no_char LF l = true -> l <> EmptyString -> split_lines l = [l].
Proof.
  induction l as [|c l IH]; [contradiction|]. simpl. intros H _.
  apply andb_prop in H as [H1 H2]. apply negb_true_iff in H1. rewrite H1.
  destruct l as [|d l']; [reflexivity|]. rewrite IH by (assumption || discriminate). reflexivity.
Qed.

Lemma concat_lines_cons l ls : concat_lines (l :: ls) = (l ++ concat_lines ls)%string.
Proof.
  unfold concat_lines. destruct ls as [|l2 ls]; simpl.
  - induction l; simpl; [reflexivity|congruence].
  - reflexivity.
Qed.

(* all lines canonical, except that the last one may lack its LF *)
Fixpoint lines_shape (ls : list string) : bool :=
  match ls with
  | [] => true
  | [l] => canonical l || (no_char LF l && negb (String.eqb l ""))
  | l :: r => canonical l && lines_shape r
  end.

Lemma append_empty_r (s : string) : (s ++ "")%string = s.
Proof. induction s; simpl; congruence. Qed.

Lemma split_concat ls : lines_shape ls = true -> split_lines (concat_lines ls) = ls.
Proof.
  induction ls as [|l ls IH]; [reflexivity|].
  intros H. rewrite concat_lines_cons. destruct ls as [|l2 ls'].
  - cbn [lines_shape] in H. unfold concat_lines. cbn [String.concat]. rewrite append_empty_r.
    apply orb_prop in H as [H|H].
    + rewrite <- (append_empty_r l) at 1. rewrite split_lines_canonical_app by assumption. reflexivity.
    + apply andb_prop in H as [H1 H2]. apply split_lines_nolf; [assumption|].
      intros E; subst; discriminate.
  - change (lines_shape (l :: l2 :: ls')) with (canonical l && lines_shape (l2 :: ls')) in H.
    apply andb_prop in H as [H1 H2].
    rewrite split_lines_canonical_app by assumption. rewrite IH by assumption. reflexivity.
Qed.

(* ---------------------------------------------------------------- split_lines on arbitrary text *)
Lemma canon_cons c s : s <> "" -> canonical (String c s) = negb (Ascii.eqb c LF) && canonical s.
Proof. destruct s; [contradiction|reflexivity]. Qed.

Lemma split_nonempty s : Forall (fun l => l <> "") (split_lines s).
Proof.
  induction s as [|c s IH]; [constructor|]. simpl. destruct (Ascii.eqb c LF).
  - constructor; [discriminate|assumption].
  - destruct (split_lines s) as [|l r]; constructor; try discriminate.
    + constructor.
    + inversion IH; assumption.
Qed.

Lemma concat_split s : concat_lines (split_lines s) = s.
Proof.
  induction s as [|c s IH]; [reflexivity|]. simpl. destruct (Ascii.eqb c LF) eqn:E.
  - apply Ascii.eqb_eq in E. subst c. rewrite concat_lines_cons, IH. reflexivity.
  - destruct (split_lines s) as [|l r] eqn:Es.
    + unfold concat_lines in IH. simpl in IH. subst s. reflexivity.
    + rewrite concat_lines_cons in *. simpl. rewrite IH. reflexivity.
Qed.

Lemma lines_shape_single l : lines_shape [l] = last_ok l.
Proof. reflexivity. Qed.

Lemma lines_shape_cons2 x y r : lines_shape (x :: y :: r) = canonical x && lines_shape (y :: r).
Proof. reflexivity. Qed.

Lemma last_ok_cons c l : Ascii.eqb c LF = false -> l <> "" -> last_ok l = true -> last_ok (String c l) = true.
Proof.
  intros Hc Hne H. unfold last_ok in *. rewrite canon_cons by assumption. rewrite Hc. simpl.
  apply orb_prop in H as [H|H]; [rewrite H; reflexivity|].
  apply andb_prop in H as [H1 H2]. cbn [no_char]. rewrite Hc, H1. simpl. apply orb_true_r.
Qed.

Lemma split_shape s : lines_shape (split_lines s) = true.
Proof.
  induction s as [|c s IH]; [reflexivity|]. simpl. destruct (Ascii.eqb c LF) eqn:E.
  - destruct (split_lines s) as [|y r].
    + rewrite lines_shape_single. unfold last_ok. simpl. rewrite E. reflexivity.
    + rewrite lines_shape_cons2, IH. simpl. rewrite E. reflexivity.
  - pose proof (split_nonempty s) as Hn. destruct (split_lines s) as [|l r].
    + rewrite lines_shape_single. unfold last_ok. simpl. rewrite E. reflexivity.
    + inversion Hn as [|? ? Hl Hr]; subst. destruct r as [|y r'].
      * rewrite lines_shape_single in *. apply last_ok_cons; assumption.
      * rewrite lines_shape_cons2 in *. apply andb_prop in IH as [H1 H2].
        rewrite canon_cons by assumption. rewrite E, H1, H2. reflexivity.
Qed.

Lemma ends_lf_cons c s : s <> "" -> ends_lf (String c s) = ends_lf s.
Proof. destruct s; [contradiction|reflexivity]. Qed.

Lemma split_nil_inv s : split_lines s = [] -> s = "".
Proof. intros H. rewrite <- (concat_split s), H. reflexivity. Qed.

Lemma split_canonical s : ends_lf s = true -> forallb canonical (split_lines s) = true.
Proof.
  induction s as [|c s IH]; [discriminate|]. intros H. simpl. destruct (Ascii.eqb c LF) eqn:E.
  - cbn [forallb canonical]. rewrite E. destruct s as [|d s']; [reflexivity|].
    rewrite ends_lf_cons in H by discriminate. apply IH. assumption.
  - destruct s as [|d s']; [simpl in H; congruence|]. rewrite ends_lf_cons in H by discriminate.
    specialize (IH H). pose proof (split_nonempty (String d s')) as Hn.
    destruct (split_lines (String d s')) as [|l r] eqn:Es.
    + apply split_nil_inv in Es. discriminate.
    + inversion Hn as [|? ? Hl0 Hr0]; subst. simpl in IH. apply andb_prop in IH as [I1 I2].
      cbn [forallb]. rewrite canon_cons by assumption. rewrite E, I1, I2. reflexivity.
Qed.

Lemma split_nochar x s : no_char x s = true -> forallb (no_char x) (split_lines s) = true.
Proof.
  induction s as [|c s IH]; [reflexivity|]. simpl. intros H. apply andb_prop in H as [H1 H2].
  specialize (IH H2). destruct (Ascii.eqb c LF).
  - simpl. rewrite H1, IH. reflexivity.
  - destruct (split_lines s) as [|l r]; simpl in *.
    + rewrite H1. reflexivity.
    + apply andb_prop in IH as [I1 I2]. rewrite H1, I1, I2. reflexivity.
Qed.

Lemma concat_lines_app a b : concat_lines (a ++ b) = (concat_lines a ++ concat_lines b)%string.
Proof.
  induction a as [|x a IH]; [reflexivity|]. rewrite <- app_comm_cons, !concat_lines_cons, IH.
  clear. induction x; simpl; congruence.
Qed.

Lemma tab4_empty_iff s : tab4 s = "" <-> s = "".
Proof. destruct s as [|c s]; simpl; [tauto|]. destruct (Ascii.eqb c TAB); split; discriminate. Qed.

Lemma ends_lf_tab4 s : ends_lf (tab4 s) = ends_lf s.
Proof.
  induction s as [|c s IH]; [reflexivity|].
  destruct s as [|d s'].
  - simpl. destruct (Ascii.eqb c TAB) eqn:E; [|reflexivity]. apply Ascii.eqb_eq in E. subst. reflexivity.
  - remember (String d s') as t. assert (Ht : t <> "") by (subst; discriminate).
    assert (Ht4 : tab4 t <> "") by (intros H; apply Ht; apply tab4_empty_iff; exact H).
    rewrite (ends_lf_cons c t Ht). simpl tab4. destruct (Ascii.eqb c TAB).
    + rewrite !ends_lf_cons by (assumption || discriminate). exact IH.
    + rewrite ends_lf_cons by assumption. exact IH.
Qed.
