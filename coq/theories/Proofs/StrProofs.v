(* Lemmas about Lib/Str.v used by the preservation theorems. *)
From Coq Require Import String Ascii List Bool Arith Lia.
From KV Require Import Lib.Str.
Import ListNotations.
Open Scope string_scope.

Lemma ascii_eqb_refl c : Ascii.eqb c c = true.
Proof. apply Ascii.eqb_eq; reflexivity. Qed.

(* ---------------------------------------------------------------- tab4 *)
Lemma tab4_idem s : tab4 (tab4 s) = tab4 s.
Proof.
  induction s as [|c s IH]; simpl; [reflexivity|].
  destruct (Ascii.eqb c TAB) eqn:E; simpl.
  - rewrite IH. reflexivity.
  - rewrite E, IH. reflexivity.
Qed.

Lemma tab4_no_tab s : no_char TAB s = true -> tab4 s = s.
Proof.
  induction s as [|c s IH]; simpl; [reflexivity|].
  destruct (Ascii.eqb c TAB); simpl; [discriminate|]. intros H; rewrite IH by assumption. reflexivity.
Qed.

(* a pattern none of whose characters is TAB or SP *)
Fixpoint tabfree (p : string) : bool :=
  match p with
  | EmptyString => true
  | String a p' => negb (Ascii.eqb a TAB) && negb (Ascii.eqb a SP) && tabfree p'
  end.

Lemma prefixb_tab4 p : tabfree p = true -> forall s, prefixb p (tab4 s) = prefixb p s.
Proof.
  induction p as [|a p IH]; intros Hp s; [destruct s; reflexivity|].
  simpl in Hp. apply andb_prop in Hp as [Hp1 Hp]. apply andb_prop in Hp1 as [Ht Hs].
  destruct s as [|b s]; [reflexivity|]. simpl.
  destruct (Ascii.eqb b TAB) eqn:E.
  - apply Ascii.eqb_eq in E. subst b. simpl.
    apply negb_true_iff in Ht, Hs. rewrite Hs, Ht. reflexivity.
  - simpl. rewrite IH by assumption. reflexivity.
Qed.

Lemma contains_tab4 p : tabfree p = true -> p <> EmptyString ->
  forall s, contains p (tab4 s) = contains p s.
Proof.
  intros Hp Hne s. induction s as [|b s IH].
  - reflexivity.
  - change (contains p (String b s)) with (prefixb p (String b s) || contains p s).
    rewrite <- (prefixb_tab4 p Hp (String b s)).
    simpl tab4. destruct (Ascii.eqb b TAB) eqn:E.
    + destruct p as [|a p']; [contradiction|].
      simpl in Hp. apply andb_prop in Hp as [Hp1 Hp2]. apply andb_prop in Hp1 as [Ht Hs].
      apply negb_true_iff in Hs.
      assert (F : forall r, prefixb (String a p') (String SP r) = false).
      { intros r. simpl. rewrite Hs. reflexivity. }
      cbn [contains]. rewrite !F. simpl orb. exact IH.
    + cbn [contains]. rewrite IH. reflexivity.
Qed.

(* ---------------------------------------------------------------- lines *)
Lemma canonical_nonempty s : canonical s = true -> s <> EmptyString.
Proof. destruct s; simpl; [discriminate|intros _; discriminate]. Qed.

Lemma split_lines_canonical_app l s : canonical l = true -> split_lines (l ++ s) = l :: split_lines s.
Proof.
  induction l as [|c l IH]; simpl; [discriminate|].
  destruct l as [|d l'].
  - intros H. simpl. rewrite H. reflexivity.
  - intros H. apply andb_prop in H as [H1 H2]. apply negb_true_iff in H1.
    change ((String d l' ++ s)%string) with (String d l' ++ s)%string.
    rewrite H1. rewrite (IH H2). reflexivity.
Qed.

Lemma split_lines_nolf l : no_char LF l = true -> l <> EmptyString -> split_lines l = [l].
Proof.
  induction l as [|c l IH]; [contradiction|]. simpl. intros H _.
  apply andb_prop in H as [H1 H2]. apply negb_true_iff in H1. rewrite H1.
  destruct l as [|d l']; [reflexivity|]. rewrite IH by (assumption || discriminate). reflexivity.
Qed.

Lemma concat_lines_cons l ls : concat_lines (l :: ls) = (l ++ concat_lines ls)%string.
Proof.
  unfold concat_lines. destruct ls as [|l2 ls]; simpl.
  - induction l; simpl; [reflexivity|congruence].
  - reflexivity.
Qed.

(* all lines canonical, except that the last one may lack its LF *)
Fixpoint lines_shape (ls : list string) : bool :=
  match ls with
  | [] => true
  | [l] => canonical l || (no_char LF l && negb (String.eqb l ""))
  | l :: r => canonical l && lines_shape r
  end.

Lemma append_empty_r (s : string) : (s ++ "")%string = s.
Proof. induction s; simpl; congruence. Qed.

Lemma split_concat ls : lines_shape ls = true -> split_lines (concat_lines ls) = ls.
Proof.
  induction ls as [|l ls IH]; [reflexivity|].
  intros H. rewrite concat_lines_cons. destruct ls as [|l2 ls'].
  - cbn [lines_shape] in H. unfold concat_lines. cbn [String.concat]. rewrite append_empty_r.
    apply orb_prop in H as [H|H].
    + rewrite <- (append_empty_r l) at 1. rewrite split_lines_canonical_app by assumption. reflexivity.
    + apply andb_prop in H as [H1 H2]. apply split_lines_nolf; [assumption|].
      intros E; subst; discriminate.
  - change (lines_shape (l :: l2 :: ls')) with (canonical l && lines_shape (l2 :: ls')) in H.
    apply andb_prop in H as [H1 H2].
    rewrite split_lines_canonical_app by assumption. rewrite IH by assumption. reflexivity.
Qed.
