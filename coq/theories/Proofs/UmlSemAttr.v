(* C19 semantic read-back: attributes, packages and inheritances are read back as the specification says
   (goal_attr, goal_package, goal_inh of Proofs/UmlSemGoals.v). *)
From Coq Require Import String Ascii List Bool Arith Lia.
From KV Require Import Lib.Str Lib.ODict Model.Vpp Model.VppWriter Model.Uml Model.UmlBlob Model.UmlWriter Model.UmlSem
                       Proofs.UmlBlobDefs Proofs.UmlBlobStruct Proofs.UmlBlobText Proofs.UmlSemDefs Proofs.UmlSemDict Proofs.UmlSemDoc Proofs.UmlSemGoals.
Import ListNotations.  Open Scope string_scope.

(* ---------------------------------------------------------------- booleans, strings *)

Ltac a_split :=
  repeat match goal with
         | H : (_ && _)%bool = true |- _ => apply andb_true_iff in H; destruct H
         end.

Lemma a_app_assoc : forall a b c : string, (a ++ b) ++ c = a ++ (b ++ c).
Proof. induction a as [|x a IH]; intros; cbn [append]; [reflexivity | rewrite IH; reflexivity]. Qed.

Lemma a_app_nil_r : forall a : string, a ++ "" = a.
Proof. induction a as [|x a IH]; cbn [append]; [reflexivity | rewrite IH; reflexivity]. Qed.

Lemma a_slen_app : forall a b, String.length (a ++ b) = String.length a + String.length b.
Proof. induction a as [|x a IH]; intros; cbn [append String.length]; [reflexivity | rewrite IH; reflexivity]. Qed.

Lemma a_substring_app_len : forall a b, substring 0 (String.length a) (a ++ b) = a.
Proof.
  induction a as [|c a IH]; intro b; [destruct b; reflexivity|].
  cbn [String.length append substring]. rewrite IH. reflexivity.
Qed.

Lemma a_unq_q : forall v, unq (q v) = v.
Proof.
  intro v. unfold q, dq. cbn [append unq]. rewrite Ascii.eqb_refl, a_slen_app. cbn [String.length].
  replace (String.length v + 1 - 1) with (String.length v) by lia. apply a_substring_app_len.
Qed.

Lemma a_unq_plain : forall c, prefixb dq c = false -> unq c = c.
Proof.
  intros c H. destruct c as [|x r]; [reflexivity|].
  unfold dq in H. cbn [prefixb] in H. rewrite andb_true_r in H. rewrite Ascii.eqb_sym in H.
  cbn [unq]. rewrite H. reflexivity.
Qed.

(* ---------------------------------------------------------------- str.strip *)

Lemma a_lstrip_len : forall s, String.length (lstrip s) <= String.length s.
Proof. induction s as [|c s IH]; cbn [lstrip]; [lia|]. destruct (is_space c); cbn [String.length]; lia. Qed.

Lemma a_rstrip_prefix : forall s, exists w, s = rstrip s ++ w.
Proof.
  induction s as [|c s [w Hw]]; [exists ""; reflexivity|].
  cbn [rstrip]. destruct (rstrip s) as [|y t] eqn:E.
  - destruct (is_space c); [exists (String c s); reflexivity | exists s; reflexivity].
  - exists w. cbn [append]. f_equal. exact Hw.
Qed.

Lemma a_strip_fix : forall s, py_strip s = s -> rstrip s = s /\ lstrip s = s.
Proof.
  intros s H. unfold py_strip in H. destruct (a_rstrip_prefix s) as [w Hw].
  pose proof (f_equal String.length Hw) as Hl. rewrite a_slen_app in Hl.
  pose proof (a_lstrip_len (rstrip s)) as H2. rewrite H in H2.
  destruct w as [|y w]; [|cbn [String.length] in Hl; lia].
  rewrite a_app_nil_r in Hw. split; [symmetry; exact Hw|]. rewrite <- Hw in H. exact H.
Qed.

Lemma a_lstrip_head : forall s, lstrip s = s -> s <> "" -> exists ch r, s = String ch r /\ is_space ch = false.
Proof.
  intros s H Hn. destruct s as [|c s]; [congruence|]. cbn [lstrip] in H. destruct (is_space c) eqn:E.
  - pose proof (a_lstrip_len s) as Hl. rewrite H in Hl. cbn [String.length] in Hl. lia.
  - exists c, s. split; [reflexivity | exact E].
Qed.

Lemma a_lstrip_app : forall s w, lstrip s = s -> s <> "" -> lstrip (s ++ w) = s ++ w.
Proof.
  intros s w H Hn. destruct (a_lstrip_head s H Hn) as [ch [r [E1 E2]]]. subst s.
  cbn [append lstrip]. rewrite E2. reflexivity.
Qed.

Lemma a_rstrip_app_ne : forall a b, rstrip b <> "" -> rstrip (a ++ b) = a ++ rstrip b.
Proof.
  induction a as [|c a IH]; intros b H; [reflexivity|].
  cbn [append rstrip]. rewrite (IH _ H). destruct (a ++ rstrip b) as [|y t] eqn:E; [|reflexivity].
  exfalso. destruct a; cbn [append] in E; [congruence | discriminate].
Qed.

Lemma a_strip_mid : forall a m b, py_strip a = a -> a <> "" -> py_strip b = b -> b <> "" -> py_strip (a ++ m ++ b) = a ++ m ++ b.
Proof.
  intros a m b Ha Hna Hb Hnb. destruct (a_strip_fix _ Ha) as [Har Hal]. destruct (a_strip_fix _ Hb) as [Hbr Hbl].
  unfold py_strip.
  assert (E : rstrip (m ++ b) = m ++ b) by (rewrite a_rstrip_app_ne; rewrite Hbr; [reflexivity | assumption]).
  rewrite a_rstrip_app_ne by (rewrite E; destruct m; [exact Hnb | cbn [append]; discriminate]).
  rewrite E. apply a_lstrip_app; assumption.
Qed.

(* ---------------------------------------------------------------- identifiers and paths *)

Lemma a_txt_strip : forall s, txt s = true -> py_strip s = s.
Proof. intros s H. unfold txt in H. a_split. apply String.eqb_eq. assumption. Qed.

Lemma a_ident_parts : forall s, ident s = true -> py_strip s = s /\ no_char ":" s = true /\ s <> "".
Proof.
  intros s H. unfold ident in H. a_split. repeat split.
  - apply a_txt_strip. assumption.
  - assumption.
  - match goal with H : negb (String.eqb s "") = true |- _ => apply negb_true_iff in H; apply String.eqb_neq in H; exact H end.
Qed.

Lemma a_join_cons2 : forall sep x y r, Uml.join sep (x :: y :: r) = x ++ sep ++ Uml.join sep (y :: r).
Proof. reflexivity. Qed.

Lemma a_join_ne : forall sep ids, ids <> [] -> forallb (fun i => negb (String.eqb i "")) ids = true -> Uml.join sep ids <> "".
Proof.
  intros sep ids Hn H. destruct ids as [|x r]; [congruence|].
  cbn [forallb] in H. a_split.
  match goal with H : negb (String.eqb x "") = true |- _ => apply negb_true_iff in H; apply String.eqb_neq in H; rename H into Hx end.
  destruct r as [|y r'].
  - exact Hx.
  - rewrite a_join_cons2. destruct x; [congruence | cbn [append]; discriminate].
Qed.

Lemma a_idents_ne : forall ids, forallb ident ids = true -> forallb (fun i => negb (String.eqb i "")) ids = true.
Proof.
  induction ids as [|x r IH]; intro H; [reflexivity|].
  cbn [forallb] in *. a_split. rewrite IH by assumption.
  match goal with H : ident x = true |- _ => unfold ident in H end. a_split.
  match goal with H : negb (String.eqb x "") = true |- _ => rewrite H end. reflexivity.
Qed.

Lemma a_path_strip : forall ids, ids <> [] -> forallb ident ids = true -> py_strip (path_text ids) = path_text ids.
Proof.
  unfold path_text. induction ids as [|x r IH]; intros Hn H; [congruence|].
  cbn [forallb] in H. a_split.
  destruct (a_ident_parts x ltac:(assumption)) as [Hx1 [Hx2 Hx3]].
  destruct r as [|y r'].
  - exact Hx1.
  - rewrite a_join_cons2. apply a_strip_mid; [exact Hx1 | exact Hx3 | apply IH; [discriminate | assumption] |].
    apply a_join_ne; [discriminate | apply a_idents_ne; assumption].
Qed.

(* ---------------------------------------------------------------- split_on *)

Lemma a_split_on_nonempty : forall c s, split_on c s <> [].
Proof.
  intros c s. destruct s as [|x s]; cbn [split_on]; [discriminate|].
  destruct (split_on c s); [discriminate|]. destruct (Ascii.eqb x c); discriminate.
Qed.

Lemma a_split_on_app : forall c a b, split_on c (a ++ String c b) = (split_on c a ++ split_on c b)%list.
Proof.
  intros c a b. induction a as [|x a IH].
  - cbn [append]. cbn [split_on]. generalize (a_split_on_nonempty c b).
    destruct (split_on c b); [congruence|]. intros _. rewrite Ascii.eqb_refl. reflexivity.
  - cbn [append]. cbn [split_on]. rewrite IH. generalize (a_split_on_nonempty c a).
    destruct (split_on c a) as [|h t]; [congruence|]. intros _. cbn [app].
    destruct (Ascii.eqb x c); reflexivity.
Qed.

Lemma a_split_on_none : forall c a, no_char c a = true -> split_on c a = [a].
Proof.
  intros c a. induction a as [|x a IH]; intro H; [reflexivity|].
  cbn [no_char] in H. apply andb_true_iff in H. destruct H as [H1 H2]. apply negb_true_iff in H1.
  cbn [split_on]. rewrite (IH H2), H1. reflexivity.
Qed.

Lemma a_split_join : forall ids, ids <> [] -> forallb (no_char ":") ids = true -> split_on ":" (Uml.join ":" ids) = ids.
Proof.
  induction ids as [|x r IH]; intros Hn H; [congruence|].
  cbn [forallb] in H. a_split.
  destruct r as [|y r'].
  - cbn [Uml.join]. apply a_split_on_none. assumption.
  - rewrite a_join_cons2. change (":" ++ Uml.join ":" (y :: r')) with (String ":" (Uml.join ":" (y :: r'))).
    rewrite a_split_on_app, a_split_on_none by assumption. rewrite IH; [reflexivity | discriminate | assumption].
Qed.

Lemma a_idents_nocolon : forall ids, forallb ident ids = true -> forallb (no_char ":") ids = true.
Proof.
  induction ids as [|x r IH]; intro H; [reflexivity|].
  cbn [forallb] in *. a_split. rewrite IH by assumption.
  destruct (a_ident_parts x ltac:(assumption)) as [_ [Hx _]]. rewrite Hx. reflexivity.
Qed.

(* ---------------------------------------------------------------- rstrip(':') *)

Lemma a_rstrip_char_app : forall c a b,
  rstrip_char c (a ++ b) = match rstrip_char c b with EmptyString => rstrip_char c a | r => a ++ r end.
Proof.
  intros c a b. induction a as [|x a IH].
  - cbn [append rstrip_char]. destruct (rstrip_char c b); reflexivity.
  - cbn [append rstrip_char]. rewrite IH. destruct (rstrip_char c b) as [|y t] eqn:E; [reflexivity|].
    destruct (a ++ String y t) eqn:E2; [|reflexivity].
    destruct a; cbn [append] in E2; discriminate.
Qed.

Lemma a_rstrip_char_none : forall c n, no_char c n = true -> rstrip_char c n = n.
Proof.
  intros c n. induction n as [|x n IH]; intro H; [reflexivity|].
  cbn [no_char] in H. a_split. cbn [rstrip_char]. rewrite IH by assumption.
  match goal with H : negb (Ascii.eqb x c) = true |- _ => apply negb_true_iff in H; rewrite H end.
  destruct n; reflexivity.
Qed.

Fixpoint a_cat (l : list string) : string := match l with [] => "" | x :: r => x ++ "::" ++ a_cat r end.

Lemma a_names_ne : forall l, forallb (fun n => no_char ":" n && negb (String.eqb n "")) l = true ->
  forallb (fun i => negb (String.eqb i "")) l = true.
Proof.
  induction l as [|z l IHl]; intro H; [reflexivity|].
  cbn [forallb] in *. a_split. rewrite IHl by assumption.
  match goal with H : negb (String.eqb z "") = true |- _ => rewrite H end. reflexivity.
Qed.

Lemma a_rstrip_cat : forall names, names <> [] -> forallb (fun n => no_char ":" n && negb (String.eqb n "")) names = true ->
  rstrip_char ":" (a_cat names) = Uml.join "::" names.
Proof.
  induction names as [|x r IH]; intros Hn H; [congruence|].
  cbn [forallb] in H. a_split.
  match goal with H : negb (String.eqb x "") = true |- _ => apply negb_true_iff in H; apply String.eqb_neq in H; rename H into Hx end.
  cbn [a_cat]. destruct r as [|y r'].
  - cbn [a_cat Uml.join]. rewrite a_rstrip_char_app. change (rstrip_char ":" ("::" ++ "")) with "".
    cbv iota. apply a_rstrip_char_none. assumption.
  - rewrite a_join_cons2. rewrite <- a_app_assoc. rewrite a_rstrip_char_app.
    rewrite IH; [|discriminate|assumption].
    assert (Hj : Uml.join "::" (y :: r') <> "").
    { apply a_join_ne; [discriminate | apply a_names_ne; assumption]. }
    destruct (Uml.join "::" (y :: r')) eqn:E; [congruence|]. rewrite a_app_assoc. reflexivity.
Qed.

(* ---------------------------------------------------------------- foldM *)

Lemma a_foldM_app : forall (A St : Type) (f : St -> A -> option St) (l1 l2 : list A) (s : St),
  foldM f (l1 ++ l2)%list s = match foldM f l1 s with Some s' => foldM f l2 s' | None => None end.
Proof.
  intros A St f l1. induction l1 as [|x r IH]; intros l2 s; [reflexivity|].
  cbn [app foldM]. unfold bind. destruct (f s x) as [s'|]; [apply IH | reflexivity].
Qed.

Lemma a_foldM_skip : forall (A St : Type) (f : St -> A -> option St) (l : list A) (s : St),
  (forall x, In x l -> forall s, f s x = Some s) -> foldM f l s = Some s.
Proof.
  intros A St f l. induction l as [|x r IH]; intros s H; [reflexivity|].
  cbn [foldM]. rewrite (H x (or_introl eq_refl)). unfold bind. apply IH.
  intros y Hy. apply H. right. exact Hy.
Qed.

(* ---------------------------------------------------------------- GetNestedTypeNamesFromNestedTypeIDS *)

Lemma a_names_fold : forall S g ids acc, g_names S g -> forallb (known S) ids = true ->
  foldM (fun acc t => e <- g t ;; Some (acc ++ ve_name e ++ "::")) ids acc
  = Some (acc ++ a_cat (map (fun i => ostr (name_of S i)) ids)).
Proof.
  intros S g ids. induction ids as [|x r IH]; intros acc Hg H.
  - cbn [foldM map a_cat]. rewrite a_app_nil_r. reflexivity.
  - cbn [forallb] in H. a_split. cbn [foldM map a_cat].
    match goal with H : known S x = true |- _ => unfold known in H; rename H into Hk end.
    destruct (name_of S x) as [n|] eqn:En; [|discriminate Hk].
    destruct (Hg x n En) as [v [Hv Hn]]. rewrite Hv. unfold bind at 2. unfold bind at 1.
    rewrite IH by assumption. rewrite Hn. cbn [ostr]. rewrite !a_app_assoc. reflexivity.
Qed.

Lemma a_path_known : forall S ids, path_ok S ids = true -> forallb (known S) ids = true.
Proof.
  intros S ids. unfold path_ok. induction ids as [|x r IH]; intro H; [reflexivity|].
  cbn [forallb] in *. a_split. rewrite IH by assumption.
  match goal with H : known S x = true |- _ => rewrite H end. reflexivity.
Qed.

Lemma a_path_ident : forall S ids, path_ok S ids = true -> forallb ident ids = true.
Proof.
  intros S ids. unfold path_ok. induction ids as [|x r IH]; intro H; [reflexivity|].
  cbn [forallb] in *. a_split. rewrite IH by assumption.
  match goal with H : ident x = true |- _ => rewrite H end. reflexivity.
Qed.

Lemma a_path_names : forall S ids, path_ok S ids = true ->
  forallb (fun n => no_char ":" n && negb (String.eqb n "")) (map (fun i => ostr (name_of S i)) ids) = true.
Proof.
  intros S ids. unfold path_ok. induction ids as [|x r IH]; intro H; [reflexivity|].
  cbn [forallb map] in *. a_split. rewrite IH by assumption.
  match goal with H : ident (ostr (name_of S x)) = true |- _ => unfold ident in H end. a_split.
  repeat match goal with H : _ = true |- _ => rewrite H; clear H end. reflexivity.
Qed.

Lemma a_nested : forall S g ids, g_names S g -> ids <> [] -> path_ok S ids = true ->
  nested_type_names g (path_text ids) = Some (type_name S ids).
Proof.
  intros S g ids Hg Hn H. unfold nested_type_names, path_text.
  rewrite a_split_join; [|exact Hn|apply a_idents_nocolon; apply (a_path_ident S); exact H].
  rewrite (a_names_fold S g ids "" Hg (a_path_known S ids H)). unfold bind. cbn [append].
  rewrite a_rstrip_cat; [reflexivity| |apply a_path_names; exact H].
  destruct ids; [congruence | discriminate].
Qed.

Lemma a_last_split : forall S ids, ids <> [] -> path_ok S ids = true -> last_of (split_on ":" (path_text ids)) = last ids "".
Proof.
  intros S ids Hn H. unfold path_text, last_of.
  rewrite a_split_join; [reflexivity|exact Hn|apply a_idents_nocolon; apply (a_path_ident S); exact H].
Qed.

(* ---------------------------------------------------------------- values the reader keeps *)

(* a written value survives the reader: something besides commas and blanks is left *)
Definition a_kept (s : string) : bool := negb (String.eqb (py_strip (remove_char "," s)) "").

Lemma a_remove_none : forall c s, no_char c s = true -> remove_char c s = s.
Proof.
  intros c s. induction s as [|x s IH]; intro H; [reflexivity|].
  cbn [no_char] in H. apply andb_true_iff in H. destruct H as [H1 H2]. apply negb_true_iff in H1.
  cbn [remove_char]. rewrite H1, (IH H2). reflexivity.
Qed.

Lemma a_txt_kept : forall s, txt s = true -> negb (String.eqb s "") = true -> a_kept s = true.
Proof.
  intros s H Hn. unfold a_kept. unfold txt in H. a_split.
  rewrite a_remove_none by assumption.
  match goal with H : String.eqb (py_strip s) s = true |- _ => apply String.eqb_eq in H; rewrite H end. exact Hn.
Qed.

Lemma a_vtxt_kept : forall s, vtxt s = true -> String.eqb s "" = false -> a_kept s = true.
Proof.
  intros s H Hn. unfold vtxt in H. a_split.
  match goal with H : (String.eqb s "" || _)%bool = true |- _ => rewrite Hn in H; cbn [orb] in H; exact H end.
Qed.

(* ---------------------------------------------------------------- the body dictionary of an element *)

Lemma a_layout_parts : forall f l, layout_ok f l = true ->
  nodup_tags l [] = true /\ nodups (entry_keys (items_of "" f l)) = true
  /\ forallb (fun k => negb (prefixb "child_" k)) (entry_keys (items_of "" f l)) = true
  /\ forallb (fun s => match s with SNoise k v => noise_key k && noise_val v | _ => true end) l = true
  /\ (forall t it, f t = Some it -> has_tag t l = true).
Proof.
  intros f l H. unfold layout_ok in H.
  apply andb_true_iff in H. destruct H as [H H5]. apply andb_true_iff in H. destruct H as [H H4].
  apply andb_true_iff in H. destruct H as [H H3]. apply andb_true_iff in H. destruct H as [H1 H2].
  repeat split; try assumption.
  intros t it Hf. cbn [forallb] in H5. a_split.
  destruct t; match goal with H : match f ?T with Some _ => _ | None => _ end = true |- has_tag ?T l = true => rewrite Hf in H; exact H end.
Qed.

(* the properties, then the owned elements (of inert properties too) numbered child_0, child_1 ... *)
Lemma a_body : forall ws f l, layout_ok f l = true ->
  body_pv (items_of ws f l) = PDict (entries (items_of ws f l) ++ numbered (map node_pv (children_of (items_of ws f l))) 0)%list.
Proof.
  intros ws f l H. destruct (a_layout_parts f l H) as [_ [H2 [H3 _]]].
  apply body_explicit; rewrite entry_keys_ws; assumption.
Qed.

(* a noise key is none of the keys the adaptor asks for *)
Lemma a_noise_not_reserved : forall kn k, noise_key kn = true -> existsb (String.eqb k) reserved_keys = true -> kn <> k.
Proof.
  intros kn k H Hk E. subst kn. unfold noise_key in H. a_split.
  match goal with H : negb (existsb (String.eqb k) reserved_keys) = true |- _ => rewrite Hk in H; discriminate H end.
Qed.

(* a key the reader asks for in an element of kind K is written by ONE tag only: neither noise nor inert properties have it *)
Lemma a_lookup : forall K ws f l k t0, layout_ok f l = true -> inerts_ok K l = true ->
  existsb (String.eqb k) reserved_keys = true -> existsb (String.eqb k) (kind_keys K) = true ->
  (forall t, t <> t0 -> lookup String.eqb k (tag_entries f t) = None) ->
  lookup String.eqb k (entries (items_of ws f l)) = lookup String.eqb k (tag_entries f t0).
Proof.
  intros K ws f l k t0 H Hi Hk HK Ho. destruct (a_layout_parts f l H) as [_ [_ [_ [H4 H5]]]].
  rewrite lookup_drop_noise.
  - rewrite (lookup_single_tag f (tags_of l) k t0 Ho), <- has_tag_tags_of.
    unfold tag_entries at 2. destruct (f t0) as [it|] eqn:E.
    + rewrite (H5 t0 it E). unfold tag_entries. rewrite E. reflexivity.
    + destruct (has_tag t0 l); [unfold tag_entries; rewrite E|]; reflexivity.
  - intros s Hin. destruct s as [kn vn|t|it]; [|trivial|].
    + rewrite forallb_forall in H4. specialize (H4 _ Hin). cbn beta iota in H4. a_split.
      apply a_noise_not_reserved; assumption.
    + intro Hk2. destruct (inert_key_free K l it k Hi Hin Hk2) as [E _]. rewrite E in HK. discriminate HK.
Qed.

(* the same in the whole body dictionary: the numbered owned elements do not have the key either *)
Lemma a_lookup_body : forall K ws f l k t0 vals, layout_ok f l = true -> inerts_ok K l = true ->
  existsb (String.eqb k) reserved_keys = true -> existsb (String.eqb k) (kind_keys K) = true -> prefixb "child_" k = false ->
  (forall t, t <> t0 -> lookup String.eqb k (tag_entries f t) = None) ->
  lookup String.eqb k (entries (items_of ws f l) ++ numbered vals 0)%list = lookup String.eqb k (tag_entries f t0).
Proof.
  intros K ws f l k t0 vals H Hi Hk HK Hp Ho.
  rewrite lookup_app, lookup_numbered_none by exact Hp. rewrite (a_lookup K ws f l k t0 H Hi Hk HK Ho).
  destruct (lookup String.eqb k (tag_entries f t0)); reflexivity.
Qed.

(* what the fields write *)
Definition a_text (k v : string) : list (string * UmlBlob.pv) := if String.eqb v "" then [] else [(k, PStr v)].
Definition a_flag (k : string) (b : bool) : list (string * UmlBlob.pv) := if b then [(k, PStr "T")] else [].
Definition a_ref (k : string) (ids : list string) : list (string * UmlBlob.pv) :=
  match ids with [] => [] | _ => [(k ++ "_0", PStr (path_text ids))] end.
Definition a_doc (ws : string) (d : sdoc) : list (string * UmlBlob.pv) :=
  match doc_field ws d with Some _ => [("documentation_plain", PStr (doc_value d))] | None => [] end.

Lemma a_text_entries : forall ws k v, vtxt v = true ->
  match text_field ws k v with Some it => item_entries it | None => [] end = a_text k v.
Proof.
  intros ws k v Hv. unfold text_field, a_text. destruct (String.eqb v "") eqn:E; [reflexivity|].
  cbn [item_entries]. rewrite a_unq_q.
  pose proof (a_vtxt_kept v Hv E) as Hk. unfold a_kept in Hk. apply negb_true_iff in Hk. rewrite Hk. reflexivity.
Qed.
Lemma a_flag_entries : forall ws k b, match flag_field ws k b with Some it => item_entries it | None => [] end = a_flag k b.
Proof. intros. unfold flag_field, a_flag. destruct b; reflexivity. Qed.
Lemma a_ref_entries : forall ws k ids, match ref_field ws k ids with Some it => item_entries it | None => [] end = a_ref k ids.
Proof. intros. unfold ref_field, a_ref. destruct ids; reflexivity. Qed.
Lemma a_doc_entries : forall nl n d, nl_ok nl = true -> doc_ok (tabsn nl n) d = true ->
  match doc_field (tabsn nl n) d with Some it => item_entries it | None => [] end = a_doc (tabsn nl n) d.
Proof.
  intros nl n d Hnl Hd. unfold a_doc. destruct (doc_field (tabsn nl n) d) as [it|] eqn:E; [|reflexivity].
  destruct (doc_entries nl n d it Hnl Hd E) as [E1 _]. exact E1.
Qed.
Lemma a_code_entries : forall ws k c, code_ok (Some c) = true -> item_entries (IField ws k c) = [(k, PStr c)].
Proof.
  intros ws k c H. cbn [code_ok] in H. a_split. cbn [item_entries].
  rewrite a_unq_plain by (apply negb_true_iff; assumption).
  pose proof (a_txt_kept c ltac:(assumption) ltac:(assumption)) as Hk. unfold a_kept in Hk. apply negb_true_iff in Hk.
  rewrite Hk. reflexivity.
Qed.

(* ---------------------------------------------------------------- attributes *)

Definition a_attr_entries (a : sattr) (t : tag) : list (string * UmlBlob.pv) :=
  match t with
  | TVis => match sa_vis a with Some c => [("visibility", PStr c)] | None => [] end
  | TType => a_ref "type" (sa_type a)
  | TTypeMod => a_text "typeModifier" (sa_mod a)
  | TMult => a_text "multiplicity" (sa_mult a)
  | TDoc => a_doc (tabsn (sa_nl a) 3) (sa_doc a)
  | TInit => a_text "initialValue_string" (sa_init a)
  | TSetter => a_flag "hasSetter" (sa_setter a)
  | TGetter => a_flag "hasGetter" (sa_getter a)
  | TScope => if sa_static a then [("scope", PStr "65")] else []
  | TReadOnly => a_flag "readOnly" (sa_const a)
  | _ => []
  end.

Lemma a_attr_tag : forall S a t, attr_ok S a = true -> tag_entries (attr_item a) t = a_attr_entries a t.
Proof.
  intros S a t H. unfold attr_ok in H. a_split. unfold tag_entries.
  destruct t; cbn [attr_item a_attr_entries]; rewrite ?a_text_entries by assumption;
    rewrite ?a_flag_entries, ?a_ref_entries; rewrite ?a_doc_entries by assumption; try reflexivity.
  - destruct (sa_vis a) as [c|]; [|reflexivity]. apply a_code_entries. assumption.
  - destruct (sa_static a); reflexivity.
Qed.

Ltac a_attr_other S Hok :=
  let t := fresh "t" in let Ht := fresh "Ht" in
  intros t Ht; rewrite (a_attr_tag S) by exact Hok; destruct t; try (exfalso; apply Ht; reflexivity);
  cbn [a_attr_entries]; unfold a_text, a_flag, a_ref, a_doc; try reflexivity;
  repeat match goal with |- context [match ?x with _ => _ end] => destruct x end; reflexivity.

Lemma a_attr_lookup : forall S a k t0 vals, attr_ok S a = true -> existsb (String.eqb k) reserved_keys = true ->
  existsb (String.eqb k) (kind_keys KAttr) = true -> prefixb "child_" k = false ->
  (forall t, t <> t0 -> lookup String.eqb k (tag_entries (attr_item a) t) = None) ->
  lookup String.eqb k (entries (items_of (tabsn (sa_nl a) 3) (attr_item a) (sa_layout a)) ++ numbered vals 0)%list
  = lookup String.eqb k (a_attr_entries a t0).
Proof.
  intros S a k t0 vals H Hk HK Hp Ho. rewrite <- (a_attr_tag S) by exact H.
  unfold attr_ok in H. a_split. apply (a_lookup_body KAttr); assumption.
Qed.

Lemma a_head_name : forall a b c d, sidx "name" (PDict [("id", a); ("name", PStr b); ("type", c); ("child_0", d)]) = Some b.
Proof. reflexivity. Qed.
Lemma a_head_child : forall a b c d, idx "child_0" (PDict [("id", a); ("name", b); ("type", c); ("child_0", d)]) = Some d.
Proof. reflexivity. Qed.

Lemma a_opt_text : forall k E v, lookup String.eqb k E = lookup String.eqb k (a_text k v) -> opt_field k (PDict E) "" = Some v.
Proof.
  intros k E v H. unfold opt_field, sidx, has, idx. rewrite mem_lookup, H. unfold a_text.
  destruct (String.eqb v "") eqn:Ev.
  - apply String.eqb_eq in Ev. subst v. reflexivity.
  - cbn [lookup]. rewrite String.eqb_refl. reflexivity.
Qed.

Lemma a_opt_doc : forall E ws d, lookup String.eqb "documentation_plain" E = lookup String.eqb "documentation_plain" (a_doc ws d) ->
  opt_field "documentation_plain" (PDict E) "" = Some (doc_value d).
Proof.
  intros E ws d H. unfold opt_field, sidx, has, idx. rewrite mem_lookup, H. unfold a_doc.
  destruct (doc_field ws d) as [it|] eqn:Ed.
  - reflexivity.
  - rewrite (doc_absent ws d Ed). reflexivity.
Qed.

Lemma a_has_flag : forall k E b, lookup String.eqb k E = lookup String.eqb k (a_flag k b) -> has k (PDict E) = b.
Proof.
  intros k E b H. unfold has. rewrite mem_lookup, H. unfold a_flag. destruct b; [|reflexivity].
  cbn [lookup]. rewrite String.eqb_refl. reflexivity.
Qed.

Lemma build_attr : goal_attr.
Proof.
  intros S g a Hg Hok. pose proof Hok as Hok'. unfold attr_ok in Hok'. a_split.
  unfold tree_of_attr. rewrite node_explicit.
  rewrite (a_body _ _ _ ltac:(eassumption)).
  remember (entries (items_of (tabsn (sa_nl a) 3) (attr_item a) (sa_layout a))
            ++ numbered (map node_pv (children_of (items_of (tabsn (sa_nl a) 3) (attr_item a) (sa_layout a)))) 0)%list as E eqn:HE.
  assert (Lvis : lookup String.eqb "visibility" E = lookup String.eqb "visibility" (a_attr_entries a TVis))
    by (subst E; apply (a_attr_lookup S); [exact Hok | reflexivity | reflexivity | reflexivity | a_attr_other S Hok]).
  assert (Lmod : lookup String.eqb "typeModifier" E = lookup String.eqb "typeModifier" (a_attr_entries a TTypeMod))
    by (subst E; apply (a_attr_lookup S); [exact Hok | reflexivity | reflexivity | reflexivity | a_attr_other S Hok]).
  assert (Lty : lookup String.eqb "type_0" E = lookup String.eqb "type_0" (a_attr_entries a TType))
    by (subst E; apply (a_attr_lookup S); [exact Hok | reflexivity | reflexivity | reflexivity | a_attr_other S Hok]).
  assert (Ldoc : lookup String.eqb "documentation_plain" E = lookup String.eqb "documentation_plain" (a_attr_entries a TDoc))
    by (subst E; apply (a_attr_lookup S); [exact Hok | reflexivity | reflexivity | reflexivity | a_attr_other S Hok]).
  assert (Lsc : lookup String.eqb "scope" E = lookup String.eqb "scope" (a_attr_entries a TScope))
    by (subst E; apply (a_attr_lookup S); [exact Hok | reflexivity | reflexivity | reflexivity | a_attr_other S Hok]).
  assert (Lini : lookup String.eqb "initialValue_string" E = lookup String.eqb "initialValue_string" (a_attr_entries a TInit))
    by (subst E; apply (a_attr_lookup S); [exact Hok | reflexivity | reflexivity | reflexivity | a_attr_other S Hok]).
  assert (Lmu : lookup String.eqb "multiplicity" E = lookup String.eqb "multiplicity" (a_attr_entries a TMult))
    by (subst E; apply (a_attr_lookup S); [exact Hok | reflexivity | reflexivity | reflexivity | a_attr_other S Hok]).
  assert (Lset : lookup String.eqb "hasSetter" E = lookup String.eqb "hasSetter" (a_attr_entries a TSetter))
    by (subst E; apply (a_attr_lookup S); [exact Hok | reflexivity | reflexivity | reflexivity | a_attr_other S Hok]).
  assert (Lget : lookup String.eqb "hasGetter" E = lookup String.eqb "hasGetter" (a_attr_entries a TGetter))
    by (subst E; apply (a_attr_lookup S); [exact Hok | reflexivity | reflexivity | reflexivity | a_attr_other S Hok]).
  assert (Lro : lookup String.eqb "readOnly" E = lookup String.eqb "readOnly" (a_attr_entries a TReadOnly))
    by (subst E; apply (a_attr_lookup S); [exact Hok | reflexivity | reflexivity | reflexivity | a_attr_other S Hok]).
  clear HE. cbn [a_attr_entries] in *.
  unfold parse_attribute. rewrite a_head_name, a_head_child. cbn [bind name_text].
  rewrite (a_opt_text _ _ _ Lmod), (a_opt_doc _ _ _ Ldoc), (a_opt_text _ _ _ Lmu).
  rewrite (a_has_flag _ _ _ Lset), (a_has_flag _ _ _ Lget), (a_has_flag _ _ _ Lro).
  assert (Pvis : (if has "visibility" (PDict E) then x <- idx "visibility" (PDict E);; Some (visibility_str x) else Some "private")
                 = Some (match sa_vis a with Some c => vis_of_code c | None => "private" end)).
  { unfold has, idx. rewrite mem_lookup, Lvis. destruct (sa_vis a) as [c|]; [|reflexivity].
    cbn [lookup]. rewrite String.eqb_refl. reflexivity. }
  assert (Pty : (if has "type_0" (PDict E)
                 then t <- sidx "type_0" (PDict E);; n <- nested_type_names g t;; Some (clean_modifiers n) else Some "void")
                = Some (match sa_type a with [] => "void" | ids => clean_modifiers (type_name S ids) end)).
  { unfold has, sidx, idx. rewrite mem_lookup, Lty. unfold a_ref. destruct (sa_type a) as [|x r]; [reflexivity|].
    change ("type" ++ "_0") with "type_0". cbn [lookup]. rewrite String.eqb_refl. cbn [bind as_str].
    match goal with H : tpath_ok S (x :: r) = true |- _ => unfold tpath_ok in H end. a_split.
    rewrite (a_nested S g (x :: r) Hg) by (assumption || discriminate). reflexivity. }
  assert (Psc : (if has "scope" (PDict E) then x <- idx "scope" (PDict E);; Some (pv_is "65" x) else Some false) = Some (sa_static a)).
  { unfold has, idx. rewrite mem_lookup, Lsc. destruct (sa_static a); reflexivity. }
  assert (Pini : (if has "initialValue_string" (PDict E) then x <- sidx "initialValue_string" (PDict E);; Some (Some x) else Some None)
                 = Some (if String.eqb (sa_init a) "" then None else Some (sa_init a))).
  { unfold has, sidx, idx. rewrite mem_lookup, Lini. unfold a_text. destruct (String.eqb (sa_init a) ""); [reflexivity|].
    cbn [lookup]. rewrite String.eqb_refl. reflexivity. }
  rewrite Pvis, Pty, Psc, Pini. reflexivity.
Qed.

Print Assumptions build_attr.

(* ---------------------------------------------------------------- the top dictionary of a row *)

Lemma a_over_top : forall (St : Type) (f : St -> string * UmlBlob.pv -> option St) (s : St) a b c E,
  over_children (PDict [("id", a); ("name", b); ("type", c); ("child_0", PDict E)]) f s = foldM f E s.
Proof.
  intros. unfold over_children. cbn [items bind foldM fst snd].
  change (is_child_key "id") with false. change (is_child_key "name") with false. change (is_child_key "type") with false.
  change (is_child_key "child_0") with true. cbn [bind items]. destruct (foldM f E s); reflexivity.
Qed.

Lemma a_child_key : forall s, is_child_key ("Child" ++ "_" ++ s) = true.
Proof. intro s. reflexivity. Qed.

Lemma a_noise_not_child : forall k, noise_key k = true -> is_child_key k = false.
Proof.
  intros k H. unfold noise_key in H. a_split.
  match goal with H : forallb _ reserved_parts = true |- _ => cbn [forallb reserved_parts] in H end. a_split.
  unfold is_child_key. apply negb_true_iff. assumption.
Qed.

Lemma a_nodup_seen : forall l seen t, nodup_tags l seen = true -> existsb (tag_eqb t) seen = true -> has_tag t l = false.
Proof.
  induction l as [|s r IH]; intros seen t H Hs; [reflexivity|].
  destruct s as [k v|x|it].
  - cbn [nodup_tags] in H. unfold has_tag. cbn [existsb orb]. apply (IH seen t H Hs).
  - cbn [nodup_tags] in H. a_split. unfold has_tag. cbn [existsb]. apply orb_false_iff. split.
    + destruct (tag_eqb x t) eqn:E; [|reflexivity]. apply tag_eqb_eq in E. subst x.
      match goal with H : negb _ = true |- _ => rewrite Hs in H; discriminate H end.
    + apply (IH (x :: seen) t); [assumption|]. cbn [existsb]. rewrite Hs. apply orb_true_r.
  - cbn [nodup_tags] in H. unfold has_tag. cbn [existsb orb]. apply (IH seen t H Hs).
Qed.

(* ---------------------------------------------------------------- packages *)

Definition a_pkg_step (acc : list string) (kv : string * UmlBlob.pv) : option (list string) :=
  if is_child_key (fst kv) then match snd kv with PStr s => Some (acc ++ [py_strip s])%list | PDict _ => Some acc end
  else Some acc.

Lemma a_pkg_indexed : forall xs n acc, foldM a_pkg_step (indexed "Child" xs n) acc = Some (acc ++ map py_strip xs)%list.
Proof.
  induction xs as [|x r IH]; intros n acc.
  - cbn [indexed foldM map]. rewrite app_nil_r. reflexivity.
  - cbn [indexed foldM map]. unfold a_pkg_step at 1. cbn [fst snd]. rewrite a_child_key. cbn [bind].
    rewrite IH, <- app_assoc. reflexivity.
Qed.

(* a property none of whose keys holds "child" is skipped, however many entries it has *)
Lemma a_pkg_skip : forall it acc, (forall k, In k (item_keys it) -> is_child_key k = false) ->
  foldM a_pkg_step (entries [it]) acc = Some acc.
Proof.
  intros it acc H. apply a_foldM_skip. intros x Hx s. unfold a_pkg_step.
  rewrite (H (fst x)); [reflexivity|]. rewrite <- entry_keys_one, <- entries_keys. apply in_map. exact Hx.
Qed.

(* owned elements are dictionaries: skipped *)
Lemma a_pkg_nodes : forall ns n acc, foldM a_pkg_step (numbered (map node_pv ns) n) acc = Some acc.
Proof.
  induction ns as [|x r IH]; intros n acc; [reflexivity|].
  cbn [map numbered foldM]. unfold a_pkg_step at 1. cbn [fst snd].
  destruct x as [id nm ty its tl]. rewrite node_explicit.
  destruct (is_child_key ("child_" ++ dec n)); cbn [bind]; apply IH.
Qed.

Lemma a_paths_strip : forall ps,
  forallb (fun path => negb (match path with [] => true | _ => false end) && forallb ident path) ps = true ->
  map py_strip (map path_text ps) = map path_text ps.
Proof.
  induction ps as [|x r IH]; intro H; [reflexivity|].
  cbn [forallb] in H. a_split. cbn [map]. rewrite IH by assumption. f_equal.
  apply a_path_strip; [|assumption]. destruct x; [discriminate | discriminate].
Qed.

Lemma a_inert_not_child : forall it k, inert_ok KPackage it = true -> In k (item_keys it) -> is_child_key k = false.
Proof.
  intros it k H Hk. unfold inert_ok in H. a_split.
  match goal with H : forallb _ (item_keys it) = true |- _ => rewrite forallb_forall in H; specialize (H _ Hk) end.
  a_split. match goal with H : forallb _ (kind_parts KPackage) = true |- _ => cbn [kind_parts forallb] in H end. a_split.
  unfold is_child_key. apply negb_true_iff. assumption.
Qed.

Lemma a_pkg_fold : forall ws p l seen acc,
  nodup_tags l seen = true ->
  forallb (fun s => match s with SNoise k v => noise_key k && noise_val v | _ => true end) l = true ->
  forallb (fun s => match s with SInert it => inert_ok KPackage it | _ => true end) l = true ->
  forallb (fun path => negb (match path with [] => true | _ => false end) && forallb ident path) (sk_paths p) = true ->
  foldM a_pkg_step (entries (items_of ws (package_item p) l)) acc
  = Some (acc ++ (if has_tag TChild l then map path_text (sk_paths p) else []))%list.
Proof.
  intros ws p l. induction l as [|s r IH]; intros seen acc Hn Hk Hi Hp.
  - cbn [items_of flat_map entries foldM has_tag existsb]. rewrite app_nil_r. reflexivity.
  - cbn [forallb] in Hk, Hi. a_split. rewrite items_of_cons, entries_app, a_foldM_app.
    destruct s as [k v|t|it].
    + cbn [nodup_tags] in Hn. a_split. rewrite a_pkg_skip.
      * unfold has_tag. cbn [existsb orb]. apply (IH seen acc); assumption.
      * intros k0 Hk0. cbn [item_keys] in Hk0.
        destruct (String.eqb (py_strip (remove_char "," (unq v))) ""); [destruct Hk0|].
        destruct Hk0 as [Hk0|[]]. subst k0. apply a_noise_not_child. assumption.
    + cbn [nodup_tags] in Hn. a_split. rewrite tag_item_entries.
      destruct (tag_eqb t TChild) eqn:Et.
      * apply tag_eqb_eq in Et. subst t.
        assert (Hr : has_tag TChild r = false) by (apply (a_nodup_seen r (TChild :: seen)); [assumption | reflexivity]).
        unfold has_tag at 1. cbn [existsb tag_eqb orb].
        unfold tag_entries. cbn [package_item]. destruct (sk_paths p) as [|x ps] eqn:Eps.
        { cbn [foldM]. rewrite (IH (TChild :: seen) acc) by (assumption || (rewrite Eps; assumption)). rewrite Hr. reflexivity. }
        { cbn [item_entries]. rewrite a_pkg_indexed. rewrite a_paths_strip by assumption.
          rewrite (IH (TChild :: seen)) by (assumption || (rewrite Eps; assumption)). rewrite Hr, app_nil_r. reflexivity. }
      * assert (Ee : tag_entries (package_item p) t = []) by (unfold tag_entries; destruct t; try reflexivity; discriminate Et).
        rewrite Ee. cbn [foldM]. unfold has_tag. cbn [existsb]. rewrite Et. cbn [orb].
        apply (IH (t :: seen) acc); assumption.
    + cbn [nodup_tags] in Hn. rewrite a_pkg_skip.
      * unfold has_tag. cbn [existsb orb]. apply (IH seen acc); assumption.
      * intros k0 Hk0. apply (a_inert_not_child it); assumption.
Qed.

Lemma a_forallb_imp : forall (A : Type) (P Q : A -> bool) l,
  (forall x, P x = true -> Q x = true) -> forallb P l = true -> forallb Q l = true.
Proof.
  intros A P Q l H. induction l as [|x l IH]; intro Hl; [reflexivity|].
  cbn [forallb] in *. apply andb_true_iff in Hl. destruct Hl as [H1 H2]. rewrite (H _ H1), (IH H2). reflexivity.
Qed.

Lemma build_package : goal_package.
Proof.
  intros S P v p Hok HP Hid Hname. unfold package_ok in Hok. a_split.
  unfold parse_package. rewrite HP. cbn [bind]. unfold tree_of_package. rewrite top_explicit.
  rewrite (a_body _ _ _ ltac:(eassumption)). rewrite a_over_top.
  destruct (a_layout_parts _ _ ltac:(eassumption)) as [L1 [_ [_ [L4 L5]]]].
  assert (Hp : forallb (fun path => negb (match path with [] => true | _ => false end) && forallb ident path) (sk_paths p) = true).
  { match goal with H : forallb _ (sk_paths p) = true |- _ => revert H end. apply a_forallb_imp.
    intros x Hx. a_split. apply andb_true_iff. split; assumption. }
  assert (Li : forallb (fun s => match s with SInert it => inert_ok KPackage it | _ => true end) (sk_layout p) = true)
    by (match goal with H : inerts_ok KPackage (sk_layout p) = true |- _ => exact H end).
  change (fun (acc : list string) (kv : string * UmlBlob.pv) =>
            if is_child_key (fst kv) then match snd kv with PStr s => Some (acc ++ [py_strip s])%list | PDict _ => Some acc end
            else Some acc) with a_pkg_step.
  rewrite a_foldM_app, (a_pkg_fold (tabsn (sk_nl p) 1) p (sk_layout p) [] [] L1 L4 Li Hp), a_pkg_nodes. cbn [app].
  unfold rpackage_of. rewrite Hid, Hname. f_equal. f_equal.
  destruct (sk_paths p) as [|x ps] eqn:Eps.
  - destruct (has_tag TChild (sk_layout p)); reflexivity.
  - rewrite (L5 TChild (IRefs (tabsn (sk_nl p) 1) "Child" (list_open (sk_nl p) 2) (list_sep (sk_nl p) 2) (list_close (sk_nl p) 1) (map path_text (x :: ps)))); [reflexivity|].
    cbn [package_item]. rewrite Eps. reflexivity.
Qed.

Print Assumptions build_package.

(* ---------------------------------------------------------------- inheritances *)

Lemma a_inh_tag : forall i t, tag_entries (inh_item i) t =
  match t with TFrom => a_ref "fromModel" (si_from i) | TTo => a_ref "toModel" (si_to i) | _ => [] end.
Proof. intros i t. unfold tag_entries. destruct t; cbn [inh_item]; rewrite ?a_ref_entries; reflexivity. Qed.

Ltac a_inh_other :=
  let t := fresh "t" in let Ht := fresh "Ht" in
  intros t Ht; rewrite a_inh_tag; destruct t; try (exfalso; apply Ht; reflexivity); try reflexivity;
  unfold a_ref; repeat match goal with |- context [match ?x with _ => _ end] => destruct x end; reflexivity.

Lemma a_inh_top : forall (f : rinh -> string * UmlBlob.pv -> option rinh) r a b c d,
  (forall r kv, is_child_key (fst kv) = false -> f r kv = Some r) ->
  foldM f [("id", a); ("name", b); ("type", c); ("child_0", d)] r = f r ("child_0", d).
Proof.
  intros f r a b c d H. cbn [foldM].
  rewrite (H r ("id", a)) by reflexivity. cbn [bind]. rewrite (H r ("name", b)) by reflexivity. cbn [bind].
  rewrite (H r ("type", c)) by reflexivity. cbn [bind].
  destruct (f r ("child_0", d)); reflexivity.
Qed.

Lemma build_inh : goal_inh.
Proof.
  intros S g P v i real Hg Hok HP Hid. unfold inh_ok in Hok. a_split.
  unfold parse_inheritance. rewrite HP. cbn [bind]. unfold tree_of_inh. rewrite top_explicit.
  rewrite (a_body _ _ _ ltac:(eassumption)). cbn [items bind].
  rewrite a_inh_top by (intros r kv Hc; cbn beta; rewrite Hc; reflexivity).
  cbn [fst snd]. change (is_child_key "child_0") with true. cbn iota.
  remember (entries (items_of (tabsn (si_nl i) 1) (inh_item i) (si_layout i))
            ++ numbered (map node_pv (children_of (items_of (tabsn (si_nl i) 1) (inh_item i) (si_layout i)))) 0)%list as E eqn:HE.
  assert (Lf : lookup String.eqb "fromModel_0" E = lookup String.eqb "fromModel_0" (a_ref "fromModel" (si_from i))).
  { subst E. rewrite (a_lookup_body KInh _ _ _ "fromModel_0" TFrom);
      [rewrite a_inh_tag; reflexivity | assumption | assumption | reflexivity | reflexivity | reflexivity | a_inh_other]. }
  assert (Lt : lookup String.eqb "toModel_0" E = lookup String.eqb "toModel_0" (a_ref "toModel" (si_to i))).
  { subst E. rewrite (a_lookup_body KInh _ _ _ "toModel_0" TTo);
      [rewrite a_inh_tag; reflexivity | assumption | assumption | reflexivity | reflexivity | reflexivity | a_inh_other]. }
  clear HE. unfold sidx, idx. rewrite Lf, Lt. unfold a_ref.
  destruct (si_from i) as [|x r] eqn:Ef; [discriminate|]. destruct (si_to i) as [|y r'] eqn:Et; [discriminate|].
  change ("fromModel" ++ "_0") with "fromModel_0". change ("toModel" ++ "_0") with "toModel_0".
  cbn [lookup]. rewrite !String.eqb_refl. cbn [bind as_str].
  rewrite (a_nested S g (x :: r) Hg) by (assumption || discriminate).
  rewrite (a_nested S g (y :: r') Hg) by (assumption || discriminate). cbn [bind].
  rewrite (a_last_split S (x :: r)) by (assumption || discriminate).
  rewrite (a_last_split S (y :: r')) by (assumption || discriminate).
  unfold rinh0. rewrite Ef, Et, Hid. reflexivity.
Qed.

Print Assumptions build_inh.
