(* C19: a concrete semantic class diagram in the domain (non-vacuity and a computed instance of the read-back theorem). *)
From Coq Require Import String Ascii List Bool Arith.
From KV Require Import Lib.Str Model.Vpp Model.VppWriter Model.Uml Model.UmlBlob Model.UmlWriter Model.UmlSem
                       Proofs.UmlBlobDefs Proofs.UmlBlobStruct Proofs.UmlBlobText Proofs.UmlBlobTop Proofs.UmlBlobRound.
Import ListNotations.
Open Scope string_scope.

Definition n1 : slot := SNoise "pmAuthor" (q "kohja").
Definition n2 : slot := SNoise "_modelEditable" "T".
Definition n3 : slot := SNoise "lastModifiedTime" "1585318039382".

(* inert properties: a model view (owned element), a reference list, an HTML documentation (free text), a blank scalar *)
Definition i_view : slot :=
  SInert (IChildren (tabs 1) "_modelViews" (list_open crlf 2) (list_sep crlf 2) (list_close crlf 1)
            [WNode "VIEW000000000001" (Some "View") "ModelView" [IRefs (tabs 3) "container" "" "" "" ["DIAGRAM000000001"]; IField (tabs 3) "view" (q "SH02")] (tabs 2)]).
Definition i_refs : slot := SInert (IRefs (tabs 3) "classifiers" (list_open crlf 4) (list_sep crlf 4) (list_close crlf 3) ["CLASSCOL00000001:X$Y"; "CLASSBAR00000001"]).
Definition i_html : slot :=
  SInert (IRaw (tabs 3 ++ "documentation=" ++ q ("<head> <style> body { color: #000000; font-size: 11px } </style> </head> <p> It" ++ String SQ "s; x=1 {a:b:Operation} </p>") ++ ";")).
Definition i_blank : slot := SInert (IField (tabs 5) "defaultValue_string" (q "")).

Definition p_x : sparam :=
  {| sp_id := "PARAM00000000001"; sp_name := "_x"; sp_basic := Some "int"; sp_type := []; sp_dir := Some true; sp_mod := ""; sp_default := "nullptr, nullptr";
     sp_mult := ""; sp_nl := crlf; sp_layout := [STag TDefault; n1; STag TTypeString; STag TDir; n2] |}.
Definition p_y : sparam :=
  {| sp_id := "PARAM00000000002"; sp_name := "_y"; sp_basic := None; sp_type := ["PKGA000000000001"; "PKGB000000000001"; "CLASSBAR00000001"];
     sp_dir := Some false; sp_mod := "*"; sp_default := ""; sp_mult := "0..*"; sp_nl := crlf; sp_layout := [n3; i_blank; STag TMult; STag TType; STag TTypeMod; STag TDir] |}.
Definition op_f : sop :=
  {| so_id := "OPER000000000001"; so_name := "F"; so_vis := Some "67"; so_ret := ["DTINT00000000001"]; so_retmod := "";
     so_abstract := true; so_query := true; so_static := false; so_doc := DText "Does F."; so_params := [p_x; p_y];
     so_nl := crlf; so_layout := [n2; i_html; STag TChild; STag TVis; STag TQuery; n1; STag TRet; STag TDoc; STag TAbstract] |}.
Definition op_g : sop :=
  {| so_id := "OPER000000000002"; so_name := "operator()"; so_vis := Some "68"; so_ret := []; so_retmod := ""; so_abstract := false; so_query := false;
     so_static := false; so_doc := DText ""; so_params := []; so_nl := crlf; so_layout := [STag TVis; n3] |}.
Definition at_m : sattr :=
  {| sa_id := "ATTR000000000001"; sa_name := "m_count"; sa_vis := None; sa_type := ["DTINT00000000001"]; sa_mod := ""; sa_mult := "4"; sa_doc := DRaw ("It" ++ String SQ "s (really)" ++ String LF "two lines.");
     sa_init := "7"; sa_setter := true; sa_getter := false; sa_static := true; sa_const := true;
     sa_nl := crlf; sa_layout := [STag TReadOnly; n1; STag TInit; STag TDoc; STag TType; STag TScope; STag TSetter; STag TMult] |}.

Definition c_ifoo : sclass :=
  {| sc_id := "CLASSFOO00000001"; sc_name := "IFoo"; sc_parent := Some "PKGA000000000001"; sc_stereos := ["STIFACE000000001"]; sc_abstract := false;
     sc_doc := DText "An interface."; sc_members := [MOp op_f; MOp op_g]; sc_nl := crlf; sc_layout := [n1; STag TChild; STag TStereo; n2; STag TDoc] |}.
Definition c_bar : sclass :=
  {| sc_id := "CLASSBAR00000001"; sc_name := "CBar"; sc_parent := None; sc_stereos := []; sc_abstract := false; sc_doc := DText "";
     sc_members := [MAttr at_m; MOp op_g]; sc_nl := crlf; sc_layout := [i_view; STag TChild; n3] |}.
Definition c_col : sclass :=
  {| sc_id := "CLASSCOL00000001"; sc_name := "EColor"; sc_parent := None; sc_stereos := ["STENUM0000000001"; "STPACKED00000001"]; sc_abstract := true;
     sc_doc := DText ""; sc_members := [MLit "LIT0000000000001" "Red" crlf [n1; i_refs]; MLit "LIT0000000000002" "Green" crlf []];
     sc_nl := crlf; sc_layout := [STag TAbstract; STag TStereo; STag TChild] |}.
Definition k_a : spackage :=
  {| sk_id := "PKGA000000000001"; sk_name := "XA"; sk_parent := None; sk_paths := [["PKGA000000000001"; "CLASSFOO00000001"]]; sk_nl := crlf; sk_layout := [n1; STag TChild] |}.
Definition k_b : spackage :=
  {| sk_id := "PKGB000000000001"; sk_name := "XB"; sk_parent := Some "PKGA000000000001";
     sk_paths := [["PKGA000000000001"; "PKGB000000000001"; "CLASSBAR00000001"]; ["PKGA000000000001"; "PKGB000000000001"; "NOTDRAWN00000001"]];
     sk_nl := crlf; sk_layout := [STag TChild] |}.
Definition i_r : sinh :=
  {| si_id := "INH0000000000001"; si_parent := None; si_real := true; si_from := ["PKGA000000000001"; "CLASSFOO00000001"];
     si_to := ["PKGA000000000001"; "PKGB000000000001"; "CLASSBAR00000001"]; si_nl := String LF ""; si_layout := [STag TTo; n2; STag TFrom] |}.

(* associations: ends in either order, with and without multiplicity / aggregation kind (the defaults depend on the order) *)
Definition e_1f : send :=
  {| se_id := "END0000000000001"; se_name := Some ""; se_class := ["PKGA000000000001"; "CLASSFOO00000001"]; se_mult := ""; se_agg := Some "67";
     se_vis := Some "68"; se_getter := true; se_setter := false; se_const := true;
     se_nl := crlf; se_layout := [STag TVis; n1; STag TAgg; STag TType; STag TReadOnly; STag TGetter; STag TDir] |}.
Definition e_1t : send :=
  {| se_id := "END0000000000002"; se_name := None; se_class := ["PKGA000000000001"; "PKGB000000000001"; "CLASSBAR00000001"]; se_mult := "";
     se_agg := None; se_vis := Some "65"; se_getter := false; se_setter := false; se_const := false;
     se_nl := crlf; se_layout := [STag TDir; STag TVis; STag TType; n2] |}.
Definition x_1 : sassoc :=
  {| sx_id := "ASSOC00000000001"; sx_name := Some "m_bars"; sx_parent := None; sx_doc := DText "Owns, shares."; sx_from := e_1f; sx_to := e_1t;
     sx_nl := crlf; sx_layout := [n3; STag TFrom; STag TDoc; STag TTo] |}.
Definition e_2f : send :=
  {| se_id := "END0000000000003"; se_name := Some ""; se_class := ["CLASSCOL00000001"]; se_mult := "1..*"; se_agg := Some "66";
     se_vis := Some "71"; se_getter := false; se_setter := true; se_const := false;
     se_nl := crlf; se_layout := [STag TMult; STag TSetter; STag TVis; STag TAgg; STag TType; STag TDir] |}.
Definition e_2t : send :=
  {| se_id := "END0000000000004"; se_name := Some ""; se_class := ["PKGA000000000001"; "CLASSFOO00000001"]; se_mult := "";
     se_agg := None; se_vis := None; se_getter := false; se_setter := false; se_const := false;
     se_nl := crlf; se_layout := [STag TType; STag TDir] |}.
Definition x_2 : sassoc :=
  {| sx_id := "ASSOC00000000002"; sx_name := None; sx_parent := None; sx_doc := DText ""; sx_from := e_2f; sx_to := e_2t;
     sx_nl := crlf; sx_layout := [STag TTo; n1; STag TFrom] |}.

Definition ex_S : sdiagram :=
  {| sd_id := "DIAGRAM000000001"; sd_name := "Example";
     sd_shapes := [("SH01", EInh i_r); ("SH02", EClass c_bar); ("SH03", EPackage k_b); ("SH04", EOther "USAGE00000000001" None "Usage" None (String LF "") [n1; SInert (IField (String LF "") "visibility" "66")]);
                   ("SH05", EClass c_ifoo); ("SH06", EPackage k_a); ("SH07", EClass c_col);
                   ("SH08", EAssoc x_1); ("SH09", EAssoc x_2)];
     sd_refd := [{| sr_id := "STIFACE000000001"; sr_name := "Interface"; sr_type := "Stereotype"; sr_parent := None; sr_nl := crlf; sr_noise := [n1] |};
                 {| sr_id := "STENUM0000000001"; sr_name := "enumeration"; sr_type := "Stereotype"; sr_parent := None; sr_nl := crlf; sr_noise := [] |};
                 {| sr_id := "STPACKED00000001"; sr_name := "PackedStruct"; sr_type := "Stereotype"; sr_parent := None; sr_nl := crlf; sr_noise := [] |};
                 {| sr_id := "DTINT00000000001"; sr_name := "int"; sr_type := "DataType"; sr_parent := None; sr_nl := crlf; sr_noise := [n2] |}] |}.

Lemma ex_in_domain : sdiagram_ok ex_S = true /\ wf_drawn (tree_of ex_S) = true.
Proof. split; vm_compute; reflexivity. Qed.

Lemma ex_read_back : load_cdiagram (encode_project ex_S) "Example" = Some (rdiagram_of ex_S).
Proof. vm_compute. reflexivity. Qed.
