(* C09_self_consistent / C10_context_decls at the level of (kind, name, parameter list) triples: every declaration a
   row needs is produced exactly once by the per-element blocks of the file that must hold it. *)
From Coq Require Import String Ascii List Bool Arith Lia FinFun.
From KV Require Import Lib.TableDef Model.TTable Model.DeclShape Gen.DeclTmpl Model.Decls Gen.SmlTmpl Model.SmlTT
                       Proofs.TTableProofs Proofs.TTableSigProofs Proofs.SmlProofs.
Import ListNotations.
Open Scope string_scope.

Definition np_eq_dec : forall a b : string * list string, {a = b} + {a <> b}.
Proof. decide equality; [apply (list_eq_dec string_dec)|apply string_dec]. Defined.

Definition decl_eq_dec : forall a b : decl, {a = b} + {a <> b}.
Proof. decide equality; [apply (list_eq_dec string_dec)|]. decide equality; [apply string_dec|apply dk_eq_dec]. Defined.

Definition dcount (l : list decl) (d : decl) : nat := count_occ decl_eq_dec l d.

Lemma count_app' : forall a b d, dcount (a ++ b) d = dcount a d + dcount b d.
Proof. intros. apply count_occ_app. Qed.

Lemma count_mk_other : forall k k' n p l, k' <> k ->
  dcount (map (fun np : string * list string => (k', fst np, snd np)) l) (k, n, p) = 0.
Proof.
  intros k k' n p l H. unfold dcount. induction l as [|[n' p'] l IH]; [reflexivity|]. cbn [map count_occ fst snd].
  destruct (decl_eq_dec (k', n', p') (k, n, p)) as [E|E]; [congruence|exact IH].
Qed.

Lemma count_mk_same : forall k n p l,
  dcount (map (fun np : string * list string => (k, fst np, snd np)) l) (k, n, p) = count_occ np_eq_dec l (n, p).
Proof.
  intros k n p l. unfold dcount. induction l as [|[n' p'] l IH]; [reflexivity|]. cbn [map count_occ fst snd].
  destruct (decl_eq_dec (k, n', p') (k, n, p)) as [E|E]; destruct (np_eq_dec (n', p') (n, p)) as [E'|E'];
    try congruence; rewrite IH; reflexivity.
Qed.

Lemma count_decls_filter : forall t i k n p shape,
  dcount (decls_of shape t i) (k, n, p) = dcount (decls_of (filter (fun bk => dk_beq (snd bk) k) shape) t i) (k, n, p).
Proof.
  intros t i k n p. induction shape as [|[b k'] shape IH]; [reflexivity|].
  unfold decls_of in *. cbn [flat_map filter snd fst]. rewrite count_app'.
  destruct (dk_beq k' k) eqn:E.
  - cbn [flat_map fst snd]. rewrite count_app', IH. reflexivity.
  - rewrite count_mk_other; [exact IH|]. intro H. subst. rewrite (internal_dk_dec_lb k k eq_refl) in E. discriminate.
Qed.

Lemma declared_once : forall t i shape k b n p,
  block_of_kind shape k = Some b -> NoDup (elements t i b) -> In (n, p) (elements t i b) ->
  dcount (decls_of shape t i) (k, n, p) = 1.
Proof.
  intros t i shape k b n p Hb Hnd Hin. rewrite count_decls_filter. unfold block_of_kind in Hb.
  destruct (filter (fun bk => dk_beq (snd bk) k) shape) as [|[b' k'] [|x l]] eqn:F; try discriminate.
  injection Hb as ->.
  assert (k' = k) as ->.
  { assert (In (b, k') (filter (fun bk => dk_beq (snd bk) k) shape)) as H by (rewrite F; left; reflexivity).
    apply filter_In in H as [_ H]. apply internal_dk_dec_bl. exact H. }
  unfold decls_of. cbn [flat_map fst snd]. rewrite app_nil_r, count_mk_same.
  apply NoDup_count_occ'; assumption.
Qed.

Lemma refs_once : forall t i kinds b n p, kinds_in_block b kinds = true ->
  NoDup (elements t i b) -> In (n, p) (elements t i b) ->
  forall f d, In (f, d) (mk_refs kinds n p) -> dcount (decls_file f t i) d = 1.
Proof.
  intros t i kinds b n p Hk Hnd Hin f d H. unfold mk_refs in H. apply in_map_iff in H as ([f' k] & E & Hfk).
  cbn [fst snd] in E. injection E as <- <-.
  unfold kinds_in_block in Hk. rewrite forallb_forall in Hk. specialize (Hk _ Hfk). cbn [fst snd] in Hk.
  unfold blk_opt_eqb in Hk. destruct (block_of_kind (shape_of f') k) as [b'|] eqn:B; [|discriminate].
  apply internal_blk_dec_bl in Hk. subst b'. unfold decls_file. eapply declared_once; eassumption.
Qed.

(* ---- the element lists are duplicate free *)
Lemma NoDup_map_fst_nil : forall l, NoDup l -> NoDup (map (fun s : string => (s, @nil string)) l).
Proof. intros. apply Injective_map_NoDup; [|assumption]. intros x y E. injection E. auto. Qed.

Lemma NoDup_app' : forall {A} (a b : list A), NoDup a -> NoDup b -> (forall x, In x a -> ~ In x b) -> NoDup (a ++ b).
Proof.
  induction a as [|x a IH]; intros b Ha Hb Hd; [assumption|]. inversion Ha; subst. cbn [app]. constructor.
  - intro H. apply in_app_or in H as [H|H]; [contradiction|]. apply (Hd x); [left; reflexivity|assumption].
  - apply IH; auto. intros y Hy. apply Hd. right. assumption.
Qed.

Lemma NoDup_tps_states : forall t, NoDup (tps_states t).
Proof.
  intro t. rewrite tps_states_all. apply NoDup_app'.
  - apply NoDup_dedup.
  - apply NoDup_filter. apply NoDup_dedup.
  - intros x Hx H. apply filter_In in H as [_ H]. apply negb_true_iff in H.
    apply mem_In in Hx. congruence.
Qed.

Lemma NoDup_elements : forall t i b, NoDup (elements t i b).
Proof.
  intros t i b. destruct b; cbn [elements].
  - apply NoDup_map_fst_nil, NoDup_dedup.
  - apply Injective_map_NoDup; [|apply NoDup_dedup]. intros x y E. injection E. auto.
  - apply NoDup_map_fst_nil, NoDup_dedup.
  - apply Injective_map_NoDup; [|rewrite actionsignatures_pair; apply NoDup_dedup_pair].
    intros [a e] [a' e'] E. cbn [fst snd] in E. injection E. intros. subst. reflexivity.
  - apply NoDup_map_fst_nil, NoDup_dedup.
  - apply NoDup_map_fst_nil, NoDup_tps_states.
Qed.

Lemma in_state_elements : forall t i s, In s (states t) -> In (s, []) (elements t i BState).
Proof. intros. cbn [elements]. apply (in_map (fun s => (s, @nil string))). assumption. Qed.

Lemma in_event_elements : forall t i e, In e (events t) -> In (e, sig_of i e) (elements t i BEvent).
Proof.
  intros. cbn [elements]. apply (in_map (fun e => (e, sig_of i e))). unfold all_events. apply In_dedup.
  apply in_or_app. left. assumption.
Qed.

(* the shapes that Gen/DeclTmpl.v holds NOW declare each needed kind on exactly one line, in the block of the right list *)
Lemma cpp_kinds_ok :
  kinds_in_block BState cpp_state_kinds = true /\ kinds_in_block BEvent cpp_event_kinds = true /\
  kinds_in_block BGuard cpp_guard_kinds = true /\ kinds_in_block BAction cpp_action_kinds = true /\
  kinds_in_block BSig cpp_sig_kinds = true.
Proof. vm_compute. repeat split; reflexivity. Qed.

Lemma cs_kinds_ok :
  kinds_in_block BState cs_state_kinds = true /\ kinds_in_block BEvent cs_event_kinds = true /\
  kinds_in_block BGuard cs_guard_kinds = true /\ kinds_in_block BSig cs_sig_kinds = true /\
  kinds_in_block BTps cs_class_kinds = true.
Proof. vm_compute. repeat split; reflexivity. Qed.

Lemma row_refs_once : forall t i sk ek gk ak sgk,
  forallb row_ok t = true ->
  kinds_in_block BState sk = true -> kinds_in_block BEvent ek = true -> kinds_in_block BGuard gk = true ->
  kinds_in_block BAction ak = true -> kinds_in_block BSig sgk = true ->
  forall r, In r t -> forall f d, In (f, d) (row_refs sk ek gk ak sgk i r) -> dcount (decls_file f t i) d = 1.
Proof.
  intros t i sk ek gk ak sgk Hwf Hs He Hg Ha Hsg r Hr f d H.
  destruct (sml_refs_declared t Hwf r Hr) as (Isrc & Iev & Inext & Iguard & Iact).
  unfold row_refs in H. repeat (apply in_app_or in H as [H|H]).
  - eapply refs_once; [exact Hs|apply NoDup_elements|apply in_state_elements; exact Isrc|exact H].
  - unfold opt_refs in H. destruct (opt (r_next r)) as [n|] eqn:E; [|destruct H].
    eapply refs_once; [exact Hs|apply NoDup_elements|apply in_state_elements; apply Inext; reflexivity|exact H].
  - eapply refs_once; [exact He|apply NoDup_elements|apply in_event_elements; exact Iev|exact H].
  - unfold opt_refs in H. destruct (opt (r_guard r)) as [g|] eqn:E; [|destruct H].
    eapply refs_once; [exact Hg|apply NoDup_elements| |exact H].
    cbn [elements]. apply (in_map (fun g => (g, @nil string))). apply Iguard. reflexivity.
  - unfold opt_refs in H. destruct (opt (r_act r)) as [a|] eqn:E; [|destruct H].
    destruct (Iact a eq_refl) as [Ia Isig]. apply in_app_or in H as [H|H].
    + eapply refs_once; [exact Ha|apply NoDup_elements| |exact H].
      cbn [elements]. apply (in_map (fun a => (a, @nil string))). exact Ia.
    + eapply refs_once; [exact Hsg|apply NoDup_elements| |exact H].
      cbn [elements]. apply (in_map (fun ae : string * string => (fst ae, [snd ae])) _ (a, r_ev r)). exact Isig.
Qed.

Theorem cpp_self_consistent : forall t i, forallb row_ok t = true ->
  forall f d, In (f, d) (refs_cpp t i) -> dcount (decls_file f t i) d = 1.
Proof.
  intros t i Hwf f d H. unfold refs_cpp in H. apply in_flat_map in H as (r & Hr & H).
  destruct cpp_kinds_ok as (A & B & C & D & E). eapply row_refs_once; eassumption.
Qed.

Theorem cs_context_decls : forall t i, forallb row_ok t = true ->
  forall f d, In (f, d) (refs_cs t i) -> dcount (decls_file f t i) d = 1.
Proof.
  intros t i Hwf f d H. unfold refs_cs in H. destruct cs_kinds_ok as (A & B & C & D & E).
  apply in_app_or in H as [H|H].
  - apply in_flat_map in H as (r & Hr & H). eapply row_refs_once; try eassumption. reflexivity.
  - apply in_flat_map in H as (s & Hs & H).
    eapply refs_once; [exact E|apply NoDup_elements| |exact H].
    cbn [elements]. apply (in_map (fun s => (s, @nil string))).
    rewrite tps_states_all. destruct (mem s (src_states t)) eqn:M.
    + apply in_or_app. left. apply mem_In. assumption.
    + apply in_or_app. right. apply filter_In. split; [assumption|]. rewrite M. reflexivity.
Qed.

(* nothing else is declared: every declaration of a file comes from an element of the table model / interface *)
Theorem decls_only_elements : forall f t i k n p, In (k, n, p) (decls_file f t i) ->
  exists b, In (b, k) (shape_of f) /\ In (n, p) (elements t i b).
Proof.
  intros f t i k n p H. unfold decls_file, decls_of in H. apply in_flat_map in H as ([b k'] & Hbk & H).
  apply in_map_iff in H as ([n' p'] & E & Hnp). cbn [fst snd] in E. injection E as -> -> ->.
  exists b. split; assumption.
Qed.
