(* C20: Transition.Parse / Guard.Parse read back what the assumed writer wrote, for every well-formed diagram. *)
From Coq Require Import String Ascii List Bool Arith Lia.
From KV Require Import Lib.Str Lib.ODict Gen.VppSrc Model.Vpp Model.VppWriter Spec.VppSpec Proofs.VppDefs Proofs.VppStr.
Import ListNotations.
Open Scope string_scope.

Local Notation R := (repr_body SQ).

(* ---------------------------------------------------------------- literal pieces *)

Definition PRE : string := "\r\n\t".          (* str(bytes) of CR LF TAB : six characters *)
Definition GPRE : string := "\r\n\t\t".       (* str(bytes) of CR LF TAB TAB *)

Lemma R_semi : R ";" = ";".  Proof. reflexivity. Qed.
Lemma R_crlftab : R crlftab = PRE.  Proof. reflexivity. Qed.
Lemma R_key_kw : forall k, R (key_kw k) = key_kw k.  Proof. destruct k; reflexivity. Qed.

Lemma bq_app : forall x y, String "b" (String SQ (x ++ y)) = String "b" (String SQ x) ++ y.
Proof. reflexivity. Qed.

Lemma bq_no_semi : forall x, no_char ";" (String "b" (String SQ x)) = no_char ";" x.
Proof. reflexivity. Qed.

(* ---------------------------------------------------------------- the segments of a transition blob, as shown by str(bytes) *)

Definition kpre (k : key) : string := PRE ++ key_kw k ++ "=".

Definition rseg (t : dtrans) (f : field) : string :=
  match f with
  | FNoise s => R s
  | FKey k => kpre k ++ String "<" (key_val t k ++ String ">" "")
  end.

Definition kid (t : dtrans) (k : key) : string :=
  match k with KTo => t_to t | KFrom => t_from t | KGuard => ostr (t_guard t) | KEffect => ostr (t_effect t) end.
Definition kpath (t : dtrans) (k : key) : list string :=
  match k with KTo => t_pto t | KFrom => t_pfrom t | KGuard => t_pguard t | KEffect => t_peffect t end.

Lemma key_val_eq : forall t k, key_val t k = colon_join (kpath t k) (kid t k).
Proof. destruct k; reflexivity. Qed.

Definition ids_ok (t : dtrans) : Prop := forall k, id_ok (kpath t k) (kid t k) = true.

Lemma ids_ok_plain : forall t k, ids_ok t -> plain (key_val t k) = true.
Proof.
  intros t k H. specialize (H k). unfold id_ok in H. rewrite !andb_true_iff in H.
  rewrite key_val_eq. tauto.
Qed.

Lemma ids_ok_kwfree : forall t k, ids_ok t -> kwfree (key_val t k) = true.
Proof.
  intros t k H. specialize (H k). unfold id_ok in H. rewrite !andb_true_iff in H.
  rewrite key_val_eq. tauto.
Qed.

Lemma ids_ok_colon : forall t k, ids_ok t -> no_char ":" (kid t k) = true.
Proof.
  intros t k H. specialize (H k). unfold id_ok in H. rewrite !andb_true_iff in H. tauto.
Qed.

Lemma R_field : forall t f, ids_ok t -> R (field_bytes t f) = rseg t f ++ String ";" "".
Proof.
  intros t f H. destruct f as [s|k]; cbn [field_bytes rseg].
  - rewrite repr_body_app. reflexivity.
  - rewrite !repr_body_app, (repr_plain _ (ids_ok_plain t k H)), R_crlftab, R_key_kw.
    unfold kpre. generalize (key_val t k); intro V. generalize (key_kw k); intro kw.
    rewrite !sapp_assoc. do 2 f_equal. cbn [append]. rewrite sapp_assoc. reflexivity.
Qed.

Lemma R_trans_blob : forall t, ids_ok t ->
  R (trans_blob t) = R (trans_header t) ++ String ";" (cat (map (fun f => rseg t f ++ String ";" "") (t_layout t)) ++ "\r\n}").
Proof.
  intros t H. unfold trans_blob. rewrite concat_empty_cat, !repr_body_app, repr_body_cat, map_map.
  rewrite (map_ext _ (fun f => rseg t f ++ String ";" "") (fun f => R_field t f H)). reflexivity.
Qed.

Lemma rseg_no_semi : forall t f, ids_ok t ->
  match f with FNoise s => no_char ";" s && kwfree (R s) | FKey _ => true end = true ->
  no_char ";" (rseg t f) = true.
Proof.
  intros t f H Hf. destruct f as [s|k]; cbn [rseg].
  - apply andb_true_iff in Hf. apply repr_no_semi. tauto.
  - assert (Hp : no_char ";" (key_val t k) = true)
      by (apply plain_no_char; [vm_compute; reflexivity | apply ids_ok_plain; exact H]).
    rewrite no_char_app. cbn [no_char]. rewrite no_char_app, Hp. destruct k; reflexivity.
Qed.

Lemma split_trans_blob : forall t, ids_ok t ->
  no_char ";" (trans_header t) = true ->
  forallb (fun f => match f with FNoise s => no_char ";" s && kwfree (R s) | FKey _ => true end) (t_layout t) = true ->
  split_on ";" (String "b" (String SQ (R (trans_blob t) ++ String SQ "")))
  = (String "b" (String SQ (R (trans_header t))) :: map (rseg t) (t_layout t) ++ ["\r\n}'"])%list.
Proof.
  intros t H Hh Hl. rewrite (R_trans_blob t H), sapp_assoc, sapp_cons, sapp_assoc, bq_app, split_on_app.
  rewrite (split_on_none ";" (String "b" _)) by (rewrite bq_no_semi; apply repr_no_semi; exact Hh).
  rewrite split_on_cat.
  - reflexivity.
  - intros f Hf. apply rseg_no_semi; [exact H|]. rewrite forallb_forall in Hl. exact (Hl f Hf).
Qed.

(* ---------------------------------------------------------------- Transition.Parse on one segment *)

Definition upd (k : key) (v : string) (p : ptrans) : ptrans :=
  match k with
  | KTo => {| pt_id := pt_id p; pt_name := pt_name p; pt_to := Some v; pt_from := pt_from p; pt_guard := pt_guard p; pt_act := pt_act p |}
  | KFrom => {| pt_id := pt_id p; pt_name := pt_name p; pt_to := pt_to p; pt_from := Some v; pt_guard := pt_guard p; pt_act := pt_act p |}
  | KGuard => {| pt_id := pt_id p; pt_name := pt_name p; pt_to := pt_to p; pt_from := pt_from p; pt_guard := Some v; pt_act := pt_act p |}
  | KEffect => {| pt_id := pt_id p; pt_name := pt_name p; pt_to := pt_to p; pt_from := pt_from p; pt_guard := pt_guard p; pt_act := Some v |}
  end.

Definition kstep (seg : string) (k : key) (p : ptrans) : ptrans :=
  if contains (key_kw k) seg then upd k (last_colon (mass_replace (rm_pat (key_kw k) seg))) p else p.

Lemma parse_seg_eq : forall p seg,
  parse_seg p seg = kstep seg KEffect (kstep seg KGuard (kstep seg KFrom (kstep seg KTo p))).
Proof. reflexivity. Qed.

Lemma kwfree_key : forall s k, kwfree s = true -> contains (key_kw k) s = false.
Proof.
  intros s k H. unfold kwfree, keywords in H. cbn [forallb] in H. rewrite !andb_true_iff, !negb_true_iff in H.
  destruct k; cbn [key_kw]; tauto.
Qed.

Lemma kstep_no : forall seg k p, contains (key_kw k) seg = false -> kstep seg k p = p.
Proof. intros seg k p H. unfold kstep. rewrite H. reflexivity. Qed.

Lemma parse_seg_kwfree : forall p seg, kwfree seg = true -> parse_seg p seg = p.
Proof. intros p seg H. rewrite parse_seg_eq, !kstep_no by (apply kwfree_key; exact H). reflexivity. Qed.

Lemma kwfree_bq : forall x, kwfree x = true -> kwfree (String "b" (String SQ x)) = true.
Proof.
  intros x H. unfold kwfree, keywords. cbn [forallb].
  change (String "b" (String SQ x)) with ("b" ++ String SQ x).
  rewrite !contains_app_sep by (reflexivity || discriminate).
  pose proof (kwfree_key x KTo H) as A1. pose proof (kwfree_key x KFrom H) as A2.
  pose proof (kwfree_key x KGuard H) as A3. pose proof (kwfree_key x KEffect H) as A4.
  cbn [key_kw] in A1, A2, A3, A4. rewrite A1, A2, A3, A4. reflexivity.
Qed.

Lemma key_kw_ne : forall k, key_kw k <> "".
Proof. destruct k; discriminate. Qed.

(* a keyword occurs in a key segment only in front of the '<' *)
Lemma contains_kseg : forall A V k', kwfree V = true ->
  contains (key_kw k') (A ++ String "<" (V ++ String ">" "")) = contains (key_kw k') A.
Proof.
  intros A V k' H.
  rewrite !contains_app_sep by (apply key_kw_ne || (destruct k'; reflexivity)).
  rewrite (kwfree_key V k' H), contains_nil, (prefixb_nil_r _ (key_kw_ne k')), !orb_false_r. reflexivity.
Qed.

Lemma rm_key : forall k X, contains (key_kw k) X = false -> rm_pat (key_kw k) (PRE ++ key_kw k ++ X) = PRE ++ X.
Proof.
  intros k X H.
  change (PRE ++ key_kw k ++ X)
    with (String "\" (String "r" (String "\" (String "n" (String "\" (String "t" (key_kw k ++ X))))))).
  change (PRE ++ X) with (String "\" (String "r" (String "\" (String "n" (String "\" (String "t" X)))))).
  destruct k; unfold rm_pat; cbn [key_kw] in *;
    do 6 (rewrite rm_from_step_no by reflexivity);
    rewrite rm_from_match, (rm_from_none _ _ H); reflexivity.
Qed.

Lemma track_kl : track mass_pats "\r\n\t=<" = true.  Proof. vm_compute. reflexivity. Qed.
Lemma clean_kl : mass_replace "\r\n\t=<" = "".  Proof. vm_compute. reflexivity. Qed.
Lemma clean_kr : mass_replace ">" = "".  Proof. vm_compute. reflexivity. Qed.

Lemma val_kseg : forall t k, ids_ok t ->
  last_colon (mass_replace (rm_pat (key_kw k) (rseg t (FKey k)))) = kid t k.
Proof.
  intros t k H. cbn [rseg]. unfold kpre.
  pose proof (ids_ok_plain t k H) as Hp. pose proof (ids_ok_kwfree t k H) as Hk.
  rewrite !sapp_assoc, rm_key.
  - change (PRE ++ "=" ++ String "<" (key_val t k ++ String ">" "")) with ("\r\n\t=<" ++ key_val t k ++ ">").
    rewrite (mass_replace_mid _ _ _ Hp track_kl), clean_kl, clean_kr.
    cbn [append]. rewrite sapp_nil_r, key_val_eq. apply last_colon_join. apply ids_ok_colon. exact H.
  - rewrite (contains_kseg "=" _ k Hk). destruct k; reflexivity.
Qed.

Lemma set_attr_upd : forall k v p,
  set_attr (match k with KTo => "STATE_TO_ID" | KFrom => "STATE_FROM_ID" | KGuard => "GUARD" | KEffect => "ACTIVITY" end) v p
  = upd k v p.
Proof. destruct k; reflexivity. Qed.

Lemma contains_kpre : forall k k', contains (key_kw k') (kpre k) =
  match k, k' with KTo, KTo | KFrom, KFrom | KGuard, KGuard | KEffect, KEffect => true | _, _ => false end.
Proof. destruct k, k'; vm_compute; reflexivity. Qed.

Lemma parse_seg_key : forall t k p, ids_ok t -> parse_seg p (rseg t (FKey k)) = upd k (kid t k) p.
Proof.
  intros t k p H. rewrite parse_seg_eq.
  pose proof (val_kseg t k H) as Hv.
  assert (Hc : forall k', contains (key_kw k') (rseg t (FKey k)) = contains (key_kw k') (kpre k))
    by (intro k'; cbn [rseg]; apply contains_kseg; apply ids_ok_kwfree; exact H).
  unfold kstep. rewrite !Hc, !contains_kpre. destruct k; rewrite Hv; reflexivity.
Qed.

Lemma parse_seg_rseg : forall t f p, ids_ok t ->
  match f with FNoise s => no_char ";" s && kwfree (R s) | FKey _ => true end = true ->
  parse_seg p (rseg t f) = match f with FNoise _ => p | FKey k => upd k (kid t k) p end.
Proof.
  intros t f p H Hf. destruct f as [s|k].
  - apply andb_true_iff in Hf. cbn [rseg]. apply parse_seg_kwfree. tauto.
  - apply parse_seg_key. exact H.
Qed.

(* ---------------------------------------------------------------- the loop over the fields *)

Definition hk (f : field) (k : key) : bool :=
  match f, k with FKey KTo, KTo | FKey KFrom, KFrom | FKey KGuard, KGuard | FKey KEffect, KEffect => true | _, _ => false end.

Lemma has_key_cons : forall k f l, has_key k (f :: l) = hk f k || has_key k l.
Proof. reflexivity. Qed.

Lemma fold_layout : forall t, ids_ok t -> forall layout acc,
  forallb (fun f => match f with FNoise s => no_char ";" s && kwfree (R s) | FKey _ => true end) layout = true ->
  let r := fold_left parse_seg (map (rseg t) layout) acc in
  pt_id r = pt_id acc /\ pt_name r = pt_name acc
  /\ pt_to r = (if has_key KTo layout then Some (kid t KTo) else pt_to acc)
  /\ pt_from r = (if has_key KFrom layout then Some (kid t KFrom) else pt_from acc)
  /\ pt_guard r = (if has_key KGuard layout then Some (kid t KGuard) else pt_guard acc)
  /\ pt_act r = (if has_key KEffect layout then Some (kid t KEffect) else pt_act acc).
Proof.
  intros t H. induction layout as [|f l IH]; intros acc Hl.
  - cbn. repeat split; reflexivity.
  - cbn [forallb] in Hl. apply andb_true_iff in Hl. destruct Hl as [Hf Hl].
    cbn [map fold_left]. rewrite (parse_seg_rseg t f acc H Hf).
    specialize (IH (match f with FNoise _ => acc | FKey k => upd k (kid t k) acc end) Hl).
    cbv zeta in IH. destruct IH as (I1 & I2 & I3 & I4 & I5 & I6).
    cbv zeta. rewrite I1, I2, I3, I4, I5, I6, !has_key_cons.
    destruct f as [s|[]]; cbn [hk orb upd pt_id pt_name pt_to pt_from pt_guard pt_act];
      repeat split; try reflexivity;
      match goal with |- context [has_key ?k l] => destruct (has_key k l) end; reflexivity.
Qed.

(* ---------------------------------------------------------------- Transition.Parse *)

Lemma kwfree_last : kwfree "\r\n}'" = true.  Proof. vm_compute. reflexivity. Qed.

Lemma parse_transition_encoded : forall t, wf_trans t = true ->
  parse_transition (velem_of (melem_of_trans t)) = parsed t.
Proof.
  intros t H. unfold wf_trans in H. rewrite !andb_true_iff in H.
  destruct H as [[[[[[[[[[[H1 H2] H3] H4] H5] H6] H7] H8] H9] H10] H11] H12].
  assert (Hid : ids_ok t) by (intro k; destruct k; assumption).
  unfold parse_transition, velem_of, melem_of_trans. cbn [ve_blobstr ve_id ve_name me_blob me_id me_name].
  change (sep_char seg_sep) with ";"%char.
  rewrite (py_str_bytes_sq _ H1), (split_trans_blob t Hid H2 H4).
  cbn [fold_left]. rewrite (parse_seg_kwfree _ _ (kwfree_bq _ H3)), fold_left_app.
  cbn [fold_left]. rewrite (parse_seg_kwfree _ _ kwfree_last).
  pose proof (fold_layout t Hid (t_layout t)
    {| pt_id := t_id t; pt_name := ostr (t_name t); pt_to := None; pt_from := None; pt_guard := None; pt_act := None |} H4) as F.
  cbv zeta in F. destruct F as (F1 & F2 & F3 & F4 & F5 & F6).
  destruct (fold_left parse_seg (map (rseg t) (t_layout t)) _) as [i n a b c d].
  cbn [pt_id pt_name pt_to pt_from pt_guard pt_act kid] in *. subst i n a b c d.
  rewrite H5, H6. unfold parsed. f_equal.
  - destruct (t_guard t), (has_key KGuard (t_layout t)); (reflexivity || discriminate H7).
  - destruct (t_effect t), (has_key KEffect (t_layout t)); (reflexivity || discriminate H8).
Qed.

(* ---------------------------------------------------------------- Guard.Parse *)

Definition VS (text : string) : string := "\r\n\t\tvalue_string=" ++ String DQ (text ++ String DQ "").

Lemma R_guard_blob : forall g, plain (g_text g) = true ->
  R (guard_blob g) = R (guard_header g) ++ String ";" (cat (map (fun s => R s ++ String ";" "") (g_pre g))
                                                      ++ VS (g_text g) ++ String ";" (R (g_post g))).
Proof.
  intros g H. unfold guard_blob. rewrite concat_empty_cat, !repr_body_app, repr_body_cat, map_map, (repr_plain _ H).
  rewrite (map_ext (fun x => R (x ++ ";")) (fun s => R s ++ String ";" ""))
    by (intro s; rewrite repr_body_app; reflexivity).
  unfold VS. generalize (g_text g); intro text. rewrite (sapp_assoc "\r\n\t\tvalue_string="), (sapp_cons DQ), sapp_assoc.
  reflexivity.
Qed.

Lemma gk_eq : guard_key = "value_string".  Proof. reflexivity. Qed.

Lemma VS_no_semi : forall text, plain text = true -> no_char ";" (VS text) = true.
Proof.
  intros text H. assert (Hp : no_char ";" text = true) by (apply plain_no_char; [vm_compute; reflexivity | exact H]).
  unfold VS. rewrite no_char_app. cbn [no_char]. rewrite no_char_app, Hp. reflexivity.
Qed.

Lemma VS_contains : forall text, contains guard_key (VS text) = true.
Proof. intro text. unfold VS. apply contains_app_l. vm_compute. reflexivity. Qed.

Lemma track_gl : track mass_pats ("\r\n\t\t=" ++ dq) = true.  Proof. vm_compute. reflexivity. Qed.
Lemma clean_gl : mass_replace ("\r\n\t\t=" ++ dq) = "".  Proof. vm_compute. reflexivity. Qed.
Lemma clean_gr : mass_replace dq = "".  Proof. vm_compute. reflexivity. Qed.

Lemma VS_clean : forall text, plain text = true -> contains guard_key text = false ->
  mass_replace (rm_pat guard_key (VS text)) = text.
Proof.
  intros text Hp Hc. rewrite gk_eq in *. unfold rm_pat.
  change (VS text) with
    (String "\" (String "r" (String "\" (String "n" (String "\" (String "t" (String "\" (String "t" ("value_string" ++ ("=" ++ String DQ (text ++ String DQ ""))))))))))).
  do 8 (rewrite rm_from_step_no by reflexivity).
  rewrite rm_from_match, rm_from_none.
  - change (String "\" (String "r" (String "\" (String "n" (String "\" (String "t" (String "\" (String "t" ("=" ++ String DQ (text ++ String DQ ""))))))))))
      with (("\r\n\t\t=" ++ dq) ++ text ++ dq).
    rewrite (mass_replace_mid _ _ _ Hp track_gl), clean_gl, clean_gr. cbn [append]. apply sapp_nil_r.
  - rewrite !contains_app_sep by (reflexivity || discriminate). rewrite Hc. reflexivity.
Qed.

Lemma list_reshape : forall (A : Type) (a x : A) m rest,
  ([a] ++ m ++ [x] ++ rest)%list = ((a :: m) ++ x :: rest)%list.
Proof. reflexivity. Qed.

Lemma parse_guard_encoded : forall g, wf_guard g = true ->
  parse_guard (velem_of (melem_of_guard g)) = Some (g_text g).
Proof.
  intros g H. unfold wf_guard in H. rewrite !andb_true_iff, !negb_true_iff in H.
  destruct H as [[[[[H1 H2] H3] H4] H5] H6].
  unfold parse_guard, velem_of, melem_of_guard. cbn [ve_blobstr me_blob].
  change (sep_char seg_sep) with ";"%char.
  rewrite (py_str_bytes_sq _ H1), (R_guard_blob g H5).
  rewrite sapp_assoc, sapp_cons, !sapp_assoc, sapp_cons, bq_app, split_on_app.
  rewrite (split_on_none ";" (String "b" _)) by (rewrite bq_no_semi; apply repr_no_semi; exact H2).
  rewrite split_on_cat.
  2:{ intros s Hs. rewrite forallb_forall in H4. specialize (H4 s Hs). apply andb_true_iff in H4.
      apply repr_no_semi. tauto. }
  rewrite split_on_app, (split_on_none _ _ (VS_no_semi _ H5)).
  rewrite list_reshape.
  rewrite find_skip.
  - rewrite (VS_clean _ H5 H6). reflexivity.
  - cbn [forallb]. apply andb_true_iff. split.
    + change (String "b" (String SQ (R (guard_header g)))) with ("b" ++ String SQ (R (guard_header g))).
      rewrite contains_app_sep by (reflexivity || discriminate). rewrite H3. reflexivity.
    + apply forallb_forall. intros y Hy. apply in_map_iff in Hy. destruct Hy as (s & <- & Hs).
      rewrite forallb_forall in H4. specialize (H4 s Hs). apply andb_true_iff in H4.
      destruct H4 as [_ H4]. exact H4.
  - apply VS_contains.
Qed.

(* ---------------------------------------------------------------- all the rows of a well-formed diagram *)

Lemma parse_ok_of_wf : forall D : diagram, wf_diagram D = true -> parse_ok D.
Proof.
  intros D H. unfold wf_diagram in H. rewrite !andb_true_iff in H.
  destruct H as [[[[[_ _] _] _] Ht] Hg]. split.
  - intros t Hin. rewrite forallb_forall in Ht. specialize (Ht t Hin). rewrite !andb_true_iff in Ht.
    apply parse_transition_encoded. tauto.
  - intros g Hin. rewrite forallb_forall in Hg. apply parse_guard_encoded. exact (Hg g Hin).
Qed.

Print Assumptions parse_ok_of_wf.
