(* String lemmas for the C20 parse proofs (Proofs/VppParse.v): str(bytes), split, replace, mass_replace. *)
From Coq Require Import String Ascii List Bool Arith Lia.
From KV Require Import Lib.Str Lib.ODict Gen.VppSrc Model.Vpp Model.VppWriter Spec.VppSpec Proofs.VppDefs.
Import ListNotations.
Open Scope string_scope.

(* ---------------------------------------------------------------- append *)

Lemma sapp_nil_r : forall s : string, s ++ "" = s.
Proof. induction s as [|x s IH]; cbn [append]; [reflexivity | rewrite IH; reflexivity]. Qed.

Lemma sapp_assoc : forall a b c : string, (a ++ b) ++ c = a ++ (b ++ c).
Proof. induction a as [|x a IH]; intros; cbn [append]; [reflexivity | rewrite IH; reflexivity]. Qed.

Lemma sapp_cons : forall x (a b : string), String x a ++ b = String x (a ++ b).
Proof. reflexivity. Qed.

(* concatenation of a list of strings *)
Fixpoint cat (l : list string) : string := match l with [] => "" | x :: r => x ++ cat r end.

Lemma concat_empty_cat : forall l, String.concat "" l = cat l.
Proof.
  induction l as [|x l IH]; [reflexivity|].
  cbn [cat]. rewrite <- IH. destruct l as [|y l]; [cbn [String.concat]; rewrite sapp_nil_r; reflexivity | reflexivity].
Qed.

(* ---------------------------------------------------------------- no_char, prefixb, contains *)

Lemma no_char_app : forall c a b, no_char c (a ++ b) = no_char c a && no_char c b.
Proof.
  induction a as [|x a IH]; intros; cbn [append no_char]; [reflexivity | rewrite IH, andb_assoc; reflexivity].
Qed.

Lemma contains_cons : forall p y s, contains p (String y s) = prefixb p (String y s) || contains p s.
Proof. reflexivity. Qed.

Lemma contains_nil : forall p, contains p "" = prefixb p "".
Proof. intros. cbn [contains]. apply orb_false_r. Qed.

Lemma prefixb_nil_r : forall p, p <> "" -> prefixb p "" = false.
Proof. destruct p; [congruence | reflexivity]. Qed.

Lemma prefixb_app_sep : forall c p a b, no_char c p = true -> p <> "" ->
  prefixb p (a ++ String c b) = prefixb p a.
Proof.
  intros c p a; revert p. induction a as [|y a IH]; intros p b Hn Hp.
  - destruct p as [|x p]; [congruence|]. cbn [append prefixb]. cbn [no_char] in Hn.
    apply andb_true_iff in Hn. destruct Hn as [Hn _]. apply negb_true_iff in Hn. rewrite Hn. reflexivity.
  - destruct p as [|x p]; [congruence|]. cbn [append prefixb]. cbn [no_char] in Hn.
    apply andb_true_iff in Hn. destruct Hn as [_ Hn].
    destruct p as [|x' p]; [reflexivity|]. rewrite IH; [reflexivity | exact Hn | discriminate].
Qed.

Lemma contains_app_sep : forall c p a b, no_char c p = true -> p <> "" ->
  contains p (a ++ String c b) = contains p a || contains p b.
Proof.
  intros c p a b Hn Hp. induction a as [|y a IH].
  - cbn [append]. rewrite contains_cons, contains_nil.
    change (String c b) with ("" ++ String c b) at 1. rewrite prefixb_app_sep by assumption. reflexivity.
  - rewrite sapp_cons, !contains_cons, IH, <- sapp_cons, prefixb_app_sep by assumption.
    rewrite orb_assoc. reflexivity.
Qed.

Lemma prefixb_app_l : forall p a w, prefixb p a = true -> prefixb p (a ++ w) = true.
Proof.
  induction p as [|x p IH]; intros a w H; [reflexivity|].
  destruct a as [|y a]; [discriminate|]. cbn [append prefixb] in *.
  apply andb_true_iff in H. destruct H as [H1 H2]. rewrite H1, (IH _ _ H2). reflexivity.
Qed.

Lemma contains_app_l : forall p a w, contains p a = true -> contains p (a ++ w) = true.
Proof.
  intros p a w. induction a as [|y a IH]; intro H.
  - rewrite contains_nil in H. destruct p; [|discriminate]. cbn [append]. destruct w; reflexivity.
  - rewrite sapp_cons, contains_cons. rewrite contains_cons in H. apply orb_true_iff in H. destruct H as [H|H].
    + rewrite <- sapp_cons, (prefixb_app_l _ _ _ H). reflexivity.
    + rewrite (IH H). apply orb_true_r.
Qed.

Lemma prefixb_self_app : forall p w, prefixb p (p ++ w) = true.
Proof. induction p as [|x p IH]; intros; [reflexivity|]. cbn [append prefixb]. rewrite Ascii.eqb_refl, IH. reflexivity. Qed.

(* ---------------------------------------------------------------- split_on, last *)

Lemma split_on_nonempty : forall c s, split_on c s <> [].
Proof.
  intros c s. destruct s as [|x s]; cbn [split_on]; [discriminate|].
  destruct (split_on c s); [discriminate|]. destruct (Ascii.eqb x c); discriminate.
Qed.

Lemma split_on_app : forall c a b, split_on c (a ++ String c b) = (split_on c a ++ split_on c b)%list.
Proof.
  intros c a b. induction a as [|x a IH].
  - cbn [append]. cbn [split_on]. generalize (split_on_nonempty c b).
    destruct (split_on c b); [congruence|]. intros _. rewrite Ascii.eqb_refl. reflexivity.
  - rewrite sapp_cons. cbn [split_on]. rewrite IH. generalize (split_on_nonempty c a).
    destruct (split_on c a) as [|h t]; [congruence|]. intros _. cbn [app].
    destruct (Ascii.eqb x c); reflexivity.
Qed.

Lemma split_on_none : forall c a, no_char c a = true -> split_on c a = [a].
Proof.
  intros c a. induction a as [|x a IH]; intro H; [reflexivity|].
  cbn [no_char] in H. apply andb_true_iff in H. destruct H as [H1 H2]. apply negb_true_iff in H1.
  cbn [split_on]. rewrite (IH H2), H1. reflexivity.
Qed.

Lemma last_app_ne : forall (A : Type) (l1 l2 : list A) d, l2 <> [] -> last (l1 ++ l2)%list d = last l2 d.
Proof.
  intros A l1 l2 d H. induction l1 as [|x l1 IH]; [reflexivity|].
  cbn [app]. cbn [last]. destruct (l1 ++ l2)%list eqn:E.
  - destruct l1; cbn [app] in E; [congruence | discriminate].
  - exact IH.
Qed.

(* split of  f x1 ++ c ++ f x2 ++ c ++ ... ++ tail  when no f x holds c *)
Lemma split_on_cat : forall (A : Type) c (g : A -> string) l tail,
  (forall x, In x l -> no_char c (g x) = true) ->
  split_on c (cat (map (fun x => g x ++ String c "") l) ++ tail) = (map g l ++ split_on c tail)%list.
Proof.
  intros A c g l tail. induction l as [|x l IH]; intro H; [reflexivity|].
  cbn [map cat]. rewrite !sapp_assoc. cbn [append]. rewrite split_on_app, IH.
  - rewrite split_on_none by (apply H; left; reflexivity). reflexivity.
  - intros y Hy. apply H. right. exact Hy.
Qed.

Lemma find_skip : forall (A : Type) (f : A -> bool) l1 x l2,
  forallb (fun y => negb (f y)) l1 = true -> f x = true -> find f (l1 ++ x :: l2)%list = Some x.
Proof.
  intros A f l1 x l2. induction l1 as [|y l1 IH]; intros H Hx; cbn [app find].
  - rewrite Hx. reflexivity.
  - cbn [forallb] in H. apply andb_true_iff in H. destruct H as [H1 H2]. apply negb_true_iff in H1.
    rewrite H1. apply IH; assumption.
Qed.

(* ---------------------------------------------------------------- str(bytes) *)

Lemma repr_body_app : forall q a b, repr_body q (a ++ b) = repr_body q a ++ repr_body q b.
Proof.
  induction a as [|x a IH]; intros; cbn [append repr_body]; [reflexivity | rewrite IH, sapp_assoc; reflexivity].
Qed.

Lemma repr_body_cat : forall q l, repr_body q (cat l) = cat (map (repr_body q) l).
Proof. induction l as [|x l IH]; [reflexivity|]. cbn [cat map]. rewrite repr_body_app, IH. reflexivity. Qed.

Lemma repr_char_plain : forall c, plain_char c = true -> repr_char SQ c = String c "".
Proof. destruct c as [[] [] [] [] [] [] [] []]; vm_compute; intro H; (reflexivity || discriminate H). Qed.

Lemma repr_plain : forall s, plain s = true -> repr_body SQ s = s.
Proof.
  induction s as [|x s IH]; intro H; [reflexivity|].
  cbn [plain] in H. apply andb_true_iff in H. destruct H as [H1 H2].
  cbn [repr_body]. rewrite (repr_char_plain _ H1), (IH H2). reflexivity.
Qed.

Lemma repr_char_semi : forall c, no_char ";" (repr_char SQ c) = negb (Ascii.eqb c ";").
Proof. destruct c as [[] [] [] [] [] [] [] []]; vm_compute; reflexivity. Qed.

Lemma repr_no_semi : forall s, no_char ";" s = true -> no_char ";" (repr_body SQ s) = true.
Proof.
  induction s as [|x s IH]; intro H; [reflexivity|].
  cbn [no_char] in H. apply andb_true_iff in H. destruct H as [H1 H2].
  cbn [repr_body]. rewrite no_char_app, repr_char_semi, H1, (IH H2). reflexivity.
Qed.

Lemma repr_quote_sq : forall s, no_char SQ s = true -> repr_quote s = SQ.
Proof. intros s H. unfold repr_quote. rewrite H. reflexivity. Qed.

Lemma py_str_bytes_sq : forall s, no_char SQ s = true ->
  py_str_bytes s = String "b" (String SQ (repr_body SQ s ++ String SQ "")).
Proof. intros s H. unfold py_str_bytes. rewrite (repr_quote_sq _ H). reflexivity. Qed.

(* ---------------------------------------------------------------- str.replace(p, '') *)

Lemma rm_from_step_no : forall p c r, prefixb p (String c r) = false ->
  rm_from p 0 (String c r) = String c (rm_from p 0 r).
Proof. intros p c r H. cbn [rm_from]. rewrite H. reflexivity. Qed.

Lemma rm_from_none : forall p s, contains p s = false -> rm_from p 0 s = s.
Proof.
  intros p s. induction s as [|c r IH]; intro H; [reflexivity|].
  rewrite contains_cons in H. apply orb_false_iff in H. destruct H as [H1 H2].
  rewrite (rm_from_step_no _ _ _ H1), (IH H2). reflexivity.
Qed.

Lemma rm_from_skip : forall p k w, rm_from p (String.length k) (k ++ w) = rm_from p 0 w.
Proof.
  intros p k w. induction k as [|x k IH]; [reflexivity|].
  cbn [String.length append rm_from]. exact IH.
Qed.

Lemma rm_from_match : forall c p' w, rm_from (String c p') 0 (String c p' ++ w) = rm_from (String c p') 0 w.
Proof.
  intros c p' w. rewrite sapp_cons. cbn [rm_from]. rewrite <- sapp_cons, prefixb_self_app.
  replace (String.length (String c p') - 1) with (String.length p') by (cbn [String.length]; lia).
  apply rm_from_skip.
Qed.

(* ---------------------------------------------------------------- CleanUpLine in the middle of a string *)

Lemma remove_char_app : forall c a b, remove_char c (a ++ b) = remove_char c a ++ remove_char c b.
Proof.
  induction a as [|x a IH]; intros; [reflexivity|].
  cbn [append remove_char]. rewrite IH. destruct (Ascii.eqb x c); reflexivity.
Qed.

Lemma remove_char_none : forall c v, no_char c v = true -> remove_char c v = v.
Proof.
  induction v as [|x v IH]; intro H; [reflexivity|].
  cbn [no_char] in H. apply andb_true_iff in H. destruct H as [H1 H2]. apply negb_true_iff in H1.
  cbn [remove_char]. rewrite H1, (IH H2). reflexivity.
Qed.

Lemma remove2_cons_ne : forall a b x s, Ascii.eqb x a = false -> remove2 a b (String x s) = String x (remove2 a b s).
Proof. intros a b x s H. destruct s as [|y s]; [reflexivity|]. cbn [remove2]. rewrite H. reflexivity. Qed.

Lemma remove2_cons2 : forall a b x y s, remove2 a b (String x (String y s)) =
  if Ascii.eqb x a && Ascii.eqb y b then remove2 a b s else String x (remove2 a b (String y s)).
Proof. reflexivity. Qed.

Lemma remove2_skip : forall a b v r, no_char a v = true -> remove2 a b (v ++ r) = v ++ remove2 a b r.
Proof.
  induction v as [|x v IH]; intros r H; [reflexivity|].
  cbn [no_char] in H. apply andb_true_iff in H. destruct H as [H1 H2]. apply negb_true_iff in H1.
  rewrite sapp_cons, (remove2_cons_ne _ _ _ _ H1), (IH _ H2). reflexivity.
Qed.

Fixpoint ends_with (a : ascii) (l : string) : bool :=
  match l with
  | EmptyString => false
  | String x EmptyString => Ascii.eqb x a
  | String _ r => ends_with a r
  end.

Lemma ends_with_tail : forall a y l, ends_with a (String y l) = false -> ends_with a l = false.
Proof. intros a y l H. destruct l; [reflexivity | exact H]. Qed.

Lemma remove2_app_n : forall a b n l s, String.length l <= n -> ends_with a l = false ->
  remove2 a b (l ++ s) = remove2 a b l ++ remove2 a b s.
Proof.
  intros a b. induction n as [|n IH]; intros l s Hl He.
  - destruct l; [reflexivity | cbn [String.length] in Hl; lia].
  - destruct l as [|x [|y l]].
    + reflexivity.
    + cbn [ends_with] in He. cbn [append]. rewrite (remove2_cons_ne _ _ _ _ He). reflexivity.
    + assert (He1 : ends_with a (String y l) = false) by exact He.
      assert (He2 : ends_with a l = false) by (apply ends_with_tail in He1; exact He1).
      cbn [String.length] in Hl. rewrite !sapp_cons, !remove2_cons2.
      destruct (Ascii.eqb x a && Ascii.eqb y b).
      * apply IH; [lia | exact He2].
      * rewrite <- sapp_cons, IH; [reflexivity | cbn [String.length]; lia | exact He1].
Qed.

Lemma remove2_app : forall a b l s, ends_with a l = false -> remove2 a b (l ++ s) = remove2 a b l ++ remove2 a b s.
Proof. intros a b l s H. apply (remove2_app_n a b (String.length l)); [lia | exact H]. Qed.

(* the left context never ends with the first character of a two-character pattern when that pattern is applied *)
Fixpoint track (pats : list string) (l : string) : bool :=
  match pats with
  | [] => true
  | p :: ps => (match p with String a (String _ EmptyString) => negb (ends_with a l) | _ => true end)
               && track ps (clean_step l p)
  end.

(* no pattern starts with a character of v *)
Definition vfree (pats : list string) (v : string) : bool :=
  forallb (fun p => match p with String a _ => no_char a v | EmptyString => true end) pats.

Lemma clean_step_mid : forall p l v r,
  match p with String a _ => no_char a v | EmptyString => true end = true ->
  match p with String a (String _ EmptyString) => negb (ends_with a l) | _ => true end = true ->
  clean_step (l ++ v ++ r) p = clean_step l p ++ v ++ clean_step r p.
Proof.
  intros p l v r Hv Ht. destruct p as [|a [|b [|c p]]]; unfold clean_step.
  - reflexivity.
  - rewrite !remove_char_app, (remove_char_none _ _ Hv). reflexivity.
  - apply negb_true_iff in Ht. rewrite (remove2_app _ _ _ _ Ht), (remove2_skip _ _ _ _ Hv). reflexivity.
  - reflexivity.
Qed.

Lemma clean_with_cons : forall p ps s, clean_with (p :: ps) s = clean_with ps (clean_step s p).
Proof. reflexivity. Qed.

Lemma clean_with_mid : forall pats l v r, vfree pats v = true -> track pats l = true ->
  clean_with pats (l ++ v ++ r) = clean_with pats l ++ v ++ clean_with pats r.
Proof.
  induction pats as [|p ps IH]; intros l v r Hv Ht; [reflexivity|].
  unfold vfree in Hv. cbn [forallb] in Hv. apply andb_true_iff in Hv. destruct Hv as [Hv1 Hv2].
  cbn [track] in Ht. apply andb_true_iff in Ht. destruct Ht as [Ht1 Ht2].
  rewrite !clean_with_cons, (clean_step_mid _ _ _ _ Hv1 Ht1). apply IH; assumption.
Qed.

Lemma plain_no_char : forall c v, plain_char c = false -> plain v = true -> no_char c v = true.
Proof.
  intros c v Hc. induction v as [|x v IH]; intro H; [reflexivity|].
  cbn [plain] in H. apply andb_true_iff in H. destruct H as [H1 H2].
  cbn [no_char]. rewrite (IH H2), andb_true_r. apply negb_true_iff.
  destruct (Ascii.eqb x c) eqn:E; [|reflexivity]. apply Ascii.eqb_eq in E. subst x. congruence.
Qed.

Lemma vfree_plain : forall pats v,
  forallb (fun p => match p with String a _ => negb (plain_char a) | EmptyString => true end) pats = true ->
  plain v = true -> vfree pats v = true.
Proof.
  induction pats as [|p ps IH]; intros v H Hv; [reflexivity|].
  cbn [forallb] in H. apply andb_true_iff in H. destruct H as [H1 H2].
  unfold vfree. cbn [forallb]. fold (vfree ps v). rewrite (IH _ H2 Hv), andb_true_r.
  destruct p as [|a p]; [reflexivity|]. apply negb_true_iff in H1. apply plain_no_char; assumption.
Qed.

Lemma vfree_mass_plain : forall v, plain v = true -> vfree mass_pats v = true.
Proof. intros v H. apply vfree_plain; [vm_compute; reflexivity | exact H]. Qed.

Lemma mass_replace_mid : forall l v r, plain v = true -> track mass_pats l = true ->
  mass_replace (l ++ v ++ r) = mass_replace l ++ v ++ mass_replace r.
Proof. intros l v r Hv Ht. unfold mass_replace. apply clean_with_mid; [apply vfree_mass_plain; exact Hv | exact Ht]. Qed.

(* ---------------------------------------------------------------- GetLastIDFromColonList *)

Lemma colon_join_cons : forall p path id, colon_join (p :: path) id = p ++ String ":" (colon_join path id).
Proof. reflexivity. Qed.

Lemma last_colon_join : forall path id, no_char ":" id = true -> last_colon (colon_join path id) = id.
Proof.
  intros path id H. unfold last_colon. change (sep_char id_sep) with ":"%char.
  induction path as [|p path IH].
  - cbn [colon_join fold_right]. rewrite (split_on_none _ _ H). reflexivity.
  - rewrite colon_join_cons, split_on_app, last_app_ne by apply split_on_nonempty. exact IH.
Qed.
