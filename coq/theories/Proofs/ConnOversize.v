(* The two inputs that crashed the unrepaired code (uint32 msgSize = SizeOfHeader + PayloadSize wrapped): what the repaired
   code does with them.  (History: K-C14-1, 8 bytes AA 55 01 00 F8 FF FF FF -> recursion without end; K-C14-2, preamble FF FF,
   chunks FF FF | FF FF FF FF FF FF 00 -> 4 GiB read from the received data.) *)
From Coq Require Import String Ascii List Bool Arith NArith ZArith Lia.
From KV Require Import Lib.Str Lib.ByteSeq Gen.CxxConn Model.Conn Proofs.ByteSeqProofs.
Import ListNotations.
Open Scope N_scope.
Open Scope list_scope.

Definition os_p0 : byte := ascii_of_N 170.
Definition os_p1 : byte := ascii_of_N 85.
(* AA 55 | 01 00 | F8 FF FF FF : the header of a "message" with 2^32 - 8 payload bytes *)
Definition oversize_header : list byte :=
  [os_p0; os_p1; ascii_of_N 1; ascii_of_N 0; ascii_of_N 248; ascii_of_N 255; ascii_of_N 255; ascii_of_N 255].
(* a real message AA 55 | 02 00 | 01 00 00 00 | 77 *)
Definition os_msg : list byte :=
  [os_p0; os_p1; ascii_of_N 2; ascii_of_N 0; ascii_of_N 1; ascii_of_N 0; ascii_of_N 0; ascii_of_N 0; ascii_of_N 119].

Lemma oversize_header_fields :
  len oversize_header = size_of_header /\ payload_size oversize_header = 2 ^ 32 - size_of_header /\
  oversize (payload_size oversize_header) = true.
Proof. repeat split; vm_compute; reflexivity. Qed.

(* unfragmented path: the header is skipped, nothing is delivered, nothing stays pending; a message behind it is delivered *)
Lemma oversize_header_discarded :
  feed os_p0 os_p1 init [oversize_header] = Done init [] /\
  feed os_p0 os_p1 init [oversize_header ++ os_msg] = Done init [os_msg] /\
  feed os_p0 os_p1 init [firstn 3 oversize_header; skipn 3 oversize_header ++ os_msg] = Done init [os_msg].
Proof. repeat split; vm_compute; reflexivity. Qed.

(* fragmented path with the preamble FF FF *)
Definition ff : byte := ascii_of_N 255.
Lemma oversize_garbage_discarded :
  feed ff ff init [[ff; ff]; [ff; ff; ff; ff; ff; ff; Ascii.zero]]
  = Done (mkSt [ff; ff; ff; ff; ff; ff; Ascii.zero] 0) [].
Proof. vm_compute. reflexivity. Qed.
