(* Where the hypothesis "header + payload < 2^32" of C14 comes from: uint32 msgSize = SizeOfHeader + header->PayloadSize wraps.
   For PayloadSize = 2^32 - 8 the message size becomes 0: HandleUnfragmentedData reports a message of 0 bytes and calls
   OnDataReceived again with the SAME data -- the model runs out of every fuel (the C++ recursion has no end). *)
From Coq Require Import String Ascii List Bool Arith NArith ZArith Lia.
From KV Require Import Lib.Str Lib.ByteSeq Gen.CxxConn Model.Conn Proofs.ByteSeqProofs.
Import ListNotations.
Open Scope N_scope.
Open Scope list_scope.

Definition os_p0 : byte := ascii_of_N 170.
Definition os_p1 : byte := ascii_of_N 85.
(* AA 55 | 01 00 | F8 FF FF FF : the header of a message with 2^32 - 8 payload bytes *)
Definition oversize_header : list byte :=
  [os_p0; os_p1; ascii_of_N 1; ascii_of_N 0; ascii_of_N 248; ascii_of_N 255; ascii_of_N 255; ascii_of_N 255].

Lemma oversize_header_fields :
  len oversize_header = size_of_header /\ payload_size oversize_header = 2 ^ 32 - size_of_header.
Proof. split; vm_compute; reflexivity. Qed.

Lemma oversize_handle rec :
  handle os_p0 os_p1 rec init oversize_header = deliver [] (rec init oversize_header).
Proof. reflexivity. Qed.

Lemma oversize_step f :
  on_data os_p0 os_p1 (S f) init oversize_header = deliver [] (on_data os_p0 os_p1 f init oversize_header).
Proof.
  cbn [on_data].
  change (len oversize_header =? 0) with false. change (len (buf init) =? 0) with true.
  change (len oversize_header =? 1) with false.
  change (find_preamble os_p0 os_p1 oversize_header) with (Some 0). cbv beta iota zeta.
  change (drop 0 oversize_header) with oversize_header.
  apply oversize_handle.
Qed.

Lemma oversize_diverges : forall fuel, exists ds, on_data os_p0 os_p1 fuel init oversize_header = Fail OutOfFuel ds.
Proof.
  induction fuel as [| f [ds IH]].
  - exists []. reflexivity.
  - exists ([] :: ds). rewrite oversize_step, IH. reflexivity.
Qed.
