(* C13 / C16: the per-message blocks of the PROTO inner expansion with <<<MSGID>>> (ids from the events interface). *)
From Coq Require Import String Ascii List Bool Arith Lia.
From KV Require Import Lib.Str Lib.StrOps Lib.ODict Gen.Tags Gen.Pipeline Model.Engine Model.EngineSM Model.EngineDomain
                       Model.EngineDomain16 Spec.RefExpand Spec.RefExpand16
                       Proofs.StrProofs Proofs.EngineStr Proofs.EngineRepl Proofs.Alpha Proofs.EngineBlock Proofs.TagFree.
Import ListNotations.
Open Scope string_scope.
Open Scope list_scope.

Lemma lookup_app {V} (n : string) (a b : list (string * V)) :
  lookup String.eqb n (a ++ b) = match lookup String.eqb n a with Some v => Some v | None => lookup String.eqb n b end.
Proof. induction a as [|[k v] a IH]; [reflexivity|]. cbn [app lookup]. destruct (String.eqb n k); [reflexivity|exact IH]. Qed.

Lemma chain_app a b s : chain (a ++ b) s = chain b (chain a s).
Proof. unfold chain. apply fold_left_app. Qed.

(* ---------------------------------------------------------------- the tables with the id *)
Definition eng_msg (ids : list (string * string)) (name : string) (alpha cnt : nat) : list (string * string) :=
  eng_proto name alpha cnt ++ [("MSGID", idof ids name)].

Lemma msgid_names_chain ids name alpha cnt s : msgid_names ids name alpha cnt s = chain (eng_msg ids name alpha cnt) s.
Proof. unfold msgid_names, eng_msg. rewrite chain_app, <- proto_names_chain. reflexivity. Qed.

Lemma eng_msg_lookup ids name i n :
  lookup String.eqb n (eng_msg ids name (alpha_at i) i) = lookup String.eqb n (msg_table ids name i).
Proof. unfold eng_msg, msg_table. rewrite !lookup_app, eng_proto_lookup. reflexivity. Qed.

Lemma eng_msg_kv ids name i : forallb (fun kv => no_lg (snd kv)) (msg_table ids name i) = true -> forallb kv_ok (eng_msg ids name (alpha_at i) i) = true.
Proof.
  unfold msg_table, eng_msg. rewrite !forallb_app. intros H. apply andb_prop in H as [H1 H2]. rewrite (eng_proto_kv name i H1).
  cbn [forallb snd] in *. unfold kv_ok. cbn [fst snd]. apply andb_prop in H2 as [H2 _]. rewrite H2. reflexivity.
Qed.

Lemma msg_body_weaken body : forallb (body_line_ok msg_keys) body = true ->
  forallb (fun l => line_ok l && negb (isspace (render_line l))) body = true.
Proof. apply body_ok_weaken. Qed.

(* a per-message block whose body may mention <<<MSGID>>>: every message has an id *)
Theorem msg_block_is_ref ids items body :
  forallb (fun n => mem String.eqb n ids) items = true ->
  forallb (body_line_ok msg_keys) body = true -> block_wf (msg_table ids) items body = true ->
  inner_msgs ids items (map render_line body) None = Some (ref_block (msg_table ids) items body).
Proof.
  intros Hi Hb W. unfold inner_msgs. rewrite Hi. unfold ref_block, block_wf in *.
  exact (block_from (msgid_names ids) (eng_msg ids) (msg_table ids) (msgid_names_chain ids) (eng_msg_lookup ids) (eng_msg_kv ids) items 0 body (msg_body_weaken _ Hb) W).
Qed.

(* ---------------------------------------------------------------- a per-message block WITHOUT the id tag: as before *)
Lemma rep_msgid_tagfree v s : tagfree s = true -> rep "__TAG_MSGID__" v s = s.
Proof. intros H. unfold rep. apply replace_all_nomatch; [discriminate|]. apply tagfree_contains; [reflexivity|exact H]. Qed.

Lemma closed_sub keys tb1 tb2 : (forall n, existsb (String.eqb n) keys = true -> lookup String.eqb n tb1 = lookup String.eqb n tb2) ->
  forall l, forallb (closed_seg keys) l = true -> map (subst16 tb1) l = map (subst16 tb2) l.
Proof.
  intros H. induction l as [|g l IH]; [reflexivity|]. cbn [forallb map]. intros C. apply andb_prop in C as [C1 C2]. rewrite (IH C2). f_equal.
  destruct g as [s|n [d|]]; try reflexivity. cbn [closed_seg] in C1. cbn [subst16]. rewrite (H n C1). reflexivity.
Qed.

Section PlainMsg.
  Variable ids : list (string * string).

  Lemma plain_lines name k : forall body,
    forallb (body_line_ok (keys_of KMsg)) body = true ->
    forallb (fun kv => no_lg (snd kv)) (proto_table name k) = true ->
    forallb (fun l => let out := render_line (map (subst16 (proto_table name k)) l) in negb (isspace out) && negb (unmodelled out)) body = true ->
    second_lines (msgid_names ids) name (alpha_at k) k (map render_line body)
    = Some (map (fun l => render_line (map (subst16 (proto_table name k)) l)) body).
  Proof.
    induction body as [|l body IH]; intros Hb Hv W; [reflexivity|].
    cbn [forallb] in Hb, W. apply andb_prop in Hb as [H1 Hb]. apply andb_prop in W as [W1 W].
    unfold body_line_ok in H1. repeat (apply andb_prop in H1 as [H1 ?K]). apply andb_prop in W1 as [Ws Wu]. apply negb_true_iff in K1, Ws, Wu.
    cbn [map second_lines]. rewrite (IH Hb Hv W).
    set (cp := render_line (map (subst16 (proto_table name k)) l)) in *.
    assert (C : chain (eng_proto name (alpha_at k) k) (render_line l) = cp).
    { rewrite (chain_render _ l (eng_proto_kv name k Hv) H1). unfold cp. f_equal. apply map_ext. apply subst16_ext. apply eng_proto_lookup. }
    assert (Tf : tagfree cp = true) by (apply copy_tagfree; [exact H1|exact K2|exact Hv]).
    destruct (hasTag (render_line l)) eqn:E; cbn [negb].
    - unfold msgid_names. rewrite proto_names_chain, C, (rep_msgid_tagfree _ _ Tf), Wu, Ws. reflexivity.
    - rewrite K1. unfold cp. unfold render_line in E. rewrite (notag_lits (proto_table name k) l nl_str H1 E). reflexivity.
  Qed.

  Lemma plain_items : forall items k body,
    forallb (body_line_ok (keys_of KMsg)) body = true ->
    forallb (fun ix =>
       forallb (fun kv => no_lg (snd kv)) (proto_table (snd ix) (fst ix))
       && forallb (fun l => let out := render_line (map (subst16 (proto_table (snd ix) (fst ix))) l) in
                            negb (isspace out) && negb (unmodelled out)) body) (enumerate_from k items) = true ->
    second_items (msgid_names ids) (alpha_at k) k items (map render_line body)
    = Some (flat_map (fun ix => map (fun l => render_line (map (subst16 (proto_table (snd ix) (fst ix))) l)) body) (enumerate_from k items)).
  Proof.
    induction items as [|name items IH]; intros k body Hb W; [reflexivity|].
    cbn [enumerate_from forallb fst snd] in W. apply andb_prop in W as [W1 W]. apply andb_prop in W1 as [Wv Wl].
    cbn [second_items enumerate_from flat_map fst snd]. rewrite (plain_lines name k body Hb Wv Wl).
    rewrite <- alpha_at_S, (IH (S k) body Hb W). reflexivity.
  Qed.

  Theorem plain_msg_block_is_ref items body :
    forallb (body_line_ok (keys_of KMsg)) body = true -> block_wf proto_table items body = true ->
    inner_msgs ids items (map render_line body) None = Some (ref_block proto_table items body).
  Proof.
    intros Hb W. unfold inner_msgs. destruct (forallb (fun n => mem String.eqb n ids) items).
    - unfold ref_block, block_wf in *. exact (plain_items items 0 body Hb W).
    - exact (proto_block_is_ref items body Hb W).
  Qed.
End PlainMsg.
