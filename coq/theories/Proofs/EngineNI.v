(* C17: non-interference of user-tag values. *)
From Coq Require Import String Ascii List Bool Arith Lia.
From KV Require Import Lib.Str Lib.StrOps Lib.ODict Model.Engine Model.EngineSM Model.EngineDomain Spec.RefExpand Proofs.EnginePipe.
Import ListNotations.
Open Scope string_scope.
Open Scope list_scope.

(* a and a' assign the same tags and differ at most in the value of x *)
Definition agree_except (x : string) (a a' : assign) : Prop :=
  (forall n, n <> x -> value_of a n = value_of a' n) /\ (assigned a x = assigned a' x).

Definition item_refs (x : string) (it : item) : bool :=
  match it with
  | Plain l => line_refs x l
  | Cond b elifs els =>
      existsb (fun br => existsb (line_refs x) (snd br)) (b :: elifs)
      || match els with Some ls => existsb (line_refs x) ls | None => false end
  | For h body => hdr_refs x h || existsb (line_refs x) body
  end.

Section NI.
  Variables (x : string) (a a' : assign).
  Hypothesis A : agree_except x a a'.

  Lemma ni_assigned n : assigned a n = assigned a' n.
  Proof.
    destruct A as [A1 A2]. destruct (String.eqb n x) eqn:E.
    - apply String.eqb_eq in E. subst. assumption.
    - apply String.eqb_neq in E. unfold assigned. rewrite (A1 n E). reflexivity.
  Qed.

  Lemma ni_seg g : seg_refs x g = false -> subst_seg a g = subst_seg a' g.
  Proof.
    destruct g as [s|n d]; [reflexivity|]. cbn [seg_refs subst_seg]. intros E. apply String.eqb_neq in E.
    destruct A as [A1 _]. rewrite (A1 n E). reflexivity.
  Qed.

  Lemma ni_subst l : line_refs x l = false -> subst a l = subst a' l.
  Proof.
    induction l as [|g l IH]; [reflexivity|]. cbn [line_refs existsb]. intros H. apply orb_false_elim in H as [H1 H2].
    cbn [subst map]. rewrite (ni_seg g H1). f_equal. apply IH. assumption.
  Qed.

  Lemma ni_line l : line_refs x l = false -> ref_line a l = ref_line a' l.
  Proof. intros H. unfold ref_line. rewrite (ni_subst l H). reflexivity. Qed.

  Lemma ni_lines ls : existsb (line_refs x) ls = false -> map (ref_line a) ls = map (ref_line a') ls.
  Proof.
    induction ls as [|l ls IH]; [reflexivity|]. cbn [existsb]. intros H. apply orb_false_elim in H as [H1 H2].
    cbn [map]. rewrite (ni_line l H1), (IH H2). reflexivity.
  Qed.

  Lemma ni_substs ls : existsb (line_refs x) ls = false -> map (subst a) ls = map (subst a') ls.
  Proof.
    induction ls as [|l ls IH]; [reflexivity|]. cbn [existsb]. intros H. apply orb_false_elim in H as [H1 H2].
    cbn [map]. rewrite (ni_subst l H1), (IH H2). reflexivity.
  Qed.

  Lemma ni_cond brs els :
    existsb (fun br => existsb (line_refs x) (snd br)) brs = false ->
    match els with Some ls => existsb (line_refs x) ls | None => false end = false ->
    ref_cond a brs els = ref_cond a' brs els.
  Proof.
    intros Hb He. unfold ref_cond. f_equal.
    - induction brs as [|b brs IH]; [reflexivity|]. cbn [existsb] in Hb. apply orb_false_elim in Hb as [H1 H2].
      cbn [flat_map]. rewrite (ni_assigned (fst b)), (ni_lines _ H1), (IH H2). reflexivity.
    - assert (E : existsb (fun b => assigned a (fst b)) brs = existsb (fun b => assigned a' (fst b)) brs).
      { clear Hb. induction brs as [|b brs IH]; [reflexivity|]. cbn [existsb]. rewrite (ni_assigned (fst b)), IH. reflexivity. }
      rewrite E. destruct (existsb (fun b => assigned a' (fst b)) brs); [reflexivity|]. destruct els as [ls|]; [apply ni_lines; assumption|reflexivity].
  Qed.

  (* an item that does not reference x (in a line or in its FOR header) produces the same output lines *)
  Lemma ni_item it : item_refs x it = false -> ref_item a it = ref_item a' it.
  Proof.
    destruct it as [l|b elifs els|h body]; cbn [item_refs ref_item]; intros H.
    - rewrite (ni_line l H). reflexivity.
    - apply orb_false_elim in H as [H1 H2]. rewrite (ni_cond _ _ H1 H2). reflexivity.
    - apply orb_false_elim in H as [H1 H2]. rewrite (ni_substs body H2).
      assert (E : hdr_value a h = hdr_value a' h).
      { destruct h as [s|n d]; [reflexivity|]. cbn [hdr_refs] in H1. cbn [hdr_value]. rewrite (ni_seg (Tag n d) H1). reflexivity. }
      rewrite E. reflexivity.
  Qed.
End NI.

(* the generated files of two runs that differ in the value of x: both are the concatenation, item by item, of the
   reference lines, and the items that do not reference x contribute identical lines *)
Theorem noninterference17 m dict x (a a' : assign) t :
  dict_ok dict = true -> in_grammar17 t = true -> wf_assign17 t a = true -> wf_assign17 t a' = true ->
  agree_except x a a' ->
  engine17 m dict a t = ref17 a t /\ engine17 m dict a' t = ref17 a' t
  /\ (forall it, In it t -> item_refs x it = false -> ref_item a it = ref_item a' it)
  /\ (forall l, line_refs x l = false -> ref_line a l = ref_line a' l).
Proof.
  intros Hd G W W' A. split; [apply engine17_is_ref; assumption|]. split; [apply engine17_is_ref; assumption|].
  split; [intros it _ H; apply (ni_item x a a' A it H)|intros l H; apply (ni_line x a a' A l H)].
Qed.
