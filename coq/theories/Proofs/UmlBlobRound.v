(* C19 adaptor: loading the project the assumed writer produces = loading from the dictionaries the structured blobs stand for. *)
From Coq Require Import String Ascii List Bool Arith Lia.
From KV Require Import Lib.Str Lib.ODict Gen.VppSrc Model.Vpp Model.VppWriter Model.Uml Model.UmlBlob Model.UmlWriter
                       Proofs.VppDefs Proofs.VppTable Proofs.UmlBlobDefs Proofs.UmlBlobStruct Proofs.UmlBlobMono Proofs.UmlBlobText Proofs.UmlBlobTop.
Import ListNotations.
Open Scope string_scope.

(* ParseBLOB_Recursive replaced by the structural reading of the drawn element with that id *)
Definition struct_of (W : wdiagram) (v : velem) : option UmlBlob.pv :=
  match find (fun se => String.eqb (node_id (we_node (snd se))) (ve_id v)) (wd_drawn W) with
  | Some se => Some (top_pv_c (we_node (snd se)))
  | None => None
  end.

Definition wf_drawn (W : wdiagram) : bool :=
  forallb (fun se => wf_top (we_node (snd se)) && nbq_node (we_node (snd se)) && quote_ok (print_node (we_node (snd se)))) (wd_drawn W).

Lemma find_drawn_row : forall (drawn : list (string * welem)) rest mid,
  (exists se, In se drawn /\ node_id (we_node (snd se)) = mid) ->
  exists se0, find (fun se => String.eqb (node_id (we_node (snd se))) mid) drawn = Some se0
              /\ row_with_id (map (fun se => melem_of_welem (snd se)) drawn ++ rest)%list mid = Some (melem_of_welem (snd se0)).
Proof.
  unfold row_with_id. induction drawn as [|x l IH]; intros rest mid [se [Hin Hid]]; [destruct Hin|].
  cbn [find map app]. unfold melem_of_welem at 1. cbn [me_id].
  destruct (String.eqb (node_id (we_node (snd x))) mid) eqn:E.
  - exists x. split; reflexivity.
  - destruct Hin as [->|Hin]; [rewrite Hid, String.eqb_refl in E; discriminate|].
    apply IH. exists se. split; assumption.
Qed.

Lemma load_struct : forall W, wf_drawn W = true ->
  load_cdiagram (encode_cdiagram W) (wd_name W) = load_gen (get_model_element (cmelem_rows W)) (struct_of W) (cdelem_rows W).
Proof.
  intros W Hwf. rewrite load_own. apply load_gen_ext. intros e mid v He Hm Hg.
  unfold cdelem_rows in He. apply in_map_iff in He. destruct He as [se [<- Hse]]. cbn [de_model] in Hm. inversion Hm; subst mid. clear Hm.
  destruct (find_drawn_row (wd_drawn W) (map melem_of_welem (wd_referenced W)) (node_id (we_node (snd se))))
    as [se0 [Hf Hrow]]; [exists se; split; [exact Hse|reflexivity]|].
  rewrite gme_row in Hg. unfold cmelem_rows in Hg. rewrite Hrow in Hg. cbn [option_map] in Hg. inversion Hg; subst v. clear Hg.
  pose proof (find_some _ _ Hf) as [Hin0 Hid0]. apply String.eqb_eq in Hid0.
  unfold wf_drawn in Hwf. rewrite forallb_forall in Hwf. specialize (Hwf se0 Hin0). apply andb_true_iff in Hwf. destruct Hwf as [Hw Hq].
  apply andb_true_iff in Hw. destruct Hw as [Hw Hb].
  unfold blob_of, velem_of, melem_of_welem. cbn [ve_blobstr me_blob]. rewrite (parse_top_c _ Hw Hb Hq).
  unfold struct_of. cbn [ve_id me_id]. rewrite Hid0, Hf. reflexivity.
Qed.
