(* C06, hash order: Python's sorted(<set of strings>) does not depend on the iteration order of the set.
   A set iteration is ANY duplicate-free enumeration of its elements; two enumerations of the same set are permutations of
   one another; sorting (insertion sort w.r.t. the lexicographic byte order = code-point order on UTF-8) gives the same list. *)
From Coq Require Import String Ascii List Bool Arith NArith Lia Permutation Sorting.Sorted.
From KV Require Import Lib.Str Gen.SetOrder.
Import ListNotations.
Open Scope string_scope.
Open Scope list_scope.

Lemma ascii_compare_trans_lt a b c : Ascii.compare a b = Lt -> Ascii.compare b c = Lt -> Ascii.compare a c = Lt.
Proof. unfold Ascii.compare. rewrite !N.compare_lt_iff. lia. Qed.

Lemma ascii_compare_refl a : Ascii.compare a a = Eq.
Proof. unfold Ascii.compare. apply N.compare_refl. Qed.

Lemma ascii_compare_eq a b : Ascii.compare a b = Eq -> a = b.
Proof. apply Ascii.compare_eq_iff. Qed.

Lemma str_leb_trans a : forall b c, String.leb a b = true -> String.leb b c = true -> String.leb a c = true.
Proof.
  unfold String.leb.
  induction a as [|x a IH]; intros b c Hab Hbc.
  - destruct c; reflexivity.
  - destruct b as [|y b]; [simpl in Hab; discriminate|]. destruct c as [|z c]; [simpl in Hbc; discriminate|].
    simpl in *.
    destruct (Ascii.compare x y) eqn:Exy; try discriminate.
    + apply ascii_compare_eq in Exy. subst y.
      destruct (Ascii.compare x z) eqn:Exz; try discriminate; [|reflexivity].
      apply (IH b c); assumption.
    + destruct (Ascii.compare y z) eqn:Eyz; try discriminate.
      * apply ascii_compare_eq in Eyz. subst z. rewrite Exy. reflexivity.
      * rewrite (ascii_compare_trans_lt x y z Exy Eyz). reflexivity.
Qed.

Fixpoint insert (x : string) (l : list string) : list string :=
  match l with
  | [] => [x]
  | y :: r => if String.leb x y then x :: l else y :: insert x r
  end.

(* Python: sorted(iterable) *)
Fixpoint py_sorted (l : list string) : list string :=
  match l with [] => [] | x :: r => insert x (py_sorted r) end.

Lemma insert_perm x l : Permutation (x :: l) (insert x l).
Proof.
  induction l as [|y r IH]; simpl; [apply Permutation_refl|].
  destruct (String.leb x y); [apply Permutation_refl|].
  eapply Permutation_trans; [apply perm_swap|]. apply perm_skip. exact IH.
Qed.

Lemma py_sorted_perm l : Permutation l (py_sorted l).
Proof.
  induction l as [|x r IH]; simpl; [constructor|].
  eapply Permutation_trans; [apply perm_skip; exact IH|apply insert_perm].
Qed.

Definition le_s (a b : string) : Prop := String.leb a b = true.

Lemma insert_sorted x l : StronglySorted le_s l -> StronglySorted le_s (insert x l).
Proof.
  induction l as [|y r IH]; simpl; intros H; [repeat constructor|].
  inversion H as [|? ? Hr Hall]; subst.
  destruct (String.leb x y) eqn:E.
  - constructor; [assumption|]. constructor; [exact E|].
    eapply Forall_impl; [|exact Hall]. intros z Hz. unfold le_s in *. eapply str_leb_trans; eassumption.
  - constructor; [apply IH; assumption|].
    assert (Hyx : le_s y x). { unfold le_s. destruct (String.leb_total x y) as [H1|H1]; [congruence|assumption]. }
    eapply Permutation_Forall; [apply insert_perm|]. constructor; assumption.
Qed.

Lemma py_sorted_sorted l : StronglySorted le_s (py_sorted l).
Proof. induction l as [|x r IH]; simpl; [constructor|apply insert_sorted; assumption]. Qed.

Lemma sorted_perm_unique l1 : forall l2,
  StronglySorted le_s l1 -> StronglySorted le_s l2 -> Permutation l1 l2 -> l1 = l2.
Proof.
  induction l1 as [|x r IH]; intros l2 H1 H2 Hp.
  - apply Permutation_nil in Hp. subst; reflexivity.
  - destruct l2 as [|y s]; [apply Permutation_sym, Permutation_nil in Hp; discriminate|].
    inversion H1 as [|? ? Hr1 Hall1]; subst. inversion H2 as [|? ? Hr2 Hall2]; subst.
    assert (Exy : x = y).
    { assert (Hx : In x (y :: s)) by (eapply Permutation_in; [exact Hp|left; reflexivity]).
      assert (Hy : In y (x :: r)) by (eapply Permutation_in; [apply Permutation_sym; exact Hp|left; reflexivity]).
      destruct Hx as [Hx|Hx]; [congruence|]. destruct Hy as [Hy|Hy]; [congruence|].
      rewrite Forall_forall in Hall1, Hall2.
      apply String.leb_antisym; [apply Hall1; assumption|apply Hall2; assumption]. }
    subst y. f_equal. apply IH; try assumption. eapply Permutation_cons_inv; exact Hp.
Qed.

(* whatever order the set's elements are iterated in, sorted(...) is the same list *)
Theorem sorted_independent_of_iteration_order (l1 l2 : list string) :
  Permutation l1 l2 -> py_sorted l1 = py_sorted l2.
Proof.
  intros Hp. apply sorted_perm_unique; try apply py_sorted_sorted.
  eapply Permutation_trans; [apply Permutation_sym, py_sorted_perm|].
  eapply Permutation_trans; [exact Hp|apply py_sorted_perm].
Qed.

Lemma sorted_set_functions_are :
  sorted_set_functions = ["Class.GetNotForwardDeclarableNonPrimitiveTypesLinkedToThis";
                          "Class.GetForwardDeclarableNonPrimitiveTypesLinkedToThis";
                          "ClassDiagram.GetNamespaceDependencies"].
Proof. vm_compute. reflexivity. Qed.
