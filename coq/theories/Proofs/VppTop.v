(* C20: composition of the string level (Proofs/VppParse.v) and the table level (Proofs/VppTable.v); the refutation witness. *)
From Coq Require Import String List Bool.
From KV Require Import Lib.Str Model.Vpp Model.VppWriter Spec.VppSpec Proofs.VppDefs Proofs.VppParse Proofs.VppTable.
Import ListNotations.
Open Scope string_scope.

Lemma roundtrip : forall (D : diagram) (d : db) (nm : string),
  wf_diagram D = true -> hosts d D = true -> py_strip nm = d_name D ->
  extract d nm = Some (expected_rows D).
Proof. intros D d nm Hwf Hh Hn. apply table_level; auto. apply parse_ok_of_wf. exact Hwf. Qed.

Lemma others_no_influence : forall (D : diagram) (d1 d2 : db) (nm : string),
  wf_diagram D = true -> hosts d1 D = true -> hosts d2 D = true -> py_strip nm = d_name D ->
  extract d1 nm = extract d2 nm.
Proof. intros. rewrite (roundtrip D d1 nm), (roundtrip D d2 nm); auto. Qed.

(* witness: StateA --Safeguard/OnGo--> StateB, no guard: the trigger's name contains the keyword 'guard' *)
Definition st (i n : string) : pelem := {| p_id := i; p_type := "State2"; p_name := Some n; p_parent := None; p_blob := "" |}.
Definition tr (i : string) (n : option string) (f t : string) (e : option string) : dtrans :=
  {| t_id := i; t_name := n; t_parent := None; t_from := f; t_to := t; t_guard := None; t_effect := e;
     t_pto := []; t_pfrom := []; t_pguard := []; t_peffect := ["owner"];
     t_head := bs [13;10;9] ++ "_modelEditable=T";
     t_layout := [FKey KTo; FNoise (bs [13;10;9] ++ "pmAuthor=" ++ dq ++ "eugene" ++ dq); FKey KFrom]
                 ++ match e with Some _ => [FKey KEffect] | None => [] end |}.
Definition kw_diagram (trigger : string) : diagram :=
  {| d_id := "DIAGRAM0"; d_name := "Machine";
     d_elems := [ETrans "s1" (tr "T0" None "INIT" "SA" None);
                 EInit "s2" {| p_id := "INIT"; p_type := "InitialPseudoState"; p_name := Some ""; p_parent := None; p_blob := "" |};
                 EState "s3" (st "SA" "StateA"); EState "s4" (st "SB" "StateB");
                 ETrans "s5" (tr "T1" (Some trigger) "SA" "SB" (Some "ACT"))];
     d_guards := [];
     d_acts := [{| p_id := "ACT"; p_type := "Activity"; p_name := Some "OnGo"; p_parent := None; p_blob := "" |}] |}.

(* with a harmless trigger name everything holds ... *)
Lemma kw_diagram_ok :
  wf_diagram (kw_diagram "EventGo") = true /\ hosts (encode_diagram (kw_diagram "EventGo")) (kw_diagram "EventGo") = true
  /\ extract (encode_diagram (kw_diagram "EventGo")) "Machine" = Some [["StateA"; "EventGo"; "StateB"; "OnGo"; "None"]].
Proof. repeat split; vm_compute; reflexivity. Qed.

(* ... with 'Safeguard' the reader looks for a guard element that does not exist (Python: exception) although the drawn
   table is [StateA; Safeguard; StateB; OnGo; None] *)
Lemma kw_diagram_refuted :
  hosts (encode_diagram (kw_diagram "Safeguard")) (kw_diagram "Safeguard") = true
  /\ expected_rows (kw_diagram "Safeguard") = [["StateA"; "Safeguard"; "StateB"; "OnGo"; "None"]]
  /\ extract (encode_diagram (kw_diagram "Safeguard")) "Machine" = None.
Proof. repeat split; vm_compute; reflexivity. Qed.
