(* Closed form of gen_py for the template shape that Gen/PyTmpl.v holds NOW (computed from it: if the template's
   transition blocks change shape this file stops compiling), and the parser lemma: the closed form parses, by
   Python's block rule, to the explicit program [prog_of t]. *)
From Coq Require Import String Ascii List Bool Arith Lia.
From KV Require Import Lib.TableDef Model.TTable Model.PyShape Spec.TableInterp Gen.PyTmpl Model.PySM Proofs.TTableProofs.
Import ListNotations.
Open Scope string_scope.

(* ------------------------------------------------------------------ closed form of the generated lines *)
Definition guard_atom (r : row) : patom :=
  match opt (r_guard r) with Some g => AIfGuard g | None => AIfTrue end.

Definition row_body (r : row) : list patom :=
  ((match opt (r_next r) with Some _ => [AExit (r_src r)] | None => [] end) ++
   (match opt (r_act r) with Some a => [AAction a] | None => [] end) ++
   (match opt (r_next r) with Some n => [AEntry n; ASetState n] | None => [] end) ++ [AReturn])%list.

Definition row_lines (r : row) : list line := (12, guard_atom r) :: map (fun a => (16, a)) (row_body r).

Definition event_lines (t : table) (s e : string) : list line :=
  (8, AIfEvent e) :: flat_map row_lines (trans_of t s e).

Definition state_lines (t : table) (s : string) : list line :=
  ((4, ADef ("process" ++ s)) :: flat_map (event_lines t s) (events_of t s) ++ [(8, ASkip); (8, ANoTrans); (0, ASkip)])%list.

Definition dispatch_lines (s : string) : list line := [(8, AIfState s); (12, ACallState s); (12, AReturn)].

Definition gen_closed (t : table) : list line :=
  ([(4, ADef "__init__"); (8, AEntryStartup (getfirststate t)); (8, ASetState (getfirststate t));
    (4, ADef "process"); (8, ASkip)] ++
   flat_map dispatch_lines (tps_states t) ++
   [(8, ASkip); (8, ANoTrans); (0, ASkip)] ++
   flat_map (state_lines t) (tps_states t) ++ [(4, ASkip)])%list.

Lemma flat_map_ext' : forall {A B} (f g : A -> list B) l, (forall x, f x = g x) -> flat_map f l = flat_map g l.
Proof. intros. apply flat_map_ext. auto. Qed.

Lemma row_lines_eq : forall t s e r snip,
  snip = [(12, KIfGuard true); (16, KExit); (16, KAction); (16, KEntry); (16, KSetState); (16, KReturn)] ->
  flat_map (inst3 t s e r) snip = row_lines r.
Proof.
  intros t s e r snip ->. unfold row_lines, row_body, guard_atom.
  cbn [flat_map inst3 snd fst app].
  destruct (opt (r_guard r)); destruct (opt (r_next r)); destruct (opt (r_act r)); reflexivity.
Qed.

Ltac expand_tmpl := cbv [pair_expand is_begin is_end snd fst Nat.eqb orb andb negb inst2 inst1 inst0]; cbn [app].

Lemma expand_states_dispatch : forall t,
  expand_states t [(8, KIfState); (12, KCallState); (12, KReturn)] = flat_map dispatch_lines (tps_states t).
Proof.
  intro t. unfold expand_states. apply flat_map_ext'. intro s. expand_tmpl. reflexivity.
Qed.

Lemma expand_events_closed : forall t s,
  expand_events t s [(8, KIfEvent); (12, KBegin 3); (12, KIfGuard true); (16, KExit); (16, KAction); (16, KEntry);
                     (16, KSetState); (16, KReturn); (12, KEnd 3)]
  = flat_map (event_lines t s) (events_of t s).
Proof.
  intros t s. unfold expand_events. apply flat_map_ext'. intro e. expand_tmpl.
  unfold event_lines. f_equal. rewrite app_nil_r.
  unfold expand_rows. apply flat_map_ext'. intro r. apply row_lines_eq. reflexivity.
Qed.

Lemma expand_states_defs : forall t,
  expand_states t [(4, KDefProcessState); (8, KBegin 2); (8, KIfEvent); (12, KBegin 3); (12, KIfGuard true);
                   (16, KExit); (16, KAction); (16, KEntry); (16, KSetState); (16, KReturn); (12, KEnd 3);
                   (8, KEnd 2); (8, KSkip); (8, KNoTrans); (0, KSkip)]
  = flat_map (state_lines t) (tps_states t).
Proof.
  intro t. unfold expand_states. apply flat_map_ext'. intro s. expand_tmpl.
  rewrite expand_events_closed. reflexivity.
Qed.

Lemma gen_py_closed : forall t, gen_py t = gen_closed t.
Proof.
  intro t. unfold gen_py, gen_from, py_template, py_init, py_process. cbn [app].
  expand_tmpl. rewrite expand_states_dispatch, expand_states_defs. reflexivity.
Qed.

(* ------------------------------------------------------------------ the lines Python sees (no blank/comment/print) *)
Definition state_code (t : table) (s : string) : list line :=
  ((4, ADef ("process" ++ s)) :: flat_map (event_lines t s) (events_of t s) ++ [(8, ANoTrans)])%list.

Definition code_closed (t : table) : list line :=
  ([(4, ADef "__init__"); (8, AEntryStartup (getfirststate t)); (8, ASetState (getfirststate t)); (4, ADef "process")] ++
   flat_map dispatch_lines (tps_states t) ++ [(8, ANoTrans)] ++ flat_map (state_code t) (tps_states t))%list.

Lemma code_lines_app : forall a b, code_lines (a ++ b) = (code_lines a ++ code_lines b)%list.
Proof. intros. unfold code_lines. apply filter_app. Qed.

Lemma code_lines_flat_map : forall {A} (f : A -> list line) l,
  code_lines (flat_map f l) = flat_map (fun x => code_lines (f x)) l.
Proof.
  induction l as [|x l IH]; [reflexivity|]. cbn [flat_map]. rewrite code_lines_app, IH. reflexivity.
Qed.

Lemma code_lines_row : forall r, code_lines (row_lines r) = row_lines r.
Proof.
  intro r. unfold row_lines, row_body, guard_atom.
  destruct (opt (r_guard r)); destruct (opt (r_next r)); destruct (opt (r_act r)); reflexivity.
Qed.

Lemma code_lines_event : forall t s e, code_lines (event_lines t s e) = event_lines t s e.
Proof.
  intros. unfold event_lines. change (code_lines ((8, AIfEvent e) :: ?l)) with ((8, AIfEvent e) :: code_lines l).
  f_equal. rewrite code_lines_flat_map. apply flat_map_ext'. apply code_lines_row.
Qed.

Lemma code_lines_closed : forall t, code_lines (gen_closed t) = code_closed t.
Proof.
  intro t. unfold gen_closed, code_closed.
  rewrite !code_lines_app, !code_lines_flat_map. cbn [code_lines filter is_skip snd negb app].
  do 4 f_equal. f_equal. do 1 f_equal.
  rewrite app_nil_r. apply flat_map_ext'. intro s. unfold state_lines, state_code.
  change (code_lines ((4, ADef ("process" ++ s)) :: ?l)) with ((4, ADef ("process" ++ s)) :: code_lines l).
  f_equal. rewrite code_lines_app, code_lines_flat_map. f_equal.
  apply flat_map_ext'. apply code_lines_event.
Qed.

(* ------------------------------------------------------------------ the program it parses to *)
Definition row_block (r : row) : stmt := Block (guard_atom r) (map Atom (row_body r)).
Definition event_block (t : table) (s e : string) : stmt := Block (AIfEvent e) (map row_block (trans_of t s e)).
Definition state_body (t : table) (s : string) : list stmt :=
  (map (event_block t s) (events_of t s) ++ [Atom ANoTrans])%list.
Definition dispatch_block (s : string) : stmt := Block (AIfState s) [Atom (ACallState s); Atom AReturn].
Definition state_def (t : table) (s : string) : stmt := Block (ADef ("process" ++ s)) (state_body t s).
Definition init_body (t : table) : list stmt := [Atom (AEntryStartup (getfirststate t)); Atom (ASetState (getfirststate t))].
Definition process_body (t : table) : list stmt := (map dispatch_block (tps_states t) ++ [Atom ANoTrans])%list.
Definition prog_of (t : table) : list stmt :=
  Block (ADef "__init__") (init_body t) :: Block (ADef "process") (process_body t) :: map (state_def t) (tps_states t).

(* ------------------------------------------------------------------ a relational reading of parse_block *)
Inductive Parses : nat -> list line -> list stmt -> list line -> Prop :=
| P_nil : forall ind, Parses ind [] [] []
| P_dedent : forall ind i a r, i < ind -> Parses ind ((i, a) :: r) [] ((i, a) :: r)
| P_atom : forall ind a r ss rest, is_header a = false -> Parses ind r ss rest ->
    Parses ind ((ind, a) :: r) (Atom a :: ss) rest
| P_block : forall ind a j b r body r' ss rest, is_header a = true -> ind < j ->
    Parses j ((j, b) :: r) body r' -> Parses ind r' ss rest ->
    Parses ind ((ind, a) :: (j, b) :: r) (Block a body :: ss) rest.

Lemma Parses_len : forall ind ls ss rest, Parses ind ls ss rest -> length rest <= length ls.
Proof. induction 1; cbn [length] in *; lia. Qed.

Lemma parse_complete : forall ind ls ss rest, Parses ind ls ss rest ->
  forall fuel, length ls < fuel -> parse_block fuel ind ls = Some (ss, rest).
Proof.
  induction 1; intros fuel Hf; (destruct fuel as [|f]; [cbn [length] in Hf; lia|]); cbn [parse_block].
  - reflexivity.
  - apply Nat.ltb_lt in H. rewrite H. reflexivity.
  - rewrite Nat.ltb_irrefl, H. cbn [length] in Hf. rewrite IHParses by lia. reflexivity.
  - rewrite Nat.ltb_irrefl, H. apply Nat.ltb_lt in H0. rewrite H0.
    pose proof (Parses_len _ _ _ _ H1) as L. cbn [length] in Hf, L.
    rewrite IHParses1 by (cbn [length]; lia). rewrite IHParses2 by lia. reflexivity.
Qed.

Lemma Parses_stop : forall ind rest ss rest' j, Parses ind rest ss rest' -> ind < j -> Parses j rest [] rest.
Proof.
  intros ind rest ss rest' j H Hj. inversion H; subst; try constructor; lia.
Qed.

Lemma Parses_atoms : forall ind atoms rest ss rest',
  forallb (fun a => negb (is_header a)) atoms = true -> Parses ind rest ss rest' ->
  Parses ind (map (fun a => (ind, a)) atoms ++ rest) (map Atom atoms ++ ss) rest'.
Proof.
  induction atoms as [|a atoms IH]; intros rest ss rest' Ha Hp; [exact Hp|].
  cbn [forallb] in Ha. apply andb_true_iff in Ha as [H1 H2]. apply negb_true_iff in H1.
  cbn [map app]. apply P_atom; auto.
Qed.

Lemma row_body_shape : forall r, exists b bs, row_body r = b :: bs /\ forallb (fun a => negb (is_header a)) (b :: bs) = true.
Proof.
  intro r. unfold row_body. destruct (opt (r_next r)); destruct (opt (r_act r)); cbn [app]; eauto.
Qed.

Lemma guard_atom_header : forall r, is_header (guard_atom r) = true.
Proof. intro r. unfold guard_atom. destruct (opt (r_guard r)); reflexivity. Qed.

Lemma Parses_row : forall r rest ss rest', Parses 12 rest ss rest' ->
  Parses 12 (row_lines r ++ rest) (row_block r :: ss) rest'.
Proof.
  intros r rest ss rest' Hp. unfold row_lines, row_block.
  destruct (row_body_shape r) as (b & bs & E & Hh). rewrite E.
  cbn [map app]. eapply P_block with (r' := rest).
  - apply guard_atom_header.
  - lia.
  - change ((16, b) :: (map (fun a => (16, a)) bs ++ rest)%list) with ((map (fun a => (16, a)) (b :: bs) ++ rest)%list).
    change (Atom b :: map Atom bs) with (map Atom (b :: bs)).
    rewrite <- (app_nil_r (map Atom (b :: bs))).
    apply Parses_atoms; [exact Hh|]. eapply Parses_stop; [exact Hp|lia].
  - exact Hp.
Qed.

Lemma Parses_rows : forall rows rest ss rest', Parses 12 rest ss rest' ->
  Parses 12 (flat_map row_lines rows ++ rest) (map row_block rows ++ ss) rest'.
Proof.
  induction rows as [|r rows IH]; intros; [assumption|].
  cbn [flat_map map]. rewrite <- !app_assoc. cbn [app]. apply Parses_row. apply IH. assumption.
Qed.

Lemma Parses_event : forall t s e rest ss rest', trans_of t s e <> [] -> Parses 8 rest ss rest' ->
  Parses 8 (event_lines t s e ++ rest) (event_block t s e :: ss) rest'.
Proof.
  intros t s e rest ss rest' Hne Hp. unfold event_lines, event_block.
  destruct (trans_of t s e) as [|r rows]; [congruence|].
  cbn [flat_map app]. unfold row_lines at 1. cbn [app].
  eapply P_block with (r' := rest).
  - reflexivity.
  - lia.
  - assert (Parses 12 (flat_map row_lines (r :: rows) ++ rest) (map row_block (r :: rows) ++ []) rest) as H.
    { apply Parses_rows. eapply Parses_stop; [exact Hp|lia]. }
    rewrite app_nil_r in H. cbn [flat_map] in H. unfold row_lines at 1 in H. cbn [app] in H.
    rewrite <- ?app_assoc in H. rewrite <- ?app_assoc. exact H.
  - exact Hp.
Qed.

Lemma Parses_events : forall t s evs rest ss rest', (forall e, In e evs -> trans_of t s e <> []) ->
  Parses 8 rest ss rest' ->
  Parses 8 (flat_map (event_lines t s) evs ++ rest) (map (event_block t s) evs ++ ss) rest'.
Proof.
  induction evs as [|e evs IH]; intros rest ss rest' Hne Hp; [assumption|].
  cbn [flat_map map]. rewrite <- !app_assoc. cbn [app]. apply Parses_event.
  - apply Hne. left. reflexivity.
  - apply IH; auto. intros. apply Hne. right. assumption.
Qed.

(* ---- facts about the table model needed here *)


Lemma events_of_trans : forall t s e, In e (events_of t s) -> trans_of t s e <> [].
Proof.
  intros t s e H. unfold events_of in H. apply (proj1 (In_dedup _ _)) in H. unfold present in H. apply filter_In in H as [H _].
  apply in_map_iff in H as (r & E & Hr). apply filter_In in Hr as [Hr Hs].
  unfold trans_of, rows_for. intro Hnil.
  assert (In r (filter (fun r0 => String.eqb (r_src r0) s && String.eqb (r_ev r0) e) t)) as Hin.
  { apply filter_In. split; auto. rewrite Hs, E, String.eqb_refl. reflexivity. }
  rewrite Hnil in Hin. destruct Hin.
Qed.

Lemma Parses_state : forall t s rest ss rest', Parses 4 rest ss rest' ->
  Parses 4 (state_code t s ++ rest) (state_def t s :: ss) rest'.
Proof.
  intros t s rest ss rest' Hp. unfold state_code, state_def, state_body.
  assert (Parses 8 ((flat_map (event_lines t s) (events_of t s) ++ [(8, ANoTrans)]) ++ rest)
                   (map (event_block t s) (events_of t s) ++ [Atom ANoTrans]) rest) as H.
  { rewrite <- app_assoc. apply Parses_events; [apply events_of_trans|].
    cbn [app]. apply P_atom; [reflexivity|]. eapply Parses_stop; [exact Hp|lia]. }
  cbn [app].
  destruct ((flat_map (event_lines t s) (events_of t s) ++ [(8, ANoTrans)])%list) as [|[j b] r] eqn:E.
  { destruct (flat_map (event_lines t s) (events_of t s)); discriminate. }
  assert (j = 8) as ->.
  { destruct (events_of t s) as [|e evs]; cbn [flat_map app] in E.
    - injection E as E1 _. congruence.
    - unfold event_lines at 1 in E. cbn [app] in E. injection E as E1 _. congruence. }
  cbn [app] in H |- *. eapply P_block; [reflexivity|lia|exact H|exact Hp].
Qed.

Lemma Parses_states : forall t l rest ss rest', Parses 4 rest ss rest' ->
  Parses 4 (flat_map (state_code t) l ++ rest) (map (state_def t) l ++ ss) rest'.
Proof.
  induction l as [|s l IH]; intros; [assumption|].
  cbn [flat_map map]. rewrite <- !app_assoc. cbn [app]. apply Parses_state. apply IH. assumption.
Qed.

Lemma Parses_dispatch : forall l rest ss rest', Parses 8 rest ss rest' ->
  Parses 8 (flat_map dispatch_lines l ++ rest) (map dispatch_block l ++ ss) rest'.
Proof.
  induction l as [|s l IH]; intros rest ss rest' Hp; [assumption|].
  cbn [flat_map map dispatch_lines app]. unfold dispatch_block.
  eapply P_block with (r' := (flat_map dispatch_lines l ++ rest)%list); [reflexivity|lia| |apply IH; exact Hp].
  apply P_atom; [reflexivity|]. apply P_atom; [reflexivity|].
  eapply Parses_stop; [apply IH; exact Hp|lia].
Qed.

Lemma Parses_code_closed : forall t, Parses 4 (code_closed t) (prog_of t) [].
Proof.
  intro t. unfold code_closed, prog_of. cbn [app].
  assert (Parses 4 (flat_map (state_code t) (tps_states t) ++ []) (map (state_def t) (tps_states t) ++ []) []) as Hs.
  { apply Parses_states. constructor. }
  rewrite !app_nil_r in Hs.
  eapply P_block with (r' := ((4, ADef "process") :: flat_map dispatch_lines (tps_states t) ++ (8, ANoTrans) :: flat_map (state_code t) (tps_states t))%list);
    [reflexivity|lia| |].
  - apply P_atom; [reflexivity|]. apply P_atom; [reflexivity|]. apply P_dedent. lia.
  - assert (Parses 8 (flat_map dispatch_lines (tps_states t) ++ (8, ANoTrans) :: flat_map (state_code t) (tps_states t))
                     (map dispatch_block (tps_states t) ++ [Atom ANoTrans]) (flat_map (state_code t) (tps_states t))) as Hd.
    { apply Parses_dispatch. apply P_atom; [reflexivity|]. eapply Parses_stop; [exact Hs|lia]. }
    destruct ((flat_map dispatch_lines (tps_states t) ++ (8, ANoTrans) :: flat_map (state_code t) (tps_states t))%list) as [|[j b] r] eqn:E.
    { destruct (flat_map dispatch_lines (tps_states t)); discriminate. }
    assert (j = 8) as ->.
    { destruct (tps_states t); cbn [flat_map dispatch_lines app] in E; injection E as E1 _; congruence. }
    eapply P_block; [reflexivity|lia|exact Hd|exact Hs].
Qed.

Theorem parse_gen_py : forall t, parse_indent (gen_py t) = Some (prog_of t).
Proof.
  intro t. unfold parse_indent. rewrite gen_py_closed, code_lines_closed.
  pose proof (Parses_code_closed t) as H.
  unfold code_closed at 1. cbn [app].
  change ((4, ADef "__init__") :: (8, AEntryStartup (getfirststate t)) :: (8, ASetState (getfirststate t)) :: (4, ADef "process")
          :: (flat_map dispatch_lines (tps_states t) ++ (8, ANoTrans) :: flat_map (state_code t) (tps_states t))%list)
    with (code_closed t).
  rewrite (parse_complete _ _ _ _ H) by lia. reflexivity.
Qed.
