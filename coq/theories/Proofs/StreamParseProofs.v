(* The specification-side whole-stream parser returns exactly the messages of a well-formed stream; with
   Proofs/ConnProofs.reassembly this gives: deliveries of the chunked connection = stream_parse of the concatenation. *)
From Coq Require Import String Ascii List Bool Arith NArith ZArith Lia.
From KV Require Import Lib.Str Lib.ByteSeq Gen.CxxConn Model.Conn Spec.StreamParse Proofs.ByteSeqProofs Proofs.ConnProofs.
Import ListNotations.
Open Scope N_scope.
Open Scope list_scope.

Section SP.
  Variables p0 p1 : byte.

  Lemma sp_filler : forall f fuel s, filler_ok p0 f = true -> (length f <= fuel)%nat ->
    stream_parse_fuel fuel p0 (f ++ s) = stream_parse_fuel (fuel - length f) p0 s.
  Proof.
    induction f as [| b f IH]; intros fuel s Hf Hl.
    - cbn [app length]. rewrite Nat.sub_0_r. reflexivity.
    - cbn [filler_ok forallb] in Hf. apply andb_true_iff in Hf. destruct Hf as [Hb Hf].
      apply negb_true_iff in Hb. cbn [length] in Hl.
      destruct fuel as [| fuel]; [lia |].
      cbn [app stream_parse_fuel]. rewrite Hb. cbn [length Nat.sub]. apply IH; [exact Hf | lia].
  Qed.

  Lemma sp_nil fuel : stream_parse_fuel fuel p0 [] = [].
  Proof. destruct fuel; reflexivity. Qed.

  Lemma sp_at_msg fuel s : (exists s', s = p0 :: s') -> 8 <= len s -> 8 + payload_size s <= len s ->
    stream_parse_fuel (S fuel) p0 s
    = take (8 + payload_size s) s :: stream_parse_fuel fuel p0 (drop (8 + payload_size s) s).
  Proof.
    intros [s' ->] H8 Hn. cbn [stream_parse_fuel]. rewrite Ascii.eqb_refl, size_of_header_eq.
    apply N.ltb_ge in H8. rewrite H8. apply N.ltb_ge in Hn. rewrite Hn. reflexivity.
  Qed.

  Lemma sp_good : forall items tail fuel,
    forallb (wf_item p0 p1) items = true -> filler_ok p0 tail = true -> (length (stream_of items tail) < fuel)%nat ->
    stream_parse_fuel fuel p0 (stream_of items tail) = map snd items.
  Proof.
    induction items as [| [f m] items IH]; intros tail fuel Hi Ht Hl.
    - unfold stream_of in *. cbn [flat_map app] in *.
      rewrite <- (app_nil_r tail), sp_filler by (auto; lia). apply sp_nil.
    - rewrite (stream_of_cons f m items tail) in *.
      cbn [forallb] in Hi.
      apply andb_true_iff in Hi. destruct Hi as [Hfm Hi]. unfold wf_item in Hfm. cbn [fst snd] in Hfm.
      apply andb_true_iff in Hfm. destruct Hfm as [Hf Hm].
      destruct (wf_msg_inv p0 p1 m Hm) as (Hm8 & Hm32 & [t Hmt] & Hps).
      rewrite !app_length in Hl.
      rewrite sp_filler by (auto; lia).
      remember (fuel - length f)%nat as fuel' eqn:Ef.
      destruct fuel' as [| fuel']; [lia |].
      remember (m ++ stream_of items tail) as s eqn:Es.
      assert (8 <= len s) as Hs8 by (rewrite Es, len_app; lia).
      assert (payload_size s = len m - 8) as Hpss.
      { rewrite <- Hps. apply (payload_size_prefix s [] m (stream_of items tail)); auto.
        rewrite app_nil_r. exact Es. }
      rewrite (sp_at_msg fuel' s).
      2: { rewrite Es, Hmt. eexists. reflexivity. }
      2: { exact Hs8. }
      2: { rewrite Hpss, Es, len_app. lia. }
      rewrite Hpss. replace (8 + (len m - 8)) with (len m) by lia.
      rewrite Es, take_app_exact, drop_app_exact. cbn [map snd]. f_equal.
      apply IH; auto. unfold len in Hm8. lia.
  Qed.

  Theorem stream_parse_wf items tail :
    forallb (wf_item p0 p1) items = true -> filler_ok p0 tail = true ->
    stream_parse p0 (stream_of items tail) = map snd items.
  Proof. intros Hi Ht. unfold stream_parse. apply sp_good; auto. Qed.

  (* the deliveries are a function of the concatenated bytes alone: the chunking is unobservable *)
  Theorem reassembly_is_stream_parse items tail chunks :
    forallb (wf_item p0 p1) items = true -> filler_ok p0 tail = true -> forallb chunk_ok chunks = true ->
    concat chunks = stream_of items tail ->
    feed p0 p1 init chunks = Done init (stream_parse p0 (concat chunks)).
  Proof.
    intros Hi Ht Hc Hs. rewrite Hs, (stream_parse_wf items tail Hi Ht). apply (reassembly p0 p1 items tail chunks); assumption.
  Qed.
End SP.
