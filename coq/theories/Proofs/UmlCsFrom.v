(* C19, the C# back end from the project file: the semantic read-back (Proofs/UmlSemTop.v) composed with the C# rendering of the
   objects (Model/UmlBlob.v to_cdiagram_cs: LanguageCsharp's type / name helpers) and the C# generator theorems. *)
From Coq Require Import String Ascii List Bool Arith.
From KV Require Import Lib.Str Lib.ODict Model.Vpp Gen.UmlSrc Model.Uml Model.UmlCs Spec.UmlSpec Model.UmlBlob Model.UmlWriter Model.UmlSem
                       Proofs.UmlProofs Proofs.UmlFiles Proofs.UmlBlobTop Proofs.UmlBlobVis Proofs.UmlCsFiles Proofs.UmlCsOps Proofs.UmlSemTop.
Import ListNotations.
Open Scope string_scope.

(* the class diagram the C# generator model works on *)
Definition cdiagram_cs_of (S : sdiagram) : cdiagram := to_cdiagram_cs (rdiagram_of S).

Lemma forallb_map_same : forall (A B : Type) (f g : A -> B) (P : B -> bool) l,
  (forall x, P (f x) = P (g x)) -> forallb P (map f l) = forallb P (map g l).
Proof. intros A B f g P l H. induction l as [|x r IH]; [reflexivity|]. cbn [map forallb]. rewrite H, IH. reflexivity. Qed.

(* the visibilities are those of the C++ rendering: public / protected / private for everything read from a project file *)
Lemma wf_vis_cs : forall r, wf_vis (to_cdiagram_cs r) = wf_vis (to_cdiagram r).
Proof.
  intros r. unfold wf_vis, to_cdiagram_cs, to_cdiagram. cbn [classes].
  apply forallb_map_same. intros kc. unfold render_class_cs, render_class. cbn [c_ops].
  apply forallb_map_same. intros o. reflexivity.
Qed.

Lemma adaptor_cs_wf_vis : forall d name c, adaptor_cs d name = Some c -> wf_vis c = true.
Proof.
  intros d name c H. unfold adaptor_cs in H. destruct (load_cdiagram d name) as [r|] eqn:E; [|discriminate].
  cbn [bind] in H. inversion H; subst c. rewrite wf_vis_cs.
  apply (adaptor_wf_vis d name). unfold adaptor. rewrite E. reflexivity.
Qed.

Lemma adaptor_cs_roundtrip : forall S : sdiagram, sdiagram_ok S = true ->
  adaptor_cs (encode_project S) (sd_name S) = Some (cdiagram_cs_of S).
Proof. intros S H. unfold adaptor_cs. rewrite (load_roundtrip S H). reflexivity. Qed.

Lemma adaptor_cs_hosted : forall (S : sdiagram) (d : db), sdiagram_ok S = true -> chosts d (tree_of S) = true ->
  adaptor_cs d (sd_name S) = Some (cdiagram_cs_of S).
Proof.
  intros S d H Hh. unfold adaptor_cs.
  change (sd_name S) with (wd_name (tree_of S)).
  rewrite (load_hosted d (tree_of S) (rdiagram_of S) Hh (load_roundtrip S H)). reflexivity.
Qed.

Lemma files_cs_from_diagram : forall (S : sdiagram) (d : db) (nsf : bool) (dname : string),
  sdiagram_ok S = true -> chosts d (tree_of S) = true -> files_hyp_cs nsf dname (cdiagram_cs_of S) = true ->
  adaptor_cs d (sd_name S) = Some (cdiagram_cs_of S)
  /\ files_all template_files_cs nsf dname (cdiagram_cs_of S) = expected_files_cs nsf dname (cdiagram_cs_of S).
Proof. intros S d nsf dname H Hh Hf. split; [exact (adaptor_cs_hosted S d H Hh)|exact (files_all_expected_cs nsf dname _ Hf)]. Qed.

Lemma once_cs_from_diagram : forall (S : sdiagram) (d : db) (k : cls) (P : entry -> bool),
  sdiagram_ok S = true -> chosts d (tree_of S) = true ->
  acyclic (cdiagram_cs_of S) = true -> closed (cdiagram_cs_of S) = true -> In k (classes (cdiagram_cs_of S)) ->
  adaptor_cs d (sd_name S) = Some (cdiagram_cs_of S)
  /\ exists ms al, members_cs (List.length (classes (cdiagram_cs_of S))) (cdiagram_cs_of S) k = Some ms
                   /\ all_cs (List.length (classes (cdiagram_cs_of S))) (cdiagram_cs_of S) k = Some al /\ count P ms = count P al.
Proof.
  intros S d k P H Hh Ha Hc Hk. pose proof (adaptor_cs_hosted S d H Hh) as E. split; [exact E|].
  apply once_cs; try assumption. exact (adaptor_cs_wf_vis _ _ _ E).
Qed.

Lemma realised_cs_from_diagram : forall (D : sdiagram) (d : db) fuel vis (k : cls) (i : inh) (p : cls) (o : oper) l,
  sdiagram_ok D = true -> chosts d (tree_of D) = true ->
  In i (inhs (cdiagram_cs_of D)) -> contains (c_id k) (i_to i) = true -> i_real i = true ->
  find_class (classes (cdiagram_cs_of D)) (i_from i) = Some p -> c_pure p = true ->
  In o (c_ops p) -> vis_match vis o = true -> c_name k <> "" ->
  existsb (key_eqb (sig_key (cs_oper o))) (declared_of (cs_cls k)) = false ->
  ops_of_cs (S (S fuel)) (cdiagram_cs_of D) vis k = Some l ->
  adaptor_cs d (sd_name D) = Some (cdiagram_cs_of D)
  /\ In {| en_class := c_name k; en_owner := c_name p; en_owner_pure := true; en_realised := true; en_op := cs_oper o |} l.
Proof.
  intros D d fuel vis k i p o l H Hh. intros. split; [exact (adaptor_cs_hosted D d H Hh)|].
  eapply realised_emitted_cs; eauto.
Qed.

Print Assumptions files_cs_from_diagram.
Print Assumptions once_cs_from_diagram.
Print Assumptions realised_cs_from_diagram.
