(* C19, includes from the project file: the semantic read-back (Proofs/UmlSemTop.v) composed with the raw diagram of the objects
   read (Model/UmlIncl.v to_idiagram) and the include theorems. *)
From Coq Require Import String Ascii List Bool Arith.
From KV Require Import Lib.Str Lib.ODict Model.Vpp Model.Uml Model.UmlBlob Model.UmlWriter Model.UmlSem Model.UmlIncl
                       Proofs.UmlBlobTop Proofs.UmlSemTop Proofs.UmlInclCover Proofs.UmlInclSorted.
Import ListNotations.
Open Scope string_scope.

(* the raw diagram the include computation works on, as the semantic diagram specifies it *)
Definition idiagram_of (S : sdiagram) : idiagram := to_idiagram (rdiagram_of S).

Lemma adaptor_incl_hosted : forall (S : sdiagram) (d : db), sdiagram_ok S = true -> chosts d (tree_of S) = true ->
  adaptor_incl d (sd_name S) = Some (idiagram_of S).
Proof.
  intros S d H Hh. unfold adaptor_incl. change (sd_name S) with (wd_name (tree_of S)).
  rewrite (load_hosted d (tree_of S) (rdiagram_of S) Hh (load_roundtrip S H)). reflexivity.
Qed.

Lemma includes_cover_from_diagram : forall (D : sdiagram) (d : db) (fuel : nat) (nsf : bool) (c k : icls) (l : list string),
  sdiagram_ok D = true -> chosts d (tree_of D) = true ->
  incl_names_ok (idiagram_of D) = true -> In c (i_classes (idiagram_of D)) -> In k (i_classes (idiagram_of D)) ->
  In (qname k) (nfd_raw (idiagram_of D) c) ->
  header_includes fuel nsf (idiagram_of D) c = Some l ->
  adaptor_incl d (sd_name D) = Some (idiagram_of D) /\ In (spec_include nsf c k) l.
Proof.
  intros D d fuel nsf c k l H Hh Hn Hc Hk Hq Hl. split; [exact (adaptor_incl_hosted D d H Hh)|].
  exact (includes_cover fuel nsf _ c k l Hn Hc Hk Hq Hl).
Qed.

Lemma vector_from_diagram : forall (D : sdiagram) (d : db) (fuel : nat) (nsf : bool) (c : icls) (l : list string),
  sdiagram_ok D = true -> chosts d (tree_of D) = true ->
  own_vector (idiagram_of D) c = true -> header_includes fuel nsf (idiagram_of D) c = Some l ->
  adaptor_incl d (sd_name D) = Some (idiagram_of D) /\ In "#include <vector>" l.
Proof.
  intros D d fuel nsf c l H Hh Ho Hl. split; [exact (adaptor_incl_hosted D d H Hh)|exact (vector_included fuel nsf _ c l Ho Hl)].
Qed.

Print Assumptions includes_cover_from_diagram.
Print Assumptions vector_from_diagram.
