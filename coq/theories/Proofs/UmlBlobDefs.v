(* Shared definitions of the C19 adaptor proofs: brace trees and their structural reading (the stack machine of
   ParseBLOB_Recursive), field segments and the dictionary entries they stand for. *)
From Coq Require Import String Ascii List Bool Arith.
From KV Require Import Lib.Str Lib.ODict Gen.VppSrc Model.Vpp Model.VppWriter Model.Uml Model.UmlBlob Model.UmlWriter.
From KV Require Export Model.UmlDomain.
Import ListNotations.
Open Scope string_scope.

(* ---------------------------------------------------------------- brace trees *)

Inductive bt := BText (s : string) | BBlock (l : list bt).

Fixpoint bt_print (t : bt) : string :=
  match t with
  | BText s => s
  | BBlock l => "{" ++ (fix go (l : list bt) : string := match l with [] => "" | x :: r => bt_print x ++ go r end) l ++ "}"
  end.
Fixpoint bts_print (l : list bt) : string := match l with [] => "" | x :: r => bt_print x ++ bts_print r end.

(* the characters of a text pushed onto the (reversed) outside of a frame, the string state following them *)
Fixpoint feed (s : string) (f : frame) : frame :=
  match s with
  | EmptyString => f
  | String c r => feed r {| f_out := String c (f_out f); f_children := f_children f; f_st := qstep (f_st f) c |}
  end.

(* after a child has been read the scanner is outside a quoted text and the previous character was its opening brace *)
Definition resume (f : frame) : frame := {| f_out := f_out f; f_children := f_children f; f_st := qst0 |}.

(* structural reading: texts go to the outside, a block is read on its own and becomes the next child *)
Fixpoint bt_frame (t : bt) (f : option frame) : option frame :=
  match t with
  | BText s => match f with Some f0 => Some (feed s f0) | None => None end
  | BBlock l =>
      match f with
      | None => None
      | Some f0 =>
          match (fix go (l : list bt) (acc : option frame) : option frame :=
                   match l with [] => acc | x :: r => go r (bt_frame x acc) end) l (Some frame0) with
          | None => None
          | Some fr => match finalize fr with Some v => Some (add_child (resume f0) v) | None => None end
          end
      end
  end.
Fixpoint bts_frame (l : list bt) (acc : option frame) : option frame :=
  match l with [] => acc | x :: r => bts_frame r (bt_frame x acc) end.
Definition sem (l : list bt) : option pv := match bts_frame l (Some frame0) with Some fr => finalize fr | None => None end.

(* a forest is well formed from a string state: texts hold no brace outside quoted text; a block starts and ends outside
   quoted text; returns the state after it *)
Fixpoint bt_scan (t : bt) (st : option qst) : option qst :=
  match t with
  | BText s => match st with Some q => if free_of ["{"; "}"]%char q s then Some (scan q s) else None | None => None end
  | BBlock l =>
      match st with
      | None => None
      | Some q =>
          if q_in q then None
          else match (fix go (l : list bt) (acc : option qst) : option qst :=
                        match l with [] => acc | x :: r => go r (bt_scan x acc) end) l (Some qst0) with
               | Some q' => if q_in q' then None else Some qst0
               | None => None
               end
      end
  end.
Fixpoint bts_scan (l : list bt) (st : option qst) : option qst :=
  match l with [] => st | x :: r => bts_scan r (bt_scan x st) end.
Definition bts_ok (l : list bt) : bool := match bts_scan l (Some qst0) with Some _ => true | None => false end.

(* ---------------------------------------------------------------- field segments *)

(* the characters mass_replace deletes from str(bytes) text, and the alphabet on which that is all it does *)
Definition dropped (c : ascii) : bool := existsb (Ascii.eqb c) [CR; LF; TAB; "="; "<"; ">"; ";"; """"; "("; ")"]%char.
Definition alpha_char (c : ascii) : bool := plain_char c || dropped c.
Fixpoint alpha (s : string) : bool := match s with EmptyString => true | String c r => alpha_char c && alpha r end.
Fixpoint keepm (s : string) : string :=
  match s with EmptyString => "" | String c r => if dropped c then keepm r else String c (keepm r) end.

Fixpoint rep (s : string) (n : nat) : string := match n with O => "" | S m => s ++ rep s m end.

Definition seg_text (s : seg) : string :=
  match s with
  | SField ws k v => ws ++ k ++ "=" ++ v ++ ";"
  | SRefs ws k o sep c ids => ws ++ k ++ "=" ++ o ++ refs_text sep ids ++ c ++ ";"
  | SChildren ws k o sep c n => ws ++ k ++ "=" ++ o ++ rep sep (n - 1) ++ c ++ ";"
  | SRaw body => body ++ ";"
  end.

Definition seg_fields (s : seg) (acc : list (string * pv)) : list (string * pv) :=
  match s with
  (* a value is dropped when nothing but commas and blanks is left of it; otherwise it is kept WITH its commas *)
  | SField _ k v => if String.eqb (py_strip (remove_char "," (unq v))) "" then acc else upsert String.eqb k (PStr (unq v)) acc
  | SRefs _ k _ _ _ ids =>
      fst (fold_left (fun (st : list (string * pv) * nat) i => (upsert String.eqb (k ++ "_" ++ dec (snd st)) (PStr i) (fst st), S (snd st))) ids (acc, 0))
  | SChildren _ _ _ _ _ _ => acc
  | SRaw body => vstep acc (repr_body SQ body)          (* free text: whatever the reader makes of that piece *)
  end.

Definition segs_text (l : list seg) : string := String.concat "" (map seg_text l).
Definition segs_fields (l : list seg) : list (string * pv) := fold_left (fun acc s => seg_fields s acc) l [].

Definition top_head (id : string) (nm : option string) (ty : string) : list (string * pv) :=
  [("id", PStr (String "b" (String SQ id))); ("name", PStr (name_text nm)); ("type", PStr (ty ++ " '"))].

