(* C14: the connection layer (Model/Conn.v) reassembles every well-formed stream exactly, for every chunking.
   Invariant (DESIGN.md section 8/C14): after any prefix of the stream F0 M1 F1 ... Mn Fn the state (buf, required) is
     in a filler / on a message boundary : buf = [],  required = 0
     j bytes into Mi, 1 <= j < 8        : buf = firstn j Mi, required = 0
     j bytes into Mi, 8 <= j < |Mi|     : buf = firstn j Mi, required = |Mi| - j
   and the deliveries so far are the messages completely contained in the prefix.  [repr] is that invariant, [good] is
   "the call ended normally in a state satisfying the invariant for the rest of the stream, having delivered exactly the
   messages completed"; the step lemma is by induction on the fuel with the recursive calls on strictly shorter data. *)
From Coq Require Import String Ascii List Bool Arith NArith ZArith Lia.
From KV Require Import Lib.Str Lib.ByteSeq Gen.CxxConn Model.Conn Proofs.ByteSeqProofs.
Import ListNotations.
Open Scope N_scope.
Open Scope list_scope.

Lemma oversize_false p : p + 8 < 4294967296 -> oversize p = false.
Proof.
  intros H. unfold oversize. change oversize_guard_bound with 4294967295. rewrite size_of_header_eq.
  apply N.ltb_ge. lia.
Qed.

Section ConnProofs.
  Variables p0 p1 : byte.

  (* an additional requirement on every message of the stream (none for C14_reassembly; "fits the largest message size" for
     the __arm__ configuration, Proofs/ConnArmProofs.v) *)
  Variable extra : list byte -> bool.
  Definition wf_items (items : list (list byte * list byte)) : Prop :=
    forallb (fun it => wf_item p0 p1 it && extra (snd it)) items = true.

  Lemma wf_msg_inv m : wf_msg p0 p1 m = true ->
    8 <= len m /\ len m < 4294967296 /\ (exists t, m = p0 :: p1 :: t) /\ payload_size m = len m - 8.
  Proof.
    unfold wf_msg. rewrite !andb_true_iff, size_of_header_eq.
    intros [[[[H8 H32] Ha] Hb] Hp].
    apply N.leb_le in H8. apply N.ltb_lt in H32. apply N.eqb_eq in Hp.
    apply Ascii.eqb_eq in Ha. apply Ascii.eqb_eq in Hb.
    repeat split; auto.
    destruct m as [| a [| b t]]; try (unfold len in H8; cbn [length] in H8; lia).
    cbn [nth] in Ha, Hb. subst. eauto.
  Qed.

  Lemma filler_app a b : filler_ok p0 (a ++ b) = filler_ok p0 a && filler_ok p0 b.
  Proof. apply forallb_app. Qed.

  Lemma filler_hd f : filler_ok p0 f = true -> f <> [] -> Ascii.eqb (hd0 f) p0 = false.
  Proof.
    destruct f as [| b f]; [congruence |]. cbn [filler_ok forallb hd0 hd]. intros H _.
    apply andb_true_iff in H. destruct H as [H _]. apply negb_true_iff in H. exact H.
  Qed.

  Lemma fp_filler f : forall i d, filler_ok p0 f = true ->
    find_preamble_from p0 p1 i (f ++ d) = find_preamble_from p0 p1 (i + len f) d.
  Proof.
    induction f as [| b f IH]; intros i d H.
    - rewrite len_nil, N.add_0_r. reflexivity.
    - cbn [filler_ok forallb] in H. apply andb_true_iff in H. destruct H as [Hb Hf].
      apply negb_true_iff in Hb. cbn [app find_preamble_from]. rewrite Hb.
      fold (filler_ok p0 f) in Hf. rewrite (IH (i + 1) d Hf), len_cons. f_equal. lia.
  Qed.

  Lemma fp_none f : filler_ok p0 f = true -> find_preamble p0 p1 f = None.
  Proof.
    intros H. unfold find_preamble. rewrite <- (app_nil_r f), (fp_filler f 0 [] H). reflexivity.
  Qed.

  Lemma fp_hit i d : (d = [p0] \/ exists t, d = p0 :: p1 :: t) -> find_preamble_from p0 p1 i d = Some i.
  Proof.
    intros [-> | [t ->]]; cbn [find_preamble_from]; rewrite !Ascii.eqb_refl; reflexivity.
  Qed.

  (* ---- the invariant ---- *)
  Definition cur_msgs (got rest : list byte) : list (list byte) :=
    match got with [] => [] | _ => [got ++ rest] end.

  Lemma cur_msgs_cons got rest : got <> [] -> cur_msgs got rest = [got ++ rest].
  Proof. destruct got; [congruence | reflexivity]. Qed.

  Definition repr (st : state) (got rest : list byte) : Prop :=
    buf st = got /\
    ((got = [] /\ rest = [] /\ required st = 0) \/
     (got <> [] /\ rest <> [] /\ wf_msg p0 p1 (got ++ rest) = true /\
      required st = if len got <? 8 then 0 else len rest)).

  Definition good (o : outcome) (todo : list (list byte)) (fut : list byte) : Prop :=
    exists st' got' rest' items' tail' ds,
      o = Done st' ds /\ repr st' got' rest' /\ wf_items items' /\ filler_ok p0 tail' = true /\
      fut = rest' ++ stream_of items' tail' /\
      todo = ds ++ cur_msgs got' rest' ++ map snd items'.

  Ltac mk_good := split; [reflexivity |]; split; [| split; [| split; [| split]]].

  Definition rec_ok (rec : state -> list byte -> outcome) (n : nat) : Prop :=
    forall data items tail fut,
      (length data < n)%nat -> len data + 8 <= 4294967296 -> wf_items items -> filler_ok p0 tail = true ->
      stream_of items tail = data ++ fut -> good (rec reset data) (map snd items) fut.

  Lemma repr_idle : repr reset [] [].
  Proof. split; [reflexivity | left; auto]. Qed.

  Lemma good_idle items tail : wf_items items -> filler_ok p0 tail = true ->
    good (Done reset []) (map snd items) (stream_of items tail).
  Proof.
    intros Hi Ht. exists reset, [], [], items, tail, []. mk_good; auto using repr_idle.
  Qed.

  Lemma good_deliver o m todo fut : good o todo fut -> good (deliver m o) (m :: todo) fut.
  Proof.
    intros (st' & got' & rest' & items' & tail' & ds & -> & Hr & Hi & Ht & Hf & Htodo).
    exists st', got', rest', items', tail', (m :: ds). subst todo. cbn [deliver]. mk_good; auto.
  Qed.

  Lemma good_pending st got rest items tail :
    repr st got rest -> got <> [] -> wf_items items -> filler_ok p0 tail = true ->
    good (Done st []) ((got ++ rest) :: map snd items) (rest ++ stream_of items tail).
  Proof.
    intros Hr Hg Hi Ht. exists st, got, rest, items, tail, []. mk_good; auto.
    rewrite (cur_msgs_cons got rest Hg). reflexivity.
  Qed.

  (* after a delivered message: recurse on what is left of the data, or stop *)
  Lemma finish rec n (pre d3 : list byte) items tail fut :
    rec_ok rec n -> (length (pre ++ d3) <= n)%nat -> pre <> [] -> len (pre ++ d3) + 8 <= 4294967296 ->
    wf_items items -> filler_ok p0 tail = true -> stream_of items tail = d3 ++ fut ->
    good (if len pre <? len (pre ++ d3) then rec reset (drop (len pre) (pre ++ d3)) else Done reset [])
         (map snd items) fut.
  Proof.
    intros Hrec Hn Hpre H32 Hi Ht Hs.
    destruct d3 as [| x d3].
    - rewrite app_nil_r, N.ltb_irrefl. cbn [app] in Hs. subst fut. apply good_idle; assumption.
    - assert (len pre < len (pre ++ x :: d3)) as Hlt by (rewrite len_app, len_cons; lia).
      apply N.ltb_lt in Hlt. rewrite Hlt, drop_app_exact.
      apply (Hrec (x :: d3) items tail fut); auto.
      + rewrite app_length in Hn. apply len_pos in Hpre. unfold len in Hpre. lia.
      + rewrite len_app in H32. lia.
  Qed.

  (* the data starts exactly at the first byte of message m, nothing pending *)
  Lemma handle_start rec (d m : list byte) items tail fut :
    rec_ok rec (length d) -> d <> [] -> len d + 8 <= 4294967296 ->
    wf_msg p0 p1 m = true -> wf_items items -> filler_ok p0 tail = true ->
    m ++ stream_of items tail = d ++ fut ->
    good (handle p0 p1 rec reset d) (m :: map snd items) fut.
  Proof.
    intros Hrec Hd H32 Hm Hi Ht Hs.
    destruct (wf_msg_inv m Hm) as (Hm8 & Hm32 & [t Hmt] & Hps).
    unfold handle. cbn [buf reset]. rewrite len_nil, size_of_header_eq.
    change (0 <? 0) with false. cbn [orb].
    destruct (N.ltb_spec (len d) 8) as [Hlt | Hge].
    - (* less than a header: HandleFragmentedData with an empty buffer stores it *)
      unfold handle_fragmented. cbn [buf required reset]. rewrite len_nil.
      change (0 =? 1) with false. change (0 =? 0) with true. cbv beta iota zeta.
      rewrite N.add_0_r, (w32_small (len d)) by lia. rewrite size_of_header_eq.
      apply N.ltb_lt in Hlt. rewrite Hlt.
      apply N.ltb_lt in Hlt.
      destruct (app_split_le m (stream_of items tail) d fut Hs) as [e [Hme Hfut]].
      { unfold len in *. lia. }
      assert (e <> []) as He.
      { intros ->. rewrite Hme, app_nil_r in Hm8. lia. }
      subst fut. rewrite Hme.
      apply good_pending; auto.
      split; [reflexivity | right]. cbn [buf required put reset app].
      repeat split; auto. 
      + rewrite <- Hme. exact Hm.
      + apply N.ltb_lt in Hlt. rewrite Hlt. reflexivity.
    - (* at least a header: HandleUnfragmentedData reads the size from the data itself *)
      unfold handle_unfragmented. cbv beta iota zeta. rewrite size_of_header_eq.
      apply N.ltb_ge in Hge. rewrite Hge. apply N.ltb_ge in Hge.
      assert (payload_size d = len m - 8) as Hpd.
      { rewrite <- Hps. symmetry. apply (payload_size_prefix m (stream_of items tail) d fut Hs Hm8 Hge). }
      rewrite Hpd. rewrite (oversize_false (len m - 8)) by lia.
      replace (8 + (len m - 8)) with (len m) by lia. rewrite (w32_small (len m) Hm32).
      destruct (N.ltb_spec (len d) (len m)) as [Hdm | Hdm].
      + (* message not complete: store, required = what is missing *)
        destruct (app_split_le m (stream_of items tail) d fut Hs) as [e [Hme Hfut]].
        { unfold len in *. lia. }
        assert (e <> []) as He.
        { intros ->. rewrite Hme, app_nil_r in Hdm. lia. }
        subst fut. rewrite Hme in Hdm, Hm32. rewrite Hme.
        apply good_pending; auto.
        split; [reflexivity | right]. cbn [buf required reset app].
        repeat split; auto.
        * rewrite <- Hme. exact Hm.
        * apply N.ltb_ge in Hge. rewrite Hge. rewrite sub32_small by lia.
          rewrite len_app. lia.
      + (* complete message (and maybe more) in the data *)
        destruct (app_split_ge m (stream_of items tail) d fut Hs) as [e [Hde Hrest]].
        { unfold len in *. lia. }
        rewrite Hde at 1. rewrite take_app_exact.
        apply good_deliver. rewrite Hde.
        apply (finish rec (length d) m e items tail fut); auto.
        * rewrite Hde. apply Nat.le_refl.
        * intros ->. unfold len in Hm8. cbn in Hm8. lia.
        * rewrite <- Hde. exact H32.
  Qed.

  Lemma split_at (n : N) (l : list byte) : n <= len l -> exists h d2, l = h ++ d2 /\ len h = n.
  Proof.
    intros H. exists (firstn (N.to_nat n) l), (skipn (N.to_nat n) l). split.
    - symmetry. apply firstn_skipn.
    - unfold len in *. rewrite firstn_length. lia.
  Qed.

  Lemma assert_ok_wf m t : m = p0 :: p1 :: t -> assert_ok p0 p1 m = true.
  Proof. intros ->. cbn [assert_ok]. rewrite !Ascii.eqb_refl. reflexivity. Qed.

  (* a message is pending: got = the bytes of it seen so far, rest = what is missing *)
  Lemma handle_mid rec st (got rest data : list byte) items tail fut :
    rec_ok rec (length data) -> data <> [] -> len data + 8 <= 4294967296 ->
    repr st got rest -> got <> [] -> wf_items items -> filler_ok p0 tail = true ->
    rest ++ stream_of items tail = data ++ fut ->
    good (handle p0 p1 rec st data) ((got ++ rest) :: map snd items) fut.
  Proof.
    intros Hrec Hd H32 [Hbuf [(Hg & _) | (_ & Hrest & Hm & Hreq)]] Hg' Hi Ht Hs; [congruence |].
    destruct st as [b r]. cbn [buf required] in Hbuf, Hreq. subst b.
    destruct (wf_msg_inv _ Hm) as (Hm8 & Hm32 & [t Hmt] & Hps).
    rewrite len_app in Hm8, Hm32.
    pose proof (len_pos got Hg') as Hgpos. pose proof (len_pos rest Hrest) as Hrpos. pose proof (len_pos data Hd) as Hdpos.
    unfold handle. cbn [buf]. apply N.ltb_lt in Hgpos. rewrite Hgpos. apply N.ltb_lt in Hgpos. cbn [orb].
    unfold handle_fragmented. cbn [buf required]. cbv beta iota zeta.
    assert ((len got =? 1) && negb (Ascii.eqb (hd0 data) p1) = false) as Hc.
    { destruct (N.eqb_spec (len got) 1) as [H1 | H1]; [| reflexivity]. cbn [andb].
      destruct got as [| x [| y got]]; try (rewrite ?len_cons, ?len_nil in H1; lia).
      cbn [app] in Hmt. injection Hmt as _ Hr. subst rest.
      destruct data as [| z data]; [congruence |]. cbn [app] in Hs. injection Hs as Hz _. subst z.
      cbn [hd0 hd]. rewrite Ascii.eqb_refl. reflexivity. }
    rewrite Hc. clear Hc.
    destruct (N.ltb_spec (len got) 8) as [Hg8 | Hg8].
    - (* the header is not complete yet *)
      subst r. change (0 =? 0) with true. cbv beta iota.
      rewrite (w32_small (len data + len got)) by lia. rewrite size_of_header_eq.
      destruct (N.ltb_spec (len data + len got) 8) as [Htot | Htot].
      + (* still less than a header *)
        destruct (app_split_le rest (stream_of items tail) data fut Hs) as [e [Hre Hfut]].
        { unfold len in *. lia. }
        assert (len rest = len data + len e) as Hlre by (rewrite Hre, len_app; reflexivity).
        assert (e <> []) as He.
        { intros ->. rewrite len_nil in Hlre. lia. }
        subst fut. rewrite Hre, app_assoc. rewrite Hre, app_assoc in Hm.
        apply good_pending; auto.
        * split; [reflexivity | right]. cbn [buf required put].
          repeat split; auto.
          -- intros H. apply app_eq_nil in H. destruct H. congruence.
          -- rewrite len_app. assert (len got + len data < 8) as Hlt by lia.
             apply N.ltb_lt in Hlt. rewrite Hlt. reflexivity.
        * intros H. apply app_eq_nil in H. destruct H. congruence.
      + (* the header completes within this data *)
        rewrite (sub32_small 8 (len got)) by lia.
        destruct (split_at (8 - len got) data) as (h & d2 & Hdata & Hh); [lia |].
        rewrite <- Hh. rewrite Hdata at 1. rewrite slice0_app.
        cbn [buf put required].
        assert (payload_size (got ++ h) = len got + len rest - 8) as Hph.
        { rewrite <- len_app, <- Hps.
          apply (payload_size_prefix (got ++ h) (d2 ++ fut) (got ++ rest) (stream_of items tail)).
          - rewrite <- !app_assoc. f_equal. rewrite Hs, Hdata, <- app_assoc. reflexivity.
          - rewrite len_app. lia.
          - rewrite len_app. lia. }
        rewrite Hph. rewrite (oversize_false (len got + len rest - 8)) by lia.
        replace (8 + (len got + len rest - 8)) with (len got + len rest) by lia.
        rewrite (w32_small (len got + len rest)) by lia.
        destruct (N.ltb_spec (len data + len got) (len got + len rest)) as [Hin | Hout].
        * (* the message is not complete *)
          rewrite (sub32_small (len data) (len h)) by lia.
          assert (len data - len h = len d2) as Hd2 by (rewrite Hdata, len_app; lia).
          rewrite Hd2. rewrite Hdata at 1. rewrite <- (app_nil_r d2) at 2. rewrite slice_app.
          destruct (app_split_le rest (stream_of items tail) data fut Hs) as [e [Hre Hfut]].
          { unfold len in *. lia. }
          assert (len rest = len data + len e) as Hlre by (rewrite Hre, len_app; reflexivity).
          assert (e <> []) as He.
          { intros ->. rewrite len_nil in Hlre. lia. }
          subst fut. rewrite <- app_assoc, <- Hdata.
          rewrite Hre, app_assoc. rewrite Hre, app_assoc in Hm.
          apply good_pending; auto.
          -- split; [reflexivity | right]. cbn [buf required].
             repeat split; auto.
             ++ intros H. apply app_eq_nil in H. destruct H. congruence.
             ++ rewrite !len_app. assert (len got + len data <? 8 = false) as Hge by (apply N.ltb_ge; lia).
                rewrite Hge. rewrite sub32_small by lia. lia.
          -- intros H. apply app_eq_nil in H. destruct H. congruence.
        * (* the message completes within this data *)
          destruct (app_split_ge rest (stream_of items tail) data fut Hs) as [e [Hde Hstream]].
          { unfold len in *. lia. }
          destruct (app_split_le rest e h d2) as [rr [Hrr Hd2]].
          { rewrite <- Hde. exact Hdata. }
          { unfold len in *. lia. }
          rewrite (sub32_small (len got + len rest) 8) by lia.
          assert (len got + len rest - 8 = len rr) as Hlr by (rewrite Hrr, len_app; lia).
          rewrite Hlr. rewrite Hdata at 1. rewrite Hd2, slice_app.
          rewrite (w32_small (len h + len rr)) by (rewrite Hrr, len_app in Hm32; lia).
          assert ((got ++ h) ++ rr = got ++ rest) as Hbufm by (rewrite Hrr, app_assoc; reflexivity).
          rewrite Hbufm, (assert_ok_wf _ t Hmt).
          rewrite <- (len_app got rest), take_all.
          apply good_deliver.
          rewrite <- (len_app h rr), <- Hrr, Hde.
          apply (finish rec (length data) rest e items tail fut); auto.
          -- rewrite Hde. apply Nat.le_refl.
          -- rewrite <- Hde. exact H32.
    - (* the header is complete: required = what is missing of the payload *)
      subst r. assert (len rest =? 0 = false) as Hr0 by (apply N.eqb_neq; lia).
      rewrite Hr0. cbv beta iota.
      destruct (N.ltb_spec (len data) (len rest)) as [Hin | Hout].
      + destruct (app_split_le rest (stream_of items tail) data fut Hs) as [e [Hre Hfut]].
        { unfold len in *. lia. }
        assert (len rest = len data + len e) as Hlre by (rewrite Hre, len_app; reflexivity).
        assert (e <> []) as He.
        { intros ->. rewrite len_nil in Hlre. lia. }
        subst fut. rewrite Hre at 2. rewrite (app_assoc got data e). rewrite Hre, app_assoc in Hm.
        apply good_pending; auto.
        * split; [reflexivity | right]. cbn [buf required].
          repeat split; auto.
          -- intros H. apply app_eq_nil in H. destruct H. congruence.
          -- rewrite len_app. assert (len got + len data <? 8 = false) as Hge by (apply N.ltb_ge; lia).
             rewrite Hge. rewrite sub32_small by lia. lia.
        * intros H. apply app_eq_nil in H. destruct H. congruence.
      + destruct (app_split_ge rest (stream_of items tail) data fut Hs) as [e [Hde Hstream]].
        { unfold len in *. lia. }
        rewrite Hde at 1. rewrite slice0_app. cbn [buf put required].
        rewrite (assert_ok_wf _ t Hmt).
        rewrite (w32_small (len (got ++ rest))) by (rewrite len_app; lia).
        rewrite take_all.
        apply good_deliver. rewrite Hde.
        apply (finish rec (length data) rest e items tail fut); auto.
        * rewrite Hde. apply Nat.le_refl.
        * rewrite <- Hde. exact H32.
  Qed.

  Lemma stream_of_cons f m items tail : stream_of ((f, m) :: items) tail = f ++ m ++ stream_of items tail.
  Proof. unfold stream_of. cbn [flat_map fst snd]. rewrite <- !app_assoc. reflexivity. Qed.

  Lemma rec_ok_le rec n n' : rec_ok rec n -> (n' <= n)%nat -> rec_ok rec n'.
  Proof. intros H Hle d its tl ft Hl. apply H. lia. Qed.

  Lemma good_stay st got rest items tail :
    repr st got rest -> wf_items items -> filler_ok p0 tail = true ->
    good (Done st []) (cur_msgs got rest ++ map snd items) (rest ++ stream_of items tail).
  Proof. intros Hr Hi Ht. exists st, got, rest, items, tail, []. mk_good; auto. Qed.

  (* nothing pending: the data either lies inside the filler in front of the next message (or inside the last filler),
     or it reaches the first byte of the next message *)
  Lemma idle_split items tail data fut :
    wf_items items -> filler_ok p0 tail = true -> stream_of items tail = data ++ fut ->
    (filler_ok p0 data = true /\ exists items' tail', wf_items items' /\ filler_ok p0 tail' = true /\
        fut = stream_of items' tail' /\ map snd items' = map snd items)
    \/ (exists f m items' d', items = (f, m) :: items' /\ data = f ++ d' /\ d' <> [] /\
        m ++ stream_of items' tail = d' ++ fut).
  Proof.
    intros Hi Ht Hs. destruct items as [| [f m] items'].
    - left. unfold stream_of in Hs. cbn [flat_map app] in Hs. subst tail.
      rewrite filler_app in Ht. apply andb_true_iff in Ht. destruct Ht as [Hd Hf].
      split; [exact Hd |]. exists [], fut. repeat split; auto.
    - rewrite stream_of_cons in Hs. unfold wf_items in Hi. cbn [forallb] in Hi.
      apply andb_true_iff in Hi. destruct Hi as [Hfm Hi]. apply andb_true_iff in Hfm. destruct Hfm as [Hfm Hex].
      unfold wf_item in Hfm. cbn [fst snd] in Hfm, Hex.
      apply andb_true_iff in Hfm. destruct Hfm as [Hf Hm].
      destruct (le_lt_dec (length data) (length f)) as [Hle | Hgt].
      + left. destruct (app_split_le f (m ++ stream_of items' tail) data fut Hs Hle) as [e [Hfe Hfut]].
        subst f. rewrite filler_app in Hf. apply andb_true_iff in Hf. destruct Hf as [Hd He].
        split; [exact Hd |]. exists ((e, m) :: items'), tail. repeat split; auto.
        * unfold wf_items. cbn [forallb]. unfold wf_item at 1. cbn [fst snd]. rewrite He, Hm, Hex. exact Hi.
        * rewrite stream_of_cons. exact Hfut.
      + right. destruct (app_split_ge f (m ++ stream_of items' tail) data fut Hs) as [e [Hde Hrest]]; [lia |].
        exists f, m, items', e. repeat split; auto.
        intros ->. rewrite app_nil_r in Hde. subst data. lia.
  Qed.

  (* the step lemma: OnDataReceived maps the invariant before the chunk to the invariant after it and delivers
     exactly the messages completed in between *)
  Lemma on_data_good : forall fuel data st got rest items tail fut,
    (length data < fuel)%nat -> len data + 8 <= 4294967296 ->
    repr st got rest -> wf_items items -> filler_ok p0 tail = true ->
    rest ++ stream_of items tail = data ++ fut ->
    good (on_data p0 p1 fuel st data) (cur_msgs got rest ++ map snd items) fut.
  Proof.
    induction fuel as [| f IH]; intros data st got rest items tail fut Hfuel H32 Hr Hi Ht Hs; [lia |].
    assert (rec_ok (on_data p0 p1 f) (length data)) as Hrec.
    { intros d its tl ft Hl H32' Hi' Ht' Hs'.
      apply (IH d reset [] [] its tl ft); auto using repr_idle. lia. }
    cbn [on_data]. cbv zeta.
    destruct data as [| x data'] eqn:Edata.
    - rewrite len_nil. change (0 =? 0) with true. cbv iota. cbn [app] in Hs. subst fut.
      apply good_stay; assumption.
    - rewrite <- Edata in *. assert (data <> []) as Hd by (rewrite Edata; discriminate).
      pose proof (len_pos data Hd) as Hdpos.
      assert (len data =? 0 = false) as Hz by (apply N.eqb_neq; lia). rewrite Hz.
      destruct Hr as [Hbuf [(Hg & Hrest & Hreq) | (Hg & Hrest & Hm & Hreq)]].
      + (* nothing pending *)
        destruct st as [b r]. cbn [buf required] in Hbuf, Hreq. subst b. subst r. subst rest. subst got.
        cbn [buf app cur_msgs] in *. rewrite len_nil. change (0 =? 0) with true. cbv iota.
        destruct (idle_split items tail data fut Hi Ht Hs)
          as [(Hfd & items' & tail' & Hi' & Ht' & Hfut & Hmap) | (fl & m & items' & d' & Hit & Hdd & Hd' & Hs')].
        * (* only filler in this data: it is skipped *)
          assert ((if len data =? 1
                   then if Ascii.eqb (hd0 data) p0 then handle p0 p1 (on_data p0 p1 f) (mkSt [] 0) data else Done (mkSt [] 0) []
                   else match find_preamble p0 p1 data with
                        | None => Done (mkSt [] 0) []
                        | Some i => handle p0 p1 (on_data p0 p1 f) (mkSt [] 0) (drop i data)
                        end) = Done (mkSt [] 0) []) as E.
          { destruct (len data =? 1).
            - rewrite (filler_hd data Hfd Hd). reflexivity.
            - rewrite (fp_none data Hfd). reflexivity. }
          rewrite E. rewrite <- Hmap. subst fut.
          apply (good_stay (mkSt [] 0) [] [] items' tail'); auto using repr_idle.
        * (* the data reaches the first byte of the next message *)
          subst items. cbn [map snd].
          unfold wf_items in Hi. cbn [forallb] in Hi.
          apply andb_true_iff in Hi. destruct Hi as [Hfm Hi]. apply andb_true_iff in Hfm. destruct Hfm as [Hfm Hex].
          unfold wf_item in Hfm. cbn [fst snd] in Hfm.
          apply andb_true_iff in Hfm. destruct Hfm as [Hf Hm].
          destruct (wf_msg_inv m Hm) as (_ & _ & [t Hmt] & _).
          assert (d' = [p0] \/ exists t', d' = p0 :: p1 :: t') as Hshape.
          { rewrite Hmt in Hs'. destruct d' as [| a [| b d'']]; [congruence | |].
            - cbn [app] in Hs'. injection Hs' as Ha _. left. congruence.
            - cbn [app] in Hs'. injection Hs' as Ha Hb _. right. exists d''. congruence. }
          assert (len d' + 8 <= 4294967296) as H32'.
          { rewrite Hdd, len_app in H32. lia. }
          assert (rec_ok (on_data p0 p1 f) (length d')) as Hrec'.
          { apply (rec_ok_le _ _ _ Hrec). rewrite Hdd, app_length. lia. }
          assert ((if len data =? 1
                   then if Ascii.eqb (hd0 data) p0 then handle p0 p1 (on_data p0 p1 f) (mkSt [] 0) data else Done (mkSt [] 0) []
                   else match find_preamble p0 p1 data with
                        | None => Done (mkSt [] 0) []
                        | Some i => handle p0 p1 (on_data p0 p1 f) (mkSt [] 0) (drop i data)
                        end) = handle p0 p1 (on_data p0 p1 f) reset d') as E.
          { destruct (N.eqb_spec (len data) 1) as [H1 | H1].
            - assert (fl = []) as Hfl.
              { apply len_zero. rewrite Hdd, len_app in H1. apply len_pos in Hd'. lia. }
              subst fl. cbn [app] in Hdd. subst d'.
              destruct Hshape as [-> | [t' ->]]; cbn [hd0 hd]; rewrite Ascii.eqb_refl; reflexivity.
            - unfold find_preamble. rewrite Hdd, (fp_filler fl 0 d' Hf), (fp_hit _ d' Hshape).
              cbn [N.add]. rewrite drop_app_exact. reflexivity. }
          rewrite E.
          apply (handle_start _ d' m items' tail fut); auto.
      + (* a message is pending *)
        destruct st as [b r]. cbn [buf required] in Hbuf, Hreq. subst b.
        pose proof (len_pos got Hg) as Hgpos.
        cbn [buf]. assert (len got =? 0 = false) as Hgz by (apply N.eqb_neq; lia). rewrite Hgz.
        rewrite (cur_msgs_cons got rest Hg). cbn [app].
        apply (handle_mid _ _ got rest data items tail fut); auto.
        split; [reflexivity | right; auto].
  Qed.

  Lemma chunk_ok_inv c : chunk_ok c = true -> len c + 8 <= 4294967296.
  Proof. unfold chunk_ok. rewrite size_of_header_eq, two32. apply N.leb_le. Qed.

  Lemma fuel_enough (c : list byte) : (length c < fuel_for c)%nat.
  Proof. unfold fuel_for. lia. Qed.

  (* the invariant over the chunk list *)
  Lemma feed_good : forall chunks st got rest items tail fut,
    forallb chunk_ok chunks = true -> repr st got rest -> wf_items items -> filler_ok p0 tail = true ->
    rest ++ stream_of items tail = concat chunks ++ fut ->
    good (feed p0 p1 st chunks) (cur_msgs got rest ++ map snd items) fut.
  Proof.
    induction chunks as [| c r IH]; intros st got rest items tail fut Hc Hr Hi Ht Hs.
    - cbn [feed concat app] in *. subst fut. apply good_stay; assumption.
    - cbn [forallb] in Hc. apply andb_true_iff in Hc. destruct Hc as [Hc Hcr].
      cbn [concat] in Hs. rewrite <- app_assoc in Hs.
      destruct (on_data_good (fuel_for c) c st got rest items tail (concat r ++ fut)
                  (fuel_enough c) (chunk_ok_inv c Hc) Hr Hi Ht Hs)
        as (st' & got' & rest' & items' & tail' & ds & Ho & Hr' & Hi' & Ht' & Hf' & Htodo).
      cbn [feed]. rewrite Ho.
      destruct (IH st' got' rest' items' tail' fut Hcr Hr' Hi' Ht' (eq_sym Hf'))
        as (st2 & got2 & rest2 & items2 & tail2 & ds2 & Ho2 & Hr2 & Hi2 & Ht2 & Hf2 & Htodo2).
      rewrite Ho2. exists st2, got2, rest2, items2, tail2, (ds ++ ds2). mk_good; auto.
      rewrite Htodo, Htodo2, <- app_assoc. reflexivity.
  Qed.

  Lemma stream_nil items tail : wf_items items -> stream_of items tail = [] -> items = [] /\ tail = [].
  Proof.
    intros Hi Hs. destruct items as [| [f m] items].
    - unfold stream_of in Hs. cbn [flat_map app] in Hs. auto.
    - exfalso. rewrite stream_of_cons in Hs. unfold wf_items in Hi. cbn [forallb] in Hi.
      apply andb_true_iff in Hi. destruct Hi as [Hfm _]. apply andb_true_iff in Hfm. destruct Hfm as [Hfm _].
      unfold wf_item in Hfm. cbn [fst snd] in Hfm.
      apply andb_true_iff in Hfm. destruct Hfm as [_ Hm].
      destruct (wf_msg_inv m Hm) as (_ & _ & [t Hmt] & _). subst m.
      apply app_eq_nil in Hs. destruct Hs as [_ Hs]. discriminate Hs.
  Qed.

  (* C14, main statement (for streams whose messages also satisfy [extra]) *)
  Theorem reassembly_x items tail chunks :
    wf_items items -> filler_ok p0 tail = true -> forallb chunk_ok chunks = true ->
    concat chunks = stream_of items tail ->
    feed p0 p1 init chunks = Done init (map snd items).
  Proof.
    intros Hi Ht Hc Hs.
    destruct (feed_good chunks init [] [] items tail [] Hc repr_idle Hi Ht)
      as (st' & got' & rest' & items' & tail' & ds & Ho & Hr' & Hi' & Ht' & Hf' & Htodo).
    { cbn [app]. rewrite app_nil_r. symmetry. exact Hs. }
    symmetry in Hf'. apply app_eq_nil in Hf'. destruct Hf' as [Hrest' Hstream'].
    destruct (stream_nil items' tail' Hi' Hstream') as [-> ->].
    destruct Hr' as [Hbuf [(Hg & _ & Hreq) | (_ & Hne & _)]]; [| congruence].
    subst got'. unfold cur_msgs in Htodo. cbn [map app] in Htodo. rewrite !app_nil_r in Htodo.
    rewrite Ho, Htodo. destruct st' as [b r]. cbn [buf required] in *. subst b r. rewrite ?app_nil_r. reflexivity.
  Qed.

  (* C14 for every PREFIX of a well-formed stream: what has been delivered after the chunks seen so far is exactly the
     list of messages completely contained in them; the pending bytes are a proper prefix of the next message *)
  Theorem reassembly_prefix_x items tail chunks fut :
    wf_items items -> filler_ok p0 tail = true -> forallb chunk_ok chunks = true ->
    concat chunks ++ fut = stream_of items tail ->
    exists st ds rest items' tail',
      feed p0 p1 init chunks = Done st ds /\
      map snd items = ds ++ cur_msgs (buf st) rest ++ map snd items' /\
      fut = rest ++ stream_of items' tail' /\
      (buf st = [] -> rest = [] /\ required st = 0) /\ (buf st <> [] -> rest <> []) /\
      wf_items items' /\ filler_ok p0 tail' = true.
  Proof.
    intros Hi Ht Hc Hs.
    destruct (feed_good chunks init [] [] items tail fut Hc repr_idle Hi Ht)
      as (st' & got' & rest' & items' & tail' & ds & Ho & Hr' & Hi' & Ht' & Hf' & Htodo).
    { cbn [app]. symmetry. exact Hs. }
    exists st', ds, rest', items', tail'.
    destruct Hr' as [Hbuf Hcases]. rewrite Hbuf.
    repeat split; auto.
    - destruct Hcases as [(Hg & Hr & Hq) | (Hg & _)]; [auto | congruence].
    - destruct Hcases as [(Hg & Hr & Hq) | (Hg & _)]; [auto | congruence].
    - destruct Hcases as [(Hg & Hr & Hq) | (Hg & Hr & _)]; [congruence | auto].
  Qed.
End ConnProofs.

(* without an additional requirement *)
Definition no_extra (m : list byte) : bool := true.

Lemma wf_items_plain p0 p1 items : wf_items p0 p1 no_extra items <-> forallb (wf_item p0 p1) items = true.
Proof.
  unfold wf_items, no_extra. induction items as [| it r IH]; [tauto |].
  cbn [forallb]. rewrite andb_true_r, !andb_true_iff, IH. tauto.
Qed.

Theorem reassembly p0 p1 items tail chunks :
  forallb (wf_item p0 p1) items = true -> filler_ok p0 tail = true -> forallb chunk_ok chunks = true ->
  concat chunks = stream_of items tail ->
  feed p0 p1 init chunks = Done init (map snd items).
Proof. intros Hi. apply (reassembly_x p0 p1 no_extra). apply wf_items_plain. exact Hi. Qed.

Theorem reassembly_prefix p0 p1 items tail chunks fut :
  forallb (wf_item p0 p1) items = true -> filler_ok p0 tail = true -> forallb chunk_ok chunks = true ->
  concat chunks ++ fut = stream_of items tail ->
  exists st ds rest items' tail',
    feed p0 p1 init chunks = Done st ds /\
    map snd items = ds ++ cur_msgs (buf st) rest ++ map snd items' /\
    fut = rest ++ stream_of items' tail' /\
    (buf st = [] -> rest = [] /\ required st = 0) /\ (buf st <> [] -> rest <> []) /\
    forallb (wf_item p0 p1) items' = true /\ filler_ok p0 tail' = true.
Proof.
  intros Hi Ht Hc Hs.
  destruct (reassembly_prefix_x p0 p1 no_extra items tail chunks fut (proj2 (wf_items_plain p0 p1 items) Hi) Ht Hc Hs)
    as (st & ds & rest & items' & tail' & H1 & H2 & H3 & H4 & H5 & H6 & H7).
  exists st, ds, rest, items', tail'. repeat split; auto; try (apply H4; assumption). apply wf_items_plain. exact H6.
Qed.

(* C14, raw-data receiver: every non-empty chunk is passed on unmodified, in order, and nothing else *)
Theorem raw_exact chunks : feed_raw chunks = filter (fun c => negb (len c =? 0)) chunks.
Proof.
  induction chunks as [| c r IH]; [reflexivity |].
  unfold feed_raw in *. cbn [flat_map filter]. rewrite IH. unfold on_data_raw.
  destruct (len c =? 0); reflexivity.
Qed.

Theorem raw_bytes chunks : concat (feed_raw chunks) = concat chunks.
Proof.
  induction chunks as [| c r IH]; [reflexivity |].
  unfold feed_raw in *. cbn [flat_map concat]. rewrite concat_app, IH. unfold on_data_raw.
  destruct (N.eqb_spec (len c) 0) as [H | H].
  - rewrite (len_zero c H). reflexivity.
  - cbn [concat]. rewrite app_nil_r. reflexivity.
Qed.
