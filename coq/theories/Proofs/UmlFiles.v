(* C19: file placement (files_of = expected_files) and the namespace chain (folder chain, balanced wrap). *)
From Coq Require Import String Ascii List Bool Arith Lia.
From KV Require Import Lib.Str Lib.ODict Model.Vpp Gen.UmlSrc Model.Uml Spec.UmlSpec Proofs.VppStr.
Import ListNotations.
Open Scope string_scope.

(* ---------------------------------------------------------------- split2 / join / replace of "::" *)

Lemma split2_nonempty a b s : split2 a b s <> [].
Proof.
  destruct s as [|x r]; [discriminate|]. cbn [split2]. destruct r as [|y r']; [discriminate|].
  destruct (Ascii.eqb x a && Ascii.eqb y b); [discriminate|]. destruct (split2 a b (String y r')); discriminate.
Qed.

Lemma split2_cons2 a b x y r :
  split2 a b (String x (String y r)) =
  if Ascii.eqb x a && Ascii.eqb y b then "" :: split2 a b r
  else match split2 a b (String y r) with h :: t => String x h :: t | [] => [String x ""] end.
Proof. reflexivity. Qed.

Lemma join_cons_char sep x h t : join sep (String x h :: t) = String x (join sep (h :: t)).
Proof. destruct t; reflexivity. Qed.

Lemma join_nil_cons sep l : l <> [] -> join sep ("" :: l) = sep ++ join sep l.
Proof. destruct l; [congruence|reflexivity]. Qed.

(* ns.replace("::", "/") is the folder chain  join "/" (ns.split("::")) *)
Lemma ns_path_chain_n : forall n s, String.length s <= n -> repl_from "::" "/" 0 s = join "/" (split2 ":" ":" s).
Proof.
  induction n as [|n IH]; intros s Hn.
  - destruct s; [reflexivity|cbn in Hn; lia].
  - destruct s as [|x r]; [reflexivity|]. cbn [String.length] in Hn.
    destruct r as [|y r'].
    + cbn [repl_from prefixb split2 join]. rewrite andb_false_r. reflexivity.
    + cbn [String.length] in Hn. rewrite split2_cons2.
      change (repl_from "::" "/" 0 (String x (String y r')))
        with (if prefixb "::" (String x (String y r')) then "/" ++ repl_from "::" "/" 1 (String y r')
              else String x (repl_from "::" "/" 0 (String y r'))).
      change (prefixb "::" (String x (String y r'))) with (Ascii.eqb ":" x && (Ascii.eqb ":" y && true)).
      rewrite andb_true_r, (Ascii.eqb_sym ":" x), (Ascii.eqb_sym ":" y).
      destruct (Ascii.eqb x ":" && Ascii.eqb y ":") eqn:E.
      * change (repl_from "::" "/" 1 (String y r')) with (repl_from "::" "/" 0 r').
        rewrite (IH r') by lia. rewrite join_nil_cons by apply split2_nonempty. reflexivity.
      * rewrite (IH (String y r')) by (cbn [String.length]; lia).
        destruct (split2 ":" ":" (String y r')) as [|h t] eqn:Es; [exfalso; eapply split2_nonempty; eauto|].
        rewrite join_cons_char. reflexivity.
Qed.

Lemma ns_path_chain ns : ns_path ns = folder_chain ns.
Proof. unfold ns_path, folder_chain, replace_all. apply (ns_path_chain_n (String.length ns)). lia. Qed.

(* ns = "::".join(ns.split("::")) *)
Lemma join_split2_n : forall n s, String.length s <= n -> join "::" (split2 ":" ":" s) = s.
Proof.
  induction n as [|n IH]; intros s Hn.
  - destruct s; [reflexivity|cbn in Hn; lia].
  - destruct s as [|x r]; [reflexivity|]. cbn [String.length] in Hn.
    destruct r as [|y r']; [reflexivity|]. cbn [String.length] in Hn. rewrite split2_cons2.
    destruct (Ascii.eqb x ":" && Ascii.eqb y ":") eqn:E.
    + apply andb_true_iff in E. destruct E as [E1 E2]. apply Ascii.eqb_eq in E1, E2. subst.
      rewrite join_nil_cons by apply split2_nonempty. rewrite (IH r') by lia. reflexivity.
    + destruct (split2 ":" ":" (String y r')) as [|h t] eqn:Es; [exfalso; eapply split2_nonempty; eauto|].
      rewrite join_cons_char. rewrite <- Es. rewrite (IH (String y r')) by (cbn [String.length]; lia). reflexivity.
Qed.

Lemma join_split2 ns : join "::" (split2 ":" ":" ns) = ns.
Proof. apply (join_split2_n (String.length ns)). lia. Qed.

(* ---------------------------------------------------------------- output file names *)

Lemma repl_skip_dot p' q name s : no_char "." name = true ->
  repl_from (String "." p') q 0 (name ++ s) = name ++ repl_from (String "." p') q 0 s.
Proof.
  induction name as [|c name IH]; intros H; [reflexivity|].
  cbn [no_char] in H. apply andb_true_iff in H. destruct H as [Hc Hn]. apply negb_true_iff in Hc.
  cbn [append]. 
  change (repl_from (String "." p') q 0 (String c (name ++ s)))
    with (if prefixb (String "." p') (String c (name ++ s)) then q ++ repl_from (String "." p') q (String.length (String "." p') - 1) (name ++ s)
          else String c (repl_from (String "." p') q 0 (name ++ s))).
  cbn [prefixb]. rewrite (Ascii.eqb_sym "." c), Hc. cbn [andb]. rewrite IH by exact Hn. reflexivity.
Qed.

Definition ext_of (tmpl : string) : string :=
  if String.eqb tmpl "ClassTemplate.tpp" then ".cpp" else ".h".

Lemma out_name_class name : no_char "." name = true ->
  out_name KClass name "ClassTemplate.t" = name ++ ".h" /\ out_name KClass name "ClassTemplate.tpp" = name ++ ".cpp".
Proof.
  intros H. unfold out_name. 
  replace (nth_error filename_dicts (kind_index KClass))
    with (Some [("ClassTemplate", ""); (".ty", ".py"); (".t", ".h"); (".hpp", ".cpp")]) by (vm_compute; reflexivity).
  cbn [fold_left fst snd]. unfold replace_all. cbv beta iota.
  split.
  - replace (repl_from "ClassTemplate" name 0 "ClassTemplate.t") with (name ++ ".t") by (vm_compute; reflexivity).
    rewrite !(repl_skip_dot _ _ name) by exact H. f_equal.
  - replace (repl_from "ClassTemplate" name 0 "ClassTemplate.tpp") with (name ++ ".tpp") by (vm_compute; reflexivity).
    rewrite !(repl_skip_dot _ _ name) by exact H. f_equal.
Qed.

Lemma out_name_header (k : kind) (tag tmpl name : string) :
  nth_error filename_dicts (kind_index k) = Some [(tag, ""); (".ty", ".py"); (".t", ".h"); (".hpp", ".cpp")] ->
  tmpl = tag ++ ".t" -> tag <> "" -> repl_from tag name 0 (tag ++ ".t") = name ++ ".t" ->
  no_char "." name = true -> out_name k name tmpl = name ++ ".h".
Proof.
  intros Hd -> Ht Hr H. unfold out_name. rewrite Hd. cbn [fold_left fst snd]. unfold replace_all at 4.
  destruct tag; [congruence|]. rewrite Hr. unfold replace_all. cbv beta iota.
  rewrite !(repl_skip_dot _ _ name) by exact H. f_equal.
Qed.

(* ---------------------------------------------------------------- placement *)

Lemma placed_spec nsf c e : path_ok c = true ->
  placed nsf (c_ns c) (c_name c ++ e) = spec_folder nsf (c_ns c) ++ c_name c ++ e.
Proof.
  unfold path_ok, name_ok, placed, spec_folder. intros H.
  apply andb_true_iff in H. destruct H as [Hn Hs]. apply andb_true_iff in Hn. destruct Hn as [Hn Hne].
  apply andb_true_iff in Hn. destruct Hn as [_ Hsl]. apply negb_true_iff in Hs, Hne.
  rewrite ns_path_chain.
  destruct (nsf && negb (folder_chain (c_ns c) =? "")) eqn:E; [|reflexivity].
  unfold path_join. unfold last_is_slash in Hs. rewrite Hs.
  destruct (c_name c) as [|ch n'] eqn:En; [discriminate|].
  cbn [no_char] in Hsl. apply andb_true_iff in Hsl. destruct Hsl as [Hch _]. apply negb_true_iff in Hch.
  cbn [append prefixb]. rewrite (Ascii.eqb_sym "/" ch), Hch. cbn [andb].
  destruct (folder_chain (c_ns c)) as [|a0 ar] eqn:Ef.
  - apply andb_true_iff in E. destruct E as [_ E]. discriminate.
  - rewrite sapp_assoc. reflexivity.
Qed.

Ltac templ :=
  match goal with |- context [templates_of template_files ?k] =>
    let v := eval vm_compute in (templates_of template_files k) in change (templates_of template_files k) with v end.

Lemma class_files_spec nsf c : path_ok c = true -> class_files template_files nsf c = spec_files nsf c.
Proof.
  intros H. assert (Hd : no_char "." (c_name c) = true).
  { unfold path_ok, name_ok in H. repeat (apply andb_true_iff in H; destruct H as [H ?]). exact H. }
  unfold class_files, spec_files, spec_exts, kind_of.
  destruct (c_enum c), (c_struct c), (c_autogen c), (c_pure c); cbn [negb andb orb]; templ; cbn [map];
    try reflexivity;
    try (destruct (out_name_class (c_name c) Hd) as [H1 H2]; rewrite H1, H2, !placed_spec by exact H; reflexivity);
    try (rewrite (out_name_header KInterface "InterfaceTemplate" _ (c_name c)), placed_spec;
         [reflexivity|exact H|vm_compute; reflexivity|reflexivity|discriminate|vm_compute; reflexivity|exact Hd]);
    try (rewrite (out_name_header KEnum "EnumTemplate" _ (c_name c)), placed_spec;
         [reflexivity|exact H|vm_compute; reflexivity|reflexivity|discriminate|vm_compute; reflexivity|exact Hd]);
    try (rewrite (out_name_header KStruct "StructTemplate" _ (c_name c)), placed_spec;
         [reflexivity|exact H|vm_compute; reflexivity|reflexivity|discriminate|vm_compute; reflexivity|exact Hd]).
Qed.

(* ---------------------------------------------------------------- the code model as a dictionary *)

Lemma existsb_eqb_nIn x l : existsb (String.eqb x) l = false -> ~ In x l.
Proof.
  induction l as [|y l IH]; intros H Hin; [destruct Hin|]. cbn [existsb] in H. apply orb_false_iff in H. destruct H as [H1 H2].
  destruct Hin as [->|Hin]; [rewrite String.eqb_refl in H1; discriminate|exact (IH H2 Hin)].
Qed.

Lemma nodupb_NoDup l : nodupb l = true -> NoDup l.
Proof.
  induction l as [|x l IH]; intros H; [constructor|]. cbn [nodupb] in H. apply andb_true_iff in H. destruct H as [H1 H2].
  constructor; [apply existsb_eqb_nIn; apply negb_true_iff; exact H1|exact (IH H2)].
Qed.

Lemma upsert_new (V : Type) k (v : V) d : ~ In k (map fst d) -> upsert String.eqb k v d = (d ++ [(k, v)])%list.
Proof.
  induction d as [|[k' v'] r IH]; intros H; [reflexivity|]. cbn [upsert app]. cbn [map fst In] in H.
  destruct (String.eqb k k') eqn:E.
  - apply String.eqb_eq in E. subst. exfalso. apply H. left. reflexivity.
  - rewrite IH; [reflexivity|]. intro Hin. apply H. right. exact Hin.
Qed.

Lemma NoDup_app_l {A} (a b : list A) : NoDup (a ++ b)%list -> NoDup a.
Proof.
  induction a as [|x a IH]; intros H; [constructor|]. cbn [app] in H. inversion H as [|? ? Hx Hr]; subst.
  constructor; [intro Hin; apply Hx; apply in_or_app; left; exact Hin|exact (IH Hr)].
Qed.

Lemma inner_fold (id : string) fs : forall acc, NoDup (map fst acc ++ fs)%list ->
  fold_left (fun acc f => upsert String.eqb f id acc) fs acc = (acc ++ map (fun f => (f, id)) fs)%list.
Proof.
  induction fs as [|f fs IH]; intros acc H; [cbn; rewrite app_nil_r; reflexivity|].
  cbn [fold_left map]. rewrite upsert_new.
  - rewrite IH; [rewrite <- app_assoc; reflexivity|]. rewrite map_app. cbn [map fst]. rewrite <- app_assoc. exact H.
  - apply NoDup_remove_2 in H. intro Hin. apply H. apply in_or_app. left. exact Hin.
Qed.

Lemma files_fold nsf cs : forall acc, (forall c, In c cs -> path_ok c = true) ->
  NoDup (map fst acc ++ flat_map (spec_files nsf) cs)%list ->
  fold_left (fun acc c => fold_left (fun acc f => upsert String.eqb f (c_id c) acc) (class_files template_files nsf c) acc) cs acc
  = (acc ++ flat_map (fun c => map (fun f => (f, c_id c)) (spec_files nsf c)) cs)%list.
Proof.
  induction cs as [|c cs IH]; intros acc Hok H; [cbn; rewrite app_nil_r; reflexivity|].
  cbn [fold_left flat_map] in *. rewrite class_files_spec by (apply Hok; left; reflexivity).
  rewrite inner_fold.
  - rewrite IH.
    + rewrite <- app_assoc. reflexivity.
    + intros c' Hc'. apply Hok. right. exact Hc'.
    + rewrite map_app, map_map. cbn [fst]. rewrite map_id, <- app_assoc. exact H.
  - rewrite app_assoc in H. apply NoDup_app_l in H. exact H.
Qed.

Lemma files_of_expected nsf d : files_hyp nsf d = true -> files_of template_files nsf d = expected_files nsf d.
Proof.
  unfold files_hyp, distinct_paths, files_of, expected_files. intros H. apply andb_true_iff in H. destruct H as [H1 H2].
  rewrite files_fold; [reflexivity| |cbn [map app]; apply nodupb_NoDup; exact H2].
  intros c Hc. rewrite forallb_forall in H1. apply H1. exact Hc.
Qed.

(* what spec_exts says, in the property's words *)
Lemma spec_exts_meaning c : c_autogen c = false -> c_enum c && c_struct c = false ->
  spec_exts c = ".h" :: (if concrete c then [".cpp"] else []).
Proof. unfold spec_exts, concrete. intros -> H. destruct (c_enum c), (c_struct c), (c_pure c); try discriminate; reflexivity. Qed.

(* ---------------------------------------------------------------- namespace wrap *)

Definition ns_open_raw (ns : string) : string := String.concat "" (map (fun n => " namespace " ++ n ++ " { ") (split2 ":" ":" ns)).
Definition ns_close_raw (ns : string) : string := String.concat "" (map (fun _ : string => " } ") (split2 ":" ":" ns)).

Lemma concat_cons x l : String.concat "" (x :: l) = x ++ String.concat "" l.
Proof. destruct l; cbn [String.concat]; [rewrite sapp_nil_r|]; reflexivity. Qed.

Lemma closers_comm (l : list string) : " } " ++ String.concat "" (map (fun _ : string => " } ") l) = String.concat "" (map (fun _ : string => " } ") l) ++ " } ".
Proof.
  induction l as [|x l IH]; [reflexivity|]. cbn [map]. rewrite concat_cons, sapp_assoc, <- IH. reflexivity.
Qed.

Lemma wrap_concat comps body :
  String.concat "" (map (fun n => " namespace " ++ n ++ " { ") comps) ++ body ++ String.concat "" (map (fun _ : string => " } ") comps)
  = wrap comps body.
Proof.
  induction comps as [|n r IH]; [cbn; rewrite sapp_nil_r; reflexivity|].
  cbn [map wrap]. rewrite !concat_cons, closers_comm. rewrite <- IH. rewrite !sapp_assoc. reflexivity.
Qed.

Lemma namespace_balanced ns body :
  ns_begin ns = lstrip_sp (ns_open_raw ns) /\ ns_end ns = lstrip (ns_close_raw ns) ++ " // end namespace " ++ ns
  /\ ns_open_raw ns = String SP (ns_begin ns) /\ ns_close_raw ns = String SP (lstrip (ns_close_raw ns))
  /\ ns_open_raw ns ++ body ++ ns_close_raw ns = wrap (split2 ":" ":" ns) body
  /\ join "::" (split2 ":" ":" ns) = ns.
Proof.
  unfold ns_begin, ns_end, ns_open_raw, ns_close_raw.
  split; [reflexivity|]. split; [reflexivity|].
  destruct (split2 ":" ":" ns) as [|c cs] eqn:E; [exfalso; eapply split2_nonempty; eauto|].
  split; [cbn [map]; rewrite concat_cons; reflexivity|].
  split; [cbn [map]; rewrite concat_cons; reflexivity|].
  split; [apply wrap_concat|]. rewrite <- E. apply join_split2.
Qed.
