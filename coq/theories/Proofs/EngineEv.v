(* C16 / C08: per-event blocks with the signature tags (<<<SIGNATURE>>> / <<<SIGNATUREWITHDEFAULTS>>>), the signature strings being an
   oracle (the Language* classes).  inner_events = reference, for every oracle. *)
From Coq Require Import String Ascii List Bool Arith Lia.
From KV Require Import Lib.Str Lib.StrOps Lib.ODict Gen.Tags Gen.Pipeline Model.Engine Model.EngineSM Model.EngineDomain
                       Model.EngineDomain16 Spec.RefExpand Spec.RefExpand16
                       Proofs.StrProofs Proofs.EngineStr Proofs.EngineRepl Proofs.Alpha Proofs.EngineBlock Proofs.TagFree.
Import ListNotations.
Open Scope string_scope.
Open Scope list_scope.

Lemma lookup_app' {V} (n : string) (a b : list (string * V)) :
  lookup String.eqb n (a ++ b) = match lookup String.eqb n a with Some v => Some v | None => lookup String.eqb n b end.
Proof. induction a as [|[k v] a IH]; [reflexivity|]. cbn [app lookup]. destruct (String.eqb n k); [reflexivity|exact IH]. Qed.

Lemma subst16_snoc tb k v g : subst16 (tb ++ [(k, v)]) g = put k v (subst16 tb g).
Proof.
  destruct g as [s|n [d|]]; try reflexivity. cbn [subst16]. rewrite lookup_app'. destruct (lookup String.eqb n tb) as [x|]; [reflexivity|].
  cbn [lookup]. unfold put. cbn [is_named]. destruct (String.eqb n k); reflexivity.
Qed.

Lemma sig_step_tagfree sigs name s : tagfree s = true -> sig_step sigs name s = Some s.
Proof. intros H. unfold sig_step. rewrite (tagfree_specific s _ H). reflexivity. Qed.

Lemma elem_closed_weaken body : forallb ev_line_ok body = true ->
  forallb (fun l => line_ok l && negb (isspace (render_line l))) body = true.
Proof.
  apply forallb_impl. intros l H. unfold ev_line_ok in H. apply andb_prop in H as [H _]. unfold body_line_ok in H.
  repeat (apply andb_prop in H as [H ?K]). rewrite H, K1. reflexivity.
Qed.

Section OneEvent.
  Variables (sigs : list (string * (string * string))) (name : string) (k : nat).
  Hypothesis Hv : forallb (fun kv => no_lg (snd kv)) (elem_table name k) = true.

  Lemma ev_lines_ok : forall body,
    forallb ev_line_ok body = true ->
    forallb (fun l =>
          let nl := render_line (map (subst16 (elem_table name k)) l) in
          let out := ref_ev_line sigs name k l in
          match sig_kind l with
          | None => true
          | Some d => hasSpecificTag nl (stag "__TAG_SIGNATURE__") && negb (hasDefault nl)
                      && Bool.eqb (contains (stag "__TAG_SIGNATURE_DEF__") nl) d && no_lg (sigof sigs name d)
          end
          && negb (isspace out) && negb (unmodelled out) && no3 out) body = true ->
    ev_lines sigs name (alpha_at k) k (map render_line body) = Some (map (ref_ev_line sigs name k) body).
  Proof.
    induction body as [|l body IH]; intros Hb W; [reflexivity|].
    cbn [forallb] in Hb, W. apply andb_prop in Hb as [H1 Hb]. apply andb_prop in W as [W1 W].
    cbn [map ev_lines]. rewrite (IH Hb W). clear IH.
    unfold ev_line_ok in H1. apply andb_prop in H1 as [H1 Hk]. unfold body_line_ok in H1. repeat (apply andb_prop in H1 as [H1 ?K]). apply negb_true_iff in K1.
    do 3 (apply andb_prop in W1 as [W1 ?Q]). apply negb_true_iff in Q0, Q1.
    set (nl := render_line (map (subst16 (elem_table name k)) l)) in *.
    assert (C : second_names name (alpha_at k) k (render_line l) = nl).
    { rewrite second_names_chain, (chain_render _ l (eng_elem_kv name k Hv) H1). unfold nl. f_equal. apply map_ext. apply subst16_ext. apply eng_elem_lookup. }
    destruct (hasTag (render_line l)) eqn:E; cbn [negb].
    - rewrite C. unfold ref_ev_line in *. destruct (sig_kind l) as [d|] eqn:Kd.
      + (* a signature line *)
        do 3 (apply andb_prop in W1 as [W1 ?S]). apply negb_true_iff in S1. apply Bool.eqb_prop in S0.
        unfold sig_step. rewrite W1, S1, S0.
        assert (Lk : line_ok (map (subst16 (elem_table name k)) l) = true).
        { clear -H1 Hv. induction l as [|g l IH]; [reflexivity|]. cbn [line_ok forallb map] in *. apply andb_prop in H1 as [Hg Hl].
          fold (line_ok l) in Hl. fold (line_ok (map (subst16 (elem_table name k)) l)). rewrite (IH Hl), andb_true_r.
          destruct g as [s|n [dd|]]; try exact Hg. cbn [subst16]. destruct (lookup String.eqb n (elem_table name k)) as [v|] eqn:L; [|exact Hg].
          cbn [seg_ok]. apply no_lg_lit_ok. clear -Hv L. induction (elem_table name k) as [|[a b] t IH]; [discriminate|]. cbn [forallb lookup snd] in *.
          apply andb_prop in Hv as [V1 V2]. destruct (String.eqb n a); [inversion L; subst; exact V1|exact (IH V2 L)]. }
        assert (R : replace_all (if d then stag "__TAG_SIGNATURE_DEF__" else stag "__TAG_SIGNATURE__") (sigof sigs name d) nl
                    = render_line (map (subst16 (elem_table name k ++ [(sig_key d, sigof sigs name d)])) l)).
        { assert (Ep : (if d then stag "__TAG_SIGNATURE_DEF__" else stag "__TAG_SIGNATURE__") = pat (sig_key d)) by (destruct d; reflexivity). rewrite Ep.
          unfold nl. rewrite (replace_all_render (sig_key d) (sigof sigs name d) _ ltac:(destruct d; reflexivity) ltac:(destruct d; reflexivity) Lk).
          f_equal. rewrite map_map. apply map_ext. intros g. symmetry. apply subst16_snoc. }
        rewrite R. rewrite Q0, Q1. reflexivity.
      + (* name tags only: the copy has no tag left *)
        assert (Tf : tagfree nl = true) by (apply copy_tagfree; [exact H1|exact Hk|exact Hv]).
        rewrite (sig_step_tagfree sigs name nl Tf). fold nl in Q0, Q1. rewrite Q0, Q1. reflexivity.
    - rewrite K1. assert (N : map (subst16 (elem_table name k)) l = l) by (unfold render_line in E; exact (notag_lits _ l nl_str H1 E)).
      unfold ref_ev_line. destruct (sig_kind l) as [d|] eqn:Kd.
      + (* impossible: a line that mentions a signature tag has a tag *)
        exfalso. clear -Kd E H1. unfold sig_kind in Kd.
        assert (M : exists n, mentions n l = true).
        { destruct (mentions "SIGNATUREWITHDEFAULTS" l) eqn:M1; [eauto|]. destruct (mentions "SIGNATURE" l) eqn:M2; [eauto|discriminate]. }
        destruct M as (n & M). clear Kd. unfold mentions in M. unfold render_line in E. revert E. generalize nl_str.
        induction l as [|g l IH]; intros r E; [discriminate|]. cbn [line_ok forallb] in H1. apply andb_prop in H1 as [Hg Hl]. fold (line_ok l) in Hl.
        cbn [existsb] in M. cbn [render_body] in E. rewrite app_assoc_s in E. apply orb_prop in M as [M|M].
        * destruct g as [s|m [dd|]]; try discriminate. destruct (seg_tag_pat m None Hg) as (b & Eb & Hb). rewrite Eb, (hasTag_pat b _ Hb) in E. discriminate.
        * destruct (hasTag (render_body l ++ r)%string) eqn:E2; [|exact (IH Hl M r E2)].
          destruct g as [s|m dd]; [cbn [render_seg] in E; rewrite (hasTag_app_r s _ E2) in E; discriminate|].
          destruct (seg_tag_pat m dd Hg) as (b & Eb & Hb). rewrite Eb, (hasTag_pat b _ Hb) in E. discriminate.
      + rewrite N. reflexivity.
  Qed.
End OneEvent.

Lemma ev_items_ok sigs : forall items k body,
  forallb ev_line_ok body = true ->
  forallb (fun ix =>
     forallb (fun kv => no_lg (snd kv)) (elem_table (snd ix) (fst ix))
     && forallb (fun l =>
          let nl := render_line (map (subst16 (elem_table (snd ix) (fst ix))) l) in
          let out := ref_ev_line sigs (snd ix) (fst ix) l in
          match sig_kind l with
          | None => true
          | Some d => hasSpecificTag nl (stag "__TAG_SIGNATURE__") && negb (hasDefault nl)
                      && Bool.eqb (contains (stag "__TAG_SIGNATURE_DEF__") nl) d && no_lg (sigof sigs (snd ix) d)
          end
          && negb (isspace out) && negb (unmodelled out) && no3 out) body) (enumerate_from k items) = true ->
  ev_items sigs (alpha_at k) k items (map render_line body)
  = Some (flat_map (fun ix => map (ref_ev_line sigs (snd ix) (fst ix)) body) (enumerate_from k items)).
Proof.
  induction items as [|name items IH]; intros k body Hb W; [reflexivity|].
  cbn [enumerate_from forallb fst snd] in W. apply andb_prop in W as [W1 W]. apply andb_prop in W1 as [Wv Wl].
  cbn [ev_items enumerate_from flat_map fst snd]. rewrite (ev_lines_ok sigs name k Wv body Hb Wl).
  rewrite <- alpha_at_S, (IH (S k) body Hb W). reflexivity.
Qed.

(* a per-event block with signature tags, for every oracle *)
Theorem ev_block_is_ref sigs items body :
  forallb ev_line_ok body = true -> ev_block_wf sigs items body = true ->
  inner_events sigs items (map render_line body) None = Some (ref_ev_block sigs items body).
Proof. intros Hb W. unfold inner_events, ref_ev_block, ev_block_wf in *. exact (ev_items_ok sigs items 0 body Hb W). Qed.

(* a per-event block WITHOUT the signature tags: as before, whatever the oracle says *)
Section PlainEv.
  Variable sigs : list (string * (string * string)).

  Lemma plain_ev_lines name k : forall body,
    forallb (body_line_ok (keys_of KEvent)) body = true ->
    forallb (fun kv => no_lg (snd kv)) (elem_table name k) = true ->
    forallb (fun l => let out := render_line (map (subst16 (elem_table name k)) l) in negb (isspace out) && negb (unmodelled out)) body = true ->
    ev_lines sigs name (alpha_at k) k (map render_line body) = Some (map (fun l => render_line (map (subst16 (elem_table name k)) l)) body).
  Proof.
    induction body as [|l body IH]; intros Hb Hv W; [reflexivity|].
    cbn [forallb] in Hb, W. apply andb_prop in Hb as [H1 Hb]. apply andb_prop in W as [W1 W].
    unfold body_line_ok in H1. repeat (apply andb_prop in H1 as [H1 ?K]). apply andb_prop in W1 as [Ws Wu]. apply negb_true_iff in K1, Ws, Wu.
    cbn [map ev_lines]. rewrite (IH Hb Hv W).
    set (cp := render_line (map (subst16 (elem_table name k)) l)) in *.
    assert (C : second_names name (alpha_at k) k (render_line l) = cp).
    { rewrite second_names_chain, (chain_render _ l (eng_elem_kv name k Hv) H1). unfold cp. f_equal. apply map_ext. apply subst16_ext. apply eng_elem_lookup. }
    assert (Tf : tagfree cp = true) by (apply copy_tagfree; [exact H1|exact K2|exact Hv]).
    destruct (hasTag (render_line l)) eqn:E; cbn [negb].
    - rewrite C, (sig_step_tagfree sigs name cp Tf), Wu, Ws. reflexivity.
    - rewrite K1. unfold cp. unfold render_line in E. rewrite (notag_lits (elem_table name k) l nl_str H1 E). reflexivity.
  Qed.

  Lemma plain_ev_items : forall items k body,
    forallb (body_line_ok (keys_of KEvent)) body = true ->
    forallb (fun ix =>
       forallb (fun kv => no_lg (snd kv)) (elem_table (snd ix) (fst ix))
       && forallb (fun l => let out := render_line (map (subst16 (elem_table (snd ix) (fst ix))) l) in
                            negb (isspace out) && negb (unmodelled out)) body) (enumerate_from k items) = true ->
    ev_items sigs (alpha_at k) k items (map render_line body)
    = Some (flat_map (fun ix => map (fun l => render_line (map (subst16 (elem_table (snd ix) (fst ix))) l)) body) (enumerate_from k items)).
  Proof.
    induction items as [|name items IH]; intros k body Hb W; [reflexivity|].
    cbn [enumerate_from forallb fst snd] in W. apply andb_prop in W as [W1 W]. apply andb_prop in W1 as [Wv Wl].
    cbn [ev_items enumerate_from flat_map fst snd]. rewrite (plain_ev_lines name k body Hb Wv Wl).
    rewrite <- alpha_at_S, (IH (S k) body Hb W). reflexivity.
  Qed.

  Theorem plain_ev_block_is_ref items body :
    forallb (body_line_ok (keys_of KEvent)) body = true -> block_wf elem_table items body = true ->
    inner_events sigs items (map render_line body) None = Some (ref_block elem_table items body).
  Proof. intros Hb W. unfold inner_events, ref_block, block_wf in *. exact (plain_ev_items items 0 body Hb W). Qed.
End PlainEv.
