(* The class-diagram input adaptor only produces operations whose visibility is public / protected / private:
   adaptor d name = Some c -> wf_vis c = true.  (parse_operation turns "package" into "public" + static.) *)
From Coq Require Import String Ascii List Bool Arith Lia.
From KV Require Import Lib.Str Lib.ODict Gen.VppSrc Model.Vpp Model.Uml Model.UmlBlob.
Import ListNotations.
Open Scope string_scope.

(* ---------------------------------------------------------------- generic facts *)

Lemma bind_some : forall {A B} (e : option A) (f : A -> option B) (r : B),
  bind e f = Some r -> exists x, e = Some x /\ f x = Some r.
Proof. intros A B e f r H. destruct e as [x|]; [exists x; split; [reflexivity | exact H] | discriminate H]. Qed.

Lemma foldM_inv : forall {A S} (Inv : S -> Prop) (f : S -> A -> option S),
  (forall s x s', Inv s -> f s x = Some s' -> Inv s') ->
  forall l s0 r, Inv s0 -> foldM f l s0 = Some r -> Inv r.
Proof.
  intros A S Inv f Hstep l. induction l as [|x l IH]; intros s0 r H0 H.
  - cbn [foldM] in H. injection H as <-. exact H0.
  - cbn [foldM] in H. apply bind_some in H as (s' & Hs' & H). eapply IH; [ | exact H]. eapply Hstep; eauto.
Qed.

Lemma over_children_inv : forall {S} (Inv : S -> Prop) (top : pv) (f : S -> string * pv -> option S) (s r : S),
  (forall s x s', Inv s -> f s x = Some s' -> Inv s') ->
  Inv s -> over_children top f s = Some r -> Inv r.
Proof.
  intros S Inv top f s r Hstep H0 H. unfold over_children in H.
  apply bind_some in H as (its & _ & H).
  revert H. apply foldM_inv; [ | exact H0].
  intros s1 kv s1' Hs1 H1.
  destruct (is_child_key (fst kv)).
  - apply bind_some in H1 as (its2 & _ & H1). revert H1. apply foldM_inv; assumption.
  - injection H1 as <-. exact Hs1.
Qed.

Lemma typed_children_inv : forall {A} (Q : A -> Prop) g top ty (p : (string -> option velem) -> pv -> option A) l,
  (forall v x, p g v = Some x -> Q x) ->
  typed_children g top ty p = Some l -> Forall Q l.
Proof.
  intros A Q g top ty p l Hp H. unfold typed_children in H.
  revert H. apply over_children_inv with (Inv := Forall Q); [ | constructor].
  intros acc kv acc' Hacc H.
  destruct (is_child_key (fst kv)); [ | injection H as <-; exact Hacc].
  destruct (truthy (snd kv)); [ | injection H as <-; exact Hacc].
  apply bind_some in H as (t & _ & H).
  destruct (String.eqb ty (lower t)); [ | injection H as <-; exact Hacc].
  apply bind_some in H as (x & Hx & H). injection H as <-.
  apply Forall_app. split; [exact Hacc | ]. constructor; [ | constructor]. eapply Hp; exact Hx.
Qed.

Lemma upsert_Forall : forall {V} (Q : V -> Prop) k v (l : list (string * V)),
  Forall (fun kc => Q (snd kc)) l -> Q v -> Forall (fun kc => Q (snd kc)) (upsert String.eqb k v l).
Proof.
  intros V Q k v l Hl Hv. induction Hl as [| [k' v'] l Hx Hl IH].
  - cbn [upsert]. constructor; [exact Hv | constructor].
  - cbn [upsert]. destruct (String.eqb k k').
    + constructor; [exact Hv | exact Hl].
    + constructor; [exact Hx | exact IH].
Qed.

Lemma lookup_Forall : forall {V} (Q : V -> Prop) k v (l : list (string * V)),
  Forall (fun kc => Q (snd kc)) l -> lookup String.eqb k l = Some v -> Q v.
Proof.
  intros V Q k v l Hl. induction Hl as [| [k' v'] l Hx Hl IH]; intro H.
  - discriminate H.
  - cbn [lookup] in H. destruct (String.eqb k k').
    + injection H as <-. exact Hx.
    + apply IH. exact H.
Qed.

(* ---------------------------------------------------------------- the visibility values *)

Definition vis_val_ok (s : string) : bool :=
  existsb (String.eqb (lower (py_strip s))) ["public"; "protected"; "private"].

Definition rvis_ok (o : rop) : Prop := vis3 (render_op o) = true.
Definition class_ok (c : rclass) : Prop := Forall rvis_ok (rc_ops c).
Definition classes_ok (l : list (string * rclass)) : Prop := Forall (fun kc => class_ok (snd kc)) l.

Lemma rvis_ok_intro : forall o, vis_val_ok (ro_vis o) = true -> rvis_ok o.
Proof. intros o H. exact H. Qed.

Lemma visibility_str_cases : forall v,
  visibility_str v = "public" \/ visibility_str v = "protected" \/ visibility_str v = "private" \/ visibility_str v = "package".
Proof.
  intros [s | d]; unfold visibility_str; [ | left; reflexivity].
  destruct (String.eqb s "71"); [left; reflexivity | ].
  destruct (String.eqb s "67"); [right; left; reflexivity | ].
  destruct (String.eqb s "66"); [right; right; left; reflexivity | ].
  destruct (String.eqb s "68"); [right; right; right; reflexivity | left; reflexivity].
Qed.

Lemma visv_final_ok : forall visv,
  visv = "public" \/ visv = "protected" \/ visv = "private" \/ visv = "package" ->
  vis_val_ok (if String.eqb (py_strip (lower visv)) "package" then "public" else visv) = true.
Proof.
  intros visv [H | [H | [H | H]]]; subst visv; vm_compute; reflexivity.
Qed.

Lemma parse_operation_vis : forall g container o, parse_operation g container = Some o -> rvis_ok o.
Proof.
  intros g container o H. unfold parse_operation in H.
  apply bind_some in H as (nm & _ & H).
  apply bind_some in H as (c0 & _ & H).
  apply bind_some in H as (visv & Hvis & H).
  cbv zeta in H.
  apply bind_some in H as (ret & _ & H).
  apply bind_some in H as (rmod & _ & H).
  apply bind_some in H as (its & _ & H).
  apply bind_some in H as (ps & _ & H).
  apply bind_some in H as (cm & _ & H).
  apply bind_some in H as (sc & _ & H).
  injection H as <-.
  apply rvis_ok_intro. cbn [ro_vis].
  apply visv_final_ok.
  destruct (has "visibility" c0).
  - apply bind_some in Hvis as (x & _ & Hvis). injection Hvis as <-. apply visibility_str_cases.
  - injection Hvis as <-. left; reflexivity.
Qed.

(* ---------------------------------------------------------------- classes *)

Lemma parse_class_ok : forall g P v c, parse_class g P v = Some c -> class_ok c.
Proof.
  intros g P v c H. unfold parse_class in H.
  apply bind_some in H as (top & _ & H).
  apply bind_some in H as (fl & _ & H).
  apply bind_some in H as (ops & Hops & H).
  apply bind_some in H as (ats & _ & H).
  injection H as <-. unfold class_ok. cbn [rc_ops].
  revert Hops. apply typed_children_inv. intros v0 x. apply parse_operation_vis.
Qed.

Lemma set_ns_ok : forall c ns, class_ok c -> class_ok (set_ns c ns).
Proof. intros c ns H. exact H. Qed.

Lemma load_elem_ok : forall g P acc e d',
  (forall d, acc = Some d -> classes_ok (rd_classes d)) ->
  load_elem g P acc e = Some d' -> classes_ok (rd_classes d').
Proof.
  intros g P acc e d' Hacc H. unfold load_elem in H.
  apply bind_some in H as (d & Hd & H). specialize (Hacc d Hd).
  apply bind_some in H as (mid & _ & H).
  apply bind_some in H as (v & _ & H).
  cbv zeta in H.
  destruct (String.eqb (ve_type v) "Class").
  { apply bind_some in H as (c & Hc & H). injection H as <-. cbn [rd_classes].
    apply upsert_Forall; [exact Hacc | eapply parse_class_ok; exact Hc]. }
  destruct (String.eqb (ve_type v) "Package").
  { apply bind_some in H as (p & _ & H). injection H as <-. exact Hacc. }
  destruct (String.eqb (ve_type v) "Association").
  { apply bind_some in H as (a & _ & H). injection H as <-. exact Hacc. }
  destruct (String.eqb (ve_type v) "Realization" || String.eqb (ve_type v) "Generalization").
  { apply bind_some in H as (i & _ & H). injection H as <-. exact Hacc. }
  injection H as <-. exact Hacc.
Qed.

Lemma load_fold_ok : forall g P elems acc r,
  (forall d, acc = Some d -> classes_ok (rd_classes d)) ->
  fold_left (load_elem g P) elems acc = Some r -> classes_ok (rd_classes r).
Proof.
  intros g P elems. induction elems as [|e elems IH]; intros acc r Hacc H.
  - cbn [fold_left] in H. apply Hacc. exact H.
  - cbn [fold_left] in H. revert H. apply IH. intros d Hd. eapply load_elem_ok; [exact Hacc | exact Hd].
Qed.

Lemma namespaces_ok : forall d cls, classes_ok (rd_classes d) -> namespaces d = Some cls -> classes_ok cls.
Proof.
  intros d cls Hd H. unfold namespaces in H.
  revert H. apply foldM_inv with (Inv := classes_ok); [ | exact Hd].
  intros cls1 kp cls1' H1. apply foldM_inv; [ | exact H1].
  intros cls2 path cls2' H2 H. cbv zeta in H.
  apply bind_some in H as (ns & _ & H).
  destruct (lookup String.eqb (last_of (split_on ":" path)) cls2) as [c|] eqn:Hl.
  - injection H as <-. apply upsert_Forall; [exact H2 | ].
    apply set_ns_ok. eapply lookup_Forall with (Q := class_ok); [exact H2 | exact Hl].
  - injection H as <-. exact H2.
Qed.

Lemma load_gen_ok : forall g P elems r, load_gen g P elems = Some r -> classes_ok (rd_classes r).
Proof.
  intros g P elems r H. unfold load_gen in H.
  apply bind_some in H as (r0 & Hr0 & H).
  apply bind_some in H as (cls & Hcls & H).
  injection H as <-. cbn [rd_classes].
  eapply namespaces_ok; [ | exact Hcls].
  eapply load_fold_ok; [ | exact Hr0].
  intros d0 Hd0. injection Hd0 as <-. constructor.
Qed.

Lemma load_cdiagram_ok : forall d name r, load_cdiagram d name = Some r -> classes_ok (rd_classes r).
Proof.
  intros d name r H. unfold load_cdiagram in H.
  apply bind_some in H as (did & _ & H). eapply load_gen_ok; exact H.
Qed.

(* ---------------------------------------------------------------- rendering *)

Lemma render_ops_vis : forall ops, Forall rvis_ok ops -> forallb vis3 (map render_op ops) = true.
Proof.
  intros ops H. induction H as [|o ops Ho Hops IH]; [reflexivity | ].
  cbn [map forallb]. unfold rvis_ok in Ho. rewrite Ho, IH. reflexivity.
Qed.

Lemma render_classes_vis : forall l, classes_ok l ->
  forallb (fun c => forallb vis3 (c_ops c)) (map (fun kc => render_class (snd kc)) l) = true.
Proof.
  intros l H. induction H as [|kc l Hkc Hl IH]; [reflexivity | ].
  cbn [map forallb]. rewrite IH.
  unfold render_class at 1. cbn [c_ops]. rewrite (render_ops_vis _ Hkc). reflexivity.
Qed.

Lemma to_cdiagram_wf_vis : forall r, classes_ok (rd_classes r) -> wf_vis (to_cdiagram r) = true.
Proof.
  intros r H. unfold wf_vis, to_cdiagram. cbn [classes]. apply render_classes_vis. exact H.
Qed.

Lemma adaptor_wf_vis : forall (d : db) (name : string) (c : cdiagram), adaptor d name = Some c -> wf_vis c = true.
Proof.
  intros d name c H. unfold adaptor in H.
  apply bind_some in H as (r & Hr & H). injection H as <-.
  apply to_cdiagram_wf_vis. eapply load_cdiagram_ok; exact Hr.
Qed.

Print Assumptions adaptor_wf_vis.
