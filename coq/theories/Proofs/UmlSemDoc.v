(* C19 semantic read-back: the documentation property.  A plain documentation (DText) is an ordinary quoted field; a free
   documentation (DRaw: line breaks, apostrophes, parentheses ... inside the quoted text) is written as one free-text piece
   and read as what mass_replace leaves of it. *)
From Coq Require Import String Ascii List Bool Arith Lia.
From KV Require Import Lib.Str Lib.ODict Gen.VppSrc Model.Vpp Model.VppWriter Model.Uml Model.UmlBlob Model.UmlWriter Model.UmlDomain Model.UmlSem
                       Proofs.VppStr Proofs.UmlBlobDefs Proofs.UmlBlobStruct Proofs.UmlBlobFields Proofs.UmlBlobText Proofs.UmlSemDefs.
Import ListNotations.
Open Scope string_scope.

(* ---------------------------------------------------------------- texts *)

Lemma chop_semi : forall x, chop (x ++ ";") = x.
Proof.
  induction x as [|c x IH]; [reflexivity|].
  cbn [append chop]. rewrite IH. destruct x; reflexivity.
Qed.

Lemma substring_prefix : forall v w, substring 0 (String.length v) (v ++ w) = v.
Proof.
  induction v as [|c v IH]; intro w; cbn [String.length append substring].
  - destruct w; reflexivity.
  - rewrite IH. reflexivity.
Qed.

Lemma unq_q : forall v, unq (q v) = v.
Proof.
  intro v. unfold q, dq. cbn [append unq]. rewrite Ascii.eqb_refl, slen_app. cbn [String.length].
  replace (String.length v + 1 - 1) with (String.length v) by lia. apply substring_prefix.
Qed.

Lemma prefix_q : forall v, prefixb dq (q v) = true.
Proof. intro v. unfold q, dq. cbn [append prefixb]. rewrite Ascii.eqb_refl. reflexivity. Qed.

Lemma wsok_tabsn : forall nl n, nl_ok nl = true -> wsok (tabsn nl n) = true.
Proof.
  intros nl n H. rewrite wsok_allc. unfold tabsn. rewrite allc_app. apply andb_true_iff. split.
  - unfold nl_ok in H. apply orb_true_iff in H. destruct H as [H|H]; apply String.eqb_eq in H; subst nl; reflexivity.
  - induction n as [|n IH]; [reflexivity|]. cbn [allc]. rewrite IH. reflexivity.
Qed.

Lemma doc_key : keyok "documentation_plain" = true.
Proof. vm_compute. reflexivity. Qed.

(* str(bytes) creates no '=' and no '<' *)
Lemma repr_no_eq : forall x, no_char "=" x = true -> no_char "=" (repr_body SQ x) = true.
Proof.
  intros x H. rewrite no_char_allc in H.
  apply (repr_nc (fun b => negb (Ascii.eqb b "=")) "=" x); [intro c; enum c | exact H].
Qed.

Lemma repr_no_lt : forall x, no_char "<" x = true -> no_char "<" (repr_body SQ x) = true.
Proof.
  intros x H. rewrite no_char_allc in H.
  apply (repr_nc (fun b => negb (Ascii.eqb b "<")) "<" x); [intro c; enum c | exact H].
Qed.

(* ---------------------------------------------------------------- the plain documentation *)

Lemma vtxt_facts : forall v, vtxt v = true ->
  plain v = true /\ py_strip v = v /\ (v = "" \/ String.eqb (py_strip (remove_char "," v)) "" = false).
Proof.
  intros v H. unfold vtxt in H. split_and.
  repeat split; try assumption.
  - apply String.eqb_eq. assumption.
  - match goal with H : _ || _ = true |- _ => apply orb_true_iff in H; destruct H as [H|H] end.
    + left. apply String.eqb_eq. assumption.
    + right. apply negb_true_iff. assumption.
Qed.

Lemma valok_q : forall v, vtxt v = true -> valok (q v) = true.
Proof.
  intros v H. destruct (vtxt_facts v H) as [Hp [Hs _]].
  unfold valok. rewrite prefix_q, unq_q. unfold vtextok. rewrite Hp, Hs, String.eqb_refl.
  fold (q v). rewrite String.eqb_refl. cbn. apply orb_true_r.
Qed.

(* ---------------------------------------------------------------- the free documentation: one piece of the outside text *)

Lemma raw_text : forall ws t, ws ++ "documentation_plain=" ++ q t ++ ";" = (ws ++ "documentation_plain=" ++ q t) ++ ";".
Proof. intros. rewrite !sapp_assoc. reflexivity. Qed.

Lemma raw_piece : forall ws t, wsok ws = true -> no_char "=" t = true -> no_char "<" t = true ->
  String.eqb (py_strip (remove_char "," (mass_replace (repr_body SQ (q t))))) "" = false ->
  vstep [] (repr_body SQ (ws ++ "documentation_plain=" ++ q t)) = [("documentation_plain", PStr (doc_value (DRaw t)))].
Proof.
  intros ws t Hw He Hl Hb. destruct (wk_facts ws "documentation_plain" Hw doc_key) as [Hwk [Hm Hs]].
  change (ws ++ "documentation_plain=" ++ q t) with (ws ++ "documentation_plain" ++ "=" ++ q t).
  rewrite <- (sapp_assoc ws "documentation_plain").
  assert (Hq : no_char "=" (q t) = true) by (unfold q, dq; rewrite !no_char_app, He; reflexivity).
  assert (Hq2 : no_char "<" (q t) = true) by (unfold q, dq; rewrite !no_char_app, Hl; reflexivity).
  rewrite vstep_eq; [| | exact (repr_no_eq _ Hq)].
  - rewrite ltb_len, Hb. cbn [negb].
    assert (E : contains "<" (repr_body SQ (q t)) = false).
    { rewrite contains1. apply negb_false_iff. exact (repr_no_lt _ Hq2). }
    rewrite E, Hm, Hs. reflexivity.
  - rewrite wsok_allc in Hw. apply (repr_nc wkc "=" (ws ++ "documentation_plain")); [intro c; enum c | exact Hwk].
Qed.

(* ---------------------------------------------------------------- the targets *)

Lemma doc_entries : forall nl n d it, nl_ok nl = true -> doc_ok (tabsn nl n) d = true -> doc_field (tabsn nl n) d = Some it ->
  item_entries it = [("documentation_plain", PStr (doc_value d))] /\ item_keys it = ["documentation_plain"] /\ kids_of it = [].
Proof.
  intros nl n d it Hnl Hok Hf. pose proof (wsok_tabsn nl n Hnl) as Hw. destruct d as [v|t]; unfold doc_field in Hf; cbn [doc_ok doc_value] in *.
  - unfold text_field in Hf. destruct (String.eqb v "") eqn:Ev; [discriminate Hf|]. injection Hf as Hf. subst it.
    destruct (vtxt_facts v Hok) as [_ [_ [Hz|Hb]]]; [subst v; discriminate Ev|].
    cbn [item_entries item_keys kids_of]. rewrite unq_q, Hb. repeat split; reflexivity.
  - rewrite raw_text in Hf. assert (Hi : it = IRaw ((tabsn nl n ++ "documentation_plain=" ++ q t) ++ ";")) by congruence.
    clear Hf. subst it. split_and.
    match goal with H : negb _ = true |- _ => apply negb_true_iff in H; rename H into Hb end.
    cbn [item_entries item_keys kids_of]. rewrite chop_semi, raw_piece by assumption. repeat split; reflexivity.
Qed.
Print Assumptions doc_entries.

Lemma doc_absent : forall ws d, doc_field ws d = None -> doc_value d = "".
Proof.
  intros ws d H. destruct d as [v|t]; cbn [doc_field doc_value] in *; [|discriminate H].
  unfold text_field in H. destruct (String.eqb v "") eqn:Ev; [|discriminate H]. apply String.eqb_eq. exact Ev.
Qed.
Print Assumptions doc_absent.

Lemma doc_wf : forall nl n d it, nl_ok nl = true -> doc_ok (tabsn nl n) d = true -> doc_field (tabsn nl n) d = Some it ->
  wf_item it = true /\ nbq_full it = true.
Proof.
  intros nl n d it Hnl Hok Hf. pose proof (wsok_tabsn nl n Hnl) as Hw. destruct d as [v|t]; unfold doc_field in Hf; cbn [doc_ok] in *.
  - unfold text_field in Hf. destruct (String.eqb v "") eqn:Ev; [discriminate Hf|]. injection Hf as Hf. subst it. split.
    + cbn [wf_item seg_of seg_ok]. rewrite Hw, doc_key, (valok_q v Hok). reflexivity.
    + unfold nbq_full. cbn [nbq_item]. rewrite prefix_q. reflexivity.
  - rewrite raw_text in Hf. assert (Hi : it = IRaw ((tabsn nl n ++ "documentation_plain=" ++ q t) ++ ";")) by congruence.
    clear Hf. subst it. split_and. split; [|reflexivity].
    cbn [wf_item]. rewrite chop_semi, String.eqb_refl. cbn [andb]. assumption.
Qed.
Print Assumptions doc_wf.
