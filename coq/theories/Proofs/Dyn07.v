(* C07, USER-tag half: the output chunks of the transition blocks, the per-event signature blocks, the initial-state lines and the transition-table
   line are plain chunks (EngineDomain07.dyn_lines_plain) for EVERY element record whose names, table cells and oracle strings are free of '{',
   backslash and CR (dyn_names_ok, syntactic), when the literal pieces of those items of the template are (dyn_ok07, computed on the shipped file):
   through the reference expansion of each kind of item, EngineSM.paren_clean and the boost::sml table printer EngineSM.sml_print. *)
From Coq Require Import String Ascii List Bool Arith Lia.
From KV Require Import Lib.Str Lib.StrOps Lib.ODict Gen.Tags Model.PreserveCore Model.Preserve Model.Engine Model.EngineSM
                       Model.EngineDomain Model.EngineDomain16 Model.EngineDomain07 Spec.RefExpand Spec.RefExpand16
                       Proofs.StrProofs Proofs.CleanProofs Proofs.PreserveStr Proofs.EngineStr Proofs.CharClass Proofs.KofProofs Proofs.TagFree Proofs.EngineC17 Proofs.EnginePipe Proofs.EngineBlock Proofs.Shipped07.
Import ListNotations.
Open Scope string_scope.
Open Scope list_scope.

Lemma clean_allc s : clean s = allc okc s.
Proof. induction s as [|c s IH]; [reflexivity|]. cbn [clean allc]. rewrite IH. reflexivity. Qed.

Lemma clean_app a b : clean (a ++ b)%string = clean a && clean b.
Proof. rewrite !clean_allc. apply allc_app. Qed.

Lemma okc_usc : okc USC = true.
Proof. reflexivity. Qed.
Lemma okc_lower c : okc c = true -> okc (lower_c c) = true.
Proof. destruct c as [[] [] [] [] [] [] [] []]; cbn; intros H; first [reflexivity|discriminate]. Qed.
Lemma alnum_okc c : alnumc c = true -> okc c = true.
Proof. destruct c as [[] [] [] [] [] [] [] []]; cbn; intros H; first [reflexivity|discriminate]. Qed.

Lemma clean_camel s : clean s = true -> clean (camel_case_small s) = true.
Proof. rewrite !clean_allc. apply (allc_camel okc okc_lower). Qed.
Lemma clean_snake s : clean s = true -> clean (snake_case s) = true.
Proof. rewrite !clean_allc. apply (allc_snake okc okc_usc okc_lower). Qed.
Lemma clean_rstrip f s : clean s = true -> clean (rstrip_by f s) = true.
Proof. rewrite !clean_allc. apply (allc_rstrip okc). Qed.
Lemma clean_name s : name_ok s = true -> clean s = true.
Proof.
  unfold name_ok. intros H. apply andb_prop in H as [_ H]. rewrite all_alnum_allc in H. rewrite clean_allc.
  revert H. apply allc_impl. exact alnum_okc.
Qed.
Lemma clean_blanks n : clean (blanks n) = true.
Proof. induction n; [reflexivity|]. cbn [blanks clean]. rewrite IHn. reflexivity. Qed.
Lemma clean_spaces n : clean (RefExpand16.spaces n) = true.
Proof. induction n; [reflexivity|]. cbn [RefExpand16.spaces clean]. rewrite IHn. reflexivity. Qed.

Lemma clean_no_char c s : okc c = false -> clean s = true -> no_char c s = true.
Proof. rewrite clean_allc. apply allc_no_char. Qed.

Lemma clean_replace_go p v : clean v = true -> forall s k, clean s = true -> clean (replace_go p v k s) = true.
Proof.
  intros Hv. induction s as [|c s IH]; intros k Hs; [reflexivity|]. cbn [clean] in Hs. apply andb_prop in Hs as [Hc Hs].
  cbn [replace_go]. destruct k as [|k]; [|exact (IH k Hs)].
  destruct (prefixb p (String c s)); [rewrite clean_app, Hv, (IH _ Hs); reflexivity|cbn [clean]; rewrite Hc, (IH 0 Hs); reflexivity].
Qed.
Lemma clean_replace p v s : p <> EmptyString -> clean v = true -> clean s = true -> clean (replace_all p v s) = true.
Proof. intros Hp Hv Hs. unfold replace_all. destruct p; [contradiction|]. apply clean_replace_go; assumption. Qed.

(* ends_lf *)
Lemma ends_lf_app a b : ends_lf b = true -> ends_lf (a ++ b)%string = true.
Proof.
  intros H. induction a as [|c a IH]; [exact H|]. cbn [append ends_lf]. destruct (a ++ b)%string eqn:E; [|exact IH].
  destruct a; [cbn in E; subst b; discriminate|discriminate].
Qed.
Lemma ends_lf_nl a : ends_lf (a ++ nl_str)%string = true.
Proof. apply ends_lf_app. reflexivity. Qed.

(* a clean chunk that ends with LF is a plain chunk *)
Lemma clean_chunk s : clean s = true -> ends_lf s = true -> chunk_plain_ok s = true.
Proof.
  intros C E. assert (B : no_char LBR s = true) by (apply clean_no_char; [reflexivity|exact C]).
  assert (N : nobs s = true) by (apply clean_no_char; [reflexivity|exact C]).
  assert (R : no_char CR s = true) by (apply clean_no_char; [reflexivity|exact C]).
  unfold chunk_plain_ok, chunk_end. rewrite R, E, orb_true_r, !andb_true_r.
  rewrite is_tag_tab4, (no_lbr_not_tag s B). cbn [negb andb]. cbn [wf_itemb]. apply andb_true_intro. split.
  - unfold vis. apply (forallb_impl (no_char LBR)); [intros x Hx; rewrite (no_lbr_not_tag x Hx); reflexivity|].
    apply no_char_split_lines. apply no_char_tab4; [reflexivity|exact B].
  - rewrite kpfx_is_tag, (no_lbr_not_tag _ (kof_no_char LBR s N B)). reflexivity.
Qed.

(* segments *)
Lemma seg_clean_render g : seg_clean g = true -> clean (render_seg g) = true.
Proof.
  destruct g as [s|n [d|]]; cbn [seg_clean render_seg]; intros H; [exact H| |].
  - apply andb_prop in H as [H1 H2]. rewrite !clean_app, H1, H2. reflexivity.
  - rewrite !clean_app, H. reflexivity.
Qed.
Lemma body_clean_render l : uline_clean l = true -> clean (render_body l) = true.
Proof.
  induction l as [|g l IH]; [reflexivity|]. unfold uline_clean. cbn [forallb render_body]. intros H. apply andb_prop in H as [H1 H2].
  rewrite clean_app, (seg_clean_render g H1), (IH H2). reflexivity.
Qed.
Lemma line_clean_render l : uline_clean l = true -> clean (render_line l) = true /\ ends_lf (render_line l) = true.
Proof. intros H. unfold render_line. split; [rewrite clean_app, (body_clean_render l H); reflexivity|apply ends_lf_nl]. Qed.

Lemma lookup_clean n : forall tb v, tb_clean tb = true -> lookup String.eqb n tb = Some v -> clean v = true.
Proof.
  induction tb as [|[k w] tb IH]; cbn [tb_clean forallb lookup fst snd]; intros v H E; [discriminate|].
  apply andb_prop in H as [Hw H]. destruct (String.eqb n k); [inversion E; subst; exact Hw|exact (IH v H E)].
Qed.
Lemma subst16_clean tb g : tb_clean tb = true -> seg_clean g = true -> seg_clean (subst16 tb g) = true.
Proof.
  intros Ht Hg. destruct g as [s|n [d|]]; cbn [subst16]; [exact Hg|exact Hg|].
  destruct (lookup String.eqb n tb) as [v|] eqn:E; [cbn [seg_clean]; exact (lookup_clean n tb v Ht E)|exact Hg].
Qed.
Lemma subst_any_clean tb g : tb_clean tb = true -> seg_clean g = true -> seg_clean (subst_any tb g) = true.
Proof.
  intros Ht Hg. destruct g as [s|n d]; cbn [subst_any]; [exact Hg|].
  destruct (lookup String.eqb (tagstr n) tb) as [v|] eqn:E; [cbn [seg_clean]; exact (lookup_clean _ tb v Ht E)|exact Hg].
Qed.
Lemma map_subst16_clean tb l : tb_clean tb = true -> uline_clean l = true -> uline_clean (map (subst16 tb) l) = true.
Proof.
  intros Ht. unfold uline_clean. induction l as [|g l IH]; [reflexivity|]. cbn [forallb map]. intros H. apply andb_prop in H as [H1 H2].
  rewrite (subst16_clean tb g Ht H1), (IH H2). reflexivity.
Qed.
Lemma map_subst_any_clean tb l : tb_clean tb = true -> uline_clean l = true -> uline_clean (map (subst_any tb) l) = true.
Proof.
  intros Ht. unfold uline_clean. induction l as [|g l IH]; [reflexivity|]. cbn [forallb map]. intros H. apply andb_prop in H as [H1 H2].
  rewrite (subst_any_clean tb g Ht H1), (IH H2). reflexivity.
Qed.

Definition chunks_ok (ls : list string) : Prop := forall s, In s ls -> clean s = true /\ ends_lf s = true.
Lemma chunks_ok_plain ls : chunks_ok ls -> forallb chunk_plain_ok ls = true.
Proof. intros H. apply forallb_forall. intros s Hs. destruct (H s Hs). apply clean_chunk; assumption. Qed.
Lemma chunks_ok_app a b : chunks_ok a -> chunks_ok b -> chunks_ok (a ++ b).
Proof. intros Ha Hb s Hs. apply in_app_or in Hs as [Hs|Hs]; auto. Qed.
Lemma chunks_ok_flat {A} (f : A -> list string) l : (forall x, In x l -> chunks_ok (f x)) -> chunks_ok (flat_map f l).
Proof. intros H s Hs. apply in_flat_map in Hs as (x & Hx & Hs). exact (H x Hx s Hs). Qed.
Lemma chunks_ok_one s : clean s = true -> ends_lf s = true -> chunks_ok [s].
Proof. intros C E x [<-|[]]. auto. Qed.
Lemma chunks_ok_nil : chunks_ok [].
Proof. intros s []. Qed.

(* tables *)
Lemma family_clean a b c name : clean name = true -> tb_clean (family a b c name) = true.
Proof.
  intros H. unfold tb_clean, family. cbn [forallb snd]. change (camel name) with (camel_case_small name). change (snake name) with (snake_case name).
  rewrite H, (clean_camel _ H), (clean_snake _ H). reflexivity.
Qed.
Lemma tb_clean_app a b : tb_clean (a ++ b) = tb_clean a && tb_clean b.
Proof. unfold tb_clean. apply forallb_app'. Qed.
Lemma clean_digits s : allc is_digit s = true -> clean s = true.
Proof. rewrite clean_allc. apply allc_impl. intros c H. apply alnum_okc, digit_alnum. exact H. Qed.
Lemma counters_clean i : tb_clean (counters i) = true.
Proof.
  unfold tb_clean, counters. cbn [forallb snd]. rewrite (clean_digits _ (allc_dec i)).
  rewrite clean_allc, (allc_impl alnumc okc _ alnum_okc (allc_letter i)). reflexivity.
Qed.
Lemma elem_table_clean name i : clean name = true -> tb_clean (elem_table name i) = true.
Proof. intros H. unfold elem_table. rewrite !tb_clean_app, !family_clean, counters_clean by exact H. reflexivity. Qed.

(* ---------------------------------------------------------------- the paren clean-up *)
Lemma span_rparen_spec : forall s a b, span_rparen s = Some (a, b) -> s = (a ++ String ")"%char b)%string.
Proof.
  induction s as [|c s IH]; intros a b H; [discriminate|]. cbn [span_rparen] in H.
  destruct (Ascii.eqb_spec c ")"%char) as [->|N]; [inversion H; reflexivity|].
  destruct (span_rparen s) as [[a' b']|] eqn:E; [|discriminate]. inversion H. subst. rewrite (IH a' b eq_refl). reflexivity.
Qed.

Lemma clean_group_clean g : clean g = true -> clean (clean_group g) = true.
Proof. intros H. unfold clean_group. repeat (apply clean_replace; [discriminate|reflexivity|]). exact H. Qed.

Lemma paren_go_clean : forall f s, clean s = true -> clean (paren_go f s) = true.
Proof.
  induction f as [|f IH]; intros s H; [exact H|]. cbn [paren_go]. destruct s as [|c r]; [reflexivity|].
  cbn [clean] in H. apply andb_prop in H as [Hc Hr]. destruct (Ascii.eqb c "("%char) eqn:E.
  - destruct (span_rparen r) as [[inner rest]|] eqn:S; [|cbn [clean]; rewrite Hc, Hr; reflexivity].
    pose proof (span_rparen_spec r inner rest S) as Er. subst r. rewrite clean_app in Hr. apply andb_prop in Hr as [Hi Hrest].
    cbn [clean] in Hrest. apply andb_prop in Hrest as [_ Hrest].
    rewrite clean_app, (IH rest Hrest), andb_true_r. apply clean_group_clean. cbn [append clean]. rewrite clean_app, Hi. reflexivity.
  - cbn [clean]. rewrite Hc, (IH r Hr). reflexivity.
Qed.

Lemma ends_lf_cons c s : s <> EmptyString -> ends_lf (String c s) = ends_lf s.
Proof. destruct s; [contradiction|reflexivity]. Qed.
Lemma ends_lf_nonempty s : ends_lf s = true -> s <> EmptyString.
Proof. destruct s; [discriminate|discriminate]. Qed.
Lemma ends_lf_split a c b : Ascii.eqb c LF = false -> ends_lf (a ++ String c b)%string = true -> ends_lf b = true.
Proof.
  intros Hc. induction a as [|d a IH]; cbn [append].
  - destruct b as [|e b]; [cbn [ends_lf]; rewrite Hc; discriminate|]. cbn [ends_lf]. auto.
  - intros H. apply IH. rewrite ends_lf_cons in H; [exact H|]. destruct a; discriminate.
Qed.

Lemma paren_go_ends : forall f s, ends_lf s = true -> ends_lf (paren_go f s) = true.
Proof.
  induction f as [|f IH]; intros s H; [exact H|]. cbn [paren_go]. destruct s as [|c r]; [exact H|].
  destruct (Ascii.eqb c "("%char) eqn:E.
  - destruct (span_rparen r) as [[inner rest]|] eqn:S; [|exact H].
    pose proof (span_rparen_spec r inner rest S) as Er. subst r.
    apply ends_lf_app. apply IH. apply (ends_lf_split (String c inner) ")"%char rest); [reflexivity|exact H].
  - destruct r as [|d r']; [cbn [paren_go]; destruct f; exact H|].
    assert (Hr : ends_lf (String d r') = true) by exact H. specialize (IH _ Hr).
    rewrite ends_lf_cons; [exact IH|apply ends_lf_nonempty; exact IH].
Qed.

Lemma paren_clean_ok s : clean s = true -> ends_lf s = true -> clean (paren_clean s) = true /\ ends_lf (paren_clean s) = true.
Proof. intros C E. unfold paren_clean. split; [apply paren_go_clean; exact C|apply paren_go_ends; exact E]. Qed.

(* ---------------------------------------------------------------- the four kinds of items *)
Lemma in_enumerate {A} : forall (l : list A) k ix, In ix (enumerate_from k l) -> In (snd ix) l.
Proof.
  induction l as [|x l IH]; intros k ix H; [contradiction|]. cbn [enumerate_from] in H. destruct H as [<-|H]; [left; reflexivity|right; exact (IH _ _ H)].
Qed.

Lemma sigof_clean sigs name d : forallb (fun x : string * (string * string) => clean (sig_part d x)) sigs = true -> clean (sigof sigs name d) = true.
Proof.
  intros H. unfold sigof. induction sigs as [|[k p] sigs IH]; [reflexivity|]. cbn [forallb] in H. apply andb_prop in H as [Hp H].
  unfold sig_part in Hp. cbn [fst snd] in Hp. cbn [lookup]. destruct (String.eqb name k); [destruct d; exact Hp|exact (IH H)].
Qed.

Lemma ev_block_chunks sigs items body :
  forallb clean items = true -> body_sigs_clean sigs body = true ->
  forallb uline_clean body = true -> chunks_ok (ref_ev_block sigs items body).
Proof.
  intros Hi Hs Hb. unfold ref_ev_block. apply chunks_ok_flat. intros ix Hix. pose proof (in_enumerate _ _ _ Hix) as Hn.
  rewrite forallb_forall in Hi. pose proof (Hi _ Hn) as Hc. intros s Hs'. apply in_map_iff in Hs' as (l & <- & Hl).
  rewrite forallb_forall in Hb. pose proof (Hb _ Hl) as Hlc. unfold body_sigs_clean in Hs. rewrite forallb_forall in Hs. pose proof (Hs _ Hl) as Hsl.
  unfold ref_ev_line. destruct (sig_kind l) as [d|].
  - apply paren_clean_ok; apply line_clean_render; apply map_subst16_clean; try exact Hlc;
      rewrite tb_clean_app, (elem_table_clean _ _ Hc); unfold tb_clean; cbn [forallb snd]; rewrite (sigof_clean sigs (snd ix) d Hsl); reflexivity.
  - apply line_clean_render. apply map_subst16_clean; [apply elem_table_clean; exact Hc|exact Hlc].
Qed.

Lemma init_line_chunks first l : clean first = true -> uline_clean l = true -> chunks_ok [render_line (map (subst16 (init_table first)) l)].
Proof.
  intros Hf Hl. assert (T : tb_clean (init_table first) = true).
  { unfold tb_clean, init_table. cbn [forallb snd]. change (camel first) with (camel_case_small first). rewrite Hf, (clean_camel _ Hf). reflexivity. }
  destruct (line_clean_render _ (map_subst16_clean _ l T Hl)). apply chunks_ok_one; assumption.
Qed.

(* transition blocks *)
Lemma find_in {A} (f : A -> bool) : forall l x, List.find f l = Some x -> In x l.
Proof. induction l as [|y l IH]; intros x H; [discriminate|]. cbn [List.find] in H. destruct (f y); [inversion H; left; reflexivity|right; exact (IH x H)]. Qed.

Lemma gline_chunks ev tr l : clean ev = true -> tb_clean tr = true -> uline_clean l = true -> chunks_ok (ref_gline ev tr l).
Proof.
  intros He Ht Hl. unfold ref_gline.
  assert (L2 : uline_clean (map (subst_any tr) (map (subst16 (event_table ev)) l)) = true).
  { apply map_subst_any_clean; [exact Ht|]. apply map_subst16_clean; [apply family_clean; exact He|exact Hl]. }
  destruct (List.find is_tagseg _) as [g|] eqn:F.
  - destruct g as [s|n [[|c x]|]]; try apply chunks_ok_nil.
    apply find_in in F. unfold uline_clean in L2. rewrite forallb_forall in L2. pose proof (L2 _ F) as G. cbn [seg_clean] in G.
    apply andb_prop in G as [_ G]. apply chunks_ok_one; [rewrite !clean_app, clean_spaces, G; reflexivity|].
    rewrite <- append_assoc_c. apply ends_lf_nl.
  - destruct (line_clean_render _ L2). apply chunks_ok_one; assumption.
Qed.

Lemma eitem_chunks ev trs x : clean ev = true -> forallb tb_clean trs = true -> eitem_clean x = true -> chunks_ok (ref_eitem ev trs x).
Proof.
  intros He Ht Hx. destruct x as [l|ib ie body]; cbn [eitem_clean ref_eitem] in *.
  - destruct (line_clean_render _ (map_subst16_clean (event_table ev) l (family_clean _ _ _ ev He) Hx)). apply chunks_ok_one; assumption.
  - apply chunks_ok_flat. intros tr Htr. apply chunks_ok_flat. intros l Hl. rewrite forallb_forall in Ht, Hx. apply gline_chunks; auto.
Qed.

Lemma titem_chunks s evs x : clean s = true -> forallb (fun et : string * list (list (string * string)) => clean (fst et) && forallb tb_clean (snd et)) evs = true ->
  titem_clean x = true -> chunks_ok (ref_titem s evs x).
Proof.
  intros Hs He Hx. destruct x as [l|ib ie body]; cbn [titem_clean ref_titem] in *.
  - destruct (line_clean_render _ (map_subst16_clean (state_table s) l (family_clean _ _ _ s Hs) Hx)). apply chunks_ok_one; assumption.
  - apply chunks_ok_flat. intros et Het. apply chunks_ok_flat. intros y Hy. rewrite forallb_forall in He, Hx.
    pose proof (He _ Het) as K. apply andb_prop in K as [K1 K2]. apply eitem_chunks; auto.
Qed.

Lemma trans_chunks tps body :
  forallb (fun se : string * list (string * list (list (string * string))) => clean (fst se) && forallb (fun et => clean (fst et) && forallb tb_clean (snd et)) (snd se)) tps = true ->
  forallb titem_clean body = true -> chunks_ok (ref_trans tps body).
Proof.
  intros Ht Hb. unfold ref_trans. apply chunks_ok_flat. intros se Hse. apply chunks_ok_flat. intros x Hx. rewrite forallb_forall in Ht, Hb.
  pose proof (Ht _ Hse) as K. apply andb_prop in K as [K1 K2]. apply titem_chunks; auto.
Qed.

(* ---------------------------------------------------------------- the transition-table printer *)
Lemma col_clean i r : forallb clean r = true -> clean (col i r) = true.
Proof.
  unfold col. revert i. induction r as [|x r IH]; intros i H; [destruct i; reflexivity|]. cbn [forallb] in H. apply andb_prop in H as [Hx Hr].
  destruct i; cbn [nth]; [exact Hx|exact (IH i Hr)].
Qed.
Lemma even_space_clean a n : clean a = true -> clean (even_space a n) = true.
Proof. intros H. unfold even_space. rewrite clean_app, H, clean_blanks. reflexivity. Qed.
Lemma tt_replace_none_clean v : clean v = true -> clean (tt_replace_none v) = true.
Proof. intros H. unfold tt_replace_none. destruct (present v); [exact H|reflexivity]. Qed.
Lemma lite_guard_clean v : clean v = true -> clean (lite_guard_none v) = true.
Proof. intros H. unfold lite_guard_none. destruct (present _); [exact H|reflexivity]. Qed.
Lemma lite_action_clean v : clean v = true -> clean (lite_action_none v) = true.
Proof. intros H. unfold lite_action_none. destruct (negb _ || _); [reflexivity|exact H]. Qed.
Lemma lite_next_clean v src : clean v = true -> clean src = true -> clean (lite_next_none v src) = true.
Proof. intros H1 H2. unfold lite_next_none. destruct (present _); assumption. Qed.

Lemma sml_header_ok ws tt : clean ws = true -> clean (sml_header ws tt) = true.
Proof. intros H. unfold sml_header. rewrite !clean_app, H, !even_space_clean by reflexivity. reflexivity. Qed.

Lemma sml_row_text_clean ws tt first r : clean ws = true -> forallb clean r = true -> clean (sml_row_text ws tt first r) = true.
Proof.
  intros Hw Hr. unfold sml_row_text, r_state, r_event, r_guard, r_action, r_next.
  pose proof (col_clean 0 r Hr) as C0. pose proof (col_clean 1 r Hr) as C1. pose proof (col_clean 2 r Hr) as C2.
  pose proof (col_clean 3 r Hr) as C3. pose proof (col_clean 4 r Hr) as C4.
  rewrite !clean_app.
  assert (E1 : clean (even_space ("state<" ++ tt_replace_none (col 0 r) ++ ">") (maxlen (col 0) tt + 9)) = true)
    by (apply even_space_clean; rewrite !clean_app, (tt_replace_none_clean _ C0); reflexivity).
  assert (E2 : clean (even_space ("event<" ++ tt_replace_none (col 1 r) ++ ">") (maxlen (col 1) tt + 9)) = true)
    by (apply even_space_clean; rewrite !clean_app, (tt_replace_none_clean _ C1); reflexivity).
  assert (E3 : clean (even_space ("[" ++ lite_guard_none (camel_case_small (col 4 r)) ++ "]") (maxlen (col 4) tt + 4)) = true)
    by (apply even_space_clean; rewrite !clean_app, (lite_guard_clean _ (clean_camel _ C4)); reflexivity).
  assert (E4 : clean (even_space (lite_action_none (camel_case_small (col 3 r))) (maxlen (col 3) tt + 2)) = true)
    by (apply even_space_clean; apply lite_action_clean, clean_camel; exact C3).
  assert (E5 : clean (if present (col 2 r) then " = " ++ even_space ("state<" ++ lite_next_none (col 2 r) (col 0 r) ++ ">") 0 else "") = true).
  { destruct (present (col 2 r)); [|reflexivity]. rewrite clean_app. cbn [clean okc]. apply even_space_clean.
    rewrite !clean_app, (lite_next_clean _ _ C2 C0). reflexivity. }
  rewrite E1, E2, E3, E4, E5. destruct first; rewrite clean_app, Hw; reflexivity.
Qed.

Lemma sml_hooks_clean ws s : clean ws = true -> clean s = true -> clean (fst (sml_hooks_text ws s)) = true /\ clean (snd (sml_hooks_text ws s)) = true.
Proof. intros Hw Hs. unfold sml_hooks_text. cbn [fst snd]. rewrite !clean_app, Hw, Hs, (clean_camel _ Hs). split; reflexivity. Qed.

Lemma sml_rows_chunks ws tt ee : clean ws = true -> forall rows first pending seen, forallb (forallb clean) rows = true -> clean pending = true ->
  chunks_ok (fst (sml_rows_out ws tt ee first pending seen rows)).
Proof.
  intros Hw. induction rows as [|r rest IH]; intros first pending seen Hr Hp; [apply chunks_ok_nil|].
  cbn [forallb] in Hr. apply andb_prop in Hr as [Hr1 Hr2]. cbn [sml_rows_out].
  set (seen' := if ee && negb (existsb (String.eqb (r_state r)) seen) then seen ++ [r_state r] else seen).
  specialize (IH false EmptyString seen' Hr2 eq_refl). destruct (sml_rows_out ws tt ee false "" seen' rest) as [out seen''] eqn:E. cbn [fst] in *.
  change (r :: rest) with ([r] ++ rest).
  intros s [<-|Hs].
  - split; [|apply ends_lf_nl]. rewrite clean_app. unfold rstrip_ws. rewrite clean_rstrip; [reflexivity|].
    rewrite clean_app, Hp, (sml_row_text_clean ws tt first r Hw Hr1). reflexivity.
  - apply in_app_or in Hs as [Hs|Hs]; [|exact (IH s Hs)].
    destruct (ee && negb (existsb (String.eqb (r_state r)) seen)); [|contradiction].
    destruct (sml_hooks_clean ws (r_state r) Hw (col_clean 0 r Hr1)) as [A B]. destruct (sml_hooks_text ws (r_state r)) as [a b]. cbn [fst snd] in *.
    destruct Hs as [<-|[]]. split; [|apply ends_lf_nl]. rewrite clean_app. unfold rstrip_ws. rewrite clean_rstrip; [reflexivity|]. rewrite clean_app, A, B. reflexivity.
Qed.

Lemma sml_tail_chunks ws : clean ws = true -> forall states acc, forallb clean states = true -> chunks_ok (snd acc) ->
  chunks_ok (snd (fold_left (sml_tail_step ws) states acc)).
Proof.
  intros Hw. induction states as [|s states IH]; intros acc Hs Ha; [exact Ha|]. cbn [forallb] in Hs. apply andb_prop in Hs as [Hs1 Hs2].
  cbn [fold_left]. apply IH; [exact Hs2|]. unfold sml_tail_step. destruct (existsb (String.eqb s) (fst acc)); [exact Ha|].
  destruct (sml_hooks_clean ws s Hw Hs1) as [A B]. destruct (sml_hooks_text ws s) as [a b]. cbn [fst snd] in *.
  apply chunks_ok_app; [exact Ha|]. apply chunks_ok_one.
  - rewrite !clean_app, A, B. reflexivity.
  - apply ends_lf_app, ends_lf_nl.
Qed.

Lemma sml_print_chunks states tt ee ws : clean ws = true -> forallb clean states = true -> forallb (forallb clean) tt = true ->
  chunks_ok (sml_print states tt ee ws).
Proof.
  intros Hw Hs Ht. unfold sml_print. pose proof (sml_rows_chunks ws tt ee Hw tt true (sml_header ws tt) [] Ht (sml_header_ok ws tt Hw)) as R.
  destruct (sml_rows_out ws tt ee true (sml_header ws tt) [] tt) as [out seen]. cbn [fst] in R. apply chunks_ok_app; [exact R|].
  destruct ee; [|apply chunks_ok_nil]. apply sml_tail_chunks; [exact Hw|exact Hs|apply chunks_ok_nil].
Qed.

(* ---------------------------------------------------------------- the computed hypothesis follows from the names *)
Theorem dyn_plain_of_names e t : dyn_ok07 t = true -> dyn_names_ok e = true -> sigs_clean07 t (el_evsigs e) = true -> dyn_lines_plain e t = true.
Proof.
  intros Ht He Hsig. unfold dyn_names_ok in He. apply andb_prop in He as [He Hrows]. apply andb_prop in He as [He Htps].
  apply andb_prop in He as [He Hfirst]. apply andb_prop in He as [Hst Hev].
  unfold dyn_lines_plain, dyn_ok07, sigs_clean07 in *. apply forallb_forall. intros it Hit. rewrite forallb_forall in Ht, Hsig. specialize (Ht it Hit). specialize (Hsig it Hit).
  destruct it as [l|s|k ib ie body|ib ie body|ib ie body|ib ie body|ib ie sfx body|il|ul|pre ee]; cbn [dyn_item dyn_item_clean] in *; try reflexivity;
    apply chunks_ok_plain; cbn [ref_item16].
  - apply trans_chunks; assumption.
  - apply ev_block_chunks; assumption.
  - apply init_line_chunks; assumption.
  - apply sml_print_chunks; assumption.
Qed.
